#!/usr/bin/env python3
"""tools/sweep.py [seed-dir ...] — runs every claimed check against every seeded change.
For each change: a scratch worktree of /repo at HEAD (or at the pinned base 0accdc9 when the patch does not apply
on HEAD), the checks without the patch (reference) and with it; a change is DETECTED by a property when the patched
tree has a finding key the reference tree has not. Writes seeded/MATRIX.json and prints a table."""
import json, os, subprocess, sys, tempfile, concurrent.futures as cf
ROOT = os.path.dirname(os.path.dirname(os.path.abspath(__file__)))
ENV = dict(os.environ, GOFLAGS="-mod=mod", GOPROXY="off", GOSUMDB="off", GOTOOLCHAIN="local", GOWORK="off")
BASE = "0accdc9"
claims = json.load(open(os.path.join(ROOT, "tools", "claims.json")))["claimed"]
props = os.environ.get("SWEEP_PROPS", "").split() or sorted(claims)

def run_props(repo, ps):
    ev = tempfile.mkdtemp(prefix="sweepev.")
    out = subprocess.run([os.environ.get("GQLVET_BIN", os.path.join(ROOT, "bin", "gqlvet")), "findings"] + ps, env=dict(ENV, GQLVET_REPO=repo, GQLVET_EVIDENCE=ev),
                         capture_output=True, text=True).stdout
    subprocess.run(["rm", "-rf", ev])
    return out

def findings(repo):
    """one process for all properties; a property that produced no DONE marker (the analyser died: stack overflow,
    out of memory) is re-run alone and, if it dies again, recorded as the finding 'analyser crashed'."""
    out = run_props(repo, props)
    done = {l.split()[1] for l in out.splitlines() if l.startswith("DONE ")}
    lines = [l for l in out.splitlines() if l.startswith("FINDING ") and l.split(" ", 3)[1] in done]
    for p in props:
        if p in done:
            continue
        o = run_props(repo, [p])
        if ("DONE " + p) in o:
            lines += [l for l in o.splitlines() if l.startswith("FINDING ")]
        else:
            lines.append("FINDING %s crash analyser crashed" % p)
    res = {}
    for l in lines:
        _, p, kind, key = l.split(" ", 3)
        res.setdefault(p, set()).add(key)
    return res

_ref = {}
def reference(rev):
    if rev not in _ref:
        wt = tempfile.mkdtemp(prefix="sweepref."); os.rmdir(wt)
        subprocess.run(["git", "-C", "/repo", "worktree", "add", "--detach", wt, rev], capture_output=True)
        _ref[rev] = findings(wt)
        subprocess.run(["git", "-C", "/repo", "worktree", "remove", "--force", wt], capture_output=True)
    return _ref[rev]

def one(seed):
    patch = os.path.join(ROOT, "seeded", seed, "patch.diff")
    wt = tempfile.mkdtemp(prefix="sweepwt."); os.rmdir(wt)
    rev = "HEAD"
    subprocess.run(["git", "-C", "/repo", "worktree", "add", "--detach", wt, "HEAD"], capture_output=True)
    if subprocess.run(["git", "-C", wt, "apply", "--check", patch], capture_output=True).returncode != 0:
        # the commit the change was written against (meta.json), else the pinned snapshot
        cands = []
        try:
            cands.append(json.load(open(os.path.join(ROOT, "seeded", seed, "meta.json")))["base"].split()[0])
        except Exception:
            pass
        cands.append(BASE)
        for cand in cands:
            subprocess.run(["git", "-C", "/repo", "worktree", "remove", "--force", wt], capture_output=True)
            subprocess.run(["git", "-C", "/repo", "worktree", "add", "--detach", wt, cand], capture_output=True)
            rev = cand
            if subprocess.run(["git", "-C", wt, "apply", "--check", patch], capture_output=True).returncode == 0:
                break
    r = subprocess.run(["git", "-C", wt, "apply", patch], capture_output=True)
    if r.returncode != 0:
        subprocess.run(["git", "-C", "/repo", "worktree", "remove", "--force", wt], capture_output=True)
        return seed, rev, None
    got = findings(wt)
    subprocess.run(["git", "-C", "/repo", "worktree", "remove", "--force", wt], capture_output=True)
    return seed, rev, got

def main():
    seeds = sys.argv[1:] or sorted(d for d in os.listdir(os.path.join(ROOT, "seeded")) if os.path.isfile(os.path.join(ROOT, "seeded", d, "patch.diff")))
    reference("HEAD")
    mpath = os.path.join(ROOT, "seeded", "MATRIX.json")
    matrix = json.load(open(mpath)) if sys.argv[1:] and os.path.exists(mpath) else {}
    with cf.ThreadPoolExecutor(max_workers=12) as ex:
        for seed, rev, got in ex.map(one, seeds):
            if got is None:
                matrix[seed] = {"base": rev, "error": "patch does not apply"}
                continue
            ref = reference(rev)
            det = {}
            for p, keys in got.items():
                new = sorted(keys - ref.get(p, set()))
                if new:
                    det[p] = new
            matrix[seed] = {"base": rev, "detected_by": det}
    json.dump(matrix, open(os.path.join(ROOT, "seeded", "MATRIX.json"), "w"), indent=1, sort_keys=True)
    n = 0
    for seed in seeds:
        m = matrix[seed]
        d = m.get("detected_by", {})
        own = seed.split("-")[0]
        mark = "DETECTED" if d else ("n/a     " if own not in claims else "missed  ")
        if d: n += 1
        print("%-8s %-5s %s %s" % (seed, m["base"][:4], mark, ",".join("%s(%d)" % (p, len(k)) for p, k in sorted(d.items()))))
    print("detected %d of %d; claimed properties: %s" % (n, len(seeds), " ".join(props)))
main()
