#!/bin/sh
# validates MANIFEST.json and every evidence file against the schemas
cd "$(dirname "$0")/.."
python3-vt - <<'PY'
import json,jsonschema,glob
jsonschema.validate(json.load(open('MANIFEST.json')), json.load(open('/root/.vp/MANIFEST.schema.json')))
s=json.load(open('/root/.vp/EVIDENCE.schema.json'))
for f in sorted(glob.glob('evidence/C*.json')):
    jsonschema.validate(json.load(open(f)), s)
print('manifest and', len(glob.glob('evidence/C*.json')), 'evidence files valid')
PY
