#!/usr/bin/env python3
"""tools/mkseedround.py <round dir> — writes <dir>/<Cxx>.prompt.txt for every property and creates the scratch worktrees
<dir>/<Cxx> of /repo at HEAD. The prompt holds the property text only (nothing from /verif) plus the list of places
earlier seeded changes of that property already touched, so that the author picks a different one."""
import json, os, re, subprocess, sys, glob
ROOT = os.path.dirname(os.path.dirname(os.path.abspath(__file__)))
rd = sys.argv[1]
os.makedirs(rd, exist_ok=True)
tmpl = open(os.path.join(ROOT, "tools", "seed_prompt.txt")).read()
for l in open(os.path.join(ROOT, "properties.jsonl")):
    d = json.loads(l)
    pid = d["id"]
    places = set()
    for pf in glob.glob(os.path.join(ROOT, "seeded", pid + "-m*", "patch.diff")):
        cur = None
        for ln in open(pf):
            m = re.match(r"\+\+\+ b/(.*)", ln)
            if m:
                cur = m.group(1)
            m = re.match(r"@@ .* @@ ?(.*)", ln)
            if m and cur:
                places.add("- %s: %s" % (cur, m.group(1).replace("func ", "")[:80]))
    text = "%s — %s\n\n%s\n\nQuantifier: %s\n\nWhy tests cannot settle it: %s" % (pid, d["title"], d["statement"], d["quantifier"]["text"], d["why_tests_cant"])
    wt = os.path.join(rd, pid)
    p = tmpl.replace("{WT}", wt).replace("{OUT}", wt + ".out").replace("{PROP}", text).replace("{PLACES}", "\n".join(sorted(places)))
    open(os.path.join(rd, pid + ".prompt.txt"), "w").write(p)
    subprocess.run(["git", "-C", "/repo", "worktree", "add", "--detach", wt, "HEAD"], capture_output=True)
print("ok")
