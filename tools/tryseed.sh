#!/bin/sh
# tools/tryseed.sh <seed id | patch file> <Cxx>...  — applies the change to a scratch worktree of /repo (HEAD), prints the
# findings of the named checks that the unchanged tree does not have, removes the worktree.
export GOFLAGS=-mod=mod GOPROXY=off GOSUMDB=off GOTOOLCHAIN=local GOWORK=off
patch="$1"; shift
[ -f "$patch" ] || patch=/verif/seeded/$patch/patch.diff
wt=$(mktemp -d /tmp/trywt.XXXXXX); rmdir "$wt"
git -C /repo worktree add --detach "$wt" HEAD >/dev/null 2>&1
ev=$(mktemp -d /tmp/tryev.XXXXXX)
GQLVET_REPO=$wt GQLVET_EVIDENCE=$ev /verif/bin/gqlvet findings "$@" 2>/dev/null | grep '^FINDING' | sort > $ev/ref
if git -C "$wt" apply "$patch"; then
  GQLVET_REPO=$wt GQLVET_EVIDENCE=$ev /verif/bin/gqlvet findings "$@" 2>/dev/null | grep '^FINDING' | sort > $ev/new
  comm -13 $ev/ref $ev/new
else echo "patch does not apply"; fi
git -C /repo worktree remove --force "$wt"; rm -rf "$ev"
