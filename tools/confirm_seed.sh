#!/bin/sh
# tools/confirm_seed.sh <Cxx> <k>  — confirms /tmp/mut/out/<Cxx>/m<k>.* in a scratch worktree and, if confirmed, files it under /verif/seeded/<Cxx>-m<k>/
set -u
id="$1"; k="$2"
src=/tmp/mut/out/$id
export GOFLAGS=-mod=mod GOPROXY=off GOSUMDB=off GOTOOLCHAIN=local GOWORK=off
wt=$(mktemp -d /tmp/confwt.XXXXXX); rmdir "$wt"
base=0accdc9
git -C /repo worktree add --detach "$wt" $base >/dev/null 2>&1
dir=$(head -1 "$src/m${k}_demo_test.go" | sed 's#^// *dir: *##' | tr -d ' \r')
res="id=$id k=$k dir=$dir"
ok=1
if ! git -C "$wt" apply "$src/m$k.diff" 2>/dev/null; then res="$res apply=FAIL"; ok=0; fi
if [ $ok = 1 ]; then
  if (cd "$wt" && go build ./... && timeout 600 go test -vet=off -count=1 ./... >/dev/null 2>&1); then res="$res suite_with=pass"; else res="$res suite_with=FAIL"; ok=0; fi
  cp "$src/m${k}_demo_test.go" "$wt/$dir/zz_seeded_demo_test.go"
  if (cd "$wt/$dir" && timeout 120 go test -vet=off -count=1 -run 'TestSeeded' . >/dev/null 2>&1); then res="$res demo_with=pass(BAD)"; ok=0; else res="$res demo_with=fail"; fi
  git -C "$wt" apply -R "$src/m$k.diff"
  if (cd "$wt/$dir" && timeout 120 go test -vet=off -count=1 -run 'TestSeeded' . >/dev/null 2>&1); then res="$res demo_without=pass"; else res="$res demo_without=FAIL"; ok=0; fi
fi
git -C /repo worktree remove --force "$wt" >/dev/null 2>&1
if [ $ok = 1 ]; then
  d=/verif/seeded/$id-m$k; mkdir -p "$d"
  cp "$src/m$k.diff" "$d/patch.diff"; cp "$src/m${k}_demo_test.go" "$d/demo_test.go"; cp "$src/m$k.md" "$d/notes.md"
  res="$res CONFIRMED"
fi
echo "$res"
