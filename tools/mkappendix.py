#!/usr/bin/env python3
"""tools/mkappendix.py — regenerates the machine-written parts of the documentation from the checker itself:
  seeded/MATRIX.md   which checks report which seeded changes (from seeded/MATRIX.json, written by tools/sweep.py)
  RULES.md           per property: the explanation string the checker registers, and per rule id / description /
                     instances / floor from the last evidence files
Nothing here is hand-written; DESIGN.md refers to both files."""
import json, os, subprocess, glob
ROOT = os.path.dirname(os.path.dirname(os.path.abspath(__file__)))
m = json.load(open(os.path.join(ROOT, "seeded", "MATRIX.json")))
out = ["# Seeded changes and the checks that report them", "",
       "Written by `tools/mkappendix.py` from `seeded/MATRIX.json` (itself written by `tools/sweep.py`, which analyses a scratch",
       "worktree of /repo with each change applied and lists the finding keys that the unchanged tree does not have).",
       "`base` is HEAD unless the patch only applies to the pinned commit 0accdc9 (its target code was since repaired).", "",
       "| change | written to break | base | reported by (rule: first new finding) |", "|---|---|---|---|"]
det = 0
for k in sorted(m):
    e = m[k]
    d = e.get("detected_by", {})
    own = k.split("-")[0]
    cells = []
    for p in sorted(d):
        rule = d[p][0].split(" | ")
        cells.append("**%s** %s — %s" % (p, rule[0], (rule[2] if len(rule) > 2 else rule[-1])[:90].replace("|", "/")))
    if d:
        det += 1
    out.append("| %s | %s | %s | %s |" % (k, own, e.get("base", "")[:7], "<br>".join(cells) if cells else "*not reported* (value-level; see DESIGN.md §5.3)"))
out += ["", "%d of %d seeded changes are reported by at least one check." % (det, len(m)), ""]
open(os.path.join(ROOT, "seeded", "MATRIX.md"), "w").write("\n".join(out))

lst = subprocess.run([os.path.join(ROOT, "bin", "gqlvet"), "list"], capture_output=True, text=True).stdout
expl = {}
for l in lst.splitlines():
    if l[:1] == "C" and "  " in l:
        pid, text = l.split("  ", 1)
        expl[pid] = text
r = ["# Rules as built", "", "Written by `tools/mkappendix.py` from `gqlvet list` and the evidence files of the last run.", ""]
for pid in sorted(expl):
    r += ["## " + pid, "", expl[pid], ""]
    ev = os.path.join(ROOT, "evidence", pid + ".json")
    if os.path.exists(ev):
        e = json.load(open(ev))
        r += ["| rule | what it checks | obligations | floor |", "|---|---|---|---|"]
        for rule in e["coverage"].get("rules", []):
            r.append("| %s | %s | %d | %d |" % (rule["id"], rule["rule"], rule["instances"], rule["floor"]))
        for a in e.get("assumptions", []):
            r.append("")
            r.append("*assumption:* " + a)
        r.append("")
open(os.path.join(ROOT, "RULES.md"), "w").write("\n".join(r))
print("wrote seeded/MATRIX.md (%d/%d) and RULES.md (%d properties)" % (det, len(m), len(expl)))
