#!/usr/bin/env python3
"""Regenerates /verif/MANIFEST.json from tools/claims.json (one entry per claimed property)."""
import json, os, sys
here = os.path.dirname(os.path.abspath(__file__))
root = os.path.dirname(here)
claims = json.load(open(os.path.join(here, "claims.json")))
props = [json.loads(l) for l in open(os.path.join(root, "properties.jsonl"))]
checks, na = [], []
for p in props:
    c = claims["claimed"].get(p["id"])
    if c:
        checks.append({
            "property_id": p["id"],
            "quick_cmd": "./check %s quick" % p["id"],
            "thorough_cmd": "./check %s thorough" % p["id"],
            "evidence_file": "/verif/evidence/%s.json" % p["id"],
            "replay_cmd_template": "cat {path}; ./check %s quick" % p["id"],
            "engine": "gqlvet",
            "level_claimed": {"category": "other", "text": c["text"], "design_ref": c.get("design_ref", "DESIGN.md §4 " + p["id"])},
            "level_note": c["note"],
            "technique": c["technique"],
        })
    else:
        na.append({"property_id": p["id"], "reason": claims["not_applicable"].get(p["id"], "no sound static rule built yet for this property; see DESIGN.md §7")})
m = {
    "version": 1,
    "setup_cmd": "./setup.sh",
    "hooks": {"guard": "verif", "enable": "the analysis loads /repo with -tags verif; no hook source exists (static analysis reads the source, it needs no instrumentation)",
              "baseline_off_cmd": "cd /repo && GOFLAGS=-mod=mod go test -vet=off -count=1 ./...", "source_commits": [], "add_only": True},
    "engines": [{"name": "gqlvet", "path": "/verif/checker", "serves_properties": [c["property_id"] for c in checks],
                 "kind_free_text": "repository-specific static analyser (go/packages + go/types + go/ssa + call graph, x/tools v0.29.0); decides every rule from /repo's current source without running it"}],
    "checks": checks,
    "notes": claims.get("notes", ""),
    "not_applicable": na,
}
json.dump(m, open(os.path.join(root, "MANIFEST.json"), "w"), indent=1)
print("claimed:", len(checks), "not_applicable:", len(na))
