#!/usr/bin/env python3
"""tools/neutral_sweep.py [patch ...] — runs every claimed check against behaviour-preserving edits (default: every
/verif/neutral/*/patch.diff). Each is applied to a scratch worktree of /repo at HEAD; any finding key that the
unchanged tree does not have is a FALSE ALARM of the checker and is printed. Exit 1 if there is one."""
import json, os, subprocess, sys, tempfile, glob, concurrent.futures as cf
ROOT = os.path.dirname(os.path.dirname(os.path.abspath(__file__)))
ENV = dict(os.environ, GOFLAGS="-mod=mod", GOPROXY="off", GOSUMDB="off", GOTOOLCHAIN="local", GOWORK="off")
props = os.environ.get("SWEEP_PROPS", "").split() or sorted(json.load(open(os.path.join(ROOT, "tools", "claims.json")))["claimed"])

def run_props(repo, ps):
    ev = tempfile.mkdtemp(prefix="nsweepev.")
    out = subprocess.run([os.environ.get("GQLVET_BIN", os.path.join(ROOT, "bin", "gqlvet")), "findings"] + ps, env=dict(ENV, GQLVET_REPO=repo, GQLVET_EVIDENCE=ev),
                         capture_output=True, text=True).stdout
    subprocess.run(["rm", "-rf", ev])
    return out

def findings(repo):
    out = run_props(repo, props)
    done = {l.split()[1] for l in out.splitlines() if l.startswith("DONE ")}
    lines = [l for l in out.splitlines() if l.startswith("FINDING ") and l.split(" ", 3)[1] in done]
    for p in props:
        if p in done:
            continue
        o = run_props(repo, [p])
        if ("DONE " + p) in o:
            lines += [l for l in o.splitlines() if l.startswith("FINDING ")]
        else:
            lines.append("FINDING %s crash analyser crashed" % p)
    res = set()
    for l in lines:
        _, p, kind, key = l.split(" ", 3)
        res.add(p + " " + kind + " " + key)
    return res

# a neutral edit is applied to HEAD; one written against an earlier commit of /repo that a later fix: commit has
# rewritten is applied to that commit instead (and compared with that commit's findings)
REVS = ["HEAD", "f7541c4"]

def worktree(rev="HEAD"):
    wt = tempfile.mkdtemp(prefix="nsweepwt."); os.rmdir(wt)
    subprocess.run(["git", "-C", "/repo", "worktree", "add", "--detach", wt, rev], capture_output=True)
    return wt

_ref = {}
def reference(rev):
    if rev not in _ref:
        wt = worktree(rev); _ref[rev] = findings(wt); drop(wt)
    return _ref[rev]

def drop(wt):
    subprocess.run(["git", "-C", "/repo", "worktree", "remove", "--force", wt], capture_output=True)

def one(patch):
    for rev in REVS:
        wt = worktree(rev)
        r = subprocess.run(["git", "-C", wt, "apply", patch], capture_output=True, text=True)
        if r.returncode != 0:
            drop(wt)
            continue
        got = findings(wt)
        drop(wt)
        return patch, got, rev
    return patch, None, None

def main():
    patches = [os.path.abspath(x) for x in sys.argv[1:]] or sorted(glob.glob(os.path.join(ROOT, "neutral", "*", "patch.diff")))
    reference("HEAD")
    bad = 0
    with cf.ThreadPoolExecutor(max_workers=10) as ex:
        for patch, got, rev in ex.map(one, patches):
            name = patch.replace(ROOT + "/", "")
            if got is None:
                print("%-40s does not apply" % name)
                continue
            new = sorted(got - reference(rev))
            if new:
                bad += 1
                print("%-40s FALSE ALARM" % name)
                for k in new:
                    print("      " + k[:260])
            else:
                print("%-40s silent" % name)
    print("%d of %d neutral edits raise an alarm" % (bad, len(patches)))
    sys.exit(1 if bad else 0)
main()
