#!/bin/sh
# tools/file_round.sh <round dir, e.g. /tmp/seed4>  — for every <dir>/<Cxx>.out not yet filed: remove the author's worktree,
# confirm the change on HEAD (tools/confirm_seed2.sh) and file it as the next free seeded/<Cxx>-m<k>.
dir="$1"
for out in "$dir"/C*.out; do
  id=$(basename "$out" .out)
  [ -f "$out/patch.diff" ] && [ -f "$out/demo_test.go" ] && [ -f "$out/notes.md" ] || continue
  [ -f "$out/.filed" ] && continue
  git -C /repo worktree remove --force "$dir/$id" >/dev/null 2>&1
  k=1; while [ -d /verif/seeded/$id-m$k ]; do k=$((k+1)); done
  ( /verif/tools/confirm_seed2.sh "$out" "$id" "$k" && touch "$out/.filed" ) &
done
wait
git -C /repo worktree prune
