#!/bin/sh
# tools/seedtest.sh <patch.diff> <Cxx> [<Cxx>...]
# Applies a seeded change to a scratch worktree of /repo (HEAD, or the pinned base 0accdc9 if it
# does not apply on HEAD), runs the named checks against it, removes the worktree.
# Prints one line per check: <patch> <Cxx> base=<HEAD|BASE> exit=<n> violations=<k>
set -u
patch="$(realpath "$1")"; shift
export GOFLAGS=-mod=mod GOPROXY=off GOSUMDB=off GOTOOLCHAIN=local GOWORK=off
wt=$(mktemp -d /tmp/seedwt.XXXXXX); rmdir "$wt"
base=HEAD
git -C /repo worktree add --detach "$wt" HEAD >/dev/null 2>&1
if ! git -C "$wt" apply --check "$patch" 2>/dev/null; then
  git -C /repo worktree remove --force "$wt" >/dev/null 2>&1
  git -C /repo worktree add --detach "$wt" 0accdc9 >/dev/null 2>&1
  base=BASE
  if ! git -C "$wt" apply --check "$patch" 2>/dev/null; then
    echo "$patch: does not apply"; git -C /repo worktree remove --force "$wt"; exit 3
  fi
fi
git -C "$wt" apply "$patch"
ev=$(mktemp -d /tmp/seedev.XXXXXX)
for id in "$@"; do
  out=$(GQLVET_REPO="$wt" GQLVET_EVIDENCE="$ev" /verif/bin/gqlvet check "$id" quick 2>"$ev/$id.err")
  rc=$?
  n=$(printf '%s\n' "$out" | grep -c '^VIOLATION')
  echo "$(basename $(dirname $patch))/$(basename $patch) $id base=$base exit=$rc violations=$n"
  if [ "${VERBOSE:-0}" = 1 ]; then grep -v '^gqlvet' "$ev/$id.err" | head -${LINES_MAX:-12}; fi
done
rm -rf "$ev"
git -C /repo worktree remove --force "$wt" >/dev/null 2>&1
