#!/bin/sh
# tools/confirm_seed2.sh <srcdir> <Cxx> <k> [base]
# Confirms the seeded change in <srcdir>/{patch.diff,demo_test.go,notes.md} in a scratch worktree of /repo at <base>
# (default HEAD) and, if confirmed, files it under /verif/seeded/<Cxx>-m<k>/ with a meta.json.
set -u
src="$1"; id="$2"; k="$3"; base="${4:-HEAD}"
export GOFLAGS=-mod=mod GOPROXY=off GOSUMDB=off GOTOOLCHAIN=local GOWORK=off
wt=$(mktemp -d /tmp/confwt.XXXXXX); rmdir "$wt"
rev=$(git -C /repo rev-parse --short "$base")
git -C /repo worktree add --detach "$wt" "$base" >/dev/null 2>&1
dir=$(head -1 "$src/demo_test.go" | sed 's#^// *dir: *##' | tr -d ' \r')
res="id=$id k=$k base=$rev dir=$dir"
ok=1
if ! git -C "$wt" apply "$src/patch.diff" 2>/dev/null; then res="$res apply=FAIL"; ok=0; fi
sw=skip; dw=skip; dwo=skip
if [ $ok = 1 ]; then
  if (cd "$wt" && go build ./... && timeout 900 go test -vet=off -count=1 ./... >/dev/null 2>&1); then sw=pass; else sw=FAIL; ok=0; fi
  cp "$src/demo_test.go" "$wt/$dir/zz_seeded_demo_test.go"
  if (cd "$wt/$dir" && timeout 300 go test -vet=off -count=1 -run 'TestSeeded' . >/dev/null 2>&1); then dw="pass(BAD)"; ok=0; else dw=fail; fi
  git -C "$wt" apply -R "$src/patch.diff"
  if (cd "$wt/$dir" && timeout 300 go test -vet=off -count=1 -run 'TestSeeded' . >/dev/null 2>&1); then dwo=pass; else dwo=FAIL; ok=0; fi
fi
git -C /repo worktree remove --force "$wt" >/dev/null 2>&1
res="$res suite_with=$sw demo_with=$dw demo_without=$dwo"
if [ $ok = 1 ]; then
  d=/verif/seeded/$id-m$k; mkdir -p "$d"
  cp "$src/patch.diff" "$d/patch.diff"; cp "$src/demo_test.go" "$d/demo_test.go"; cp "$src/notes.md" "$d/notes.md"
  python3 - "$d" "$id" "$k" "$rev" "$dir" <<'PY'
import json,sys,re
d,pid,k,rev,pdir=sys.argv[1:6]
notes=open(d+'/notes.md').read()
title=notes.strip().splitlines()[0].lstrip('# ').strip() if notes.strip() else ''
meta={"id":f"{pid}-m{k}","property":pid,"base":rev,"summary":title,
 "needs_to_manifest":"see notes.md (written by the author of the change, who saw only the property text)",
 "demo":{"file":"demo_test.go","place_in":pdir+"/zz_seeded_demo_test.go","run":"go test -vet=off -count=1 -run TestSeeded ./"+pdir},
 "confirmed":{"how":"scratch git worktree of /repo at base, removed afterwards (tools/confirm_seed2.sh)",
   "suite_with_change":"pass","demo_with_change":"fail","demo_without_change":"pass"},
 "apply":"git -C /repo apply /verif/seeded/%s-m%s/patch.diff ; ./check %s quick ; git -C /repo checkout -- ."%(pid,k,pid)}
json.dump(meta,open(d+'/meta.json','w'),indent=1)
PY
  res="$res CONFIRMED"
fi
echo "$res"
