#!/bin/sh
# tools/file_neutral.sh <round dir, e.g. /tmp/neutral3> — for every <dir>/<Nxx>.out/n<k>.diff: remove the author's worktree,
# check in a scratch worktree of /repo at HEAD that the patch applies, is gofmt-clean, builds and passes the unedited
# suite, and file it as neutral/<Nxx>-n<k>/{patch.diff,notes.md}.
export GOFLAGS=-mod=mod GOPROXY=off GOSUMDB=off GOTOOLCHAIN=local GOWORK=off
dir="$1"
one() {
  out="$1"; k="$2"; id=$(basename "$out" .out)
  dst=/verif/neutral/$id-n$k
  [ -d "$dst" ] && return
  wt=$(mktemp -d /tmp/nfile.XXXXXX); rmdir "$wt"
  git -C /repo worktree add --detach "$wt" HEAD >/dev/null 2>&1
  res=ok
  git -C "$wt" apply "$out/n$k.diff" 2>/dev/null || res=noapply
  if [ $res = ok ]; then
    [ -z "$(cd "$wt" && gofmt -l . 2>/dev/null)" ] || res=gofmt
    (cd "$wt" && go build ./... >/dev/null 2>&1 && go test -vet=off -count=1 ./... >/dev/null 2>&1) || res=suite
  fi
  git -C /repo worktree remove --force "$wt" >/dev/null 2>&1
  if [ $res = ok ]; then
    mkdir -p "$dst"; cp "$out/n$k.diff" "$dst/patch.diff"; cp "$out/n$k.md" "$dst/notes.md" 2>/dev/null
  fi
  echo "$id-n$k $res"
}
for out in "$dir"/N*.out; do
  id=$(basename "$out" .out)
  git -C /repo worktree remove --force "$dir/$id" >/dev/null 2>&1
  for k in 1 2 3 4; do
    [ -f "$out/n$k.diff" ] && one "$out" "$k" &
  done
  wait
done
git -C /repo worktree prune
