package main

import (
	"fmt"
	"go/token"
	"go/types"
	"os"
	"regexp"
	"sort"
	"strings"

	"golang.org/x/tools/go/ssa"
)

// ---------------------------------------------------------------------------
// Nil-fact analysis (DESIGN §3.3), shared by C02, C14, C15.
//
// A small path-sensitive forward dataflow: the state at a program point is a disjunction of fact
// sets; a fact maps an access path ("p:field.Definition", "lk:p:schema.Types[p:typ.Name()]",
// "v:t12") to nil/non-nil (or empty/non-empty for strings). Facts come from branch conditions,
// from dereferences that were survived, from map updates, and — for closures — from the facts
// that held where the closure was created. Documents and schemas are not written by the code
// in scope (C11/C18), so path facts stay valid; stores to a field kill the facts mentioning it.

var nullableFields = map[annot]string{
	{"Field", "Definition"}:                "unknown field",
	{"Field", "ObjectDefinition"}:          "unknown parent type",
	{"FragmentSpread", "Definition"}:       "unknown fragment",
	{"FragmentSpread", "ObjectDefinition"}: "unknown parent type",
	{"InlineFragment", "ObjectDefinition"}: "unknown parent type",
	{"FragmentDefinition", "Definition"}:   "unknown type condition",
	{"Directive", "Definition"}:            "unknown directive",
	{"Directive", "ParentDefinition"}:      "unknown parent type",
	{"VariableDefinition", "Definition"}:   "unknown variable type",
	{"VariableDefinition", "DefaultValue"}: "no default",
	{"Value", "Definition"}:                "unresolved value position",
	{"Value", "VariableDefinition"}:        "undefined variable",
	{"Value", "ExpectedType"}:              "unresolved value position",
	{"Type", "Elem"}:                       "named type",
	{"ArgumentDefinition", "DefaultValue"}: "no default",
	{"FieldDefinition", "DefaultValue"}:    "no default",
	{"Schema", "Query"}:                    "no query root",
	{"Schema", "Mutation"}:                 "no mutation root",
	{"Schema", "Subscription"}:             "no subscription root",
	{"Walker", "CurrentOperation"}:         "walking a fragment definition",
}

func isLinkField(st, f string) bool {
	switch st + "." + f {
	case "Field.Definition", "Field.ObjectDefinition", "FragmentSpread.Definition", "FragmentSpread.ObjectDefinition", "InlineFragment.ObjectDefinition",
		"FragmentDefinition.Definition", "Directive.Definition", "Directive.ParentDefinition", "VariableDefinition.Definition",
		"Value.Definition", "Value.VariableDefinition", "Value.ExpectedType":
		return true
	}
	return false
}

type disj map[string]int8

func (d disj) clone() disj {
	n := make(disj, len(d)+2)
	for k, v := range d {
		n[k] = v
	}
	return n
}

func (d disj) canon() string {
	ks := make([]string, 0, len(d))
	for k, v := range d {
		ks = append(ks, fmt.Sprintf("%s=%d", k, v))
	}
	sort.Strings(ks)
	return strings.Join(ks, ";")
}

// set returns false on contradiction.
func (d disj) set(k string, v int8) bool {
	if old, ok := d[k]; ok && old != v {
		return false
	}
	d[k] = v
	// derived: a type has exactly one of NamedType / Elem (parser invariant, see assumption)
	if strings.HasSuffix(k, ".NamedType") && v == 0 {
		base := strings.TrimSuffix(k, ".NamedType")
		if old, ok := d[base+".Elem"]; ok && old == 0 {
			return false
		}
		d[base+".Elem"] = 1
	}
	if strings.HasSuffix(k, ".Elem") && v == 0 {
		base := strings.TrimSuffix(k, ".Elem")
		if old, ok := d[base+".NamedType"]; ok && old == 0 {
			return false
		}
	}
	return true
}

func (d disj) killField(f string) {
	for k := range d {
		if strings.HasSuffix(k, "."+f) || strings.Contains(k, "."+f+".") || strings.Contains(k, "."+f+"[") {
			delete(d, k)
		}
	}
}

type nstate []disj

var reSSAName = regexp.MustCompile(`v:(t[0-9]+)`)

func joinStates(a, b nstate) nstate {
	seen := map[string]bool{}
	var out nstate
	for _, d := range append(append(nstate{}, a...), b...) {
		c := d.canon()
		if !seen[c] {
			seen[c] = true
			out = append(out, d)
		}
	}
	// over the cap: merge the two most similar disjuncts (keeping what they agree on) until under it —
	// distinctions carried by few facts survive longest
	const capN = 24
	for len(out) > capN {
		bi, bj, best := 0, 1, 1<<30
		for i := 0; i < len(out); i++ {
			for j := i + 1; j < len(out); j++ {
				diff := 0
				for k, v := range out[i] {
					if w, ok := out[j][k]; !ok || w != v {
						diff++
					}
				}
				for k := range out[j] {
					if _, ok := out[i][k]; !ok {
						diff++
					}
				}
				if diff < best {
					bi, bj, best = i, j, diff
				}
			}
		}
		m := disj{}
		for k, v := range out[bi] {
			if w, ok := out[bj][k]; ok && w == v {
				m[k] = v
			}
		}
		out[bi] = m
		out = append(out[:bj], out[bj+1:]...)
		// dedupe after the merge
		seen2 := map[string]bool{}
		var o2 nstate
		for _, d := range out {
			c := d.canon()
			if !seen2[c] {
				seen2[c] = true
				o2 = append(o2, d)
			}
		}
		out = o2
	}
	return out
}

func sameState(a, b nstate) bool {
	if len(a) != len(b) {
		return false
	}
	x := make([]string, len(a))
	y := make([]string, len(b))
	for i := range a {
		x[i] = a[i].canon()
		y[i] = b[i].canon()
	}
	sort.Strings(x)
	sort.Strings(y)
	for i := range x {
		if x[i] != y[i] {
			return false
		}
	}
	return true
}

type nilAnalysis struct {
	p          *Program
	scope      map[*ssa.Function]bool
	mayNilRet  map[*ssa.Function]bool
	assumed    map[string]string
	usedAssum  map[string]bool
	pinned     map[string]bool // "<function name>/<ssa name>": facts about this value are kept although it is dead
	validated  bool
	inLoader   bool                                         // while loading, the closure of type names has not been checked yet
	entry      map[*ssa.Function]map[*ssa.BasicBlock]nstate // memo: state at block entry
	inProg     map[*ssa.Function]bool
	nonNilMaps map[string]bool // Schema map fields whose stored values are never nil
	lifted     map[*ssa.Function][]liftedReq
	callers    map[*ssa.Function][]ssa.CallInstruction
	asValue    map[*ssa.Function]bool
	// hooks for client analyses that ride on the same disjunctive dataflow (reflect typestate)
	hookRefine func(d disj, c Cond) (disj, bool)
	// hookPredicate: the condition is a call of a side-effect-free helper predicate; returns one refined state per path
	// through the helper that yields the wanted outcome
	hookPredicate func(d disj, c Cond) ([]disj, bool)
	hookTransfer  func(st nstate, in ssa.Instruction) nstate
	hookPhi       func(n disj, d disj, ph *ssa.Phi, edge ssa.Value)
	hookEntry     func(fn *ssa.Function, d disj)
	curFn         *ssa.Function
}

// liftedReq: callee requires nonnil(param idx + suffix) at entry.
type liftedReq struct {
	idx    int
	suffix string
	why    string
	what   string
	depth  int
	origin string
}

func newNilAnalysis(p *Program, scope map[*ssa.Function]bool) *nilAnalysis {
	a := &nilAnalysis{p: p, scope: scope, mayNilRet: map[*ssa.Function]bool{}, assumed: map[string]string{}, usedAssum: map[string]bool{},
		entry: map[*ssa.Function]map[*ssa.BasicBlock]nstate{}, inProg: map[*ssa.Function]bool{}, nonNilMaps: map[string]bool{"Types": true, "Directives": true},
		lifted: map[*ssa.Function][]liftedReq{}, callers: map[*ssa.Function][]ssa.CallInstruction{}, asValue: map[*ssa.Function]bool{}}
	for fn := range scope {
		allInstrs(fn, func(in ssa.Instruction) {
			if ci, ok := in.(ssa.CallInstruction); ok {
				if g := ci.Common().StaticCallee(); g != nil {
					a.callers[g] = append(a.callers[g], ci)
				}
			}
			for _, op := range in.Operands(nil) {
				if op == nil || *op == nil {
					continue
				}
				if f, ok := (*op).(*ssa.Function); ok {
					if ci, isCall := in.(ssa.CallInstruction); isCall && ci.Common().Value == ssa.Value(f) {
						continue
					}
					a.asValue[f] = true
				}
			}
		})
	}
	a.computeMayNilRet()
	return a
}

func isPointerLike(t types.Type) bool {
	_, ok := t.Underlying().(*types.Pointer)
	return ok
}

func (a *nilAnalysis) computeMayNilRet() {
	for changed := true; changed; {
		changed = false
		for fn := range a.scope {
			if a.mayNilRet[fn] || fn.Signature.Results().Len() == 0 || !isPointerLike(fn.Signature.Results().At(0).Type()) || len(fn.Blocks) == 0 {
				continue
			}
			for _, ret := range returnsOf(fn) {
				v := ret.Results[0]
				if isNilConst(v) {
					a.mayNilRet[fn] = true
					changed = true
					break
				}
				if ph, ok := v.(*ssa.Phi); ok {
					for _, e := range ph.Edges {
						if isNilConst(e) {
							a.mayNilRet[fn] = true
							changed = true
						}
					}
				}
				if call, ok := v.(*ssa.Call); ok {
					if g := call.Call.StaticCallee(); g != nil && a.mayNilRet[g] {
						a.mayNilRet[fn] = true
						changed = true
					}
				}
			}
		}
	}
}

// accessPath canonicalises a value for fact matching.
func accessPath(v ssa.Value) string {
	for i := 0; i < 12; i++ {
		v = stripChange(v)
		switch x := v.(type) {
		case *ssa.Parameter:
			return "p:" + x.Name()
		case *ssa.FreeVar:
			return "fv:" + x.Name()
		case *ssa.UnOp:
			if x.Op == token.MUL {
				switch ad := x.X.(type) {
				case *ssa.FieldAddr:
					_, f, b, _ := fieldOf(ad)
					return accessPath(b) + "." + f
				case *ssa.Alloc:
					st := storesTo(ad)
					if len(st) == 1 {
						v = st[0]
						continue
					}
					return "alloc:" + ad.Name()
				case *ssa.IndexAddr:
					idx := "v:" + ad.Index.Name()
					if k, ok := constInt(ad.Index); ok {
						idx = fmt.Sprint(k)
					}
					return accessPath(ad.X) + "[" + idx + "]"
				case *ssa.FreeVar:
					return "fv:" + ad.Name()
				}
			}
		case *ssa.Field:
			_, f, b, _ := fieldOf(x)
			return accessPath(b) + "." + f
		case *ssa.FieldAddr:
			_, f, b, _ := fieldOf(x)
			return accessPath(b) + ".&" + f
		case *ssa.Lookup:
			return "lk:" + accessPath(x.X) + "[" + accessPath(x.Index) + "]"
		case *ssa.Extract:
			if l, ok := x.Tuple.(*ssa.Lookup); ok && x.Index == 0 {
				return "lk:" + accessPath(l.X) + "[" + accessPath(l.Index) + "]"
			}
		case *ssa.Call:
			if g := x.Call.StaticCallee(); g != nil && g.Name() == "Name" && g.Signature.Recv() != nil && len(x.Call.Args) == 1 {
				return accessPath(x.Call.Args[0]) + ".Name()"
			}
		case *ssa.Const:
			if s, ok := constString(x); ok {
				return fmt.Sprintf("%q", s)
			}
		}
		break
	}
	return "v:" + v.Name()
}

// evalNil: 1 non-nil, 0 nil, -1 unknown under disjunct d.
func (a *nilAnalysis) evalNil(v ssa.Value, d disj) int8 {
	v = stripChange(v)
	if isNilConst(v) {
		return 0
	}
	switch x := v.(type) {
	case *ssa.Alloc, *ssa.MakeMap, *ssa.MakeSlice, *ssa.MakeClosure, *ssa.Function, *ssa.Global, *ssa.FieldAddr, *ssa.IndexAddr, *ssa.MakeInterface:
		return 1
	case *ssa.Call:
		if g := x.Call.StaticCallee(); g != nil && isPointerLike(x.Type()) && len(g.Blocks) > 0 && !a.mayNilRet[g] && a.scope[g] {
			return 1
		}
	}
	if r, ok := d[accessPath(v)]; ok {
		return r
	}
	if r, ok := d["v:"+v.Name()]; ok {
		return r
	}
	return -1
}

// possiblyNil explains why v may be nil ("" if it is not a nil source).
func (a *nilAnalysis) possiblyNil(v ssa.Value, seen map[ssa.Value]bool) string {
	if seen[v] {
		return ""
	}
	seen[v] = true
	v = stripChange(v)
	if isNilConst(v) {
		return "nil constant"
	}
	fieldWhy := func(n *types.Named, f string) string {
		if n == nil {
			return ""
		}
		if why, ok := nullableFields[annot{n.Obj().Name(), f}]; ok {
			if a.validated && isLinkField(n.Obj().Name(), f) {
				return ""
			}
			return n.Obj().Name() + "." + f + " may be nil (" + why + ")"
		}
		return ""
	}
	switch x := v.(type) {
	case *ssa.UnOp:
		if x.Op == token.MUL {
			if fa, ok := x.X.(*ssa.FieldAddr); ok {
				n, f, _, _ := fieldOf(fa)
				return fieldWhy(n, f)
			}
			if al, ok := x.X.(*ssa.Alloc); ok {
				for _, s := range storesTo(al) {
					if w := a.possiblyNil(s, seen); w != "" {
						return w
					}
				}
			}
		}
	case *ssa.Field:
		n, f, _, _ := fieldOf(x)
		return fieldWhy(n, f)
	case *ssa.Phi:
		for _, e := range x.Edges {
			if w := a.possiblyNil(e, seen); w != "" {
				return w
			}
		}
	case *ssa.Lookup:
		if !x.CommaOk && isPointerLike(x.Type()) {
			if _, f, ok := fieldLoadOf(x.X); ok && a.nonNilMaps[f] {
				// keyed by every key of the same map
				if c07KeyFromAllKeys(x.Index, f) {
					return ""
				}
				// keyed by the name of a schema-owned type: closed by the loader (C07.R2)
				if f == "Types" && !a.inLoader && a.schemaTypeName(x.Index) {
					return ""
				}
			}
			return "map lookup " + strings.TrimPrefix(accessPath(x), "lk:") + " may miss"
		}
	case *ssa.Extract:
		if l, ok := x.Tuple.(*ssa.Lookup); ok && x.Index == 0 && isPointerLike(x.Type()) {
			return "map lookup " + strings.TrimPrefix(accessPath(l), "lk:") + " may miss"
		}
	case *ssa.Call:
		if g := x.Call.StaticCallee(); g != nil && a.mayNilRet[g] && isPointerLike(x.Type()) {
			return a.p.FuncName(g) + "() may return nil"
		}
	}
	return ""
}

// refineMulti is refine for a branch: a condition that is a call of a helper predicate splits into the helper's paths.
func (a *nilAnalysis) refineMulti(d disj, cond ssa.Value, truth bool) []disj {
	if a.hookPredicate != nil {
		if ns, handled := a.hookPredicate(d, normCond(Cond{V: cond, True: truth})); handled {
			return ns
		}
	}
	if n := a.refine(d, cond, truth); n != nil {
		return []disj{n}
	}
	return nil
}

// refine applies `cond == truth` to d; returns nil on contradiction.
func (a *nilAnalysis) refine(d disj, cond ssa.Value, truth bool) disj {
	c := normCond(Cond{V: cond, True: truth})
	if a.hookRefine != nil {
		if n, handled := a.hookRefine(d, c); handled {
			return n
		}
	}
	switch x := c.V.(type) {
	case *ssa.BinOp:
		if x.Op != token.EQL && x.Op != token.NEQ {
			return d
		}
		var other ssa.Value
		kind := ""
		switch {
		case isNilConst(x.Y):
			other, kind = x.X, "nil"
		case isNilConst(x.X):
			other, kind = x.Y, "nil"
		default:
			if s, ok := constString(x.Y); ok && s == "" {
				other, kind = x.X, "empty"
			} else if s, ok := constString(x.X); ok && s == "" {
				other, kind = x.Y, "empty"
			}
		}
		if kind == "" {
			return d
		}
		isZero := (x.Op == token.EQL) == c.True
		val := int8(1)
		if isZero {
			val = 0
		}
		other = stripChange(other)
		// a checked loader summary: validateTypeRef(schema, T) == nil  =>  schema.Types[T.Name()] != nil
		if call, ok := other.(*ssa.Call); ok && kind == "nil" {
			if g := call.Call.StaticCallee(); g != nil && a.isTypeRefCheck(g) && isZero {
				n := d.clone()
				if !n.set("lk:"+accessPath(call.Call.Args[0])+".Types["+accessPath(call.Call.Args[1])+".Name()]", 1) {
					return nil
				}
				return n
			}
		}
		cur := a.evalNil(other, d)
		if cur != -1 && cur != val && kind == "nil" {
			return nil
		}
		if a.curFn != nil && !a.interest(a.curFn).has(accessPath(other)) && !a.interest(a.curFn).has("v:"+other.Name()) {
			return d
		}
		n := d.clone()
		if !n.set(accessPath(other), val) {
			return nil
		}
		n["v:"+other.Name()] = val
		return n
	case *ssa.Phi:
		if bv, ok := d["b:"+x.Name()]; ok {
			want := int8(0)
			if c.True {
				want = 1
			}
			if bv != want {
				return nil
			}
			return d
		}
		// `x := a && b; if x {…}`: the phi of a short-circuit — the only edge that can carry c.True is refined
		var cand ssa.Value
		n := 0
		for _, e := range x.Edges {
			if cst, ok := e.(*ssa.Const); ok && cst.Value != nil {
				if (cst.Value.String() == "true") == c.True {
					n += 2 // a constant edge that already has the wanted value: nothing to learn
				}
				continue
			}
			cand = e
			n++
		}
		if n == 1 && cand != nil {
			return a.refine(d, cand, c.True)
		}
		return d
	case *ssa.Extract:
		// v, ok := m[k]; ok true => present; for maps that never hold nil values the value is non-nil
		if l, ok := x.Tuple.(*ssa.Lookup); ok && x.Index == 1 && c.True {
			if _, f, ok := fieldLoadOf(l.X); ok && a.nonNilMaps[f] {
				n := d.clone()
				if !n.set(accessPath(l), 1) {
					return nil
				}
				// also by value identity: the path may mention an index that is dead further down
				for _, ref := range *l.Referrers() {
					if ex, ok := ref.(*ssa.Extract); ok && ex.Index == 0 {
						n["v:"+ex.Name()] = 1
					}
				}
				return n
			}
		}
	}
	return d
}

// isTypeRefCheck: g(schema, typ) returns nil only on paths where schema.Types[typ.Name()] != nil.
func (a *nilAnalysis) isTypeRefCheck(g *ssa.Function) bool {
	if len(g.Params) != 2 || len(g.Blocks) == 0 {
		return false
	}
	okAll := true
	n := 0
	for _, ret := range returnsOf(g) {
		if !isNilConst(ret.Results[0]) {
			continue
		}
		n++
		found := false
		for _, cd := range condsAt(ret.Block()) {
			bo, ok := cd.V.(*ssa.BinOp)
			if !ok || !isNilConst(bo.Y) {
				continue
			}
			l, ok := bo.X.(*ssa.Lookup)
			if !ok {
				continue
			}
			nonNil := (bo.Op == token.NEQ) == cd.True
			if nonNil && accessPath(l) == "lk:p:"+g.Params[0].Name()+".Types[p:"+g.Params[1].Name()+".Name()]" {
				found = true
			}
		}
		if !found {
			okAll = false
		}
	}
	return okAll && n > 0
}

// transfer applies the effect of one instruction to every disjunct (in place on clones).
func (a *nilAnalysis) transfer(st nstate, in ssa.Instruction) nstate {
	if a.hookTransfer != nil {
		st = a.hookTransfer(st, in)
	}
	switch x := in.(type) {
	case *ssa.Store:
		if fa, ok := x.Addr.(*ssa.FieldAddr); ok {
			_, f, _, _ := fieldOf(fa)
			out := make(nstate, 0, len(st))
			path := accessPath(fa.X) + "." + f
			for _, d := range st {
				n := d.clone()
				// documents and schemas are trees: a store through one access path does not change what another
				// access path reaches (assumption); only the facts about this very path and what lies below it die
				for k := range n {
					if k == path || strings.HasPrefix(k, path+".") || strings.HasPrefix(k, path+"[") {
						delete(n, k)
					}
				}
				// the stored value's nilness becomes the field's
				if v := a.evalNil(x.Val, d); v != -1 {
					n[path] = v
				} else if isPointerLike(x.Val.Type()) && a.possiblyNil(x.Val, map[ssa.Value]bool{}) == "" {
					// a value from a source that is never nil (a field the parser always sets, a fresh node)
					n[path] = 1
				}
				out = append(out, n)
			}
			return out
		}
	case *ssa.MapUpdate:
		key := "lk:" + accessPath(x.Map) + "[" + accessPath(x.Key) + "]"
		out := make(nstate, 0, len(st))
		for _, d := range st {
			n := d.clone()
			// other lookups of this map are unaffected for distinct keys; same key gets the new value
			if v := a.evalNil(x.Value, d); v != -1 {
				n[key] = v
			} else {
				delete(n, key)
			}
			out = append(out, n)
		}
		return out
	case *ssa.FieldAddr:
		// surviving a dereference: the base is non-nil afterwards
		if isPointerLike(x.X.Type()) {
			out := make(nstate, 0, len(st))
			k := accessPath(x.X)
			if a.curFn != nil && !a.interest(a.curFn).has(k) {
				return st
			}
			for _, d := range st {
				if old, ok := d[k]; ok && old == 1 {
					out = append(out, d)
					continue
				}
				n := d.clone()
				n[k] = 1
				n["v:"+x.X.Name()] = 1
				out = append(out, n)
			}
			return out
		}
	}
	return st
}

// analyse computes the block-entry states of fn.
func (a *nilAnalysis) analyse(fn *ssa.Function) map[*ssa.BasicBlock]nstate {
	if m, ok := a.entry[fn]; ok {
		return m
	}
	if a.inProg[fn] || len(fn.Blocks) == 0 {
		return nil
	}
	a.inProg[fn] = true
	defer delete(a.inProg, fn)
	prevFn := a.curFn
	defer func() { a.curFn = prevFn }()
	states := map[*ssa.BasicBlock]nstate{}
	init := disj{}
	// closures inherit the facts of their creation point
	if par := fn.Parent(); par != nil && a.scope[par] {
		if inh := a.inherited(fn, par); inh != nil {
			init = inh
		}
	}
	if a.hookEntry != nil {
		a.hookEntry(fn, init)
	}
	// observers of variables and operations run only inside walkOperation, after CurrentOperation was set (C09.R4)
	if par := fn.Parent(); par != nil {
		allInstrs(par, func(in ssa.Instruction) {
			ci, ok := in.(ssa.CallInstruction)
			if !ok {
				return
			}
			g := ci.Common().StaticCallee()
			if g == nil || (g.Name() != "OnVariable" && g.Name() != "OnOperation") || len(fn.Params) == 0 {
				return
			}
			for _, arg := range ci.Common().Args {
				isFn := arg == ssa.Value(fn)
				if mc, isMC := arg.(*ssa.MakeClosure); isMC && mc.Fn == ssa.Value(fn) {
					isFn = true
				}
				if isFn {
					init["p:"+fn.Params[0].Name()+".CurrentOperation"] = 1
				}
			}
		})
	}
	a.curFn = fn
	states[fn.Blocks[0]] = nstate{init}
	work := []*ssa.BasicBlock{fn.Blocks[0]}
	visits := map[*ssa.BasicBlock]int{}
	for len(work) > 0 {
		b := work[0]
		work = work[1:]
		visits[b]++
		if visits[b] > 40 {
			continue
		}
		st := states[b]
		for _, in := range b.Instrs {
			st = a.transfer(st, in)
		}
		propagate := func(s *ssa.BasicBlock, out nstate) {
			// phis of s: the edge value's nilness
			idx := -1
			for i, pd := range s.Preds {
				if pd == b {
					idx = i
				}
			}
			var withPhi nstate
			cur := out
			for _, in := range s.Instrs {
				ph, ok := in.(*ssa.Phi)
				if !ok {
					break
				}
				if idx < 0 || idx >= len(ph.Edges) {
					continue
				}
				var next nstate
				for _, d := range cur {
					n := d.clone()
					// the phi gets a new value: facts that mention its name speak about the previous one
					killName(n, ph.Name())
					v := a.evalNil(ph.Edges[idx], d)
					if v != -1 {
						n["v:"+ph.Name()] = v
					} else if prm, isP := stripChange(ph.Edges[idx]).(*ssa.Parameter); isP && isPointerLike(prm.Type()) {
						// the phi is the parameter itself on this path: its nil-ness is the caller's business
						n["al:"+ph.Name()+":"+prm.Name()] = 1
					}
					if a.hookPhi != nil {
						a.hookPhi(n, d, ph, ph.Edges[idx])
					}
					// a boolean phi (a && b stored in a variable, or a materialised condition): remember its truth value
					// per path, splitting on the incoming condition
					if isBoolType(ph.Type()) {
						ev := ph.Edges[idx]
						if cst, isC := ev.(*ssa.Const); isC && cst.Value != nil {
							if cst.Value.String() == "true" {
								n["b:"+ph.Name()] = 1
							} else {
								n["b:"+ph.Name()] = 0
							}
						} else if _, isPhi := ev.(*ssa.Phi); !isPhi {
							for _, t := range a.refineMulti(n, ev, true) {
								t = t.clone()
								t["b:"+ph.Name()] = 1
								next = append(next, t)
							}
							for _, f := range a.refineMulti(n, ev, false) {
								f = f.clone()
								f["b:"+ph.Name()] = 0
								next = append(next, f)
							}
							continue
						} else if bv, ok := d["b:"+ev.Name()]; ok {
							n["b:"+ph.Name()] = bv
						}
					}
					next = append(next, n)
				}
				cur = next
			}
			withPhi = cur
			withPhi = a.pruneDead(fn, s, withPhi)
			old, had := states[s]
			var nw nstate
			if had {
				nw = joinStates(old, withPhi)
			} else {
				nw = joinStates(nil, withPhi)
			}
			if !had || !sameState(old, nw) {
				states[s] = nw
				work = append(work, s)
			}
		}
		if ifi, ok := b.Instrs[len(b.Instrs)-1].(*ssa.If); ok && len(b.Succs) == 2 {
			var t, f nstate
			for _, d := range st {
				t = append(t, a.refineMulti(d, ifi.Cond, true)...)
				f = append(f, a.refineMulti(d, ifi.Cond, false)...)
			}
			if len(t) > 0 {
				propagate(b.Succs[0], t)
			}
			if len(f) > 0 {
				propagate(b.Succs[1], f)
			}
			continue
		}
		for _, s := range b.Succs {
			propagate(s, st)
		}
	}
	a.entry[fn] = states
	if os.Getenv("GQLVET_DEBUG") != "" {
		mx, tot := 0, 0
		for _, st := range states {
			if len(st) > mx {
				mx = len(st)
			}
			tot += len(st)
		}
		maxV := 0
		for _, v := range visits {
			if v > maxV {
				maxV = v
			}
		}
		fmt.Fprintf(os.Stderr, "nilfacts %s: blocks=%d maxDisj=%d total=%d maxVisits=%d\n", a.p.FuncName(fn), len(fn.Blocks), mx, tot, maxV)
		if os.Getenv("GQLVET_DEBUG") == a.p.FuncName(fn) {
			for b, st := range states {
				if want := os.Getenv("GQLVET_BLOCK"); (want == "" && len(st) == mx) || want == fmt.Sprint(b.Index) {
					for _, d := range st {
						fmt.Fprintf(os.Stderr, "   b%d: %s\n", b.Index, d.canon())
					}
					break
				}
			}
		}
	}
	return states
}

// stateAt: the state just before instruction `at`.
func (a *nilAnalysis) stateAt(at ssa.Instruction) nstate {
	fn := at.Parent()
	states := a.analyse(fn)
	if states == nil {
		return nstate{disj{}}
	}
	st, ok := states[at.Block()]
	if !ok {
		return nil // unreachable
	}
	prevFn := a.curFn
	a.curFn = fn
	defer func() { a.curFn = prevFn }()
	for _, in := range at.Block().Instrs {
		if in == at {
			break
		}
		st = a.transfer(st, in)
	}
	return st
}

// inherited: facts of the parent at the creation of closure fn, translated to the closure's free variables.
func (a *nilAnalysis) inherited(fn, par *ssa.Function) disj {
	var mc *ssa.MakeClosure
	n := 0
	allInstrs(par, func(in ssa.Instruction) {
		if m, ok := in.(*ssa.MakeClosure); ok && m.Fn == ssa.Value(fn) {
			mc = m
			n++
		}
	})
	if mc == nil || n != 1 {
		return nil
	}
	st := a.stateAt(mc)
	if len(st) == 0 {
		return nil
	}
	// intersection of the disjuncts
	common := st[0].clone()
	for _, d := range st[1:] {
		for k, v := range common {
			if dv, ok := d[k]; !ok || dv != v {
				delete(common, k)
			}
		}
	}
	// callback correlation: the closure is passed as argument k of a call of V; when V invokes its parameter k only
	// where its parameter j is non-nil, argument j of that call is non-nil whenever the closure runs
	for _, ref := range *mc.Referrers() {
		ci, ok := ref.(ssa.CallInstruction)
		if !ok {
			continue
		}
		k := -1
		for i, arg := range ci.Common().Args {
			if arg == ssa.Value(mc) {
				k = i
			}
		}
		if k < 0 {
			continue
		}
		v := a.resolveCallee(ci)
		if v == nil || len(v.Blocks) == 0 || k >= len(v.Params) {
			continue
		}
		// onlyUse: the closure value has no other use than this call (it is not stored or returned)
		if len(*mc.Referrers()) != 1 {
			continue
		}
		cb := v.Params[k]
		var invocations []ssa.Instruction
		escapes := false
		for _, r2 := range *cb.Referrers() {
			if call, ok := r2.(ssa.CallInstruction); ok && call.Common().Value == ssa.Value(cb) {
				invocations = append(invocations, call)
			} else {
				escapes = true
			}
		}
		if escapes || len(invocations) == 0 {
			continue
		}
		for j, pj := range v.Params {
			if j == k || !isPointerLike(pj.Type()) || j >= len(ci.Common().Args) {
				continue
			}
			all := true
			for _, inv := range invocations {
				ist := a.stateAt(inv)
				if ist == nil {
					continue
				}
				for _, dj := range ist {
					if dj["p:"+pj.Name()] != 1 {
						all = false
					}
				}
			}
			if all {
				common[accessPath(ci.Common().Args[j])] = 1
			}
		}
	}
	out := disj{}
	for i, fv := range fn.FreeVars {
		if i >= len(mc.Bindings) {
			break
		}
		b := mc.Bindings[i]
		var parKey string
		if al, ok := b.(*ssa.Alloc); ok {
			sts := storesTo(al)
			if len(sts) != 1 {
				continue // reassigned captured variable: facts may go stale
			}
			parKey = accessPath(sts[0])
		} else {
			parKey = accessPath(b)
		}
		childKey := "fv:" + fv.Name()
		for k, v := range common {
			if k == parKey {
				out[childKey] = v
			} else if strings.HasPrefix(k, parKey+".") || strings.HasPrefix(k, parKey+"[") {
				out[childKey+k[len(parKey):]] = v
			} else if strings.Contains(k, parKey) && strings.HasPrefix(k, "lk:") {
				out[strings.ReplaceAll(k, parKey, childKey)] = v
			}
		}
	}
	return out
}

type derefSite struct {
	in   ssa.Instruction
	v    ssa.Value
	what string
}

func (a *nilAnalysis) derefs(fn *ssa.Function) []derefSite {
	var out []derefSite
	allInstrs(fn, func(in ssa.Instruction) {
		switch x := in.(type) {
		case *ssa.FieldAddr:
			if isPointerLike(x.X.Type()) {
				_, f, _, _ := fieldOf(x)
				out = append(out, derefSite{in, x.X, "." + f})
			}
		case *ssa.UnOp:
			if x.Op == token.MUL {
				switch x.X.(type) {
				case *ssa.FieldAddr, *ssa.Alloc, *ssa.Global, *ssa.IndexAddr, *ssa.FreeVar:
					return
				}
				if isPointerLike(x.X.Type()) {
					out = append(out, derefSite{in, x.X, " (copy *)"})
				}
			}
		}
	})
	return out
}

type nilFinding struct {
	fn   *ssa.Function
	in   ssa.Instruction
	key  string
	why  string
	what string
}

// liftable: the finding's value is rooted at a parameter of a function whose callers are all known static calls.
func (a *nilAnalysis) liftable(fn *ssa.Function, v ssa.Value) (idx int, suffix string, ok bool) {
	if a.asValue[fn] || len(a.callers[fn]) == 0 || fn.Parent() != nil {
		return 0, "", false
	}
	if o := fn.Object(); o != nil && o.Exported() && fn.Signature.Recv() == nil {
		return 0, "", false // public API: callers outside the module
	}
	path := accessPath(v)
	for i, prm := range fn.Params {
		pk := "p:" + prm.Name()
		if path == pk {
			return i, "", true
		}
		if strings.HasPrefix(path, pk+".") {
			return i, path[len(pk):], true
		}
	}
	return 0, "", false
}

// findings: unguarded dereferences of possibly-nil values in the scope.
func (a *nilAnalysis) findings() (out []nilFinding, checked int) {
	var fns []*ssa.Function
	for fn := range a.scope {
		fns = append(fns, fn)
	}
	sort.Slice(fns, func(i, j int) bool { return a.p.FuncName(fns[i]) < a.p.FuncName(fns[j]) })
	type pending struct {
		fn  *ssa.Function
		req liftedReq
	}
	var queue []pending
	report := func(fn *ssa.Function, in ssa.Instruction, v ssa.Value, why, what, origin string) {
		key := fmt.Sprintf("%s | %s%s", a.p.FuncName(fn), trimKey(accessPath(v)), what)
		if origin != "" {
			key += " <- " + origin
		}
		if _, ok := a.assumed[key]; ok {
			a.usedAssum[key] = true
			return
		}
		out = append(out, nilFinding{fn, in, key, why, what})
	}
	for _, fn := range fns {
		for _, d := range a.derefs(fn) {
			why := a.possiblyNil(d.v, map[ssa.Value]bool{})
			root := stripChange(d.v)
			_, isParam := root.(*ssa.Parameter)
			if why == "" && !isParam {
				continue
			}
			st := a.stateAt(d.in)
			if st == nil {
				continue // unreachable
			}
			safe := true
			for _, dj := range st {
				if a.evalNil(d.v, dj) != 1 {
					// on this path the value is a parameter of the function (loop cursor initialised from it)
					aliased := false
					if ph, isPhi := root.(*ssa.Phi); isPhi {
						for k := range dj {
							if strings.HasPrefix(k, "al:"+ph.Name()+":") {
								pname := k[len("al:"+ph.Name()+":"):]
								for i, prm := range fn.Params {
									if prm.Name() == pname {
										aliased = true
										if _, _, okL := a.liftable(fn, prm); okL {
											queue = append(queue, pending{fn, liftedReq{i, "", "", d.what, 0, a.p.FuncName(fn) + ":" + pname + d.what}})
										}
									}
								}
							}
						}
					}
					if !aliased {
						safe = false
					}
				}
			}
			if why != "" {
				checked++
			}
			if safe {
				continue
			}
			if os.Getenv("GQLVET_DEBUG") != "" {
				for _, dj := range st {
					fmt.Fprintf(os.Stderr, "UNSAFE %s %s: eval=%d state=%s\n", a.p.FuncName(fn), accessPath(d.v), a.evalNil(d.v, dj), dj.canon())
				}
			}
			if idx, suffix, ok := a.liftable(fn, d.v); ok {
				queue = append(queue, pending{fn, liftedReq{idx, suffix, why, d.what, 0, a.p.FuncName(fn) + ":" + trimKey(accessPath(d.v)) + d.what}})
				continue
			}
			if why == "" {
				continue // a bare parameter of an API function: the caller's contract
			}
			report(fn, d.in, d.v, why, d.what, "")
		}
	}
	// lifted requirements: check at every call site
	seenReq := map[string]bool{}
	for len(queue) > 0 {
		pq := queue[0]
		queue = queue[1:]
		k := fmt.Sprintf("%p|%d|%s", pq.fn, pq.req.idx, pq.req.suffix)
		if seenReq[k] {
			continue
		}
		seenReq[k] = true
		for _, ci := range a.callers[pq.fn] {
			caller := ci.Parent()
			if !a.scope[caller] {
				continue
			}
			args := ci.Common().Args
			if pq.req.idx >= len(args) {
				continue
			}
			arg := args[pq.req.idx]
			full := accessPath(arg) + pq.req.suffix
			// is the required path possibly nil at all? (a parameter passed through is lifted again)
			st := a.stateAt(ci)
			if st == nil {
				continue
			}
			safe := true
			for _, dj := range st {
				v := int8(-1)
				if pq.req.suffix == "" {
					v = a.evalNil(arg, dj)
				} else if r, ok := dj[full]; ok {
					v = r
				}
				if v != 1 {
					safe = false
				}
			}
			why := pq.req.why
			if pq.req.suffix == "" {
				if w := a.possiblyNil(arg, map[ssa.Value]bool{}); w != "" {
					why = w
				} else if _, isP := stripChange(arg).(*ssa.Parameter); !isP {
					// not a nil source and not a parameter: a non-nil by construction value
					if pq.req.why == "" {
						continue
					}
				}
			}
			checked++
			if safe {
				continue
			}
			// lift further when the argument is rooted at the caller's own parameter
			if pq.req.depth < 2 {
				var base ssa.Value = arg
				if idx, suffix, ok := a.liftable(caller, base); ok {
					// the reason found at this site travels with the requirement (a possibly-nil field handed on as an
					// argument stays possibly nil for the callers that cannot establish it)
					queue = append(queue, pending{caller, liftedReq{idx, suffix + pq.req.suffix, why, pq.req.what, pq.req.depth + 1, pq.req.origin}})
					continue
				}
			}
			if why == "" {
				continue
			}
			key := fmt.Sprintf("%s | %s%s required by %s", a.p.FuncName(caller), trimKey(accessPath(arg)), pq.req.suffix, pq.req.origin)
			if _, ok := a.assumed[key]; ok {
				a.usedAssum[key] = true
				continue
			}
			out = append(out, nilFinding{caller, ci, key, why, " passed to " + a.p.FuncName(pq.fn) + ", which dereferences it (" + pq.req.origin + ")"})
		}
	}
	return
}

func trimKey(k string) string {
	for _, p := range []string{"v:", "p:", "fv:"} {
		k = strings.TrimPrefix(k, p)
	}
	return k
}

// schemaTypeName: v is T.NamedType or T.Name() for a *ast.Type T owned by the schema.
func (a *nilAnalysis) schemaTypeName(v ssa.Value) bool {
	v = unspill(stripChange(v))
	switch x := v.(type) {
	case *ssa.UnOp:
		if fa, ok := x.X.(*ssa.FieldAddr); ok {
			n, f, b, _ := fieldOf(fa)
			if n != nil && n.Obj().Name() == "Type" && f == "NamedType" {
				return a.schemaOwnedType(b, map[ssa.Value]bool{})
			}
		}
	case *ssa.Call:
		if g := x.Call.StaticCallee(); g != nil && g.Name() == "Name" && len(x.Call.Args) == 1 {
			return a.schemaOwnedType(x.Call.Args[0], map[ssa.Value]bool{})
		}
	}
	return false
}

// schemaOwnedType: the *ast.Type value is the Type of a field/argument definition, an Elem of one, or a parameter
// that every caller in scope binds to one.
func (a *nilAnalysis) schemaOwnedType(v ssa.Value, seen map[ssa.Value]bool) bool {
	v = unspill(stripChange(v))
	if seen[v] {
		return true
	}
	seen[v] = true
	switch x := v.(type) {
	case *ssa.UnOp:
		if fa, ok := x.X.(*ssa.FieldAddr); ok {
			n, f, b, _ := fieldOf(fa)
			if n == nil {
				return false
			}
			switch n.Obj().Name() + "." + f {
			case "FieldDefinition.Type", "ArgumentDefinition.Type":
				return true
			case "Type.Elem":
				return a.schemaOwnedType(b, seen)
			}
		}
	case *ssa.Parameter:
		fn := x.Parent()
		idx := paramIndex(fn, x)
		calls := a.callers[fn]
		if len(calls) == 0 || a.asValue[fn] || idx < 0 {
			return false
		}
		for _, ci := range calls {
			if !a.schemaOwnedType(ci.Common().Args[idx], seen) {
				return false
			}
		}
		return true
	}
	return false
}

// resolveCallee: the static callee, or the closure bound to a captured / local variable with a single assignment.
func (a *nilAnalysis) resolveCallee(ci ssa.CallInstruction) *ssa.Function {
	if g := ci.Common().StaticCallee(); g != nil {
		return g
	}
	v := ci.Common().Value
	for i := 0; i < 4; i++ {
		switch x := v.(type) {
		case *ssa.MakeClosure:
			return x.Fn.(*ssa.Function)
		case *ssa.Function:
			return x
		case *ssa.UnOp:
			if x.Op != token.MUL {
				return nil
			}
			switch ad := x.X.(type) {
			case *ssa.Alloc:
				sts := storesTo(ad)
				if len(sts) != 1 {
					return nil
				}
				v = sts[0]
				continue
			case *ssa.FreeVar:
				sts := freeVarStores(ad)
				if len(sts) != 1 {
					return nil
				}
				v = sts[0]
				continue
			}
			return nil
		}
		return nil
	}
	return nil
}

// liveness support: a fact that mentions an SSA value with no use in or after block b is dropped, which keeps the
// number of distinct disjuncts small.
type liveInfo struct {
	byName map[string]ssa.Value
	reach  map[*ssa.BasicBlock]map[*ssa.BasicBlock]bool
}

var liveMemo = map[*ssa.Function]*liveInfo{}

func liveOf(fn *ssa.Function) *liveInfo {
	if li, ok := liveMemo[fn]; ok {
		return li
	}
	li := &liveInfo{byName: map[string]ssa.Value{}, reach: map[*ssa.BasicBlock]map[*ssa.BasicBlock]bool{}}
	for _, b := range fn.Blocks {
		for _, in := range b.Instrs {
			if v, ok := in.(ssa.Value); ok {
				li.byName[v.Name()] = v
			}
		}
		li.reach[b] = reachAvoiding(b, nil, nil)
	}
	liveMemo[fn] = li
	return li
}

func (a *nilAnalysis) pruneDead(fn *ssa.Function, at *ssa.BasicBlock, st nstate) nstate {
	li := liveOf(fn)
	liveCache := map[string]bool{}
	isLive := func(name string) bool {
		if r, ok := liveCache[name]; ok {
			return r
		}
		if a.pinned[fn.Name()+"/"+name] {
			return true
		}
		v, ok := li.byName[name]
		res := true
		if ok && v.Referrers() != nil {
			res = false
			var def *ssa.BasicBlock
			if in, isIn := v.(ssa.Instruction); isIn {
				def = in.Block()
			}
			// live-in at `at`: a use is reachable without passing the definition again
			var r map[*ssa.BasicBlock]bool
			if def != nil && def != at {
				r = reachAvoiding(at, func(b *ssa.BasicBlock) bool { return b == def }, nil)
			} else if def == at {
				if _, isPhi := v.(*ssa.Phi); isPhi {
					r = li.reach[at] // a phi of this block was just given its value on the incoming edge
				} else {
					r = map[*ssa.BasicBlock]bool{} // redefined in this block before any use
				}
			} else {
				r = li.reach[at]
			}
			for _, ref := range *v.Referrers() {
				rb := ref.Block()
				if rb == nil {
					continue
				}
				if ph, isPhi := ref.(*ssa.Phi); isPhi {
					// a phi uses the value on the edge from the predecessor
					for i, e := range ph.Edges {
						if e == v && i < len(rb.Preds) && (r[rb.Preds[i]] || rb.Preds[i] == at) {
							res = true
						}
					}
					continue
				}
				if r[rb] || (def != at && rb == at) {
					res = true
					break
				}
			}
		}
		liveCache[name] = res
		return res
	}
	seen := map[string]bool{}
	var out nstate
	for _, d := range st {
		var n disj
		for k := range d {
			dead := false
			for _, m := range reSSAName.FindAllStringSubmatch(k, -1) {
				if !isLive(m[1]) {
					dead = true
				}
			}
			if dead {
				if n == nil {
					n = d.clone()
				}
				delete(n, k)
			}
		}
		if n == nil {
			n = d
		}
		c := n.canon()
		if !seen[c] {
			seen[c] = true
			out = append(out, n)
		}
	}
	return out
}

// interest: the access paths whose nil-ness can matter in fn — the dereferenced possibly-nil values (and what flows
// into them through phis and local cells) and the pointer arguments of calls. Conditions and stores on other paths
// are ignored, which keeps the disjunctive state small.
type interestSet struct {
	bases map[string]bool
}

var interestMemo = map[*ssa.Function]*interestSet{}

func (a *nilAnalysis) interest(fn *ssa.Function) *interestSet {
	if is, ok := interestMemo[fn]; ok {
		return is
	}
	is := &interestSet{bases: map[string]bool{}}
	var add func(v ssa.Value, d int)
	seen := map[ssa.Value]bool{}
	add = func(v ssa.Value, d int) {
		if v == nil || d > 6 || seen[v] {
			return
		}
		seen[v] = true
		is.bases[accessPath(v)] = true
		is.bases["v:"+v.Name()] = true
		switch x := stripChange(v).(type) {
		case *ssa.Phi:
			for _, e := range x.Edges {
				add(e, d+1)
			}
		case *ssa.UnOp:
			if al, ok := x.X.(*ssa.Alloc); ok {
				for _, sv := range storesTo(al) {
					add(sv, d+1)
				}
			}
		case *ssa.Extract:
			add(x.Tuple, d+1)
		}
	}
	allInstrs(fn, func(in ssa.Instruction) {
		switch x := in.(type) {
		case *ssa.FieldAddr:
			if isPointerLike(x.X.Type()) {
				add(x.X, 0)
			}
		case *ssa.UnOp:
			if x.Op == token.MUL && isPointerLike(x.X.Type()) {
				add(x.X, 0)
			}
		case ssa.CallInstruction:
			for _, arg := range x.Common().Args {
				if isPointerLike(arg.Type()) {
					add(arg, 0)
				} else if _, isI := arg.Type().Underlying().(*types.Interface); isI {
					add(arg, 0)
				}
			}
		case *ssa.Return:
			for _, rv := range x.Results {
				if isPointerLike(rv.Type()) {
					add(rv, 0)
				}
			}
		case *ssa.MakeClosure:
			for _, b := range x.Bindings {
				add(b, 0)
			}
		}
	})
	interestMemo[fn] = is
	return is
}

func (is *interestSet) has(key string) bool {
	if is.bases[key] {
		return true
	}
	for b := range is.bases {
		if strings.HasPrefix(key, b+".") || strings.HasPrefix(key, b+"[") || strings.HasPrefix(b, key+".") || strings.HasPrefix(b, key+"[") {
			return true
		}
		// NamedType feeds the Elem derivation
		if strings.HasSuffix(key, ".NamedType") && strings.HasPrefix(b, strings.TrimSuffix(key, "NamedType")+"Elem") {
			return true
		}
		if strings.HasPrefix(key, "lk:") && strings.Contains(b, key) {
			return true
		}
	}
	return false
}

// killName removes the facts whose key mentions the SSA value `name` (as "v:name" followed by a non-digit).
func killName(d disj, name string) {
	pat := "v:" + name
	for k := range d {
		for i := strings.Index(k, pat); i >= 0; {
			j := i + len(pat)
			if j >= len(k) || k[j] < '0' || k[j] > '9' {
				delete(d, k)
				break
			}
			nx := strings.Index(k[j:], pat)
			if nx < 0 {
				break
			}
			i = j + nx
		}
	}
	delete(d, "b:"+name)
	for k := range d {
		if strings.HasPrefix(k, "al:"+name+":") {
			delete(d, k)
		}
	}
}
