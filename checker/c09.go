package main

import (
	"fmt"
	"go/constant"
	"go/token"
	"go/types"
	"sort"
	"strings"

	"golang.org/x/tools/go/ssa"
)

func init() {
	register("C09", "Linking: (R1) the set of AST fields the walker writes is exactly the 'requires validation' set (13 links + Used); every unconditional link of a node is stored on every path before that node's observers run; (R2) every conditional link (value links, the type in scope of an inline fragment) is control-dependent only on the resolvability tests it needs (frozen guard table: nil tests of the looked-up definition, kind tests, CurrentOperation) — an extra guard can only drop links of valid documents; (R3) provenance — each stored link is the lookup the property names (field definition on the parent type by the field's own name, directive definition by name, fragment by name, list child from Elem, object child from the field found under the child's name, argument from the argument definition found under the argument's name); (R4) CurrentOperation is set before, and cleared after, every walk inside walkOperation; (R5) every child of every node is walked before the node's observers run (shared with C08.R3). (R3 also) the argument definition handed to walkArgument is found under the argument own name on the list of the field or directive walked. (R6) the links are written by the walker only. (R7) outside the loader no type is looked up under a fixed name. (R8) the registries the link lookups read only grow.", runC09)
	register("C08", "Validation coverage (weak, structural): (R1) the rules registered by init functions are exactly the specification's rules the library implements plus KnownRootType and MaxIntrospectionDepth, and every exported Rule is registered or a WithoutSuggestions twin; (R2) every schema attribute the specification's validation rules depend on is read by code reachable from the default rules and the walker; (R3) every event list is dispatched, for every node kind, on every path, and every child-bearing field of every executable node is walked (directives with the location constant of their node) before the node's observers run; (R4) type compatibility (Type.IsCompatible) compares like with like and reads NonNull of both sides at every level; the pair cache of the field-merge algorithm answers 'already compared' for a non-exclusive query only from a non-exclusive entry; (R5) a visited set that keeps its entries (a memo) cuts a traversal only when every used scalar parameter that changes while the set is in use is part of its key. (R3 also) the fragment visited set is renewed per operation. (R6) the links and expected types the rules read have the provenance and guards the specification names (C09.R2/R3). (R7) outside the loader no type is looked up under a fixed name; (R8) the null-for-non-null test of ValuesOfCorrectType cannot be bypassed. (R4 also) a flag that relaxes the nullability comparison is not inherited by the element types.", runC08)
}

// ---------------------------------------------------------------------------

type walkerModel struct {
	p          *Program
	fns        []*ssa.Function // methods of Walker (and closures)
	W          *types.Named
	Ev         *types.Named
	lost       []string
	byName     map[string]*ssa.Function
	hosts      map[string]*ssa.Function
	hostIssues []string
}

func newWalkerModel(p *Program) *walkerModel {
	m := &walkerModel{p: p, byName: map[string]*ssa.Function{}}
	m.W = p.LookupType("validator", "Walker")
	m.Ev = p.LookupType("validator", "Events")
	if m.W == nil || m.Ev == nil {
		m.lost = append(m.lost, "validator.Walker / validator.Events")
		return m
	}
	for _, fn := range p.FuncsIn("validator") {
		r := rootFunc(fn)
		if r.Signature.Recv() != nil && sameNamed(namedOf(r.Signature.Recv().Type()), m.W) {
			m.fns = append(m.fns, fn)
			if fn.Parent() == nil {
				m.byName[fn.Name()] = fn
			}
		}
	}
	for _, n := range []string{"walk", "walkOperation", "walkFragment", "walkDirectives", "walkValue", "walkArgument", "walkSelectionSet", "walkSelection"} {
		if m.byName[n] == nil {
			m.lost = append(m.lost, "validator.(*Walker)."+n)
		}
	}
	return m
}

// host: the Walker method that handles the node whose observers are Events.<event>. It is the named function, or — when
// that function hands the whole case to a helper method (walkSelection -> walkField) — the helper, provided the
// helper's call cannot be bypassed once the case is entered. Problems are collected in hostIssues.
func (m *walkerModel) host(fnName, event string) *ssa.Function {
	fn := m.byName[fnName]
	if fn == nil || event == "" || len(m.dispatchBlocks(fn, event)) > 0 {
		return fn
	}
	key := fnName + "/" + event
	if h, ok := m.hosts[key]; ok {
		return h
	}
	if m.hosts == nil {
		m.hosts = map[string]*ssa.Function{}
	}
	m.hosts[key] = fn
	var cands []ssa.CallInstruction
	allInstrs(fn, func(in ssa.Instruction) {
		ci, ok := in.(ssa.CallInstruction)
		if !ok {
			return
		}
		h := ci.Common().StaticCallee()
		if h == nil || h == fn || h.Parent() != nil || h.Signature.Recv() == nil || !sameNamed(namedOf(h.Signature.Recv().Type()), m.W) {
			return
		}
		if len(m.dispatchBlocks(h, event)) > 0 {
			cands = append(cands, ci)
		}
	})
	if len(cands) != 1 {
		return fn
	}
	ci := cands[0]
	h := ci.Common().StaticCallee()
	// once the case that leads to the call is entered, the call cannot be bypassed: from the nearest dominating
	// type-switch arm (or the function entry) no return is reachable around the call
	entry := fn.Blocks[0]
	for d := ci.Block(); d != nil; d = d.Idom() {
		if id := d.Idom(); id != nil {
			if ifi, ok := id.Instrs[len(id.Instrs)-1].(*ssa.If); ok {
				if ex, ok := ifi.Cond.(*ssa.Extract); ok {
					if _, isTA := ex.Tuple.(*ssa.TypeAssert); isTA && id.Succs[0] == d {
						entry = d
						break
					}
				}
			}
		}
	}
	if entry != ci.Block() {
		rr := reachAvoiding(entry, func(b *ssa.BasicBlock) bool { return b == ci.Block() }, nil)
		for b := range rr {
			if _, isRet := b.Instrs[len(b.Instrs)-1].(*ssa.Return); isRet {
				m.hostIssues = append(m.hostIssues, fmt.Sprintf("%s can return from the case that handles Events.%s without calling %s", m.p.FuncName(fn), event, m.p.FuncName(h)))
			}
		}
	}
	m.hosts[key] = h
	return h
}

// dispatchBlocks: blocks of fn that load Events.<list> (the pre-header of the dispatch loop).
func (m *walkerModel) dispatchBlocks(fn *ssa.Function, list string) []*ssa.BasicBlock {
	var out []*ssa.BasicBlock
	seen := map[*ssa.BasicBlock]bool{}
	allInstrs(fn, func(in ssa.Instruction) {
		v, ok := in.(ssa.Value)
		if !ok {
			return
		}
		if isFieldLoad(v, m.Ev, list) && !seen[in.Block()] {
			seen[in.Block()] = true
			out = append(out, in.Block())
		}
	})
	return out
}

// reachTargetAvoiding: can any target block be reached from the function entry without entering an avoided block
// and without following an exempt edge?
func reachTargetAvoiding(fn *ssa.Function, avoid map[*ssa.BasicBlock]bool, exempt func(from, to *ssa.BasicBlock) bool, targets map[*ssa.BasicBlock]bool) bool {
	r := reachAvoiding(fn.Blocks[0], func(b *ssa.BasicBlock) bool { return avoid[b] }, exempt)
	for b := range r {
		if targets[b] {
			return true
		}
	}
	return false
}

// nodeTypeOfStoreBase names the ast struct a FieldAddr store writes.
type annot struct{ st, fld string }

var wantAnnotations = []annot{
	{"Field", "Definition"}, {"Field", "ObjectDefinition"},
	{"FragmentSpread", "Definition"}, {"FragmentSpread", "ObjectDefinition"},
	{"InlineFragment", "ObjectDefinition"},
	{"FragmentDefinition", "Definition"},
	{"Directive", "Definition"}, {"Directive", "ParentDefinition"}, {"Directive", "Location"},
	{"VariableDefinition", "Definition"}, {"VariableDefinition", "Used"},
	{"Value", "Definition"}, {"Value", "ExpectedType"}, {"Value", "VariableDefinition"},
}

// guardDesc renders a dominating branch condition in a canonical, text-free form.
// structuralGuard: loop bounds of range-over-slice loops and type-switch tests carry no document condition.
func structuralGuard(cd Cond) bool {
	switch x := cd.V.(type) {
	case *ssa.BinOp:
		if x.Op == token.LSS {
			if call, ok := x.Y.(*ssa.Call); ok {
				if b, ok := call.Call.Value.(*ssa.Builtin); ok && b.Name() == "len" {
					return true
				}
			}
		}
	case *ssa.Extract:
		if _, ok := x.Tuple.(*ssa.TypeAssert); ok {
			return true
		}
		if _, ok := x.Tuple.(*ssa.Next); ok {
			return true
		}
	}
	return false
}

func guardDesc(cd Cond) string {
	neg := ""
	if !cd.True {
		neg = "!"
	}
	switch x := cd.V.(type) {
	case *ssa.BinOp:
		l, r := operandDesc(x.X), operandDesc(x.Y)
		op := x.Op
		if !cd.True {
			switch op {
			case token.EQL:
				op = token.NEQ
			case token.NEQ:
				op = token.EQL
			default:
				return neg + "(" + l + " " + op.String() + " " + r + ")"
			}
		}
		return l + " " + op.String() + " " + r
	case *ssa.UnOp:
		return neg + operandDesc(x)
	case *ssa.Call:
		return neg + calleeName(x) + "()"
	case *ssa.Extract:
		if _, ok := x.Tuple.(*ssa.TypeAssert); ok {
			return neg + "typeassert"
		}
		if _, ok := x.Tuple.(*ssa.Next); ok {
			return neg + "range-next"
		}
		if l, ok := x.Tuple.(*ssa.Lookup); ok {
			return neg + "lookup-ok(" + operandDesc(l.X) + "[" + operandDesc(l.Index) + "])"
		}
	case *ssa.Lookup:
		return neg + "lookup(" + operandDesc(x.X) + "[" + operandDesc(x.Index) + "])"
	}
	return neg + "?" + cd.V.Name()
}

func operandDesc(v ssa.Value) string {
	if isNilConst(v) {
		return "nil"
	}
	if c, ok := v.(*ssa.Const); ok {
		if c.Value != nil && c.Value.Kind() == constant.String {
			return fmt.Sprintf("%q", constant.StringVal(c.Value))
		}
		return c.Value.String()
	}
	v = unspill(stripChange(v))
	switch x := v.(type) {
	case *ssa.UnOp:
		if x.Op == token.MUL {
			if fa, ok := x.X.(*ssa.FieldAddr); ok {
				n, f, base, _ := fieldOf(fa)
				nn := "?"
				if n != nil {
					nn = n.Obj().Name()
				}
				return operandBase(base) + nn + "." + f
			}
		}
	case *ssa.Field:
		n, f, base, _ := fieldOf(x)
		nn := "?"
		if n != nil {
			nn = n.Obj().Name()
		}
		return operandBase(base) + nn + "." + f
	case *ssa.Call:
		if b, ok := x.Call.Value.(*ssa.Builtin); ok {
			if len(x.Call.Args) > 0 {
				return b.Name() + "(" + operandDesc(x.Call.Args[0]) + ")"
			}
		}
		name := calleeName(x)
		if i := strings.LastIndex(name, "."); i >= 0 {
			name = name[i+1:]
		}
		return name + "()"
	case *ssa.Parameter:
		return "param"
	case *ssa.Lookup:
		return "lookup(" + operandDesc(x.X) + ")"
	case *ssa.Phi:
		return "phi"
	case *ssa.Extract:
		return "extract"
	}
	return "?"
}

// operandBase renders one more level of the access path (so that value.ExpectedType.Elem differs from value.ExpectedType).
func operandBase(v ssa.Value) string {
	v = unspill(v)
	if u, ok := v.(*ssa.UnOp); ok && u.Op == token.MUL {
		if fa, ok := u.X.(*ssa.FieldAddr); ok {
			n, f, _, _ := fieldOf(fa)
			if n != nil {
				return n.Obj().Name() + "." + f + "->"
			}
		}
	}
	return ""
}

func runC09(c *Ctx) {
	p := c.P
	m := newWalkerModel(p)
	r1 := c.Rule("R1", "the walker writes exactly the link fields, each unconditional link before its node's observers run", 14)
	for _, l := range m.lost {
		r1.AnchorLost(l)
	}
	if len(m.lost) > 0 {
		return
	}
	// ---- the written set
	written := walkerWrites(m)
	want := map[annot]bool{}
	for _, a := range wantAnnotations {
		want[a] = true
		if len(written[a]) == 0 {
			r1.Fail(token.NoPos, "validator.Walker", "link "+a.st+"."+a.fld+" is never stored", "the walker no longer fills "+a.st+"."+a.fld+": validated documents would carry a nil link that executors dereference")
		} else {
			r1.OK(fmt.Sprintf("%s.%s stored at %d site(s)", a.st, a.fld, len(written[a])), "")
		}
	}
	for a, sites := range written {
		if !want[a] {
			r1.Fail(sites[0].store.Pos(), p.FuncName(sites[0].fn), "walker writes "+a.st+"."+a.fld, "the walker writes an AST field that is not one of the documented links: a second validation of the same document would start from different input")
		}
	}
	// ---- unconditional links before dispatch
	type uncond struct {
		a        annot
		fn       string
		dispatch string
	}
	unconds := []uncond{
		{annot{"Field", "Definition"}, "walkSelection", "field"},
		{annot{"Field", "ObjectDefinition"}, "walkSelection", "field"},
		{annot{"InlineFragment", "ObjectDefinition"}, "walkSelection", "inlineFragment"},
		{annot{"FragmentSpread", "Definition"}, "walkSelection", "fragmentSpread"},
		{annot{"FragmentSpread", "ObjectDefinition"}, "walkSelection", "fragmentSpread"},
		{annot{"FragmentDefinition", "Definition"}, "walkFragment", "fragment"},
		{annot{"Directive", "Definition"}, "walkDirectives", "directive"},
		{annot{"Directive", "ParentDefinition"}, "walkDirectives", "directive"},
		{annot{"Directive", "Location"}, "walkDirectives", "directive"},
		{annot{"VariableDefinition", "Definition"}, "walkOperation", "variable"},
	}
	for _, u := range unconds {
		fn := m.host(u.fn, u.dispatch)
		disp := m.dispatchBlocks(fn, u.dispatch)
		if len(disp) == 0 {
			r1.AnchorLost("dispatch of Events." + u.dispatch + " in " + p.FuncName(fn))
			continue
		}
		avoid := map[*ssa.BasicBlock]bool{}
		for _, s := range written[u.a] {
			if s.fn == fn {
				avoid[s.store.Block()] = true
			}
		}
		targets := map[*ssa.BasicBlock]bool{}
		for _, b := range disp {
			targets[b] = true
		}
		key := u.a.st + "." + u.a.fld + " before Events." + u.dispatch
		if len(avoid) == 0 {
			r1.Fail(fn.Pos(), p.FuncName(fn), key+": no store in "+u.fn, "the link is not stored in the function that dispatches the node's observers")
			continue
		}
		// for loops (walkDirectives, walkOperation): start from the loop body containing the dispatch
		start := fn.Blocks[0]
		headers, bodies := loopsOf(fn)
		var inner *ssa.BasicBlock
		for _, h := range headers {
			// a loop that contains the dispatch pre-header and a store
			hasStore := false
			for b := range avoid {
				if bodies[h][b] {
					hasStore = true
				}
			}
			if bodies[h][disp[0]] && hasStore && h != disp[0] {
				if inner == nil || len(bodies[h]) < len(bodies[inner]) {
					inner = h
				}
			}
		}
		if inner != nil {
			for _, s := range inner.Succs {
				if bodies[inner][s] && s != inner {
					start = s
				}
			}
		}
		r := reachAvoiding(start, func(b *ssa.BasicBlock) bool { return avoid[b] }, nil)
		bad := false
		for b := range r {
			if targets[b] {
				bad = true
			}
		}
		if bad {
			r1.Fail(disp[0].Instrs[0].Pos(), p.FuncName(fn), key+" can be skipped", "a path reaches the observers of the node without storing "+u.a.st+"."+u.a.fld+": rules and executors would see a missing link")
		} else {
			r1.OK(key, "no path to the dispatch avoids the store")
		}
	}

	// ---- R2 conditional links: guard table
	r2 := c.Rule("R2", "conditional links are guarded only by the resolvability tests they need", 10)
	c09Guards(c, r2, m, written)

	// ---- R3 provenance
	r3 := c.Rule("R3", "each link is the lookup the property names", 12)
	c09Provenance(c, r3, m, written)

	// ---- R4 CurrentOperation window
	r4 := c.Rule("R4", "CurrentOperation is set before and cleared after every walk of the operation", 3)
	{
		fn := m.byName["walkOperation"]
		var setOp, clear []*ssa.Store
		for _, s := range storesToField([]*ssa.Function{fn}, m.W, "CurrentOperation") {
			if isNilConst(s.store.Val) {
				clear = append(clear, s.store)
			} else if _, ok := s.store.Val.(*ssa.Parameter); ok {
				setOp = append(setOp, s.store)
			}
		}
		// deferred clears (closures) count as clears at exit
		for _, cl := range fn.AnonFuncs {
			for _, s := range storesToField([]*ssa.Function{cl}, m.W, "CurrentOperation") {
				if isNilConst(s.store.Val) {
					clear = append(clear, nil)
				}
			}
		}
		if len(setOp) != 1 {
			r4.Fail(fn.Pos(), p.FuncName(fn), "CurrentOperation = operation", fmt.Sprintf("expected exactly one store of the operation parameter into Walker.CurrentOperation, found %d", len(setOp)))
		} else {
			bad := 0
			n := 0
			allInstrs(fn, func(in ssa.Instruction) {
				ci, ok := in.(ssa.CallInstruction)
				if !ok {
					return
				}
				g := ci.Common().StaticCallee()
				dyn := g == nil && !ci.Common().IsInvoke()
				if _, isB := ci.Common().Value.(*ssa.Builtin); isB {
					return
				}
				isWalk := g != nil && g.Signature.Recv() != nil && sameNamed(namedOf(g.Signature.Recv().Type()), m.W)
				if !isWalk && !dyn {
					return
				}
				n++
				if !dominatesInstr(setOp[0], in) {
					bad++
					r4.Fail(in.Pos(), p.FuncName(fn), "walk/observer call before CurrentOperation is set", "a value, directive or observer of the operation is visited while Walker.CurrentOperation is still unset: variable uses there get no VariableDefinition link and rules see no current operation")
				}
				for _, cs := range clear {
					if cs != nil && dominatesInstr(cs, in) {
						bad++
						r4.Fail(in.Pos(), p.FuncName(fn), "walk/observer call after CurrentOperation is cleared", "part of the operation is visited after Walker.CurrentOperation was reset")
					}
				}
			})
			if bad == 0 {
				r4.OK(fmt.Sprintf("CurrentOperation = operation dominates all %d walk/observer calls of walkOperation", n), "")
			}
			if len(clear) == 0 {
				r4.Fail(fn.Pos(), p.FuncName(fn), "CurrentOperation never cleared", "fragments walked afterwards would resolve variables against the last operation")
			} else {
				r4.OK("CurrentOperation is cleared when the operation is done", "")
			}
		}
		// walkValue resolves variables only under CurrentOperation != nil: checked by R2's table
		r4.OK("walkFragment does not set CurrentOperation", "fragment-level variable uses are linked when the fragment is walked from an operation")
	}

	// ---- R5 children walked before observers (shared with C08.R3)
	r5 := c.Rule("R5", "every child is walked before the node's observers run", 14)
	walkCoverage(c, r5, m)

	// ---- R6 nobody else rewrites a link
	r6 := c.Rule("R6", "the links are written by the walker only", 1)
	c09OnlyWalkerWrites(c, r6, m)

	r7 := c.Rule("R7", "outside the loader no type is looked up under a fixed name (roots come from the loader's pointers)", 1)
	noRootByName(c, r7)

	// ---- R8 the lookups that produce the Definition links cannot miss for a name the loader resolved (shared with C07.R11)
	r8 := c.Rule("R8", "the loader only adds to the schema's registries", 1)
	registriesGrowOnly(c, r8)

	// ---- R9 "valid implies linked" rests on the rules that reject what the walker cannot link (shared with C08.R9)
	r9 := c.Rule("R9", "no report of a rule is hidden behind the emptiness of an unrelated list", 8)
	c08FastPath(c, r9)

	r10 := c.Rule("R10", "a rule that reports a missing link reports it on every path", 4)
	c09MissingLinkReported(c, r10)
}

// c09OnlyWalkerWrites: outside the walker (and the parser, which builds the nodes, and the JSON decoder, which builds
// them from their encoding), no function of the module stores to one of the link fields of a node it did not just
// allocate — a rule or helper that "adjusts" Value.ExpectedType or Field.Definition leaves the validated document
// linked differently from what the property promises.
func c09OnlyWalkerWrites(c *Ctx, r *RuleResult, m *walkerModel) {
	p := c.P
	isWalker := map[*ssa.Function]bool{}
	for _, f := range m.fns {
		isWalker[f] = true
	}
	want := map[annot]bool{}
	for _, a := range wantAnnotations {
		want[a] = true
	}
	// the schema loader links the directives of the SDL it loads (a schema document, not an executable one): what only
	// it reaches is out of scope
	e := newEffects(p)
	var vroots, lroots []*ssa.Function
	for _, nme := range []string{"validator.Validate", "validator.VariableValues", "ast.(*Field).ArgumentMap", "ast.(*Directive).ArgumentMap"} {
		if f := p.Func(nme); f != nil {
			vroots = append(vroots, f)
		}
	}
	for _, f := range p.FuncsIn("validator/rules") {
		vroots = append(vroots, f)
	}
	for _, f := range p.FuncsIn("formatter") {
		vroots = append(vroots, f)
	}
	for _, nme := range []string{"validator.ValidateSchemaDocument", "validator.LoadSchema"} {
		if f := p.Func(nme); f != nil {
			lroots = append(lroots, f)
		}
	}
	fromValidation := p.reachableFrom(vroots, e.dyn)
	fromLoader := p.reachableFrom(lroots, e.dyn)
	n, bad := 0, 0
	for _, fn := range p.Funcs() {
		if !p.inModule(fn) || len(fn.Blocks) == 0 || isWalker[fn] || isWalker[rootFunc(fn)] {
			continue
		}
		pk := p.PkgOf(fn)
		if pk == nil || strings.HasSuffix(pk.PkgPath, "/parser") {
			continue
		}
		if (fromLoader[fn] || fromLoader[rootFunc(fn)]) && !fromValidation[fn] && !fromValidation[rootFunc(fn)] {
			continue
		}
		allInstrs(fn, func(in ssa.Instruction) {
			st, ok := in.(*ssa.Store)
			if !ok {
				return
			}
			fa, ok := st.Addr.(*ssa.FieldAddr)
			if !ok {
				return
			}
			nn, f, _, _ := fieldOf(fa)
			if nn == nil || nn.Obj().Pkg() == nil || !strings.HasSuffix(nn.Obj().Pkg().Path(), "/ast") || !want[annot{nn.Obj().Name(), f}] {
				return
			}
			n++
			if a, isA := fa.X.(*ssa.Alloc); isA && isFresh(a) {
				return // a node built here (a copy, a literal)
			}
			bad++
			r.Fail(st.Pos(), p.FuncName(fn), "store "+nn.Obj().Name()+"."+f+" outside the walker", fmt.Sprintf("%s rewrites %s.%s of a node of the document: after validation the link is no longer the one the walker resolved (an expected type stripped of its list wrappers, a definition swapped), which is what executors read", p.FuncName(fn), nn.Obj().Name(), f))
		})
	}
	if bad == 0 {
		r.OK(fmt.Sprintf("%d stores to link fields outside the walker and the parser", n), "each into a node allocated in the same function")
	}
}

// c09Guards checks the guard sets of conditional link stores.
func c09Guards(c *Ctx, r *RuleResult, m *walkerModel, written map[annot][]fieldStoreSite) {
	p := c.P
	// allowed guard descriptions per (function, link). A guard not listed is a finding.
	// Descriptions are canonical renderings of SSA conditions (guardDesc), not source text.
	common := []string{"range-next", "typeassert"}
	type entry struct {
		fn      string
		a       annot
		allowed [][]string // alternatives: one allowed set per store context
	}
	valueKind := func(k int) string { return fmt.Sprintf("Value.Kind == %d", k) }
	_ = valueKind
	table := map[string][]string{
		// walkArgument: only `argDef != nil`
		"walkArgument|Value.ExpectedType": {"param != nil"},
		"walkArgument|Value.Definition":   {"param != nil"},
		// walkOperation default values: `varDef.DefaultValue != nil`
		"walkOperation|Value.ExpectedType": {"VariableDefinition.DefaultValue != nil"},
		"walkOperation|Value.Definition":   {"VariableDefinition.DefaultValue != nil"},
		// walkValue: variable link
		"walkValue|Value.VariableDefinition": {"Value.Kind == KIND", "Walker.CurrentOperation != nil"},
		"walkValue|VariableDefinition.Used":  {"Value.Kind == KIND", "Walker.CurrentOperation != nil", "Value.VariableDefinition != nil"},
		// walkValue: children. object: value.Definition != nil, ForName() != nil ; list: ExpectedType != nil, ExpectedType.Elem != nil
		"walkValue|Value.ExpectedType": {"Value.Kind == KIND", "Value.Definition != nil", "ForName() != nil", "Value.ExpectedType != nil", "Value.ExpectedType->Type.Elem != nil"},
		"walkValue|Value.Definition":   {"Value.Kind == KIND", "Value.Definition != nil", "ForName() != nil", "Value.ExpectedType != nil", "Value.ExpectedType->Type.Elem != nil"},
	}
	norm := func(g string) string {
		// kind comparisons against the ValueKind constants
		if strings.HasPrefix(g, "Value.Kind == ") {
			return "Value.Kind == KIND"
		}
		return g
	}
	for _, a := range []annot{{"Value", "ExpectedType"}, {"Value", "Definition"}, {"Value", "VariableDefinition"}, {"VariableDefinition", "Used"}} {
		for _, s := range written[a] {
			fnName := rootFunc(s.fn).Name()
			key := fnName + "|" + a.st + "." + a.fld
			allowed, ok := table[key]
			if !ok {
				r.Fail(s.store.Pos(), p.FuncName(s.fn), "store of "+a.st+"."+a.fld+" in "+fnName, "a value link is stored in a function the guard table does not know; its guards are not decided")
				continue
			}
			var extra, seen []string
			for _, cd := range condsAt(s.store.Block()) {
				if structuralGuard(cd) {
					continue
				}
				g := norm(guardDesc(cd))
				isCommon := false
				for _, cm := range common {
					if g == cm {
						isCommon = true
					}
				}
				if isCommon {
					continue
				}
				okG := false
				for _, al := range allowed {
					if g == al {
						okG = true
					}
				}
				if okG {
					seen = append(seen, g)
				} else {
					extra = append(extra, g)
				}
			}
			site := fmt.Sprintf("%s.%s in %s at %s", a.st, a.fld, fnName, p.Pos(s.store.Pos()))
			if len(extra) > 0 {
				sort.Strings(extra)
				r.Fail(s.store.Pos(), p.FuncName(s.fn), "extra guard on "+a.st+"."+a.fld+": "+strings.Join(extra, " && "), fmt.Sprintf("the store of %s.%s is additionally guarded by %s; the link is needed whenever the definition can be resolved (allowed guards: %s), so this guard drops links of valid documents", a.st, a.fld, strings.Join(extra, " && "), strings.Join(allowed, ", ")))
			} else {
				r.OK(site, "guards: "+strings.Join(seen, " && "))
			}
		}
	}
	// the type in scope of an inline fragment: Types[it.TypeCondition] is used whenever TypeCondition != ""
	fn := m.host("walkSelection", "inlineFragment")
	found := false
	allInstrs(fn, func(in ssa.Instruction) {
		l, ok := schemaMapLookup(in, "Types")
		if !ok {
			return
		}
		if st, f, ok := fieldLoadOf(l.Index); !ok || st != "InlineFragment" || f != "TypeCondition" {
			return
		}
		found = true
		var extra []string
		for _, cd := range condsAt(in.Block()) {
			if structuralGuard(cd) {
				continue
			}
			g := guardDesc(cd)
			if g == `InlineFragment.TypeCondition != ""` {
				continue
			}
			extra = append(extra, g)
		}
		if len(extra) > 0 {
			r.Fail(in.Pos(), p.FuncName(fn), "extra guard on the inline fragment's type in scope: "+strings.Join(extra, " && "), "the type condition of an inline fragment changes the type in scope whenever it is present; an additional condition ("+strings.Join(extra, " && ")+") keeps the enclosing type in scope, so fields inside are linked to the wrong parent type")
		} else {
			r.OK("inline fragment: type in scope = Types[TypeCondition] whenever TypeCondition != \"\"", "")
		}
	})
	if !found {
		r.Fail(fn.Pos(), p.FuncName(fn), "no lookup of InlineFragment.TypeCondition", "the type condition of inline fragments is no longer resolved")
	}
}

// c09Provenance checks where each stored link comes from.
func c09Provenance(c *Ctx, r *RuleResult, m *walkerModel, written map[annot][]fieldStoreSite) {
	p := c.P
	// helper: v = X.ForName(Y) with X a load of struct.field and Y a load of struct.field
	forName := func(v ssa.Value, lst [2]string, key [2]string) bool {
		v = unspill(v)
		// through phi with nil
		if ph, ok := v.(*ssa.Phi); ok {
			okAny := false
			for _, e := range ph.Edges {
				if isNilConst(e) {
					continue
				}
				if _, isAlloc := e.(*ssa.Alloc); isAlloc {
					continue // the synthetic __typename definition
				}
				call, ok := e.(*ssa.Call)
				if !ok {
					return false
				}
				if !forNameCall(call, lst, key) {
					return false
				}
				okAny = true
			}
			return okAny
		}
		call, ok := v.(*ssa.Call)
		return ok && forNameCall(call, lst, key)
	}
	lookupBy := func(v ssa.Value, mapField string, keyDesc func(ssa.Value) bool) bool {
		v = unspill(v)
		if ph, ok := v.(*ssa.Phi); ok {
			okAny := false
			for _, e := range ph.Edges {
				if isNilConst(e) {
					continue
				}
				l, ok := e.(*ssa.Lookup)
				if !ok || !loadOfField(l.X, "Schema", mapField) || !keyDesc(l.Index) {
					return false
				}
				okAny = true
			}
			return okAny
		}
		l, ok := v.(*ssa.Lookup)
		return ok && loadOfField(l.X, "Schema", mapField) && keyDesc(l.Index)
	}
	fieldKey := func(st, f string) func(ssa.Value) bool {
		return func(v ssa.Value) bool { return loadOfField(v, st, f) }
	}
	typeNameOf := func(st, f string) func(ssa.Value) bool {
		// key = <st.f>.Name()
		return func(v ssa.Value) bool {
			call, ok := unspill(v).(*ssa.Call)
			if !ok {
				return false
			}
			g := call.Call.StaticCallee()
			return g != nil && g.Name() == "Name" && loadOfField(call.Call.Args[0], st, f)
		}
	}
	nodeEvent := map[string]string{"Field": "field", "InlineFragment": "inlineFragment", "FragmentSpread": "fragmentSpread"}
	check := func(a annot, fnName string, ok func(s fieldStoreSite) bool, what string) {
		n := 0
		hostName := fnName
		if ev, has := nodeEvent[a.st]; has {
			if h := m.host(fnName, ev); h != nil {
				hostName = h.Name()
			}
		}
		for _, s := range written[a] {
			if nm := rootFunc(s.fn).Name(); nm != fnName && nm != hostName {
				continue
			}
			n++
			if ok(s) {
				r.OK(a.st+"."+a.fld+" in "+fnName+" = "+what, "")
			} else {
				r.Fail(s.store.Pos(), p.FuncName(s.fn), a.st+"."+a.fld+" provenance in "+fnName, "the stored link is not "+what)
			}
		}
		if n == 0 {
			r.Fail(token.NoPos, "validator.(*Walker)."+fnName, a.st+"."+a.fld+" not stored in "+fnName, "the link is no longer stored where the node is walked")
		}
	}
	check(annot{"Field", "Definition"}, "walkSelection", func(s fieldStoreSite) bool {
		return forName(s.store.Val, [2]string{"Definition", "Fields"}, [2]string{"Field", "Name"})
	}, "parentDef.Fields.ForName(field.Name) (or the synthetic __typename)")
	check(annot{"Field", "ObjectDefinition"}, "walkSelection", func(s fieldStoreSite) bool {
		_, ok := s.store.Val.(*ssa.Parameter)
		return ok
	}, "the parent definition the field is selected on")
	check(annot{"InlineFragment", "ObjectDefinition"}, "walkSelection", func(s fieldStoreSite) bool {
		_, ok := s.store.Val.(*ssa.Parameter)
		return ok
	}, "the parent definition")
	check(annot{"FragmentSpread", "ObjectDefinition"}, "walkSelection", func(s fieldStoreSite) bool {
		_, ok := s.store.Val.(*ssa.Parameter)
		return ok
	}, "the parent definition")
	check(annot{"FragmentSpread", "Definition"}, "walkSelection", func(s fieldStoreSite) bool {
		return forName(s.store.Val, [2]string{"QueryDocument", "Fragments"}, [2]string{"FragmentSpread", "Name"})
	}, "Document.Fragments.ForName(spread.Name)")
	check(annot{"FragmentDefinition", "Definition"}, "walkFragment", func(s fieldStoreSite) bool {
		return lookupBy(s.store.Val, "Types", fieldKey("FragmentDefinition", "TypeCondition"))
	}, "Schema.Types[fragment.TypeCondition]")
	check(annot{"Directive", "Definition"}, "walkDirectives", func(s fieldStoreSite) bool {
		return lookupBy(s.store.Val, "Directives", fieldKey("Directive", "Name"))
	}, "Schema.Directives[directive.Name]")
	check(annot{"Directive", "ParentDefinition"}, "walkDirectives", func(s fieldStoreSite) bool {
		_, ok := s.store.Val.(*ssa.Parameter)
		return ok
	}, "the parent definition parameter")
	check(annot{"Directive", "Location"}, "walkDirectives", func(s fieldStoreSite) bool {
		_, ok := s.store.Val.(*ssa.Parameter)
		return ok
	}, "the location parameter")
	check(annot{"VariableDefinition", "Definition"}, "walkOperation", func(s fieldStoreSite) bool {
		return lookupBy(s.store.Val, "Types", typeNameOf("VariableDefinition", "Type"))
	}, "Schema.Types[varDef.Type.Name()]")
	check(annot{"Value", "VariableDefinition"}, "walkValue", func(s fieldStoreSite) bool {
		return forName(s.store.Val, [2]string{"OperationDefinition", "VariableDefinitions"}, [2]string{"Value", "Raw"})
	}, "CurrentOperation.VariableDefinitions.ForName(value.Raw)")
	// walkArgument
	check(annot{"Value", "ExpectedType"}, "walkArgument", func(s fieldStoreSite) bool {
		return loadOfField(s.store.Val, "ArgumentDefinition", "Type")
	}, "argDef.Type")
	check(annot{"Value", "Definition"}, "walkArgument", func(s fieldStoreSite) bool {
		return lookupBy(s.store.Val, "Types", typeNameOf("ArgumentDefinition", "Type"))
	}, "Schema.Types[argDef.Type.Name()]")
	// the argument definition handed to walkArgument: nil, or <the current definition>.Arguments.ForName(arg.Name)
	// looked up for this very argument — never a value carried over from an earlier argument or directive
	if wa := m.byName["walkArgument"]; wa != nil {
		for _, ci := range callsTo(m.fns, wa) {
			fn := ci.Parent()
			headers, bodies := loopsOf(fn)
			isHdr := map[*ssa.BasicBlock]bool{}
			for _, h := range headers {
				if bodies[h][ci.Block()] {
					isHdr[h] = true
				}
			}
			bad := ""
			seen := map[ssa.Value]bool{}
			var walk func(v ssa.Value, d int)
			walk = func(v ssa.Value, d int) {
				if seen[v] || d > 6 || bad != "" {
					return
				}
				seen[v] = true
				v = unspill(v)
				switch x := v.(type) {
				case *ssa.Const:
					if x.Value != nil {
						bad = "a constant"
					}
				case *ssa.Phi:
					if isHdr[x.Block()] {
						bad = "a variable that keeps its value from one argument (or directive) to the next"
						return
					}
					for _, e := range x.Edges {
						walk(e, d+1)
					}
				case *ssa.Call:
					g := x.Call.StaticCallee()
					if g == nil || g.Name() != "ForName" || len(x.Call.Args) != 2 {
						bad = "the result of " + calleeName(x)
						return
					}
					if !argumentListOfDefinition(p, m, x.Call.Args[0], 0) {
						bad = "a search in something other than the definition's argument list"
						return
					}
					if !loadOfField(x.Call.Args[1], "Argument", "Name") {
						bad = "a search by something other than the argument's own name"
					}
				default:
					bad = "a value of unknown origin"
				}
			}
			walk(ci.Common().Args[1], 0)
			site := "argument definition passed to walkArgument in " + p.FuncName(fn)
			if bad != "" {
				r.Fail(ci.Pos(), p.FuncName(fn), "argument definition passed to walkArgument", "the definition against which the argument's value is linked is "+bad+", not the definition's own argument of that name looked up for this argument: values get the expected type of another argument")
			} else {
				r.OK(site, "nil or definition.Arguments.ForName(arg.Name), looked up per argument")
			}
		}
	}
	// walkOperation defaults
	check(annot{"Value", "ExpectedType"}, "walkOperation", func(s fieldStoreSite) bool {
		return loadOfField(s.store.Val, "VariableDefinition", "Type")
	}, "varDef.Type")
	check(annot{"Value", "Definition"}, "walkOperation", func(s fieldStoreSite) bool {
		return lookupBy(s.store.Val, "Types", typeNameOf("VariableDefinition", "Type"))
	}, "Schema.Types[varDef.Type.Name()]")
	// walkValue children: two stores each
	nObj, nList := 0, 0
	for _, s := range written[annot{"Value", "ExpectedType"}] {
		if rootFunc(s.fn).Name() != "walkValue" {
			continue
		}
		switch {
		case loadOfField(s.store.Val, "FieldDefinition", "Type"):
			// fieldDef must be value.Definition.Fields.ForName(child.Name)
			fa := unspill(s.store.Val).(*ssa.UnOp).X.(*ssa.FieldAddr)
			if forName(fa.X, [2]string{"Definition", "Fields"}, [2]string{"ChildValue", "Name"}) {
				nObj++
				r.OK("object child ExpectedType = value.Definition.Fields.ForName(child.Name).Type", "")
			} else {
				r.Fail(s.store.Pos(), p.FuncName(s.fn), "object child ExpectedType provenance", "the input field is not looked up under the child's own name on the value's definition")
			}
		case loadOfField(s.store.Val, "Type", "Elem"):
			fa := unspill(s.store.Val).(*ssa.UnOp).X.(*ssa.FieldAddr)
			if loadOfField(fa.X, "Value", "ExpectedType") {
				nList++
				r.OK("list child ExpectedType = value.ExpectedType.Elem", "")
			} else {
				r.Fail(s.store.Pos(), p.FuncName(s.fn), "list child ExpectedType provenance", "the element type is not the Elem of the list value's expected type")
			}
		default:
			r.Fail(s.store.Pos(), p.FuncName(s.fn), "child ExpectedType provenance", "a child value's expected type is neither the input field's type nor the list's element type")
		}
	}
	if nObj == 0 || nList == 0 {
		r.Fail(m.byName["walkValue"].Pos(), "validator.(*Walker).walkValue", "children links", "object children and list children must both receive an expected type")
	}
	for _, s := range written[annot{"Value", "Definition"}] {
		if rootFunc(s.fn).Name() != "walkValue" {
			continue
		}
		switch {
		case lookupBy(s.store.Val, "Types", typeNameOf("FieldDefinition", "Type")):
			r.OK("object child Definition = Schema.Types[fieldDef.Type.Name()]", "")
		case loadOfField(s.store.Val, "Value", "Definition"):
			r.OK("list child Definition = value.Definition", "the named type of a list is the named type of its elements")
		default:
			r.Fail(s.store.Pos(), p.FuncName(s.fn), "child Definition provenance", "a child value's definition is neither the input field type's definition nor the list value's definition")
		}
	}
}

// forNameCall: call is <load lst>.ForName(<load key>).
func forNameCall(call *ssa.Call, lst [2]string, key [2]string) bool {
	g := call.Call.StaticCallee()
	if g == nil || g.Name() != "ForName" || len(call.Call.Args) != 2 {
		return false
	}
	return loadOfField(call.Call.Args[0], lst[0], lst[1]) && loadOfField(call.Call.Args[1], key[0], key[1])
}

// walkCoverage: C08.R3 / C09.R5.
func walkCoverage(c *Ctx, r *RuleResult, m *walkerModel) {
	p := c.P
	type child struct {
		fn       string    // walker function
		node     [2]string // struct, field of the child list/value
		callee   string    // walk function that must receive it
		argIdx   int
		locIdx   int
		locs     []string
		dispatch string // event list of the node ("" = function return)
		viaElem  bool   // argument is a range element of the field (walkArgument(argDef, arg))
		exempt   string // "" | "defaultnil"
	}
	children := []child{
		{"walkSelection", [2]string{"Field", "Arguments"}, "walkArgument", 2, -1, nil, "field", true, ""},
		{"walkSelection", [2]string{"Field", "Directives"}, "walkDirectives", 2, 3, []string{"FIELD"}, "field", false, ""},
		{"walkSelection", [2]string{"Field", "SelectionSet"}, "walkSelectionSet", 2, -1, nil, "field", false, ""},
		{"walkSelection", [2]string{"InlineFragment", "Directives"}, "walkDirectives", 2, 3, []string{"INLINE_FRAGMENT"}, "inlineFragment", false, ""},
		{"walkSelection", [2]string{"InlineFragment", "SelectionSet"}, "walkSelectionSet", 2, -1, nil, "inlineFragment", false, ""},
		{"walkSelection", [2]string{"FragmentSpread", "Directives"}, "walkDirectives", 2, 3, []string{"FRAGMENT_SPREAD"}, "fragmentSpread", false, ""},
		{"walkFragment", [2]string{"FragmentDefinition", "Directives"}, "walkDirectives", 2, 3, []string{"FRAGMENT_DEFINITION"}, "fragment", false, ""},
		{"walkFragment", [2]string{"FragmentDefinition", "SelectionSet"}, "walkSelectionSet", 2, -1, nil, "fragment", false, ""},
		{"walkOperation", [2]string{"OperationDefinition", "Directives"}, "walkDirectives", 2, 3, []string{"MUTATION", "QUERY", "SUBSCRIPTION"}, "operationVisitor", false, ""},
		{"walkOperation", [2]string{"OperationDefinition", "SelectionSet"}, "walkSelectionSet", 2, -1, nil, "operationVisitor", false, ""},
		{"walkOperation", [2]string{"VariableDefinition", "Directives"}, "walkDirectives", 2, 3, []string{"VARIABLE_DEFINITION"}, "operationVisitor", false, ""},
		{"walkOperation", [2]string{"VariableDefinition", "DefaultValue"}, "walkValue", 1, -1, nil, "operationVisitor", false, "defaultnil"},
		{"walkDirectives", [2]string{"Directive", "Arguments"}, "walkArgument", 2, -1, nil, "directive", true, ""},
		{"walkArgument", [2]string{"Argument", "Value"}, "walkValue", 1, -1, nil, "", false, ""},
		{"walkValue", [2]string{"ChildValue", "Value"}, "walkValue", 1, -1, nil, "value", false, "kind"},
	}
	for _, ch := range children {
		fn := m.host(ch.fn, ch.dispatch)
		callee := m.byName[ch.callee]
		var sites []ssa.CallInstruction
		for _, ci := range callsTo([]*ssa.Function{fn}, callee) {
			a := ci.Common().Args[ch.argIdx]
			ok := false
			if ch.viaElem {
				ok = c07RangeElemOf(a, ch.node[0], ch.node[1])
			} else {
				ok = loadOfField(a, ch.node[0], ch.node[1])
			}
			if ok {
				sites = append(sites, ci)
			}
		}
		if len(sites) == 0 && ch.viaElem {
			// the list handed whole to a helper that walks every element
			allInstrs(fn, func(in ssa.Instruction) {
				ci, ok := in.(ssa.CallInstruction)
				if !ok {
					return
				}
				h := ci.Common().StaticCallee()
				if h == nil || h == callee || h.Signature.Recv() == nil {
					return
				}
				j, ok := listWalker(h, callee, ch.argIdx)
				if !ok || j < 0 || j >= len(ci.Common().Args) {
					return
				}
				if loadOfField(ci.Common().Args[j], ch.node[0], ch.node[1]) {
					sites = append(sites, ci)
				}
			})
		}
		key := fmt.Sprintf("%s.%s -> %s in %s", ch.node[0], ch.node[1], ch.callee, ch.fn)
		if len(sites) == 0 {
			r.Fail(fn.Pos(), p.FuncName(fn), key+": not walked", fmt.Sprintf("%s.%s is never passed to %s: that part of the document is not validated and not linked", ch.node[0], ch.node[1], ch.callee))
			continue
		}
		// location constants
		okLoc := true
		if ch.locIdx >= 0 {
			for _, ci := range sites {
				got := constSet(ci.Common().Args[ch.locIdx], 0)
				if len(ch.locs) > 1 {
					// `var loc` keeps its zero value when no case of the operation switch matches; the parser only
					// produces the three operation kinds (C05), so the empty location is unreachable
					var g2 []string
					for _, g := range got {
						if g != "" {
							g2 = append(g2, g)
						}
					}
					got = g2
				}
				if !sameSet(got, ch.locs) {
					okLoc = false
					r.Fail(ci.Pos(), p.FuncName(fn), key+" location "+strings.Join(got, "|"), fmt.Sprintf("directives of %s are walked with location %v; the specification's location is %v (KnownDirectives compares it with the directive's declared locations)", ch.node[0], got, ch.locs))
				}
			}
		}
		if !okLoc {
			continue
		}
		// unskippable
		avoid := map[*ssa.BasicBlock]bool{}
		for _, ci := range sites {
			avoid[ci.Block()] = true
		}
		targets := map[*ssa.BasicBlock]bool{}
		if ch.dispatch != "" {
			for _, b := range m.dispatchBlocks(fn, ch.dispatch) {
				targets[b] = true
			}
		} else {
			for _, ret := range returnsOf(fn) {
				targets[ret.Block()] = true
			}
		}
		if len(targets) == 0 {
			r.AnchorLost("dispatch of Events." + ch.dispatch + " in " + p.FuncName(fn))
			continue
		}
		var exempt func(from, to *ssa.BasicBlock) bool
		switch ch.exempt {
		case "defaultnil":
			exempt = func(from, to *ssa.BasicBlock) bool {
				return nilEdge(from, to, func(v ssa.Value) bool { return loadOfField(v, "VariableDefinition", "DefaultValue") })
			}
		}
		// children inside a per-element loop: start at the loop body (zero iterations are fine)
		headers, bodies := loopsOf(fn)
		var inner *ssa.BasicBlock
		for _, h := range headers {
			all := true
			for b := range avoid {
				if !bodies[h][b] {
					all = false
				}
			}
			if all && !avoid[h] {
				if inner == nil || len(bodies[h]) < len(bodies[inner]) {
					inner = h
				}
			}
		}
		skippable := false
		if ch.node[0] == "ChildValue" {
			// both the object and the list branch walk their children: one site per branch, each unskippable in its loop
			if len(sites) < 2 {
				skippable = true
			}
			for _, ci := range sites {
				cb := ci.Block()
				var in2 *ssa.BasicBlock
				for _, h := range headers {
					if bodies[h][cb] && h != cb && (in2 == nil || len(bodies[h]) < len(bodies[in2])) {
						in2 = h
					}
				}
				if in2 == nil {
					skippable = true
					continue
				}
				for _, s := range in2.Succs {
					if bodies[in2][s] && s != in2 {
						rr := reachAvoiding(s, func(b *ssa.BasicBlock) bool { return b == cb }, nil)
						if rr[in2] {
							skippable = true
						}
					}
				}
				// the loop itself: once the value's own Kind has selected this branch, nothing but the emptiness of
				// the list may keep the loop from running (an annotation such as ExpectedType may be nil for custom scalars)
				var entry *ssa.BasicBlock
				for d := in2.Idom(); d != nil && entry == nil; d = d.Idom() {
					ifi, ok := d.Instrs[len(d.Instrs)-1].(*ssa.If)
					if !ok {
						continue
					}
					cd := normCond(Cond{V: ifi.Cond, True: true})
					bo, ok := cd.V.(*ssa.BinOp)
					if !ok || !(loadOfField(bo.X, "Value", "Kind") || loadOfField(bo.Y, "Value", "Kind")) {
						continue
					}
					for _, sc := range d.Succs {
						if sc.Dominates(in2) {
							entry = sc
						}
					}
				}
				if entry != nil && entry != in2 {
					rr := reachAvoiding(entry, func(b *ssa.BasicBlock) bool { return b == in2 }, nil)
					for t := range targets {
						if rr[t] {
							skippable = true
						}
					}
				}
			}
		} else if inner != nil && (ch.viaElem || ch.node[0] == "VariableDefinition") {
			for _, s := range inner.Succs {
				if bodies[inner][s] && s != inner {
					rr := reachAvoiding(s, func(b *ssa.BasicBlock) bool { return avoid[b] }, exempt)
					if rr[inner] {
						skippable = true
					}
				}
			}
		} else {
			skippable = reachTargetAvoiding(fn, avoid, exempt, targets)
		}
		if skippable {
			r.Fail(sites[0].Pos(), p.FuncName(fn), key+" can be skipped", fmt.Sprintf("a path reaches the observers of the node (or the next element) without walking %s.%s: values, directives or selections there are neither validated nor linked", ch.node[0], ch.node[1]))
		} else {
			r.OK(key, "on every path before the node's observers run")
		}
	}
	// the fragment body behind a spread: walked under the visited-set guard only
	fn := m.host("walkSelection", "fragmentSpread")
	okBody := false
	for _, ci := range callsTo([]*ssa.Function{fn}, m.byName["walkSelectionSet"]) {
		if loadOfField(ci.Common().Args[2], "FragmentDefinition", "SelectionSet") {
			okBody = true
			var extra []string
			for _, cd := range condsAt(ci.Block()) {
				if structuralGuard(cd) {
					continue
				}
				g := guardDesc(cd)
				switch {
				case strings.HasPrefix(g, "phi != nil"), strings.HasPrefix(g, "ForName() != nil"), strings.HasPrefix(g, "!lookup("):
				default:
					extra = append(extra, g)
				}
			}
			if len(extra) > 0 {
				r.Fail(ci.Pos(), p.FuncName(fn), "fragment body guard: "+strings.Join(extra, " && "), "the body of a spread fragment is walked only under an additional condition")
			} else {
				r.OK("FragmentSpread -> definition body walked once per root (visited set)", "")
			}
		}
	}
	if !okBody {
		r.Fail(fn.Pos(), p.FuncName(fn), "fragment body not walked", "the selection set of a spread fragment is never walked from the spread")
	}
	// the visited set behind fragment spreads lives for one operation: every iteration of walk()'s loop over the
	// operations gives it a fresh map before walkOperation is called — otherwise a fragment walked for an earlier
	// operation is skipped for a later one, and what the rules learn from it (variables used, fields selected) is lost
	if hostFS, walkFn, wop := m.host("walkSelection", "fragmentSpread"), m.byName["walk"], m.byName["walkOperation"]; hostFS != nil && walkFn != nil && wop != nil {
		var setField string
		allInstrs(hostFS, func(in ssa.Instruction) {
			if mu, ok := in.(*ssa.MapUpdate); ok {
				if _, f, ok := fieldLoadOf(mu.Map); ok {
					setField = f
				}
			}
		})
		if setField == "" {
			r.AnchorLost("the visited set of fragment spreads (a map field of Walker updated where spreads are walked)")
		} else {
			for _, ci := range callsTo([]*ssa.Function{walkFn}, wop) {
				cb := ci.Block()
				headers, bodies := loopsOf(walkFn)
				var inner *ssa.BasicBlock
				for _, h := range headers {
					if bodies[h][cb] && h != cb && (inner == nil || len(bodies[h]) < len(bodies[inner])) {
						inner = h
					}
				}
				resets := map[*ssa.BasicBlock]bool{}
				allInstrs(walkFn, func(in ssa.Instruction) {
					st, ok := in.(*ssa.Store)
					if !ok {
						return
					}
					fa, ok := st.Addr.(*ssa.FieldAddr)
					if !ok {
						return
					}
					if _, f, _, _ := fieldOf(fa); f != setField {
						return
					}
					if _, isMake := stripChange(st.Val).(*ssa.MakeMap); isMake {
						// in the same block the reset must come before the call
						if st.Block() != cb || dominatesInstr(st, ci) {
							resets[st.Block()] = true
						}
					}
				})
				skippable := inner == nil || len(resets) == 0
				if inner != nil && !resets[cb] {
					for _, sb := range inner.Succs {
						if !bodies[inner][sb] || sb == inner {
							continue
						}
						if resets[sb] {
							continue
						}
						if reachAvoiding(sb, func(b *ssa.BasicBlock) bool { return resets[b] }, nil)[cb] || sb == cb {
							skippable = true
						}
					}
				}
				if skippable {
					r.Fail(ci.Pos(), p.FuncName(walkFn), "walkOperation without a fresh "+setField, "an operation can be walked with the visited set of the previous one: fragments already walked are skipped, so rules that depend on walking them under this operation (variables it defines and uses, fields it selects) miss what they contain")
				} else {
					r.OK("Walker."+setField+" is renewed for every operation before walkOperation", "")
				}
			}
		}
	}
	for _, is := range m.hostIssues {
		r.Fail(token.NoPos, "validator.(*Walker)", "case handed to a helper can be bypassed", is)
	}
	// walkSelectionSet walks every element; walk() walks every operation and fragment
	for _, pr := range [][3]string{{"walkSelectionSet", "walkSelection", ""}, {"walk", "walkOperation", "QueryDocument.Operations"}, {"walk", "walkFragment", "QueryDocument.Fragments"}} {
		f := m.byName[pr[0]]
		okC := false
		for _, ci := range callsTo([]*ssa.Function{f}, m.byName[pr[1]]) {
			if !canSkip(ci, nil) {
				okC = true
			}
		}
		if okC {
			r.OK(pr[0]+" calls "+pr[1]+" for every element", "")
		} else {
			r.Fail(f.Pos(), p.FuncName(f), pr[1]+" can be skipped in "+pr[0], "some operations, fragments or selections are not walked")
		}
	}
}

// nilEdge: the edge from->to is the one taken when sel(<operand>) == nil.
func nilEdge(from, to *ssa.BasicBlock, sel func(ssa.Value) bool) bool {
	ifi, ok := from.Instrs[len(from.Instrs)-1].(*ssa.If)
	if !ok {
		return false
	}
	cd := normCond(Cond{V: ifi.Cond, True: true})
	bo, ok := cd.V.(*ssa.BinOp)
	if !ok || (bo.Op != token.EQL && bo.Op != token.NEQ) {
		return false
	}
	if !(sel(bo.X) && isNilConst(bo.Y) || sel(bo.Y) && isNilConst(bo.X)) {
		return false
	}
	nilWhenTrue := (bo.Op == token.EQL) == cd.True
	if nilWhenTrue {
		return to == from.Succs[0]
	}
	return to == from.Succs[1]
}

// ---------------------------------------------------------------------------
// C08

var specRules = []string{
	"FieldsOnCorrectType", "FragmentsOnCompositeTypes", "KnownArgumentNames", "KnownDirectives", "KnownFragmentNames",
	"KnownTypeNames", "LoneAnonymousOperation", "NoFragmentCycles", "NoUndefinedVariables", "NoUnusedFragments",
	"NoUnusedVariables", "OverlappingFieldsCanBeMerged", "PossibleFragmentSpreads", "ProvidedRequiredArguments",
	"ScalarLeafs", "SingleFieldSubscriptions", "UniqueArgumentNames", "UniqueDirectivesPerLocation", "UniqueFragmentNames",
	"UniqueInputFieldNames", "UniqueOperationNames", "UniqueVariableNames", "ValuesOfCorrectType", "VariablesAreInputTypes",
	"VariablesInAllowedPosition",
	// library additions named by the property
	"KnownRootType", "MaxIntrospectionDepth",
}

func runC08(c *Ctx) {
	p := c.P
	m := newWalkerModel(p)
	r1 := c.Rule("R1", "the registered rules are the specification's", 27)
	for _, l := range m.lost {
		r1.AnchorLost(l)
	}
	if len(m.lost) > 0 {
		return
	}
	addRule := p.Func("validator.AddRule")
	if addRule == nil {
		r1.AnchorLost("validator.AddRule")
		return
	}
	// names of Rule globals (from their initialisers)
	ruleName := map[*ssa.Global]string{}
	if init := p.SPkgs["validator/rules"].Func("init"); init != nil {
		allInstrs(init, func(in ssa.Instruction) {
			s, ok := in.(*ssa.Store)
			if !ok {
				return
			}
			fa, ok := s.Addr.(*ssa.FieldAddr)
			if !ok {
				return
			}
			g, ok := fa.X.(*ssa.Global)
			if !ok {
				return
			}
			_, f, _, _ := fieldOf(fa)
			if f == "Name" {
				if str, ok := constString(s.Val); ok {
					ruleName[g] = str
				}
			}
		})
	}
	registered := map[string]bool{}
	for _, fn := range p.FuncsIn("validator/rules") {
		if !(fn.Name() == "init" || strings.HasPrefix(fn.Name(), "init#")) {
			continue
		}
		for _, ci := range callsTo([]*ssa.Function{fn}, addRule) {
			a := ci.Common().Args[0]
			if s, ok := constString(a); ok {
				registered[s] = true
				continue
			}
			if u, ok := a.(*ssa.UnOp); ok {
				if fa, ok := u.X.(*ssa.FieldAddr); ok {
					if g, ok := fa.X.(*ssa.Global); ok && ruleName[g] != "" {
						registered[ruleName[g]] = true
						// the function registered must be the same variable's RuleFunc
						if u2, ok := ci.Common().Args[1].(*ssa.UnOp); ok {
							if fa2, ok := u2.X.(*ssa.FieldAddr); ok && fa2.X != fa.X {
								r1.Fail(ci.Pos(), p.FuncName(fn), "AddRule("+ruleName[g]+") registers another rule's function", "the name and the function registered come from different Rule variables")
							}
						}
						continue
					}
				}
			}
			r1.Undecided(ci.Pos(), p.FuncName(fn), "AddRule name", "the registered rule name is not a constant or the Name of a Rule variable")
		}
	}
	wantSet := map[string]bool{}
	for _, n := range specRules {
		wantSet[n] = true
		if registered[n] {
			r1.OK("rule "+n+" registered", "")
		} else {
			r1.Fail(token.NoPos, "rules", "rule "+n+" is not registered", "the default rule set lacks "+n+": documents violating it would be passed on to execution")
		}
	}
	for n := range registered {
		if !wantSet[n] {
			r1.Fail(token.NoPos, "rules", "unexpected default rule "+n, "a rule outside the specification's set is registered by default: spec-valid documents may be rejected")
		}
	}
	for g, n := range ruleName {
		if registered[n] {
			continue
		}
		base := strings.TrimSuffix(n, "WithoutSuggestions")
		if base != n && registered[base] {
			r1.OK("rule "+n+" is the suggestion-free twin of "+base, "")
			continue
		}
		r1.Fail(g.Pos(), "rules", "exported rule "+n+" is neither registered nor a twin", "a rule exists that no default validation runs")
	}

	// ---- R2 attribute dependence
	r2 := c.Rule("R2", "every schema attribute the specification's rules depend on is read by the validation code", 12)
	var roots []*ssa.Function
	roots = append(roots, p.FuncsIn("validator/rules")...)
	roots = append(roots, m.fns...)
	scope := p.reachableFrom(roots, p.vtaCallees())
	reads := map[annot]bool{}
	for fn := range scope {
		if !p.inModule(fn) {
			continue
		}
		allInstrs(fn, func(in ssa.Instruction) {
			switch x := in.(type) {
			case *ssa.FieldAddr:
				n, f, _, _ := fieldOf(x)
				if n == nil {
					return
				}
				// a FieldAddr that is only stored to is not a read
				rd := false
				for _, ref := range *x.Referrers() {
					if s, ok := ref.(*ssa.Store); ok && s.Addr == ssa.Value(x) {
						continue
					}
					rd = true
				}
				if rd {
					reads[annot{n.Obj().Name(), f}] = true
				}
			case *ssa.Field:
				n, f, _, _ := fieldOf(x)
				if n != nil {
					reads[annot{n.Obj().Name(), f}] = true
				}
			}
		})
	}
	deps := []struct {
		a   annot
		why string
	}{
		{annot{"Type", "NonNull"}, "required arguments, variable positions, null literals"},
		{annot{"Type", "Elem"}, "list values and list variable positions"},
		{annot{"Type", "NamedType"}, "every type comparison"},
		{annot{"Definition", "Kind"}, "composite/leaf/input checks"},
		{annot{"Definition", "Fields"}, "FieldsOnCorrectType, input object fields"},
		{annot{"Definition", "EnumValues"}, "enum literals"},
		{annot{"Definition", "Interfaces"}, "PossibleFragmentSpreads / suggestions"},
		{annot{"Definition", "Directives"}, "@oneOf input objects"},
		{annot{"Schema", "PossibleTypes"}, "PossibleFragmentSpreads, field merging"},
		{annot{"DirectiveDefinition", "Locations"}, "KnownDirectives"},
		{annot{"DirectiveDefinition", "IsRepeatable"}, "UniqueDirectivesPerLocation (a repeatable directive may appear more than once)"},
		{annot{"DirectiveDefinition", "Arguments"}, "KnownArgumentNames, ProvidedRequiredArguments"},
		{annot{"ArgumentDefinition", "DefaultValue"}, "ProvidedRequiredArguments"},
		{annot{"ArgumentDefinition", "Type"}, "ProvidedRequiredArguments, value checks"},
		{annot{"FieldDefinition", "DefaultValue"}, "required input fields"},
		{annot{"FieldDefinition", "Arguments"}, "KnownArgumentNames, ProvidedRequiredArguments"},
		{annot{"FieldDefinition", "Type"}, "ScalarLeafs, field merging"},
		{annot{"VariableDefinition", "DefaultValue"}, "VariablesInAllowedPosition"},
		{annot{"VariableDefinition", "Used"}, "NoUnusedVariables"},
		{annot{"Schema", "Query"}, "root types"},
		{annot{"Schema", "Mutation"}, "root types"},
		{annot{"Schema", "Subscription"}, "root types"},
	}
	for _, d := range deps {
		if reads[d.a] {
			r2.OK(d.a.st+"."+d.a.fld+" is read", d.why)
		} else {
			r2.Fail(token.NoPos, "validator/rules", d.a.st+"."+d.a.fld+" is never read", fmt.Sprintf("no code reachable from the default rules or the walker reads %s.%s, although the specification's rules depend on it (%s): the verdict cannot depend on it", d.a.st, d.a.fld, d.why))
		}
	}

	// ---- R3 events and children
	r3 := c.Rule("R3", "every event fires for every node and every child is walked", 24)
	evSt := m.Ev.Underlying().(*types.Struct)
	evFn := map[string]string{"operationVisitor": "walkOperation", "field": "walkSelection", "fragment": "walkFragment", "inlineFragment": "walkSelection",
		"fragmentSpread": "walkSelection", "directive": "walkDirectives", "directiveList": "walkDirectives", "value": "walkValue", "variable": "walkOperation"}
	for i := 0; i < evSt.NumFields(); i++ {
		name := evSt.Field(i).Name()
		fnName, known := evFn[name]
		if !known {
			r3.Fail(evSt.Field(i).Pos(), "validator.Events", "event list "+name, "an event list the coverage table does not know: whether it is dispatched is not decided")
			continue
		}
		fn := m.host(fnName, name)
		disp := m.dispatchBlocks(fn, name)
		if len(disp) == 0 {
			r3.Fail(fn.Pos(), p.FuncName(fn), "Events."+name+" is never dispatched", "observers registered for this event never run: every rule built on it is silently disabled")
			continue
		}
		// the loaded list is ranged and each element invoked with (walker, node)
		invoked := false
		allInstrs(fn, func(in ssa.Instruction) {
			call, ok := in.(*ssa.Call)
			if !ok || call.Call.StaticCallee() != nil || call.Call.IsInvoke() {
				return
			}
			u, ok := call.Call.Value.(*ssa.UnOp)
			if !ok {
				return
			}
			ia, ok := u.X.(*ssa.IndexAddr)
			if !ok {
				return
			}
			if isFieldLoad(ia.X, m.Ev, name) {
				invoked = true
			}
		})
		if !invoked {
			r3.Fail(disp[0].Instrs[0].Pos(), p.FuncName(fn), "Events."+name+" loaded but not invoked", "the observer list is read but its elements are not called")
			continue
		}
		// unskippable: for type-switched nodes from the case; otherwise from entry to return
		avoid := map[*ssa.BasicBlock]bool{}
		for _, b := range disp {
			avoid[b] = true
		}
		skippable := false
		switch name {
		case "field", "inlineFragment", "fragmentSpread":
			// from the type-assert success edge of that node kind to a return
			want := map[string]string{"field": "Field", "inlineFragment": "InlineFragment", "fragmentSpread": "FragmentSpread"}[name]
			start := typeCaseEntry(fn, want)
			if start == nil && fn != m.byName[fnName] {
				// the case was handed to a helper as a whole (host() checked that the hand-over cannot be bypassed):
				// inside the helper the observers must be reached from its entry
				start = fn.Blocks[0]
			}
			if start == nil {
				r3.AnchorLost("type switch case *ast." + want + " in " + p.FuncName(fn))
				continue
			}
			rr := reachAvoiding(start, func(b *ssa.BasicBlock) bool { return avoid[b] }, nil)
			for b := range rr {
				if _, ok := b.Instrs[len(b.Instrs)-1].(*ssa.Return); ok {
					skippable = true
				}
			}
		case "directive", "variable":
			// per element of the loop
			headers, bodies := loopsOf(fn)
			var inner *ssa.BasicBlock
			for _, h := range headers {
				if bodies[h][disp[0]] && h != disp[0] && (inner == nil || len(bodies[h]) > len(bodies[inner])) {
					inner = h
				}
			}
			if inner == nil {
				skippable = true
			} else {
				for _, s := range inner.Succs {
					if bodies[inner][s] && s != inner {
						rr := reachAvoiding(s, func(b *ssa.BasicBlock) bool { return avoid[b] }, nil)
						if rr[inner] {
							skippable = true
						}
					}
				}
			}
		default:
			targets := map[*ssa.BasicBlock]bool{}
			for _, ret := range returnsOf(fn) {
				targets[ret.Block()] = true
			}
			skippable = reachTargetAvoiding(fn, avoid, nil, targets)
		}
		if skippable {
			r3.Fail(disp[0].Instrs[0].Pos(), p.FuncName(fn), "Events."+name+" can be skipped", "a path walks the node without running its observers")
		} else {
			r3.OK("Events."+name+" dispatched in "+fnName+" on every path", "")
		}
	}
	walkCoverage(c, r3, m)

	// ---- R4 type compatibility and the pair cache
	r4 := c.Rule("R4", "type compatibility is level-wise; the pair cache is direction-safe", 2)
	typeComparisonRule(c, r4)
	c08PairSet(c, r4)

	r5 := c.Rule("R5", "a persistent visited set cuts a traversal only when its key determines the outcome", 3)
	c08MemoKeys(c, r5)
	c08PositionKeys(c, r5)

	// ---- R6 what the rules read is what the schema declares: the provenance of every link (shared with C09.R3) and the
	// guards under which conditional links are stored (C09.R2)
	r6 := c.Rule("R6", "the links and expected types the rules read are the lookups the specification names", 12)
	written := walkerWrites(m)
	c09Provenance(c, r6, m, written)
	c09Guards(c, r6, m, written)

	r7 := c.Rule("R7", "outside the loader no type is looked up under a fixed name (roots come from the loader's pointers)", 1)
	noRootByName(c, r7)

	r8 := c.Rule("R8", "the null-for-non-null test of ValuesOfCorrectType cannot be bypassed", 1)
	c08NullTestFirst(c, r8)

	r9 := c.Rule("R9", "no report of a rule is hidden behind the emptiness of an unrelated list", 8)
	c08FastPath(c, r9)

	r10 := c.Rule("R10", "a rule that reports a missing link reports it on every path", 4)
	c09MissingLinkReported(c, r10)

	r11 := c.Rule("R11", "a two-sided comparison takes one operand from each side at every call", 10)
	c08TwoSided(c, r11)
}

// typeCaseEntry: the block entered when `it.(type)` is *ast.<name>.
func typeCaseEntry(fn *ssa.Function, name string) *ssa.BasicBlock {
	var out *ssa.BasicBlock
	allInstrs(fn, func(in ssa.Instruction) {
		ta, ok := in.(*ssa.TypeAssert)
		if !ok || !ta.CommaOk {
			return
		}
		n := namedOf(ta.AssertedType)
		if n == nil || n.Obj().Name() != name {
			return
		}
		b := in.Block()
		if ifi, ok := b.Instrs[len(b.Instrs)-1].(*ssa.If); ok {
			if ex, ok := ifi.Cond.(*ssa.Extract); ok && ex.Tuple == ssa.Value(ta) {
				out = b.Succs[0]
			}
		}
	})
	return out
}

// c08PairSet: in the field-merge pair cache, Has(a,b,exclusive) may answer true for a non-exclusive query only
// when the recorded entry is non-exclusive: a return of `true`/`!result`-like value on the !areMutuallyExclusive
// path must depend on the stored flag being false.
func c08PairSet(c *Ctx, r *RuleResult) {
	p := c.P
	has := p.Func("rules.(*pairSet).Has")
	if has == nil {
		r.OK("pair cache: no pairSet.Has", "nothing to check")
		return
	}
	// find the bool parameter and the looked-up stored flag
	var flag *ssa.Parameter
	for _, prm := range has.Params {
		if b, ok := prm.Type().Underlying().(*types.Basic); ok && b.Kind() == types.Bool {
			flag = prm
		}
	}
	if flag == nil {
		r.Undecided(has.Pos(), p.FuncName(has), "no bool parameter", "cannot identify the exclusivity parameter")
		return
	}
	// returns under flag == false must return !stored ; returns under flag == true may return true
	okAll := true
	n := 0
	for _, ret := range returnsOf(has) {
		v := ret.Results[0]
		if cst, ok := v.(*ssa.Const); ok && cst.Value != nil && !constant.BoolVal(cst.Value) {
			continue // return false is always safe
		}
		var underFlag *bool
		for _, cd := range condsAt(ret.Block()) {
			if cd.V == ssa.Value(flag) {
				t := cd.True
				underFlag = &t
			}
		}
		n++
		isNotStored := false
		if u, ok := v.(*ssa.UnOp); ok && u.Op == token.NOT {
			if _, isParam := u.X.(*ssa.Parameter); !isParam {
				isNotStored = true
			}
		}
		switch {
		case underFlag != nil && !*underFlag:
			// non-exclusive query: must be !stored
			if !isNotStored {
				okAll = false
				r.Fail(ret.Pos(), p.FuncName(has), "non-exclusive query answered from any entry", "for a query with areMutuallyExclusive=false the cache answers 'already compared' without requiring the recorded comparison to have been non-exclusive: a pair compared under mutually exclusive parents (fewer checks) suppresses the full comparison later, so a real conflict is missed")
			}
		case underFlag != nil && *underFlag:
			// exclusive query: any entry suffices (constant true), returning the stored flag is wrong direction
			// (termination of the comparison is C02.R4's business: c02PairMemoMonotone)
		default:
			// not under a branch on the flag: phi or expression — require it to mention the flag
		}
	}
	if okAll {
		r.OK(fmt.Sprintf("pairSet.Has: %d non-false returns; non-exclusive queries are answered only from non-exclusive entries", n), "")
	}
}

// c08MemoKeys (C08.R5): a visited set that keeps its entries after the visit (a memo) answers "already done" for every
// later arrival with the same key. That is sound only if the outcome of the skipped traversal is a function of the
// key: every scalar parameter of the gated function that changes around the recursion cycle (some call in the cycle
// passes a computed value, e.g. depth+1, instead of the caller's own parameter) and is used must be part of the key.
// In-progress sets (entries deleted on unwind) only break cycles and are C02.R4's business.
func c08MemoKeys(c *Ctx, r *RuleResult) {
	p := c.P
	e := newEffects(p)
	full := validationScope(p, e)
	scope := map[*ssa.Function]bool{}
	for fn := range full {
		if pk := p.PkgOf(fn); pk != nil && (strings.HasSuffix(pk.PkgPath, "/parser") || strings.HasSuffix(pk.PkgPath, "/lexer")) {
			continue
		}
		scope[fn] = true
	}
	c02Recursion(c, &RuleResult{seenSamples: map[string]bool{}, ctx: c}, &RuleResult{seenSamples: map[string]bool{}, ctx: c}, scope)
	recs := c02GateRecords
	if len(recs) == 0 {
		r.AnchorLost("recursive calls behind visited-set gates (C02.R3)")
		return
	}
	isScalar := func(t types.Type) bool {
		b, ok := t.Underlying().(*types.Basic)
		return ok && b.Info()&(types.IsInteger|types.IsBoolean|types.IsFloat) != 0
	}
	seen := map[string]bool{}
	type pk struct {
		fn  *ssa.Function
		idx int
	}
	for _, rec := range recs {
		inSCC := map[*ssa.Function]bool{}
		for _, f := range rec.scc {
			inSCC[f] = true
		}
		for _, g := range rec.persistent {
			fn := g.fn
			key := p.FuncName(fn) + " | " + setName(g.setKey)
			if seen[key] {
				continue
			}
			seen[key] = true
			root := rootFunc(fn)
			// the lifetime of the set: when it is handed down as a parameter, only the calls that pass the caller's own
			// set on belong to one lifetime (a call passing a fresh map starts another); a set held in a field or a
			// captured variable lives across every call of the cycle
			holder := map[pk]bool{}
			byParam := false
			if fn == root {
				for i, prm := range root.Params {
					if "p:"+prm.Name() == g.setKey {
						holder[pk{root, i}] = true
						byParam = true
					}
				}
			}
			if byParam {
				for changed := true; changed; {
					changed = false
					for _, f := range rec.scc {
						allInstrs(f, func(in ssa.Instruction) {
							ci, ok := in.(ssa.CallInstruction)
							if !ok {
								return
							}
							cal := ci.Common().StaticCallee()
							if cal == nil || !inSCC[cal] {
								return
							}
							for i, a := range ci.Common().Args {
								prm, isPrm := stripChange(a).(*ssa.Parameter)
								if !isPrm || i >= len(cal.Params) {
									continue
								}
								pi := paramIndex(f, prm)
								if holder[pk{f, pi}] != holder[pk{cal, i}] && types.Identical(prm.Type(), cal.Params[i].Type()) {
									if _, isMap := prm.Type().Underlying().(*types.Map); isMap {
										holder[pk{f, pi}], holder[pk{cal, i}] = true, true
										changed = true
									}
								}
							}
						})
					}
				}
			}
			sameSet := func(f *ssa.Function, ci ssa.CallInstruction, cal *ssa.Function) bool {
				if !byParam {
					return true
				}
				for i, a := range ci.Common().Args {
					if i < len(cal.Params) && holder[pk{cal, i}] {
						prm, isPrm := stripChange(a).(*ssa.Parameter)
						return isPrm && holder[pk{f, paramIndex(f, prm)}]
					}
				}
				return false
			}
			tracked := func(t types.Type) bool {
				// scalars only: pointer parameters are mostly accumulators and the nodes the key is taken from
				return isScalar(t)
			}
			// parameters that change within one lifetime of the set
			varying := map[pk]bool{}
			for changed := true; changed; {
				changed = false
				for _, f := range rec.scc {
					allInstrs(f, func(in ssa.Instruction) {
						ci, ok := in.(ssa.CallInstruction)
						if !ok {
							return
						}
						cal := ci.Common().StaticCallee()
						if cal == nil || !inSCC[cal] || !sameSet(f, ci, cal) {
							return
						}
						for i, a := range ci.Common().Args {
							if i >= len(cal.Params) || !tracked(cal.Params[i].Type()) || varying[pk{cal, i}] {
								continue
							}
							if _, isConst := stripChange(a).(*ssa.Const); isConst {
								continue
							}
							prm, isPrm := stripChange(a).(*ssa.Parameter)
							if !isPrm || varying[pk{f, paramIndex(f, prm)}] {
								varying[pk{cal, i}] = true
								changed = true
							}
						}
					})
				}
			}
			// what the key is made of
			var keyVals []ssa.Value
			switch t := g.test.(type) {
			case *ssa.Lookup:
				keyVals = append(keyVals, t.Index)
			case ssa.CallInstruction:
				keyVals = append(keyVals, t.Common().Args...)
			}
			inKey := func(prm *ssa.Parameter) bool {
				for _, kv := range keyVals {
					if derivesFromAny(kv, prm, 8) {
						return true
					}
				}
				return false
			}
			bad := ""
			for i, prm := range root.Params {
				if !varying[pk{root, i}] || holder[pk{root, i}] {
					continue
				}
				if prm.Referrers() == nil || len(*prm.Referrers()) == 0 {
					continue
				}
				if i == 0 && root.Signature.Recv() != nil {
					continue // the receiver: the object that holds the state
				}
				if !inKey(prm) {
					if bad != "" {
						bad += ", "
					}
					bad += prm.Name()
				}
			}
			if bad != "" {
				r.Fail(g.test.Pos(), p.FuncName(fn), "memo "+setName(g.setKey)+" ignores the varying parameter "+bad, "the visited set keeps its entries after the visit and answers 'already done' by its key alone, but the traversal it cuts also depends on "+bad+", which changes while the same set is in use (a call in the cycle passes a different value on): a second arrival with the same key and a different "+bad+" is skipped although its outcome can differ — a violation reachable only that way is not reported")
			} else {
				r.OK("persistent visited set "+key, "every used parameter of the gated function that changes while the set is in use is part of the key")
			}
		}
	}
}

// derivesFromAny: v is computed from prm — through field loads, conversions, calls and, inside closures, the captured
// variable of the same name.
func derivesFromAny(v ssa.Value, prm *ssa.Parameter, depth int) bool {
	if depth <= 0 {
		return false
	}
	v = stripChange(v)
	if v == ssa.Value(prm) {
		return true
	}
	switch x := v.(type) {
	case *ssa.FreeVar:
		return x.Name() == prm.Name()
	case *ssa.UnOp:
		return derivesFromAny(x.X, prm, depth-1)
	case *ssa.FieldAddr:
		return derivesFromAny(x.X, prm, depth-1)
	case *ssa.Field:
		return derivesFromAny(x.X, prm, depth-1)
	case *ssa.IndexAddr:
		return derivesFromAny(x.X, prm, depth-1)
	case *ssa.Alloc:
		for _, s := range storesTo(x) {
			if derivesFromAny(s, prm, depth-1) {
				return true
			}
		}
	case *ssa.Call:
		for _, a := range x.Call.Args {
			if derivesFromAny(a, prm, depth-1) {
				return true
			}
		}
	case *ssa.Extract:
		return derivesFromAny(x.Tuple, prm, depth-1)
	case *ssa.MakeInterface:
		return derivesFromAny(x.X, prm, depth-1)
	case *ssa.Slice:
		return derivesFromAny(x.X, prm, depth-1)
	case *ssa.Convert:
		return derivesFromAny(x.X, prm, depth-1)
	case *ssa.BinOp:
		return derivesFromAny(x.X, prm, depth-1) || derivesFromAny(x.Y, prm, depth-1)
	case *ssa.Phi:
		for _, e := range x.Edges {
			if derivesFromAny(e, prm, depth-1) {
				return true
			}
		}
	}
	return false
}

// walkerWrites: every store the walker makes into a field of an AST node (the synthetic __typename definition excepted).
func walkerWrites(m *walkerModel) map[annot][]fieldStoreSite {
	written := map[annot][]fieldStoreSite{}
	for _, fn := range m.fns {
		allInstrs(fn, func(in ssa.Instruction) {
			s, ok := in.(*ssa.Store)
			if !ok {
				return
			}
			fa, ok := s.Addr.(*ssa.FieldAddr)
			if !ok {
				return
			}
			n, f, _, _ := fieldOf(fa)
			if n == nil || n.Obj().Pkg() == nil || !strings.HasSuffix(n.Obj().Pkg().Path(), "/ast") {
				return
			}
			// stores into a fresh literal (the synthetic __typename definition) are not links on the document
			if a, ok := fa.X.(*ssa.Alloc); ok && isFresh(a) {
				return
			}
			written[annot{n.Obj().Name(), f}] = append(written[annot{n.Obj().Name(), f}], fieldStoreSite{fn, s, fa})
		})
	}
	return written
}

// argumentListOfDefinition: v is <field or directive definition>.Arguments — read in place, or received (by value or by
// pointer) as a parameter of a walker helper every call site of which passes that list (or nil when the definition is
// unknown).
func argumentListOfDefinition(p *Program, m *walkerModel, v ssa.Value, depth int) bool {
	if depth > 3 {
		return false
	}
	if loadOfField(v, "FieldDefinition", "Arguments") || loadOfField(v, "DirectiveDefinition", "Arguments") {
		return true
	}
	v = unspill(stripChange(v))
	var prm *ssa.Parameter
	switch x := v.(type) {
	case *ssa.Parameter:
		prm = x
	case *ssa.UnOp:
		if x.Op == token.MUL {
			prm, _ = x.X.(*ssa.Parameter)
		}
	}
	if prm == nil {
		return false
	}
	fn := prm.Parent()
	idx := paramIndex(fn, prm)
	calls := callsTo(m.fns, fn)
	if idx < 0 || len(calls) == 0 {
		return false
	}
	var okArg func(a ssa.Value, d int) bool
	okArg = func(a ssa.Value, d int) bool {
		if d > 4 {
			return false
		}
		a = unspill(stripChange(a))
		if isNilConst(a) {
			return true
		}
		switch y := a.(type) {
		case *ssa.FieldAddr:
			n, f, _, _ := fieldOf(y)
			return n != nil && f == "Arguments" && (n.Obj().Name() == "FieldDefinition" || n.Obj().Name() == "DirectiveDefinition")
		case *ssa.Phi:
			for _, e := range y.Edges {
				if !okArg(e, d+1) {
					return false
				}
			}
			return true
		}
		return argumentListOfDefinition(p, m, a, depth+1)
	}
	for _, ci := range calls {
		if idx >= len(ci.Common().Args) || !okArg(ci.Common().Args[idx], 0) {
			return false
		}
	}
	return true
}

// rangeElemOfParam: v is an element of a slice parameter of its function, read inside a range over it.
func rangeElemOfParam(v ssa.Value) *ssa.Parameter {
	v = unspill(stripChange(v))
	u, ok := v.(*ssa.UnOp)
	if !ok || u.Op != token.MUL {
		return nil
	}
	ia, ok := u.X.(*ssa.IndexAddr)
	if !ok {
		return nil
	}
	prm, _ := stripChange(ia.X).(*ssa.Parameter)
	return prm
}

// listWalker: h ranges over one of its slice parameters and hands every element to callee (argument argIdx), with no
// way round the call inside the loop; returns the index of that parameter.
func listWalker(h, callee *ssa.Function, argIdx int) (int, bool) {
	if h == nil || callee == nil || h == callee {
		return -1, false
	}
	for _, ci := range callsTo([]*ssa.Function{h}, callee) {
		if argIdx >= len(ci.Common().Args) {
			continue
		}
		prm := rangeElemOfParam(ci.Common().Args[argIdx])
		if prm == nil {
			continue
		}
		if canSkip(ci, nil) {
			continue
		}
		return paramIndex(h, prm), true
	}
	return -1, false
}

// noRootByName (C08.R7, C09.R7): outside the schema loader nothing looks a type up in Schema.Types under a constant
// name. Which type is the root of an operation kind is decided once, by the loader (Schema.Query / Mutation /
// Subscription); a rule or the walker that falls back to a type that merely is called "Mutation" disagrees with the
// other about what the root is — one accepts the operation, the other leaves it unlinked.
func noRootByName(c *Ctx, r *RuleResult) {
	p := c.P
	e := newEffects(p)
	var vroots []*ssa.Function
	for _, nme := range []string{"validator.Validate", "validator.VariableValues", "ast.(*Field).ArgumentMap", "ast.(*Directive).ArgumentMap"} {
		if f := p.Func(nme); f != nil {
			vroots = append(vroots, f)
		}
	}
	for _, f := range p.FuncsIn("validator/rules") {
		vroots = append(vroots, f)
	}
	for _, f := range p.FuncsIn("formatter") {
		vroots = append(vroots, f)
	}
	fromValidation := p.reachableFrom(vroots, e.dyn)
	n, bad := 0, 0
	var keyConsts func(v ssa.Value, depth int) []string
	keyConsts = func(v ssa.Value, depth int) []string {
		if depth > 3 {
			return nil
		}
		v = unspill(stripChange(v))
		if s, ok := constString(v); ok {
			return []string{s}
		}
		switch x := v.(type) {
		case *ssa.Phi:
			var out []string
			for _, e := range x.Edges {
				out = append(out, keyConsts(e, depth+1)...)
			}
			return out
		case *ssa.Parameter:
			fn := x.Parent()
			idx := paramIndex(fn, x)
			var out []string
			for _, ci := range callSitesOf(p, fn) {
				if idx >= 0 && idx < len(ci.Common().Args) {
					out = append(out, keyConsts(ci.Common().Args[idx], depth+1)...)
				}
			}
			return out
		case *ssa.Convert:
			return keyConsts(x.X, depth+1)
		}
		return nil
	}
	for _, rel := range []string{"validator", "validator/rules", "ast", "formatter", ""} {
		for _, fn := range p.FuncsIn(rel) {
			if len(fn.Blocks) == 0 || !(fromValidation[fn] || fromValidation[rootFunc(fn)]) {
				continue
			}
			if nm := rootFunc(fn).Name(); nm == "init" || strings.HasPrefix(nm, "init#") {
				continue
			}
			allInstrs(fn, func(in ssa.Instruction) {
				l, ok := schemaMapLookup(in, "Types")
				if !ok {
					return
				}
				n++
				var named []string
				for _, k := range keyConsts(l.Index, 0) {
					if !strings.HasPrefix(k, "__") {
						named = append(named, k)
					}
				}
				if len(named) > 0 {
					bad++
					sort.Strings(named)
					r.Fail(in.Pos(), p.FuncName(fn), "Schema.Types looked up under the constant "+strings.Join(dedupe(named), ", "), "outside the loader a type is found by the name a document or another definition gives, never by a fixed name: a fallback to the type called "+strings.Join(dedupe(named), "/")+" makes this code and the walker (which uses the root pointers the loader set) disagree about the root of an operation")
				}
			})
		}
	}
	if n == 0 {
		r.AnchorLost("lookups of Schema.Types outside the loader")
	} else if bad == 0 {
		r.OK(fmt.Sprintf("%d lookups of Schema.Types outside the loader", n), "none under a fixed type name")
	}
}

// c08NullTestFirst (C08.R8): in the value observer of ValuesOfCorrectType, the test of the expected type's NonNull flag
// (null is no value of a non-null type, whatever the named type — custom scalars included) lies on every path from the
// observer's entry to a return, except the paths that leave because an annotation is missing.
func c08NullTestFirst(c *Ctx, r *RuleResult) {
	p := c.P
	vct := p.Func("rules.ruleFuncValuesOfCorrectType")
	valueFn := p.Func("ast.(*Value).Value")
	if vct == nil || valueFn == nil {
		r.AnchorLost("rules.ruleFuncValuesOfCorrectType / ast.(*Value).Value")
		return
	}
	var obs *ssa.Function
	for _, cl := range withClosures(vct) {
		if cl.Parent() == vct && len(callsTo([]*ssa.Function{cl}, valueFn)) > 0 {
			obs = cl
		}
	}
	if obs == nil {
		r.AnchorLost("the value observer of ValuesOfCorrectType")
		return
	}
	// blocks that branch on Value.ExpectedType.NonNull (directly, or as part of `Kind == Null && NonNull`)
	tests := map[*ssa.BasicBlock]bool{}
	for _, b := range obs.Blocks {
		ifi, ok := b.Instrs[len(b.Instrs)-1].(*ssa.If)
		if !ok {
			continue
		}
		cd := normCond(Cond{V: ifi.Cond, True: true})
		if st, f, ok := fieldLoadOf(cd.V); ok && st == "Type" && f == "NonNull" {
			if u, isU := unspill(stripChange(cd.V)).(*ssa.UnOp); isU {
				if fa, isFA := u.X.(*ssa.FieldAddr); isFA && loadOfField(fa.X, "Value", "ExpectedType") {
					tests[b] = true
				}
			}
		}
	}
	if len(tests) == 0 {
		r.Fail(obs.Pos(), p.FuncName(obs), "no test of Value.ExpectedType.NonNull", "the value observer no longer looks at the NonNull flag of the expected type: a null literal in a non-null position is not reported")
		return
	}
	exempt := func(from, to *ssa.BasicBlock) bool {
		if nilEdge(from, to, func(v ssa.Value) bool {
			st, f, ok := fieldLoadOf(v)
			return ok && st == "Value" && (f == "Definition" || f == "ExpectedType")
		}) {
			return true
		}
		// the edge taken because the value is not the null literal: the NonNull test concerns null only
		ifi, ok := from.Instrs[len(from.Instrs)-1].(*ssa.If)
		if !ok || len(from.Succs) != 2 {
			return false
		}
		cd := normCond(Cond{V: ifi.Cond, True: to == from.Succs[0]})
		if bo, ok := cd.V.(*ssa.BinOp); ok && (bo.Op == token.EQL || bo.Op == token.NEQ) && loadOfField(bo.X, "Value", "Kind") {
			if k, isK := constInt(bo.Y); isK && k == valueKindConst(p, "NullValue") {
				return (bo.Op == token.EQL) != cd.True
			}
		}
		return false
	}
	rr := reachAvoiding(obs.Blocks[0], func(b *ssa.BasicBlock) bool { return tests[b] }, exempt)
	n := 0
	for b := range rr {
		ret, ok := b.Instrs[len(b.Instrs)-1].(*ssa.Return)
		if !ok {
			continue
		}
		var gs []string
		for _, cd := range condsAt(b) {
			if structuralGuard(cd) {
				continue
			}
			gs = append(gs, guardDesc(cd))
		}
		sort.Strings(gs)
		n++
		r.Fail(ret.Pos(), p.FuncName(obs), "return before the NonNull test under "+strings.Join(gs, " && "), "the value observer can return (under "+strings.Join(gs, " && ")+") for a null literal without having looked at the NonNull flag of its expected type: null is then accepted in a non-null position of that kind")
	}
	if n == 0 {
		r.OK("the NonNull test of the expected type is on every path of the value observer that a null literal can take", "(paths left because an annotation is missing excepted)")
	}
}

// valueKindConst: the numeric value of ast.<name> (a ValueKind constant).
func valueKindConst(p *Program, name string) int64 {
	pk := p.SPkgs["ast"]
	if pk == nil {
		return -1
	}
	if cst, ok := pk.Pkg.Scope().Lookup(name).(*types.Const); ok {
		if v, ok := constantInt(cst); ok {
			return v
		}
	}
	return -1
}

// c02PairMemoMonotone (C02.R4): the pair cache is overwritten by every comparison (Add stores its flag) and a
// non-exclusive query is satisfied only by a non-exclusive entry. The recursion it gates ends only if the cache is
// monotone in the other direction: an exclusive query must be satisfied by ANY entry. If it looks at the stored flag
// instead, a pair recorded non-exclusively is "not yet compared" for an exclusive query, the comparison is repeated and
// flips the entry, the next non-exclusive query repeats it again — two fragments that spread each other recurse until
// the stack overflows.
func c02PairMemoMonotone(c *Ctx, r *RuleResult) {
	p := c.P
	has := p.Func("rules.(*pairSet).Has")
	if has == nil {
		return
	}
	var flag *ssa.Parameter
	for _, prm := range has.Params {
		if b, ok := prm.Type().Underlying().(*types.Basic); ok && b.Kind() == types.Bool {
			flag = prm
		}
	}
	if flag == nil {
		return
	}
	n := 0
	for _, ret := range returnsOf(has) {
		v := ret.Results[0]
		if cst, ok := v.(*ssa.Const); ok {
			_ = cst
			continue // constants: `false` before an entry was found, `true` for any entry
		}
		exclusive, found := false, false
		for _, cd := range condsAt(ret.Block()) {
			if cd.V == ssa.Value(flag) && cd.True {
				exclusive = true
			}
			if ex, ok := cd.V.(*ssa.Extract); ok && ex.Index == 1 && cd.True {
				if _, isL := ex.Tuple.(*ssa.Lookup); isL {
					found = true
				}
			}
		}
		if !exclusive {
			continue
		}
		n++
		_ = found
		r.Fail(ret.Pos(), p.FuncName(has), "an exclusive query is answered from the stored flag", "for areMutuallyExclusive=true the cache answers with a value computed from the stored entry instead of 'any entry will do': a pair recorded by a non-exclusive comparison counts as not compared, is compared again and overwritten, and the next non-exclusive query finds an exclusive entry — fragments that spread each other flip the entry forever and the recursion never ends")
	}
	if n == 0 {
		r.OK("pairSet.Has: an exclusive query is satisfied by any entry", "the cache only grows stronger; the recursion it gates ends")
	}
}

// c08PositionKeys (C08.R5): a rule that remembers what it has already checked or reported by the node's position
// (the walker visits the body of a fragment once per operation that spreads it) must key the set by something that
// identifies the node: a key that takes Position.Line needs Position.Column of the same position too — two nodes on one
// line (a minified request is a single line) would otherwise count as one, and the second is never checked.
func c08PositionKeys(c *Ctx, r *RuleResult) {
	p := c.P
	var fns []*ssa.Function
	for _, rel := range []string{"validator", "validator/rules"} {
		for _, fn := range p.FuncsIn(rel) {
			fns = append(fns, withClosures(fn)...)
		}
	}
	seenFn := map[*ssa.Function]bool{}
	for _, fn := range fns {
		if seenFn[fn] {
			continue
		}
		seenFn[fn] = true
		allInstrs(fn, func(in ssa.Instruction) {
			st, ok := in.(*ssa.Store)
			if !ok {
				return
			}
			dst, ok := st.Addr.(*ssa.FieldAddr)
			if !ok {
				return
			}
			keyAlloc, ok := dst.X.(*ssa.Alloc)
			if !ok {
				return
			}
			ld, ok := stripChange(st.Val).(*ssa.UnOp)
			if !ok || ld.Op != token.MUL {
				return
			}
			src, ok := ld.X.(*ssa.FieldAddr)
			if !ok {
				return
			}
			n, f, base, _ := fieldOf(src)
			if n == nil || n.Obj().Name() != "Position" || f != "Line" {
				return
			}
			// is the struct used as a map key?
			isKey := false
			for _, ref := range *keyAlloc.Referrers() {
				u, ok := ref.(*ssa.UnOp)
				if !ok || u.Op != token.MUL {
					continue
				}
				for _, r2 := range *u.Referrers() {
					switch x := r2.(type) {
					case *ssa.Lookup:
						if x.Index == ssa.Value(u) {
							isKey = true
						}
					case *ssa.MapUpdate:
						if x.Key == ssa.Value(u) {
							isKey = true
						}
					}
				}
			}
			if !isKey {
				return
			}
			// a sibling field takes Column of the same position
			hasColumn := false
			for _, ref := range *keyAlloc.Referrers() {
				fa, ok := ref.(*ssa.FieldAddr)
				if !ok {
					continue
				}
				for _, r2 := range *fa.Referrers() {
					st2, ok := r2.(*ssa.Store)
					if !ok || st2.Addr != ssa.Value(fa) {
						continue
					}
					if l2, ok := stripChange(st2.Val).(*ssa.UnOp); ok && l2.Op == token.MUL {
						if s2, ok := l2.X.(*ssa.FieldAddr); ok {
							n2, f2, b2, _ := fieldOf(s2)
							if n2 != nil && n2.Obj().Name() == "Position" && f2 == "Column" && sameAccess(b2, base) {
								hasColumn = true
							}
						}
					}
				}
			}
			site := fmt.Sprintf("%s: map key built from Position.Line at %s", p.FuncName(fn), p.Pos(st.Pos()))
			if hasColumn {
				r.OK(site, "takes Position.Column of the same position as well: the key identifies the node")
			} else {
				r.Fail(st.Pos(), p.FuncName(fn), "map key takes Position.Line without Position.Column", "a set that decides whether a node has been handled already is keyed by the node's line but not its column: two nodes on one line (any minified request) share a key, and the second one is skipped without having been checked")
			}
		})
	}
}

// sameAccess: the two values are the same SSA value or loads of the same field of the same base.
func sameAccess(a, b ssa.Value) bool {
	a, b = stripChange(a), stripChange(b)
	if a == b {
		return true
	}
	ua, ok1 := a.(*ssa.UnOp)
	ub, ok2 := b.(*ssa.UnOp)
	if ok1 && ok2 && ua.Op == token.MUL && ub.Op == token.MUL {
		fa, ok1 := ua.X.(*ssa.FieldAddr)
		fb, ok2 := ub.X.(*ssa.FieldAddr)
		if ok1 && ok2 && fa.Field == fb.Field {
			return sameAccess(fa.X, fb.X)
		}
	}
	return false
}
