package main

import (
	"fmt"
	"go/token"
	"sort"
	"strings"

	"golang.org/x/tools/go/ssa"
)

func init() {
	register("C01", "Lexing and parsing are total: (R1) lexer index safety — abstract interpretation of package lexer (Zone difference bounds x Karr affine equalities over the cursor cells, integer SSA values and string lengths, callees inlined) proves 0 <= index < len / 0 <= low <= high <= len for every index and slice expression on every path, from the invariant 0 <= start <= end <= len(Input) which every return of ReadToken re-establishes; (R2) every lexer loop advances a cursor or induction variable by at least one per iteration, and every token other than EOF consumes at least one byte; (R3) the parser's sticky error is written only where it is known to be nil; (R4) every parser loop has, on each of its cycles, an exit that is taken when an error is recorded; (R5) every iteration of every parser loop, and every callback of the repetition helpers, consumes a token or records an error (must-analysis with the kind of the look-ahead token as context); (R6) every recursion cycle of the parser passes a call that lies under the true result of a consuming predicate, or a re-entrancy latch — depth is bounded by consumed tokens; (R7) at every lexer error the reported line is >= 1 and the column >= 1. (R8) the line start is assigned after the whole line terminator, also through helpers (C04.R2). (R9) no entry point drops an error it has obtained; (R10) file, line and column of every syntax error come from one token position.", runC01)
}

// lexerEngine builds the engine for package lexer and runs it from ReadToken under the type invariant.
func lexerEngine(c *Ctx, configure func(e *absEngine)) (*absEngine, *frame, bool) {
	p := c.P
	lexT := p.LookupType("lexer", "Lexer")
	rt := p.Func("lexer.(*Lexer).ReadToken")
	if lexT == nil || rt == nil {
		return nil, nil, false
	}
	e := newAbsEngine(p, "lexer", lexT)
	e.important = []string{"c:end", "c:start", "N", "c:endRunes", "c:startRunes", "c:lineStartRunes", "c:line"}
	e.loopCheck = true
	saturatePairs = [][2]string{{"c:start", "c:end"}, {"g:entry:end", "c:end"}}
	if configure != nil {
		configure(e)
	}
	st := newNst()
	// INV
	st.z.add("", "N", 0)
	st.z.add("", "c:start", 0)
	st.z.add("c:start", "c:end", 0)
	st.z.add("c:end", "N", 0)
	st.z.add("", "c:startRunes", 0)
	st.z.add("c:startRunes", "c:endRunes", 0)
	st.z.add("", "c:lineStartRunes", 0)
	st.z.add("c:lineStartRunes", "c:endRunes", 0)
	st.z.add("", "c:line", -1)
	fr := &frame{fn: rt, ctx: "R", rec: true}
	// ghost: the cursor at entry
	st.assign("g:entry:end", lvar("c:end"), nil)
	e.runFunc(fr, st)
	return e, fr, true
}

func runC01(c *Ctx) {
	p := c.P
	r1 := c.Rule("R1", "lexer index safety (abstract interpretation)", 30)
	r2 := c.Rule("R2", "lexer loops and tokens make progress", 8)
	r7 := c.Rule("R7", "lexer error coordinates are >= 1", 8)
	nErr := 0
	nTok := 0
	makeErr := p.Func("lexer.(*Lexer).makeError")
	makeVal := p.Func("lexer.(*Lexer).makeValueToken")
	e, fr, ok := lexerEngine(c, func(e *absEngine) {
		e.onCall = func(e *absEngine, f *frame, st *nst, call *ssa.Call) {
			if !f.rec {
				return
			}
			g := call.Call.StaticCallee()
			switch {
			case g != nil && g == makeErr:
				nErr++
				ln := st.lb(lvar("c:line"))
				col := st.lb(lvar("c:endRunes").minus(lvar("c:lineStartRunes")))
				okE := ln >= 1 && col >= 0
				e.record(f, call.Pos(), "error coordinates in "+e.p.FuncName(f.fn), "line >= 1 and endRunes - lineStartRunes + 1 >= 1", okE, fmt.Sprintf("line >= %s, endRunes-lineStartRunes >= %s", bstr(ln), bstr(col)))
			case g != nil && g == makeVal:
				// a token other than EOF has consumed at least one byte
				if k, isC := constInt(call.Call.Args[1]); isC && k == eofKind(e.p) {
					return
				}
				if prm, isP := call.Call.Args[1].(*ssa.Parameter); isP {
					_ = prm // makeToken forwards its kind parameter: checked at makeToken's callers through inlining (the EOF call passes a constant)
				}
				nTok++
				adv := st.lb(lvar("c:end").minus(lvar("g:entry:end")))
				// the EOF token is created through makeToken(EOF): identify by the caller's constant
				if isEOFContext(e, f, call) {
					return
				}
				e.record(f, call.Pos(), "token consumes input ("+f.ctx+")", "end >= end at entry + 1 when a non-EOF token is created", adv >= 1, fmt.Sprintf("end advanced by >= %s", bstr(adv)))
			}
		}
		e.onReturn = func(e *absEngine, f *frame, st *nst, ret *ssa.Return) {
			if !f.rec || f.ctx != "R" {
				return
			}
			a := st.lb(lvar("c:start"))
			b := st.ub(lvar("c:start").minus(lvar("c:end")))
			d := st.ub(lvar("c:end").minus(lvar("N")))
			okI := a >= 0 && b <= 0 && d <= 0
			e.record(f, ret.Pos(), "invariant at return of ReadToken", "0 <= start <= end <= len(Input)", okI, fmt.Sprintf("start >= %s, start-end <= %s, end-len <= %s", bstr(a), bstr(b), bstr(d)))
		}
	})
	if !ok {
		r1.AnchorLost("lexer.Lexer / lexer.(*Lexer).ReadToken")
		return
	}
	_ = fr
	// other roots of package lexer that ReadToken does not reach (analysed with an unconstrained state)
	reached := map[*ssa.Function]bool{}
	for f := range p.reachableFrom([]*ssa.Function{p.Func("lexer.(*Lexer).ReadToken")}, nil) {
		reached[f] = true
	}
	for _, fn := range p.FuncsIn("lexer") {
		if fn.Parent() != nil || reached[fn] || len(fn.Blocks) == 0 || fn.Name() == "init" {
			continue
		}
		f2 := &frame{fn: fn, ctx: "X:" + fn.Name(), rec: true}
		st := newNst()
		st.z.add("", "N", 0)
		e.runFunc(f2, st)
	}
	var keys []string
	for k := range e.obl {
		keys = append(keys, k)
	}
	sort.Strings(keys)
	for _, k := range keys {
		o := e.obl[k]
		var r *RuleResult
		switch {
		case strings.HasPrefix(o.what, "index "), strings.HasPrefix(o.what, "slice "), strings.HasPrefix(o.what, "invariant"):
			r = r1
		case strings.HasPrefix(o.what, "loop progress"), strings.HasPrefix(o.what, "token consumes"):
			r = r2
		case strings.HasPrefix(o.what, "error coordinates"):
			r = r7
		default:
			r = r1
		}
		site := fmt.Sprintf("%s %s in %s", p.Pos(o.pos), o.what, o.fn)
		if o.ok {
			r.OK(site, o.need+fmt.Sprintf(" (proved in %d context(s))", o.seen))
		} else {
			switch r {
			case r1:
				r.Fail(o.pos, o.fn, o.what, fmt.Sprintf("cannot prove %s: %s — some input makes this expression panic with an index or slice bounds error", o.need, o.detail))
			case r2:
				r.Fail(o.pos, o.fn, o.what, fmt.Sprintf("cannot prove that %s: %s — the lexer can loop forever or return tokens without consuming input", o.need, o.detail))
			default:
				r.Fail(o.pos, o.fn, o.what, fmt.Sprintf("cannot prove %s: %s", o.need, o.detail))
			}
		}
	}
	c.Extra["c01_abstract_steps"] = e.steps
	r8 := c.Rule("R8", "the line start is assigned after the whole line terminator (columns stay inside the line)", 4)
	c04LineState(c, r8)
	c.Trusted = append(c.Trusted, "contracts: utf8.DecodeRuneInString(s) returns 0 <= w <= len(s) and w >= 1 when len(s) >= 1; strings.Split with a non-empty separator returns at least one element; range over a string yields valid byte indices")
	c.Assume("a Lexer is used through New and ReadToken only: its cursor cells satisfy 0 <= start <= end <= len(Input) before every call (the invariant is re-established at every return)")

	// ---- parser rules
	m := newParserModel(p)
	r3 := c.Rule("R3", "the sticky error is written only when it is nil", 4)
	r4 := c.Rule("R4", "every parser loop leaves when an error is recorded", 9)
	r5 := c.Rule("R5", "every loop iteration and every repetition callback consumes a token or records an error", 15)
	r6 := c.Rule("R6", "parser recursion is bounded by consumed tokens", 3)
	for _, l := range m.lost {
		r3.AnchorLost(l)
	}
	if len(m.lost) > 0 {
		return
	}
	f := newParserFlow(m)
	c01Sticky(c, r3, m, f)
	c01LoopsLeave(c, r4, m, f)
	c01Progress(c, r5, m, f)
	parserRecursion(c, r6, m)
	r9 := c.Rule("R9", "no entry point drops an error it has obtained (a document with a nil error, or a non-nil error)", 4)
	parserErrorsNotDropped(c, r9, m)
	r10 := c.Rule("R10", "file, line and column of every syntax error come from one token position (C20.R5)", 2)
	c20LocatedFromOnePosition(c, r10)
}

func eofKind(p *Program) int64 {
	if o := p.Pkgs["lexer"].Types.Scope().Lookup("EOF"); o != nil {
		if k, ok := constantIntOfObj(o); ok {
			return k
		}
	}
	return -1
}

// isEOFContext: the makeValueToken call is the one made by makeToken(EOF) — the kind parameter of the inlined
// makeToken frame is bound to the EOF constant. We recognise it by the enclosing call chain: ctx ends in the
// makeToken call whose argument is the EOF constant.
func isEOFContext(e *absEngine, f *frame, call *ssa.Call) bool {
	prm, ok := call.Call.Args[1].(*ssa.Parameter)
	if !ok {
		return false
	}
	// find, in the parent function of the inlined frame, the call named by the last context element
	parts := strings.Split(f.ctx, "/")
	if len(parts) < 2 {
		return false
	}
	last := parts[len(parts)-1]
	idx := paramIndex(f.fn, prm)
	found := false
	for _, fn := range e.p.FuncsIn("lexer") {
		allInstrs(fn, func(in ssa.Instruction) {
			c2, ok := in.(*ssa.Call)
			if !ok || c2.Name() != last || c2.Call.StaticCallee() != f.fn {
				return
			}
			if k, isC := constInt(c2.Call.Args[idx]); isC && k == eofKind(e.p) {
				found = true
			}
		})
	}
	return found
}

// ---------------------------------------------------------------------------
// parser R3: sticky error

func c01Sticky(c *Ctx, r *RuleResult, m *parserModel, f *parserFlow) {
	p := c.P
	for _, s := range storesToField(m.fns, m.T, "err") {
		fn := s.fn
		site := "store parser.err in " + p.FuncName(fn) + " at " + p.Pos(s.store.Pos())
		// dominated by the false edge of `p.err != nil` (err == nil) ...
		guarded := false
		var guard *ssa.BasicBlock
		for _, cd := range condsAt(s.store.Block()) {
			if ne, ok := f.isErrNilTest(cd.V); ok && ne != cd.True {
				guarded = true
				guard = cd.At
				break // the nearest test
			}
		}
		if !guarded {
			// a helper whose every call site is itself under err == nil (the caller tests, the helper stores)
			calls := callsTo(m.fns, fn)
			allGuarded := len(calls) > 0 && fn.Parent() == nil
			for _, ci := range calls {
				g := false
				for _, cd := range condsAt(ci.Block()) {
					if ne, ok := f.isErrNilTest(cd.V); ok && ne != cd.True {
						g = true
					}
				}
				if !g {
					allGuarded = false
				}
			}
			if allGuarded {
				r.OK(site, "every call site of the helper is under err == nil")
				continue
			}
			r.Fail(s.store.Pos(), p.FuncName(fn), "unguarded store to parser.err", "the sticky error is overwritten without first checking that none is recorded: the first error (and its location) can be replaced by a later one")
			continue
		}
		// ... with no other write of parser.err (store, or call of a parser function that may record one) in between
		between := false
		var culprit string
		allInstrs(fn, func(in ssa.Instruction) {
			if between || in == ssa.Instruction(s.store) {
				return
			}
			isW := false
			if st, ok := in.(*ssa.Store); ok && m.fieldAddr(st.Addr, "err") {
				isW = true
			}
			if ci, ok := in.(ssa.CallInstruction); ok {
				for _, g := range f.calleesOf[ci] {
					if inParserPkg(m, g) && mayWriteErr(m, f, g, map[*ssa.Function]bool{}) {
						isW = true
					}
				}
			}
			if !isW {
				return
			}
			// on a path guard -> in -> store ?
			gi := guard.Instrs[len(guard.Instrs)-1]
			if _, ok := reachesWithout(gi, func(x ssa.Instruction) bool { return x == in }, func(x ssa.Instruction) bool { return x == ssa.Instruction(s.store) }); !ok {
				return
			}
			if _, ok := reachesWithout(in, func(x ssa.Instruction) bool { return x == ssa.Instruction(s.store) }, func(x ssa.Instruction) bool { return x == gi }); ok {
				between = true
				culprit = p.Pos(in.Pos())
			}
		})
		if between {
			r.Fail(s.store.Pos(), p.FuncName(fn), "parser.err may be written between the nil test and this store", "another write of the sticky error (at "+culprit+") can happen after the test and before this store")
		} else {
			r.OK(site, "under err == nil with no other write in between")
		}
	}
}

func mayWriteErr(m *parserModel, f *parserFlow, fn *ssa.Function, seen map[*ssa.Function]bool) bool {
	if seen[fn] {
		return false
	}
	seen[fn] = true
	w := false
	allInstrs(fn, func(in ssa.Instruction) {
		if w {
			return
		}
		if st, ok := in.(*ssa.Store); ok && m.fieldAddr(st.Addr, "err") {
			w = true
		}
		if ci, ok := in.(ssa.CallInstruction); ok {
			for _, g := range f.calleesOf[ci] {
				if inParserPkg(m, g) && mayWriteErr(m, f, g, seen) {
					w = true
				}
			}
		}
	})
	return w
}

// ---------------------------------------------------------------------------
// parser R4: loops leave on error

func c01LoopsLeave(c *Ctx, r *RuleResult, m *parserModel, f *parserFlow) {
	p := c.P
	for _, fn := range m.fns {
		headers, bodies := loopsOf(fn)
		for _, h := range headers {
			body := bodies[h]
			// range loops over slices/strings terminate by construction
			if isRangeLoop(h) {
				continue
			}
			// exit tests: blocks in the loop whose If has a successor outside the loop and whose condition is an
			// error test or the result of an entry-guarded predicate
			var exits []*ssa.BasicBlock
			for b := range body {
				ifi, ok := b.Instrs[len(b.Instrs)-1].(*ssa.If)
				if !ok {
					continue
				}
				out := -1
				for i, s := range b.Succs {
					if !body[s] {
						out = i
					}
				}
				if out < 0 {
					continue
				}
				cd := normCond(Cond{V: ifi.Cond, True: out == 0})
				okExit := false
				if ne, isE := f.isErrNilTest(cd.V); isE && ne == cd.True {
					okExit = true // leaves when err != nil
				}
				if f.isGuardPredResult(cd.V) && !cd.True {
					okExit = true // leaves when the predicate (false whenever an error is recorded) is false
				}
				if okExit {
					exits = append(exits, b)
				}
			}
			// returns inside the loop under an error test count as exits too
			for b := range body {
				if _, ok := b.Instrs[len(b.Instrs)-1].(*ssa.Return); ok {
					for _, cd := range condsAt(b) {
						if ne, isE := f.isErrNilTest(cd.V); isE && ne == cd.True && body[cd.At] {
							exits = append(exits, cd.At)
						}
					}
				}
			}
			site := fmt.Sprintf("loop at %s in %s", p.Pos(loopPos(h)), p.FuncName(fn))
			if len(exits) == 0 {
				r.Fail(loopPos(h), p.FuncName(fn), "loop without an error exit", "no exit of this loop is taken because an error was recorded: after an error every parse helper returns at once without consuming, so the loop spins forever on inputs that fail inside it (the look-ahead stays the same)")
				continue
			}
			// every cycle through the header passes one of the exit tests: removing them leaves no cycle
			blocked := map[*ssa.BasicBlock]bool{}
			for _, b := range exits {
				blocked[b] = true
			}
			cyc := false
			if !blocked[h] {
				rr := reachAvoiding(h, func(b *ssa.BasicBlock) bool { return blocked[b] || !body[b] }, nil)
				for b := range rr {
					for _, s := range b.Succs {
						if s == h {
							cyc = true
						}
					}
				}
			}
			if cyc {
				r.Fail(loopPos(h), p.FuncName(fn), "a cycle of the loop avoids the error exit", "some path around this loop does not test the sticky error: a failure on that path is not noticed and the loop may not end")
			} else {
				r.OK(site, fmt.Sprintf("%d error exit(s) on every cycle", len(exits)))
			}
		}
	}
}

func isRangeLoop(h *ssa.BasicBlock) bool {
	for _, in := range h.Instrs {
		if ph, ok := in.(*ssa.Phi); ok && strings.Contains(ph.Comment, "rangeindex") {
			return true
		}
		if _, ok := in.(*ssa.Next); ok {
			return true
		}
	}
	return false
}

func loopPos(h *ssa.BasicBlock) token.Pos {
	for _, in := range h.Instrs {
		if in.Pos().IsValid() {
			return in.Pos()
		}
	}
	for _, s := range h.Succs {
		for _, in := range s.Instrs {
			if in.Pos().IsValid() {
				return in.Pos()
			}
		}
	}
	return h.Parent().Pos()
}

// ---------------------------------------------------------------------------
// parser R5: progress or error (must-analysis with the look-ahead kind as context)

type kval struct {
	known bool
	param int // >= 0: equals parameter #param of the current function
	c     int64
}

func (k kval) eq(o kval) bool {
	return k.known == o.known && (!k.known || (k.param == o.param && k.c == o.c))
}

type poeState struct {
	prog  bool
	k     kval
	peeks map[ssa.Instruction]bool
	live  bool
}

func (s poeState) clone() poeState {
	n := s
	n.peeks = map[ssa.Instruction]bool{}
	for p := range s.peeks {
		n.peeks[p] = true
	}
	return n
}

func joinPoe(a, b poeState) poeState {
	if !a.live {
		return b.clone()
	}
	if !b.live {
		return a.clone()
	}
	n := poeState{live: true, prog: a.prog && b.prog, peeks: map[ssa.Instruction]bool{}}
	if a.k.eq(b.k) {
		n.k = a.k
	}
	for p := range a.peeks {
		if b.peeks[p] {
			n.peeks[p] = true
		}
	}
	return n
}

func samePoe(a, b poeState) bool {
	if a.live != b.live || a.prog != b.prog || !a.k.eq(b.k) || len(a.peeks) != len(b.peeks) {
		return false
	}
	for p := range a.peeks {
		if !b.peeks[p] {
			return false
		}
	}
	return true
}

type poe struct {
	m     *parserModel
	f     *parserFlow
	g     *grammarCtx
	memo  map[string]int // 0 in progress, 1 true, 2 false
	kindT func(v ssa.Value) bool
}

func (a *poe) kOf(fn *ssa.Function, v ssa.Value) (kval, bool) {
	if c, ok := constInt(v); ok {
		return kval{known: true, param: -1, c: c}, true
	}
	if prm, ok := v.(*ssa.Parameter); ok {
		return kval{known: true, param: paramIndex(fn, prm)}, true
	}
	return kval{}, false
}

// poeFunc: every return of fn is reached only after a consumption or an error, given the look-ahead kind at entry.
func (a *poe) poeFunc(fn *ssa.Function, entry kval) bool {
	key := fmt.Sprintf("%p|%v|%d|%d", fn, entry.known, entry.param, entry.c)
	if v, ok := a.memo[key]; ok {
		return v != 2 // in progress: assume true (a recursion that never returns has nothing to prove here; depth is R6's)
	}
	a.memo[key] = 0
	if len(fn.Blocks) == 0 {
		a.memo[key] = 2
		return false
	}
	states := a.run(fn, fn.Blocks[0], poeState{live: true, k: entry, peeks: map[ssa.Instruction]bool{}}, nil)
	ok := true
	n := 0
	for _, ret := range returnsOf(fn) {
		st, has := states[ret.Block()]
		if !has || !st.live {
			continue
		}
		// replay the block
		st = a.block(fn, ret.Block(), st)
		n++
		if !st.prog {
			ok = false
		}
	}
	if n == 0 {
		ok = true
	}
	if ok {
		a.memo[key] = 1
	} else {
		a.memo[key] = 2
	}
	return ok
}

// block applies the instructions of b.
func (a *poe) block(fn *ssa.Function, b *ssa.BasicBlock, st poeState) poeState {
	st = st.clone()
	for _, in := range b.Instrs {
		if a.f.discardsLookahead(in) {
			st.prog = true
			st.k = kval{}
			st.peeks = map[ssa.Instruction]bool{}
			continue
		}
		ci, ok := in.(ssa.CallInstruction)
		if !ok {
			continue
		}
		if _, isB := ci.Common().Value.(*ssa.Builtin); isB {
			continue
		}
		callees := a.f.calleesOf[ci]
		if len(callees) == 0 {
			continue
		}
		allProg := true
		consumes := false
		for _, g := range callees {
			switch {
			case g == a.m.next || a.f.errFuncs[g]:
				consumes = true
			case g == a.m.peek:
				allProg = false
				st.peeks[in] = true
			case !inParserPkg(a.m, g) || !a.f.mayConsume[g]:
				allProg = false
			default:
				consumes = true
				// the callee's entry context
				ek := kval{}
				if st.k.known {
					matched := false
					for j, prm := range g.Params {
						if j >= len(ci.Common().Args) {
							break
						}
						if n := namedOf(prm.Type()); n != nil && n.Obj().Name() == "Type" && n.Obj().Pkg().Name() == "lexer" {
							if av, ok := a.kOf(fn, ci.Common().Args[j]); ok && av.eq(st.k) {
								ek = kval{known: true, param: j}
								matched = true
							}
						}
					}
					if !matched && st.k.param < 0 {
						ek = st.k
					}
				}
				if !a.poeFunc(g, ek) {
					allProg = false
				}
			}
		}
		if consumes {
			if allProg {
				st.prog = true
			}
			st.k = kval{}
			st.peeks = map[ssa.Instruction]bool{}
		}
	}
	return st
}

// run: forward dataflow from `start`; if within != nil only blocks of that set are entered.
func (a *poe) run(fn *ssa.Function, start *ssa.BasicBlock, init poeState, within map[*ssa.BasicBlock]bool) map[*ssa.BasicBlock]poeState {
	states := map[*ssa.BasicBlock]poeState{start: init}
	work := []*ssa.BasicBlock{start}
	visits := map[*ssa.BasicBlock]int{}
	for len(work) > 0 {
		b := work[0]
		work = work[1:]
		visits[b]++
		if visits[b] > 50 {
			continue
		}
		out := a.block(fn, b, states[b])
		for i, s := range b.Succs {
			if within != nil && (!within[s] || s == start) {
				continue
			}
			o, feasible := a.edge(fn, b, out, i)
			if !feasible {
				continue
			}
			old, had := states[s]
			nw := o
			if had {
				nw = joinPoe(old, o)
				if samePoe(old, nw) {
					continue
				}
			}
			states[s] = nw
			work = append(work, s)
		}
	}
	return states
}

// edge refines the state along the i-th successor edge of b.
func (a *poe) edge(fn *ssa.Function, b *ssa.BasicBlock, st poeState, i int) (poeState, bool) {
	st = st.clone()
	ifi, ok := b.Instrs[len(b.Instrs)-1].(*ssa.If)
	if !ok || len(b.Succs) != 2 {
		return st, true
	}
	cd := normCond(Cond{V: ifi.Cond, True: i == 0})
	// the true result of a consuming predicate
	if cd.True && a.f.isConsumePredResult(cd.V) {
		st.prog = true
		return st, true
	}
	// the true result of an error predicate: an error has been recorded
	if cd.True && a.f.isErrPredResult(cd.V) {
		st.prog = true
		return st, true
	}
	// the side of a sticky-error test on which an error is recorded
	if ne, ok := a.f.isErrNilTest(cd.V); ok && ne == cd.True {
		st.prog = true
		return st, true
	}
	bo, ok := cd.V.(*ssa.BinOp)
	if !ok || (bo.Op != token.EQL && bo.Op != token.NEQ) {
		return st, true
	}
	tok, fld, ok := a.g.tokenField(bo.X)
	if !ok || fld != "Kind" {
		return st, true
	}
	src, call := a.g.tokenSource(tok)
	if src != "peek" || call == nil || !st.peeks[call] {
		return st, true
	}
	kv, ok := a.kOf(fn, bo.Y)
	if !ok {
		return st, true
	}
	isEq := (bo.Op == token.EQL) == cd.True
	if st.k.known {
		if st.k.eq(kv) && !isEq {
			return st, false // the look-ahead is known to be of this kind: the other branch is infeasible
		}
		if st.k.param < 0 && kv.param < 0 && st.k.c != kv.c && isEq {
			return st, false
		}
	}
	if isEq {
		st.k = kv
	}
	return st, true
}

func c01Progress(c *Ctx, r *RuleResult, m *parserModel, f *parserFlow) {
	p := c.P
	g := &grammarCtx{c: c, p: p, m: m, f: f, tk: p.LookupType("lexer", "Token")}
	if g.tk == nil {
		r.AnchorLost("lexer.Token")
		return
	}
	for _, ci := range f.unresolved {
		r.Undecided(ci.Pos(), p.FuncName(ci.Parent()), "dynamic call", "a call through a function value that is not a closure parameter: progress cannot be decided")
	}
	a := &poe{m: m, f: f, g: g, memo: map[string]int{}}
	// base facts, checked rather than assumed
	for _, name := range []string{"expect", "expectKeyword"} {
		fn := p.Func("parser.(*parser)." + name)
		if fn == nil {
			continue
		}
		if a.poeFunc(fn, kval{}) {
			r.OK(name+" always consumes a token or records an error", "")
		} else {
			r.Fail(fn.Pos(), p.FuncName(fn), name+" can return without consuming or failing", "a helper every production relies on for progress can return with neither a consumed token nor an error")
		}
	}
	// loops
	for _, fn := range m.fns {
		if fn == m.next || fn == m.peek {
			continue
		}
		headers, bodies := loopsOf(fn)
		for _, h := range headers {
			if isRangeLoop(h) {
				continue
			}
			body := bodies[h]
			states := a.run(fn, h, poeState{live: true, peeks: map[ssa.Instruction]bool{}}, body)
			okAll := true
			n := 0
			for b := range body {
				st, has := states[b]
				if !has {
					continue
				}
				for i, s := range b.Succs {
					if s != h {
						continue
					}
					out := a.block(fn, b, st)
					o, feasible := a.edge(fn, b, out, i)
					if !feasible {
						continue
					}
					n++
					if !o.prog {
						okAll = false
					}
				}
			}
			site := fmt.Sprintf("loop at %s in %s", p.Pos(loopPos(h)), p.FuncName(fn))
			if okAll && n > 0 {
				r.OK(site, "every way around the loop consumes a token or records an error")
			} else if n == 0 {
				r.OK(site, "no feasible back edge")
			} else {
				r.Fail(loopPos(h), p.FuncName(fn), "loop iteration without progress", "some way around this loop neither consumes a token nor records an error: the look-ahead is unchanged and the loop does not end")
			}
		}
	}
	// callbacks of the repetition helpers
	for _, fn := range m.fns {
		allInstrs(fn, func(in ssa.Instruction) {
			ci, ok := in.(ssa.CallInstruction)
			if !ok {
				return
			}
			for _, arg := range ci.Common().Args {
				mc, ok := arg.(*ssa.MakeClosure)
				if !ok {
					continue
				}
				cl := unwrapThunk(mc.Fn.(*ssa.Function))
				if a.poeFunc(cl, kval{}) {
					r.OK("callback "+p.FuncName(cl), "consumes a token or records an error on every path")
				} else {
					r.Fail(cl.Pos(), p.FuncName(cl), "repetition callback without progress", "a callback passed to a repetition helper can return without consuming a token or recording an error: the helper's loop would spin")
				}
			}
		})
	}
}
