package main

import (
	"fmt"
	"go/token"
	"go/types"
	"os"
	"sort"
	"strings"

	"golang.org/x/tools/go/ssa"
)

func init() {
	register("C04", "Positions are truthful (structural half): (R1) token coordinate coherence — with ghosts for the rune cursor, the line and the line start at the moment ReadToken has skipped ignored text, the abstract interpreter (Zone x Karr, token structs tracked field by field through returns and local copies) proves at every return of a successfully built token that Pos.Start equals the ghost cursor, Pos.Line the ghost line, Pos.Column = Start - lineStart + 1, Column >= 1 and Start <= End; (R2) after a line counter increment the last write among {rune cursor increments, lineStart := cursor} before the next loop head or return is the lineStart assignment, so the line start is the offset after the whole terminator; (R3) byte/rune cursor pairing — the rune cursor is only advanced by constants matched with the same byte advance, by one per decoded rune, by unit counters of single-byte characters or by a rune count, never by a byte length; (R4) ast.Position values are built only by the lexer, a position pointer stored in a syntax-tree node points into a token variable that is fresh for that node (not shared across loop iterations), and validator/formatter never write a Position; (R5) file, line and column of every located error come from one position (C20.R5). (R6) unit steps of both cursors step over a byte below 0x80, also per incoming edge where the width is a phi.", runC04)
}

func runC04(c *Ctx) {
	p := c.P
	r1 := c.Rule("R1", "token coordinates are the coordinates of the token's first character", 10)
	obs := tokenCoordinateObligations(c, r1)
	if obs == nil {
		return
	}
	var keys []string
	for k := range obs {
		keys = append(keys, k)
	}
	sort.Strings(keys)
	for _, k := range keys {
		o := obs[k]
		if o.ok {
			r1.OK(p.Pos(o.pos)+" "+o.fn+": "+o.what, "")
		} else {
			r1.Fail(o.pos, o.fn, o.what, fmt.Sprintf("at this return of a successfully built token the analysis cannot prove that %s (%s): the reported position is not that of the token's first character", o.what, o.why))
		}
	}

	// ---- R2 line state is advanced after the whole terminator
	r2 := c.Rule("R2", "lineStart is assigned after the whole line terminator", 4)
	c04LineState(c, r2)
	lexT := p.LookupType("lexer", "Lexer")
	if lexT != nil {
		c04CRLFOnce(c, r2, lexT)
	}

	// ---- R3 byte/rune pairing
	r3 := c.Rule("R3", "the rune cursor is never advanced by a byte length", 10)
	c04CursorUnits(c, r3)

	// ---- R6 unit steps skip single-byte characters
	r6 := c.Rule("R6", "a unit step of both cursors steps over a byte below 0x80", 10)
	c04UnitSteps(c, r6, lexT)

	// ---- R4 positions are made by the lexer and copied from fresh tokens
	r4 := c.Rule("R4", "positions come from the lexer; nodes do not share a token variable", 20)
	posT := p.LookupType("ast", "Position")
	if posT == nil {
		r4.AnchorLost("ast.Position")
	} else {
		for _, fn := range p.Funcs() {
			pk := p.PkgOf(fn)
			if pk == nil {
				continue
			}
			inLexer := strings.HasSuffix(pk.PkgPath, "/lexer")
			allInstrs(fn, func(in ssa.Instruction) {
				switch x := in.(type) {
				case *ssa.Alloc:
					if sameNamed(namedOf(x.Type()), posT) && !inLexer {
						if _, isS := x.Type().Underlying().(*types.Pointer).Elem().Underlying().(*types.Struct); isS {
							// a Position built outside the lexer
							if len(fieldStores(x, "Line")) > 0 || len(fieldStores(x, "Column")) > 0 || len(fieldStores(x, "Start")) > 0 {
								r4.Fail(x.Pos(), p.FuncName(fn), "ast.Position built outside the lexer", "coordinates are computed outside the lexer: nothing relates them to the source")
							}
						}
					}
				case *ssa.Store:
					fa, ok := x.Addr.(*ssa.FieldAddr)
					if !ok {
						return
					}
					n, f, _, _ := fieldOf(fa)
					if n == nil {
						return
					}
					// writes to fields of a Position outside the lexer
					if sameNamed(n, posT) && !inLexer {
						if al, isA := fa.X.(*ssa.Alloc); isA && isFresh(al) {
							return
						}
						r4.Fail(x.Pos(), p.FuncName(fn), "store to Position."+f+" outside the lexer", "a position is edited after the lexer produced it")
						return
					}
					// a *Position stored into a syntax-tree node: where does the pointer come from?
					if f != "Position" || !isPositionPtr(fa.Type().(*types.Pointer).Elem()) {
						return
					}
					if !strings.HasSuffix(pk.PkgPath, "/parser") {
						return
					}
					site := fmt.Sprintf("%s.Position in %s at %s", n.Obj().Name(), p.FuncName(fn), p.Pos(x.Pos()))
					src := unspill(x.Val)
					if why := posFromPeek(p, src, 0); why != "" {
						r4.OK(site, why)
						return
					}
					switch y := src.(type) {
					case *ssa.FieldAddr:
						// &tok.Pos : tok must be a token variable allocated in the same loop iteration
						if al, ok := y.X.(*ssa.Alloc); ok {
							_, bodies := loopsOf(fn)
							shared := false
							for _, body := range bodies {
								if body[x.Block()] && !body[al.Block()] {
									shared = true
								}
							}
							if shared {
								r4.Fail(x.Pos(), p.FuncName(fn), "node position points into a token variable shared across loop iterations", "the position stored in the node is a pointer into a variable declared outside the loop that creates the nodes: every node of the loop shares it and ends up with the position of the last token")
							} else {
								r4.OK(site, "pointer into a token variable that is fresh for this node")
							}
							return
						}
					case *ssa.Const:
						r4.OK(site, "nil")
						return
					case *ssa.UnOp:
						// copied from another node's Position field
						if _, ff, ok := fieldLoadOf(src); ok && ff == "Position" {
							r4.OK(site, "copied from another node")
							return
						}
					case *ssa.Parameter, *ssa.Phi:
						r4.OK(site, "passed in")
						return
					}
					r4.Fail(x.Pos(), p.FuncName(fn), "node position of unknown origin", "the position stored in a node does not come from peekPos(), a token's Pos or another node")
				}
			})
		}
	}
	// peekPos itself returns the address of a fresh copy of the look-ahead token's Pos
	if pp := p.Func("parser.(*parser).peekPos"); pp == nil {
		r4.AnchorLost("parser.(*parser).peekPos")
	} else {
		okPP := false
		for _, ret := range returnsOf(pp) {
			if fa, ok := ret.Results[0].(*ssa.FieldAddr); ok {
				if al, ok := fa.X.(*ssa.Alloc); ok {
					_, f, _, _ := fieldOf(fa)
					if f == "Pos" && len(storesTo(al)) == 1 {
						if call, ok := storesTo(al)[0].(*ssa.Call); ok && call.Call.StaticCallee() != nil && call.Call.StaticCallee().Name() == "peek" {
							okPP = true
						}
					}
				}
			}
		}
		if okPP {
			r4.OK("peekPos returns &tok.Pos of a fresh copy of the look-ahead token", "")
		} else {
			r4.Fail(pp.Pos(), p.FuncName(pp), "peekPos provenance", "peekPos no longer returns the Pos of a fresh copy of the look-ahead token")
		}
	}

	// ---- R5 shared with C20.R5
	r5 := c.Rule("R5", "file, line and column of located errors come from one position", 3)
	if el := p.Func("gqlerror.ErrorLocf"); el != nil {
		for _, ci := range callsTo(p.Funcs(), el) {
			args := ci.Common().Args
			b0, f0 := posFieldBase(args[0])
			b1, f1 := posFieldBase(args[1])
			b2, f2 := posFieldBase(args[2])
			site := p.FuncName(ci.Parent())
			switch {
			case b0 != nil && b1 != nil && b2 != nil && baseKey(b0) == baseKey(b1) && baseKey(b1) == baseKey(b2) && f0 == "Src.Name" && f1 == "Line" && f2 == "Column":
				r5.OK("ErrorLocf in "+site, "Src.Name, Line, Column of one position")
			case strings.HasPrefix(site, "lexer."):
				r5.OK("ErrorLocf in "+site, "the lexer's own cursor state (R1/C01.R7)")
			default:
				r5.Fail(ci.Pos(), site, "ErrorLocf arguments from different positions", "file/line/column of this error come from different values")
			}
		}
	} else {
		r5.AnchorLost("gqlerror.ErrorLocf")
	}
	// an error names ONE file: locations are attached only where the file of the same position is recorded with them —
	// the gqlerror constructors and the At(position) option. A location appended anywhere else has no file of its own
	// and is read as belonging to the file the error already names.
	errT := p.LookupType("gqlerror", "Error")
	if errT == nil {
		r5.AnchorLost("gqlerror.Error")
		return
	}
	nw := 0
	for _, fn := range p.Funcs() {
		for _, s := range storesToField([]*ssa.Function{fn}, errT, "Locations") {
			nw++
			pk := p.PkgOf(fn)
			site := "Error.Locations written in " + p.FuncName(fn)
			switch {
			case pk != nil && strings.HasSuffix(pk.PkgPath, "/gqlerror"):
				r5.OK(site, "a constructor of package gqlerror")
			case locationWithFile(s.store, fn):
				r5.OK(site, "line and column are taken from the position whose Src.Name the same function records as the error's file")
			default:
				r5.Fail(s.store.Pos(), p.FuncName(fn), "a location attached without its file", "a Location is appended to an error outside the constructors and without recording the file of the position it comes from: the error names one file, and this location — possibly from another source (a definition and its extension in two files) — is read as a place in that file, where it may not be a token start or may lie past the end")
			}
		}
	}
	// composite literals of Error with Locations set are constructors too: only package gqlerror makes them
	for _, fn := range p.Funcs() {
		pk := p.PkgOf(fn)
		if pk != nil && strings.HasSuffix(pk.PkgPath, "/gqlerror") {
			continue
		}
		allInstrs(fn, func(in ssa.Instruction) {
			if a, ok := in.(*ssa.Alloc); ok && namedOf(a.Type()) == errT && len(fieldStores(a, "Locations")) > 0 {
				nw++
			}
		})
	}
	if nw == 0 {
		r5.AnchorLost("writers of gqlerror.Error.Locations")
	}
}

// locationWithFile: the function that appends the Location also records a file taken from the same position value
// (validator.At: position.Line/Column and err.SetFile(position.Src.Name)).
func locationWithFile(st *ssa.Store, fn *ssa.Function) bool {
	// the positions whose Line is read in fn, and the positions whose Src.Name is handed to SetFile
	lines := map[string]bool{}
	files := map[string]bool{}
	allInstrs(fn, func(in ssa.Instruction) {
		if v, ok := in.(ssa.Value); ok {
			if b, f := posFieldBase(v); b != nil && f == "Line" {
				lines[baseKey(b)] = true
			}
		}
		ci, isCall := in.(ssa.CallInstruction)
		if !isCall || ci.Common().StaticCallee() == nil || ci.Common().StaticCallee().Name() != "SetFile" {
			return
		}
		for _, a := range ci.Common().Args {
			if b, f := posFieldBase(a); b != nil && f == "Src.Name" {
				files[baseKey(b)] = true
			}
		}
	})
	if len(lines) == 0 {
		return false
	}
	for k := range lines {
		if !files[k] {
			return false
		}
	}
	return true
}

// runeDeltaKind classifies what a value added to the rune cursor counts.
func runeDeltaKind(p *Program, v ssa.Value, depth int) (string, string) {
	if depth > 5 {
		return "unknown", "deep expression"
	}
	switch x := v.(type) {
	case *ssa.Const:
		return "a constant number of single-byte characters", ""
	case *ssa.Phi:
		// a unit counter: phi(const, self+1) ; or a choice among classified values
		worst := ""
		for _, e := range x.Edges {
			if bo, ok := e.(*ssa.BinOp); ok && bo.Op == token.ADD && (bo.X == ssa.Value(x) || bo.Y == ssa.Value(x)) {
				other := bo.Y
				if bo.Y == ssa.Value(x) {
					other = bo.X
				}
				if _, isC := other.(*ssa.Const); isC {
					continue
				}
				return "unknown", "counter incremented by a variable"
			}
			k, w := runeDeltaKind(p, e, depth+1)
			if k == "bytes" || k == "unknown" {
				return k, w
			}
			worst = k
		}
		if worst == "" {
			worst = "a unit counter"
		}
		return "a counter of single-byte characters", ""
	case *ssa.Call:
		name := calleeName(x)
		switch {
		case name == "unicode/utf8.RuneCountInString" || name == "unicode/utf8.RuneCount":
			return "a rune count", ""
		case strings.HasPrefix(name, "strings.Index") || strings.HasPrefix(name, "strings.LastIndex") || strings.HasPrefix(name, "bytes.Index"):
			return "bytes", "the result of " + name + " (a byte index)"
		}
		if b, ok := x.Call.Value.(*ssa.Builtin); ok && b.Name() == "len" {
			return "bytes", "len(...) of a string"
		}
		if g := x.Call.StaticCallee(); g != nil && p.inModule(g) && len(g.Blocks) > 0 && g.Signature.Results().Len() == 1 {
			// e.g. acceptDigits: every return is classified
			worst := ""
			for _, ret := range returnsOf(g) {
				k, w := runeDeltaKind(p, ret.Results[0], depth+1)
				if k == "bytes" || k == "unknown" {
					return k, w
				}
				worst = k
			}
			return worst, ""
		}
		return "unknown", "the result of " + name
	case *ssa.Extract:
		if call, ok := x.Tuple.(*ssa.Call); ok {
			if calleeName(call) == "unicode/utf8.DecodeRuneInString" && x.Index == 1 {
				return "bytes", "the byte width of a decoded rune"
			}
			// a module function that returns such a tuple (the lexer's peek)
			if g := call.Call.StaticCallee(); g != nil && p.inModule(g) && len(g.Blocks) > 0 && depth < 4 {
				worst := ""
				for _, ret := range returnsOf(g) {
					vals := returnValues(ret)
					if x.Index >= len(vals) {
						return "unknown", "a tuple component"
					}
					k, w := runeDeltaKind(p, vals[x.Index], depth+1)
					if k == "bytes" || k == "unknown" {
						return k, w
					}
					worst = k
				}
				if worst != "" {
					return worst, ""
				}
			}
		}
		return "unknown", "a tuple component"
	case *ssa.BinOp:
		if x.Op == token.SUB && asciiSpan(x) {
			return "the length of a run of bytes each compared equal to an ASCII character", ""
		}
		if x.Op == token.SUB && asciiTrimSpan(x) {
			return "the number of bytes an ASCII cutset trimmed off", ""
		}
		if x.Op == token.ADD || x.Op == token.SUB {
			k1, w1 := runeDeltaKind(p, x.X, depth+1)
			if k1 == "bytes" || k1 == "unknown" {
				return k1, w1
			}
			k2, w2 := runeDeltaKind(p, x.Y, depth+1)
			if k2 == "bytes" || k2 == "unknown" {
				return k2, w2
			}
			return k1, ""
		}
	case *ssa.Parameter:
		// a stepping helper: the parameter is what its callers pass
		fn := x.Parent()
		idx := paramIndex(fn, x)
		calls := callsTo(p.FuncsIn("lexer"), fn)
		if idx < 0 || len(calls) == 0 || fn.Parent() != nil {
			return "unknown", "parameter " + x.Name()
		}
		worst := ""
		for _, ci := range calls {
			if idx >= len(ci.Common().Args) {
				return "unknown", "parameter " + x.Name()
			}
			k, w := runeDeltaKind(p, ci.Common().Args[idx], depth+1)
			if k == "bytes" || k == "unknown" {
				return k, w + ", passed as " + x.Name() + " by " + p.FuncName(ci.Parent()) + " at " + p.Pos(ci.Pos())
			}
			worst = k
		}
		return worst, ""
	case *ssa.Convert:
		return runeDeltaKind(p, x.X, depth+1)
	case *ssa.UnOp:
		u := unspill(v)
		if u != v {
			return runeDeltaKind(p, u, depth+1)
		}
	}
	return "unknown", v.Name()
}

// asciiSpan: x is `pos - cursor` where cursor is a load of the byte cursor (a field of the lexer) and pos is a loop
// variable that starts at cursor + k and is incremented by one only on the side of a branch where the byte Input[pos]
// is known to be below 0x80 (interval propagation of that byte): the difference counts single-byte characters.
func asciiSpan(x *ssa.BinOp) bool {
	ph, ok := stripChange(x.X).(*ssa.Phi)
	if !ok {
		return false
	}
	cur, ok := stripChange(x.Y).(*ssa.UnOp)
	if !ok || cur.Op != token.MUL {
		return false
	}
	fa, ok := cur.X.(*ssa.FieldAddr)
	if !ok {
		return false
	}
	_, cf, _, _ := fieldOf(fa)
	fn := ph.Parent()
	// edges: cursor + k (k >= 0), or ph + 1
	var incs []*ssa.BinOp
	for _, e := range ph.Edges {
		e = stripChange(e)
		bo, ok := e.(*ssa.BinOp)
		if !ok || bo.Op != token.ADD {
			return false
		}
		k, okK := constNum(bo.Y)
		if !okK || k < 0 {
			return false
		}
		if stripChange(bo.X) == ssa.Value(ph) {
			if k != 1 {
				return false
			}
			incs = append(incs, bo)
			continue
		}
		ld, ok := stripChange(bo.X).(*ssa.UnOp)
		if !ok {
			return false
		}
		fa2, ok := ld.X.(*ssa.FieldAddr)
		if !ok {
			return false
		}
		if _, f2, _, _ := fieldOf(fa2); f2 != cf {
			return false
		}
		// the k bytes before the loop start are the caller's business (already classified where the cursor moved)
	}
	if len(incs) == 0 {
		return false
	}
	// the byte at ph
	var byteVal ssa.Value
	var byteIn ssa.Instruction
	allInstrs(fn, func(in ssa.Instruction) {
		if idx, v, ok := strIndex(in); ok && isByteVal(v) && stripChange(idx) == ssa.Value(ph) {
			byteVal, byteIn = v, in
		}
	})
	if byteVal == nil {
		return false
	}
	sets := reachSets(fn, byteVal, byteIn.Block(), ivFull(0xFF))
	for _, inc := range incs {
		set := sets[inc.Block()]
		if len(set) == 0 || set[len(set)-1][1] >= 0x80 {
			return false
		}
	}
	return true
}

type tokOb struct {
	pos  token.Pos
	fn   string
	what string
	ok   bool
	why  string
}

// tokenCoordinateObligations runs the lexer engine with ghosts for the place where a token begins and records, at every
// return of a finished, successfully built token, the coordinate obligations of C04.R1 (and C20.R6).
func tokenCoordinateObligations(c *Ctx, r1 *RuleResult) map[string]*tokOb {
	p := c.P
	makeVal := p.Func("lexer.(*Lexer).makeValueToken")
	rt := p.Func("lexer.(*Lexer).ReadToken")
	if makeVal == nil || rt == nil {
		r1.AnchorLost("lexer.(*Lexer).makeValueToken / ReadToken")
		return nil
	}
	// functions of package lexer that never return a non-nil error (their token results are successful tokens)
	errFree := map[*ssa.Function]bool{}
	for changed := true; changed; {
		changed = false
		for _, fn := range p.FuncsIn("lexer") {
			if errFree[fn] || fn.Signature.Results().Len() != 2 || len(fn.Blocks) == 0 {
				continue
			}
			ok := true
			for _, ret := range returnsOf(fn) {
				v := returnValues(ret)[1]
				if isNilConst(stripConv(v)) {
					continue
				}
				if ex, isEx := v.(*ssa.Extract); isEx {
					if call, isCall := ex.Tuple.(*ssa.Call); isCall && call.Call.StaticCallee() != nil && errFree[call.Call.StaticCallee()] {
						continue
					}
				}
				ok = false
			}
			if ok {
				errFree[fn] = true
				changed = true
			}
		}
	}
	isSuccess := func(v ssa.Value) bool {
		v = stripConv(v)
		if isNilConst(v) {
			return true
		}
		// `t, err := s.makeToken(String)` with err stored in a local and returned later
		v = unspill(v)
		if ex, ok := v.(*ssa.Extract); ok {
			if call, ok := ex.Tuple.(*ssa.Call); ok && call.Call.StaticCallee() != nil && errFree[call.Call.StaticCallee()] {
				return true
			}
		}
		return false
	}
	obs := map[string]*tokOb{}
	add := func(pos token.Pos, fn, what string, ok bool, why string) {
		k := p.PosCol(pos) + "|" + what
		o := obs[k]
		if o == nil {
			o = &tokOb{pos, fn, what, true, ""}
			obs[k] = o
		}
		if !ok && o.ok {
			o.ok = false
			o.why = why
		}
	}
	ghostsSet := false
	e, _, ok := lexerEngine(c, func(e *absEngine) {
		e.structFields["Token"] = []string{"Pos.Start", "Pos.End", "Pos.Line", "Pos.Column"}
		e.important = append(e.important, "g:tok:start", "g:tok:line", "g:tok:ls")
		e.onReturn = func(e *absEngine, f *frame, st *nst, ret *ssa.Return) {
			// ghosts are taken where ReadToken stores startRunes (right after skipping ignored text): see onStore below
			if !f.rec || len(ret.Results) != 2 {
				return
			}
			if n := namedOf(ret.Results[0].Type()); n == nil || n.Obj().Name() != "Token" {
				return
			}
			vals := returnValues(ret)
			if !isSuccess(vals[1]) {
				return
			}
			if _, ok := st.z.lookup("g:tok:start"); !ok {
				return
			}
			// only the functions ReadToken calls directly hand a finished token back (helpers such as makeToken
			// return tokens that are still adjusted by their caller)
			if strings.Count(f.ctx, "/") != 1 {
				return
			}
			key := e.structKey(f, vals[0])
			fld := func(n string) linexp { return lvar(key + "." + n) }
			known := func(n string) bool {
				_, a := st.z.lookup(key + "." + n)
				return a || st.k.vars()[key+"."+n]
			}
			if !known("Pos.Start") || !known("Pos.Column") || !known("Pos.Line") {
				add(ret.Pos(), e.p.FuncName(f.fn), "token coordinates tracked", false, "the fields of the returned token could not be followed to their construction")
				return
			}
			eq := func(what string, d linexp) {
				lo, hi := st.lb(d), st.ub(d)
				okE := lo == 0 && hi == 0
				if !okE && os.Getenv("GQLVET_DEBUG") != "" {
					fmt.Fprintf(os.Stderr, "C04DBG %s ctx=%s key=%s %s [%s,%s]\n", e.p.PosCol(ret.Pos()), f.ctx, key, what, bstr(lo), bstr(hi))
				}
				add(ret.Pos(), e.p.FuncName(f.fn), what, okE, fmt.Sprintf("difference in [%s,%s]", bstr(lo), bstr(hi)))
			}
			eq("Pos.Start = rune offset of the token's first character", fld("Pos.Start").minus(lvar("g:tok:start")))
			eq("Pos.Line = line of the token's first character", fld("Pos.Line").minus(lvar("g:tok:line")))
			eq("Pos.Column = Start - lineStart + 1", fld("Pos.Column").minus(lvar("g:tok:start")).plus(lvar("g:tok:ls")).addK(-1))
			colLo := st.lb(fld("Pos.Column"))
			add(ret.Pos(), e.p.FuncName(f.fn), "Pos.Column >= 1", colLo >= 1, "column >= "+bstr(colLo))
			lnLo := st.lb(fld("Pos.Line"))
			add(ret.Pos(), e.p.FuncName(f.fn), "Pos.Line >= 1", lnLo >= 1, "line >= "+bstr(lnLo))
			se := st.ub(fld("Pos.Start").minus(fld("Pos.End")))
			add(ret.Pos(), e.p.FuncName(f.fn), "Pos.Start <= Pos.End", se <= 0, "start-end <= "+bstr(se))
		}
		// ghosts: when ReadToken (root frame) stores startRunes
		prevCall := e.onCall
		_ = prevCall
		e.onStoreCell = func(e *absEngine, f *frame, st *nst, cell string) {
			if f.ctx == "R" && cell == "c:startRunes" {
				st.assign("g:tok:start", lvar("c:endRunes"), nil)
				st.assign("g:tok:line", lvar("c:line"), nil)
				st.assign("g:tok:ls", lvar("c:lineStartRunes"), nil)
				ghostsSet = true
			}
		}
	})
	if !ok {
		r1.AnchorLost("lexer engine")
		return nil
	}
	_ = e
	if !ghostsSet {
		r1.AnchorLost("the store of startRunes in ReadToken (where a token begins)")
	}
	return obs
}

// c04LineState (C04.R2, C01.R8): after the line counter is incremented, the last write among {rune cursor advances,
// lineStart := cursor} before the scanner's next loop head or return is the lineStart assignment — so the line start is
// the offset after the whole terminator and a column never exceeds the line's length by more than one. A function that
// counts the line without looking at the input hands the obligation to its callers.
func c04LineState(c *Ctx, r2 *RuleResult) {
	p := c.P
	lexT := p.LookupType("lexer", "Lexer")
	lexFns := p.FuncsIn("lexer")
	isLineInc := func(st *ssa.Store) bool {
		fa, ok := st.Addr.(*ssa.FieldAddr)
		if !ok {
			return false
		}
		nn, f, _, _ := fieldOf(fa)
		if nn == nil || !sameNamed(nn, lexT) || f != "line" {
			return false
		}
		bo, ok := st.Val.(*ssa.BinOp)
		return ok && bo.Op == token.ADD && (isFieldLoad(bo.X, lexT, "line") || isFieldLoad(bo.Y, lexT, "line"))
	}
	// roles of the lexer's functions: which advance the rune cursor (directly or through callees), which count a line,
	// and which look at the input (a function that counts a line without looking at the input cannot know whether the
	// terminator is complete: the obligation continues in its caller)
	storesCursor := map[*ssa.Function]bool{}
	incsLine := map[*ssa.Function]bool{}
	readsInput := map[*ssa.Function]bool{}
	for _, fn := range lexFns {
		allInstrs(fn, func(in ssa.Instruction) {
			switch x := in.(type) {
			case *ssa.Store:
				if isLineInc(x) {
					incsLine[fn] = true
				}
				if fa, ok := x.Addr.(*ssa.FieldAddr); ok {
					if nn, f, _, _ := fieldOf(fa); nn != nil && sameNamed(nn, lexT) && f == "endRunes" {
						storesCursor[fn] = true
					}
				}
			case *ssa.FieldAddr:
				if nn, f, _, _ := fieldOf(x); nn != nil && f == "Input" && (sameNamed(nn, lexT) || nn.Obj().Name() == "Source") {
					readsInput[fn] = true
				}
			}
		})
	}
	for changed := true; changed; {
		changed = false
		for _, fn := range lexFns {
			if storesCursor[fn] {
				continue
			}
			allInstrs(fn, func(in ssa.Instruction) {
				if call, ok := in.(ssa.CallInstruction); ok {
					if g := call.Common().StaticCallee(); g != nil && storesCursor[g] && !storesCursor[fn] {
						storesCursor[fn] = true
						changed = true
					}
				}
			})
		}
	}
	lineHelper := func(g *ssa.Function) bool { return g != nil && incsLine[g] && !readsInput[g] }
	type r2node struct {
		b    *ssa.BasicBlock
		i    int
		last string
	}
	// r2walk explores forward from (b, i) and returns the first place where a path ends (return, next loop iteration)
	// with something other than the lineStart assignment last; exits collects the states at returns when wanted.
	var exitMemo = map[*ssa.Function]string{}
	var r2walk func(fn *ssa.Function, start r2node, exits *[]string) string
	var exitLast func(g *ssa.Function) string
	r2walk = func(fn *ssa.Function, start r2node, exits *[]string) string {
		headers, _ := loopsOf(fn)
		isHeader := map[*ssa.BasicBlock]bool{}
		for _, h := range headers {
			isHeader[h] = true
		}
		seen := map[string]bool{}
		bad := ""
		var walk func(n r2node)
		walk = func(n r2node) {
			if bad != "" {
				return
			}
			k := fmt.Sprintf("%d:%d:%s", n.b.Index, n.i, n.last)
			if seen[k] {
				return
			}
			seen[k] = true
			last := n.last
			for i := n.i; i < len(n.b.Instrs); i++ {
				switch x := n.b.Instrs[i].(type) {
				case *ssa.Store:
					if fa, ok := x.Addr.(*ssa.FieldAddr); ok {
						nn, f, _, _ := fieldOf(fa)
						if nn != nil && sameNamed(nn, lexT) {
							switch f {
							case "endRunes":
								last = "cursor"
							case "lineStartRunes":
								last = "lineStart"
							}
						}
					}
				case ssa.CallInstruction:
					g := x.Common().StaticCallee()
					switch {
					case lineHelper(g):
						last = exitLast(g)
					case g != nil && storesCursor[g]:
						last = "cursor"
					}
				case *ssa.Return:
					if exits != nil {
						*exits = append(*exits, last)
						return
					}
					if last != "lineStart" {
						bad = "return at " + p.Pos(x.Pos())
					}
					return
				}
			}
			for _, sc := range n.b.Succs {
				if isHeader[sc] {
					if last != "lineStart" && exits == nil {
						bad = "next iteration (loop at " + p.Pos(loopPos(sc)) + ")"
					}
					continue
				}
				walk(r2node{sc, 0, last})
			}
		}
		walk(start)
		return bad
	}
	exitLast = func(g *ssa.Function) string {
		if v, ok := exitMemo[g]; ok {
			return v
		}
		exitMemo[g] = "cursor"
		var exits []string
		r2walk(g, r2node{g.Blocks[0], 0, "none"}, &exits)
		res := "lineStart"
		for _, e := range exits {
			if e != "lineStart" {
				res = "cursor"
			}
		}
		if len(exits) == 0 {
			res = "cursor"
		}
		exitMemo[g] = res
		return res
	}
	why := func(bad string) string {
		return "after this line increment a path to the " + bad + " ends with the rune cursor being advanced after (or without) `lineStartRunes = endRunes`: the rest of the terminator (the LF of a CRLF) is counted into the next line, so the first token of that line is reported one column to the right"
	}
	for _, fn := range lexFns {
		for _, s := range storesToField([]*ssa.Function{fn}, lexT, "line") {
			// only increments of the line counter (the constructor's `line: 1` is an initialisation)
			if !isLineInc(s.store) {
				continue
			}
			site := "line++ at " + p.Pos(s.store.Pos()) + " in " + p.FuncName(fn)
			if lineHelper(fn) {
				// the obligation is the caller's: checked at every call site below
				r2.OK(site, "in a helper that does not look at the input: the obligation is checked at its call sites")
				continue
			}
			bad := r2walk(fn, r2node{s.store.Block(), instrIndex(s.store) + 1, "none"}, nil)
			if bad != "" {
				r2.Fail(s.store.Pos(), p.FuncName(fn), "lineStart not last after line++", why(bad))
			} else {
				r2.OK(site, "every path ends with lineStartRunes = endRunes")
			}
		}
		// calls of line helpers
		allInstrs(fn, func(in ssa.Instruction) {
			call, ok := in.(ssa.CallInstruction)
			if !ok || !lineHelper(call.Common().StaticCallee()) {
				return
			}
			g := call.Common().StaticCallee()
			site := "call of " + p.FuncName(g) + " at " + p.Pos(call.Pos()) + " in " + p.FuncName(fn)
			if lineHelper(fn) {
				r2.OK(site, "in a helper that does not look at the input: checked at its call sites")
				return
			}
			bad := r2walk(fn, r2node{call.Block(), instrIndex(call) + 1, exitLast(g)}, nil)
			if bad != "" {
				r2.Fail(call.Pos(), p.FuncName(fn), "lineStart not last after "+g.Name()+"()", why(bad))
			} else {
				r2.OK(site, "every path ends with lineStartRunes = endRunes")
			}
		})
	}

}

// c04CursorUnits (C04.R3, C03.R9): every update of the rune cursor adds a constant, a unit counter of single-byte
// characters or a rune count — never a byte length.
func c04CursorUnits(c *Ctx, r3 *RuleResult) {
	p := c.P
	lexT := p.LookupType("lexer", "Lexer")
	if lexT == nil {
		r3.AnchorLost("lexer.Lexer")
		return
	}
	for _, fn := range p.FuncsIn("lexer") {
		for _, s := range storesToField([]*ssa.Function{fn}, lexT, "endRunes") {
			bo, ok := s.store.Val.(*ssa.BinOp)
			if !ok || (bo.Op != token.ADD && bo.Op != token.SUB) {
				if _, isC := s.store.Val.(*ssa.Const); isC {
					continue
				}
				r3.Fail(s.store.Pos(), p.FuncName(fn), "rune cursor assigned a non-incremental value", "the rune cursor is set rather than advanced")
				continue
			}
			var delta ssa.Value
			if isFieldLoad(bo.X, lexT, "endRunes") {
				delta = bo.Y
			} else if isFieldLoad(bo.Y, lexT, "endRunes") && bo.Op == token.ADD {
				delta = bo.X
			}
			if delta == nil {
				r3.Fail(s.store.Pos(), p.FuncName(fn), "rune cursor update of unknown shape", "the rune cursor is not updated as cursor +/- delta")
				continue
			}
			kind, why := runeDeltaKind(p, delta, 0)
			site := fmt.Sprintf("endRunes %s= %s at %s in %s", bo.Op, describeVal(delta), p.Pos(s.store.Pos()), p.FuncName(fn))
			if kind == "bytes" {
				r3.Fail(s.store.Pos(), p.FuncName(fn), "rune cursor advanced by a byte length ("+why+")", "the rune cursor is advanced by "+why+", which counts bytes: after text containing a multi-byte character every later offset (and column) is shifted, and offsets can run past the end of the source")
			} else if kind == "unknown" {
				r3.Fail(s.store.Pos(), p.FuncName(fn), "rune cursor advanced by a value of unknown unit ("+why+")", "cannot tell that the value added to the rune cursor counts characters rather than bytes")
			} else {
				r3.OK(site, kind)
			}
		}
	}

}

// posFromPeek: v is the result of peekPos(), or the corresponding result of a parser function every return of which
// hands such a value on (a helper that reads the position together with the pending comment).
func posFromPeek(p *Program, v ssa.Value, depth int) string {
	if depth > 3 {
		return ""
	}
	v = unspill(v)
	idx := 0
	call, ok := v.(*ssa.Call)
	if !ok {
		ex, isEx := v.(*ssa.Extract)
		if !isEx {
			return ""
		}
		call, ok = ex.Tuple.(*ssa.Call)
		if !ok {
			return ""
		}
		idx = ex.Index
	}
	g := call.Call.StaticCallee()
	if g == nil {
		return ""
	}
	if g.Name() == "peekPos" {
		return "from peekPos()"
	}
	pk := p.PkgOf(g)
	if pk == nil || !strings.HasSuffix(pk.PkgPath, "/parser") || len(g.Blocks) == 0 {
		return ""
	}
	rets := returnsOf(g)
	if len(rets) == 0 {
		return ""
	}
	for _, ret := range rets {
		vals := returnValues(ret)
		if idx >= len(vals) || posFromPeek(p, vals[idx], depth+1) == "" {
			return ""
		}
	}
	return "from peekPos() through " + g.Name() + "()"
}

// asciiTrimSpan: len(s) - len(strings.TrimLeft/TrimRight/Trim(s, cutset)) with a constant cutset of ASCII characters:
// the bytes trimmed off are single-byte characters.
func asciiTrimSpan(x *ssa.BinOp) bool {
	lenArg := func(v ssa.Value) ssa.Value {
		call, ok := stripChange(v).(*ssa.Call)
		if !ok {
			return nil
		}
		if b, ok := call.Call.Value.(*ssa.Builtin); !ok || b.Name() != "len" {
			return nil
		}
		return stripChange(call.Call.Args[0])
	}
	whole, part := lenArg(x.X), lenArg(x.Y)
	if whole == nil || part == nil {
		return false
	}
	call, ok := part.(*ssa.Call)
	if !ok || len(call.Call.Args) != 2 {
		return false
	}
	switch calleeName(call) {
	case "strings.TrimLeft", "strings.TrimRight", "strings.Trim":
	default:
		return false
	}
	if stripChange(call.Call.Args[0]) != whole {
		return false
	}
	cut, ok := constString(call.Call.Args[1])
	if !ok || cut == "" {
		return false
	}
	for i := 0; i < len(cut); i++ {
		if cut[i] >= 0x80 {
			return false
		}
	}
	return true
}
