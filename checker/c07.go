package main

import (
	"fmt"
	"go/constant"
	"go/token"
	"go/types"
	"sort"
	"strings"

	"golang.org/x/tools/go/ssa"
)

func init() {
	register("C07", "Schema closure: (R1) ValidateSchemaDocument returns a schema only after validateTypeDefinitions and validateDirectiveDefinitions succeeded, these apply the per-definition check to every entry of Schema.Types / Schema.Directives, and no *gqlerror.Error result in the loader is dropped; (R2) every reference position of the SDL tree is checked on every success path: type references through validateTypeRef, directive lists through validateDirectives with the location the specification assigns to the node, interfaces through validateImplements, union members against {OBJECT}, names through validateName (type names for every entry of Schema.Types, exempt only when BuiltIn); (R3) every registration into Schema.Types/Directives is guarded by a redeclaration test on the same key; (R4) LoadSchema/MustLoadSchema always put the built-in prelude first, the prelude source is BuiltIn, and the introspection fields are appended whenever a query root exists; (R5) the kind tables used by the loader equal the specification's (output kinds, input kinds — both isValidKind and Definition.IsInputType —, union members, implemented types), each DefinitionKind has the DirectiveLocation of the same spelling, and the four emptiness tests exist; (R6) structural type comparisons (isCovariant, Type.IsCompatible) compare like with like at each level and read NonNull of both sides in every descent cycle; (R7) inside the loader's check functions every branch is a check (one side can only fail), loop control, or one of the dispatch conditions the specification gives (kind dispatch, built-in exemption, required-argument test, optional lookup) — no other condition decides whether checks run; (R8) every definition stored into Schema.Types/Directives or appended to PossibleTypes/Implements is non-nil at the registration (not a lookup or search result, or nil-tested on every path). (R9) parsing and loading keep no process-wide state: package-level variables are only read after init. (R10) BuiltIn is copied from a source to its own definitions and extensions only. (R11) the schema's registries only grow; (R12) every member list of an extension is merged for every kind the parser stores it under.", runC07)
	register("C17", "Order independence: (R1) register before resolve — in ValidateSchemaDocument no lookup of Schema.Types/Schema.Directives under a referenced name (member, interface, field type, root, directive use), in the function or in any callee, can be followed on a CFG path by a registration into that map; (R2) the per-definition checks iterate sorted names (C10.R1), so which error is reported does not depend on map or source order; (R3) SchemaDocument.Merge appends every list of the document — on every path, or skipped only because that list or the other document is empty — and ParseSchemas merges every source; (R4) every loader error is located at the Position of a node involved (ErrorPosf with a node position), so it names that node's file; (R5) the loader merges extensions by appending to the definition's lists, so the lists the parser hands out must own their memory: a window of a buffer kept in the parser struct leaves the parser only capacity-clipped (buf[a:b:b]). (R6) no check of the loader is skipped because of an earlier one (C07.R7). (R7) extension merge coverage per kind; (R8) searches through definition-ordered lists decide by existence.", runC17)
}

// ---------------------------------------------------------------------------
// helpers

func loadOfField(v ssa.Value, structName, field string) bool {
	v = unspill(stripChange(v))
	switch x := v.(type) {
	case *ssa.UnOp:
		if x.Op != token.MUL {
			return false
		}
		fa, ok := x.X.(*ssa.FieldAddr)
		if !ok {
			return false
		}
		n, f, _, _ := fieldOf(fa)
		return n != nil && n.Obj().Name() == structName && f == field
	case *ssa.Field:
		n, f, _, _ := fieldOf(x)
		return n != nil && n.Obj().Name() == structName && f == field
	}
	return false
}

func stripChange(v ssa.Value) ssa.Value {
	for {
		if x, ok := v.(*ssa.ChangeType); ok {
			v = x.X
			continue
		}
		return v
	}
}

// fieldLoadOf returns (struct, field) when v is a field load.
func fieldLoadOf(v ssa.Value) (string, string, bool) {
	v = unspill(stripChange(v))
	switch x := v.(type) {
	case *ssa.UnOp:
		if x.Op != token.MUL {
			return "", "", false
		}
		fa, ok := x.X.(*ssa.FieldAddr)
		if !ok {
			return "", "", false
		}
		n, f, _, _ := fieldOf(fa)
		if n == nil {
			return "", "", false
		}
		return n.Obj().Name(), f, true
	case *ssa.Field:
		n, f, _, _ := fieldOf(x)
		if n == nil {
			return "", "", false
		}
		return n.Obj().Name(), f, true
	}
	return "", "", false
}

// isFailureReturn: the error result of ret is certainly non-nil.
func isFailureReturn(ret *ssa.Return) bool {
	if len(ret.Results) == 0 {
		return false
	}
	e := ret.Results[len(ret.Results)-1]
	e = stripConv(e)
	if isNilConst(e) {
		return false
	}
	if c, ok := e.(*ssa.Call); ok {
		name := calleeName(c)
		if strings.Contains(name, "gqlerror.Error") || strings.Contains(name, "gqlerror.Wrap") {
			return true
		}
	}
	for _, cd := range condsAt(ret.Block()) {
		b, ok := cd.V.(*ssa.BinOp)
		if !ok {
			continue
		}
		if (b.Op == token.NEQ) == cd.True && (b.Op == token.NEQ || b.Op == token.EQL) {
			if (stripConv(b.X) == e && isNilConst(b.Y)) || (stripConv(b.Y) == e && isNilConst(b.X)) {
				return true
			}
		}
	}
	return false
}

// canSkip reports whether the call can be bypassed: from the entry of the innermost loop body
// containing it (or the function entry) a success return, or the next iteration, is reachable
// without executing the call's block. exempt edges are not followed.
func canSkip(call ssa.Instruction, exempt func(from, to *ssa.BasicBlock) bool) bool {
	fn := call.Parent()
	cb := call.Block()
	headers, bodies := loopsOf(fn)
	var inner *ssa.BasicBlock
	for _, h := range headers {
		if bodies[h][cb] && h != cb {
			if inner == nil || len(bodies[h]) < len(bodies[inner]) {
				inner = h
			}
		}
	}
	blocked := func(b *ssa.BasicBlock) bool { return b == cb }
	var starts []*ssa.BasicBlock
	if inner != nil {
		for _, s := range inner.Succs {
			if bodies[inner][s] && s != inner {
				starts = append(starts, s)
			}
		}
	} else {
		starts = []*ssa.BasicBlock{fn.Blocks[0]}
	}
	for _, st := range starts {
		r := reachAvoiding(st, blocked, exempt)
		if inner != nil && r[inner] {
			return true
		}
		for b := range r {
			if ret, ok := b.Instrs[len(b.Instrs)-1].(*ssa.Return); ok && !isFailureReturn(ret) {
				return true
			}
		}
	}
	return false
}

// kindsAt: the DefinitionKind constants K such that block b lies inside the branch taken when
// `<load Definition.Kind> == K` (switch lowering: several tests may share one body).
func kindsAt(b *ssa.BasicBlock) []string {
	fn := b.Parent()
	set := map[string]bool{}
	for _, blk := range fn.Blocks {
		ifi, ok := blk.Instrs[len(blk.Instrs)-1].(*ssa.If)
		if !ok {
			continue
		}
		bo, ok := ifi.Cond.(*ssa.BinOp)
		if !ok || bo.Op != token.EQL {
			continue
		}
		var k string
		if loadOfField(bo.X, "Definition", "Kind") {
			k, ok = constString(bo.Y)
		} else if loadOfField(bo.Y, "Definition", "Kind") {
			k, ok = constString(bo.X)
		} else {
			continue
		}
		if !ok {
			continue
		}
		d := blk.Succs[0]
		if d.Dominates(b) && d != blk {
			// the body must not also be entered from outside the tests on the same value: accept
			set[k] = true
		}
	}
	var out []string
	for k := range set {
		out = append(out, k)
	}
	sort.Strings(out)
	return out
}

// constSet: the string constants v may be (through phis); "?" when unknown; "kind-of-def" for DirectiveLocation(def.Kind).
func constSet(v ssa.Value, depth int) []string {
	if depth > 6 {
		return []string{"?"}
	}
	if s, ok := constString(v); ok {
		return []string{s}
	}
	switch x := v.(type) {
	case *ssa.Phi:
		set := map[string]bool{}
		for _, e := range x.Edges {
			for _, s := range constSet(e, depth+1) {
				set[s] = true
			}
		}
		var out []string
		for s := range set {
			out = append(out, s)
		}
		sort.Strings(out)
		return out
	case *ssa.Convert:
		if loadOfField(x.X, "Definition", "Kind") {
			return []string{"<Definition.Kind>"}
		}
		return constSet(x.X, depth+1)
	case *ssa.ChangeType:
		if loadOfField(x.X, "Definition", "Kind") {
			return []string{"<Definition.Kind>"}
		}
		return constSet(x.X, depth+1)
	case *ssa.UnOp:
		u := unspill(v)
		if u != v {
			return constSet(u, depth+1)
		}
		if out := tableConstSet(v, depth); out != nil {
			return out
		}
	case *ssa.Extract:
		// a result of a helper of the module: the constants its returns can carry
		if call, ok := x.Tuple.(*ssa.Call); ok {
			return calleeConstSet(call, x.Index, depth)
		}
		if out := tableConstSet(v, depth); out != nil {
			return out
		}
	case *ssa.Field, *ssa.Lookup:
		if out := tableConstSet(v, depth); out != nil {
			return out
		}
	case *ssa.Call:
		return calleeConstSet(x, 0, depth)
	}
	return []string{"?"}
}

// tableConstSet: v reads a read-only table (possibly one field of a struct entry): the constants of all entries.
func tableConstSet(v ssa.Value, depth int) []string {
	if curProgram == nil {
		return nil
	}
	tab, _, isOK, field := tableLookup(curProgram, v)
	if tab == nil || isOK {
		return nil
	}
	set := map[string]bool{}
	for _, e := range tab.entries {
		val := e.val
		if field != "" {
			val = e.fields[field]
		}
		if val == nil {
			return nil
		}
		for _, s := range constSet(val, depth+1) {
			set[s] = true
		}
	}
	var out []string
	for s := range set {
		out = append(out, s)
	}
	sort.Strings(out)
	return out
}

func calleeConstSet(call *ssa.Call, idx int, depth int) []string {
	g := call.Call.StaticCallee()
	if g == nil || len(g.Blocks) == 0 || g.Pkg == nil || !strings.HasPrefix(g.Pkg.Pkg.Path(), modPath) {
		return []string{"?"}
	}
	set := map[string]bool{}
	for _, ret := range returnsOf(g) {
		rv := returnValues(ret)
		if idx >= len(rv) {
			return []string{"?"}
		}
		for _, s := range constSet(rv[idx], depth+1) {
			set[s] = true
		}
	}
	var out []string
	for s := range set {
		out = append(out, s)
	}
	sort.Strings(out)
	if len(out) == 0 {
		return []string{"?"}
	}
	return out
}

// variadicConsts: constants of a variadic []T argument.
func variadicConsts(v ssa.Value) ([]string, bool) {
	es, ok := mustElems(v, map[ssa.Value]bool{})
	if !ok {
		return nil, false
	}
	var out []string
	for _, e := range es {
		s, ok := constString(stripConv(e))
		if !ok {
			return nil, false
		}
		out = append(out, s)
	}
	sort.Strings(out)
	return out, true
}

func sameSet(a, b []string) bool {
	if len(a) != len(b) {
		return false
	}
	a = append([]string{}, a...)
	b = append([]string{}, b...)
	sort.Strings(a)
	sort.Strings(b)
	for i := range a {
		if a[i] != b[i] {
			return false
		}
	}
	return true
}

// isMapOp: in is a Lookup / MapUpdate on the map loaded from Schema.<field>.
func schemaMapLookup(in ssa.Instruction, field string) (*ssa.Lookup, bool) {
	l, ok := in.(*ssa.Lookup)
	if !ok {
		return nil, false
	}
	if loadOfField(l.X, "Schema", field) {
		return l, true
	}
	return nil, false
}

func schemaMapUpdate(in ssa.Instruction, field string) (*ssa.MapUpdate, bool) {
	u, ok := in.(*ssa.MapUpdate)
	if !ok {
		return nil, false
	}
	if loadOfField(u.Map, "Schema", field) {
		return u, true
	}
	return nil, false
}

// ---------------------------------------------------------------------------

type loaderModel struct {
	p        *Program
	fns      []*ssa.Function
	vsd      *ssa.Function
	vtd, vdd *ssa.Function
	vdef     *ssa.Function
	vdir     *ssa.Function
	vargs    *ssa.Function
	vdirs    *ssa.Function
	vtref    *ssa.Function
	vimpl    *ssa.Function
	vname    *ssa.Function
	isValid  *ssa.Function
	lost     []string
}

func newLoaderModel(p *Program) *loaderModel {
	m := &loaderModel{p: p, fns: p.FuncsIn("validator")}
	get := func(name string) *ssa.Function {
		f := p.Func("validator." + name)
		if f == nil {
			m.lost = append(m.lost, "validator."+name)
		}
		return f
	}
	m.vsd = get("ValidateSchemaDocument")
	m.vtd = get("validateTypeDefinitions")
	m.vdd = get("validateDirectiveDefinitions")
	m.vdef = get("validateDefinition")
	m.vdir = get("validateDirective")
	m.vargs = get("validateArgs")
	m.vdirs = get("validateDirectives")
	m.vtref = get("validateTypeRef")
	m.vimpl = get("validateImplements")
	m.vname = get("validateName")
	m.isValid = get("isValidKind")
	return m
}

func runC07(c *Ctx) {
	p := c.P
	m := newLoaderModel(p)
	r1 := c.Rule("R1", "the schema is returned only after every definition passed its check; no loader error is dropped", 20)
	for _, l := range m.lost {
		r1.AnchorLost(l)
	}
	if len(m.lost) > 0 {
		return
	}
	// R1a: success returns of ValidateSchemaDocument are dominated by successful calls of both passes
	for _, ret := range returnsOf(m.vsd) {
		if isFailureReturn(ret) || isNilConst(ret.Results[0]) {
			continue
		}
		for _, pass := range []*ssa.Function{m.vtd, m.vdd} {
			ok := false
			for _, ci := range callsTo([]*ssa.Function{m.vsd}, pass) {
				if dominatesInstr(ci, ret) && resultCheckedNil(ci, ret.Block()) {
					ok = true
				}
			}
			if ok {
				r1.OK("return of the schema at "+p.Pos(ret.Pos())+" follows a successful "+p.FuncName(pass), "")
			} else {
				r1.Fail(ret.Pos(), p.FuncName(m.vsd), "schema returned without a successful "+p.FuncName(pass), "a path returns a schema although "+p.FuncName(pass)+" was not called, or its error was not checked, on that path")
			}
		}
	}
	// R1b: the passes apply the per-entry check to every key of the map
	for _, pr := range []struct {
		pass, check *ssa.Function
		field       string
	}{{m.vtd, m.vdef, "Types"}, {m.vdd, m.vdir, "Directives"}} {
		c07EveryEntry(c, r1, pr.pass, pr.check, pr.field)
	}
	// R1c: no dropped *gqlerror.Error / error result in the loader
	for _, fn := range m.fns {
		if pk := p.Fset.Position(fn.Pos()).Filename; !strings.HasSuffix(pk, "validator/schema.go") {
			continue
		}
		allInstrs(fn, func(in ssa.Instruction) {
			call, ok := in.(*ssa.Call)
			if !ok {
				return
			}
			g := call.Call.StaticCallee()
			if g == nil || !p.inModule(g) {
				return
			}
			res := g.Signature.Results()
			if res.Len() == 0 {
				return
			}
			last := res.At(res.Len() - 1).Type()
			if !(typeIs(last, "/gqlerror", "Error") || types.TypeString(last, nil) == "error") {
				return
			}
			if errResultUsed(call, res.Len()) {
				r1.OK("result of "+p.FuncName(g)+" in "+p.FuncName(fn)+" at "+p.Pos(in.Pos()), "checked or returned")
			} else {
				r1.Fail(in.Pos(), p.FuncName(fn), "dropped error of "+p.FuncName(g), "the error result of "+p.FuncName(g)+" is neither tested nor returned: an ill-formed schema would be accepted")
			}
		})
	}

	// ---- R2 coverage of reference positions
	r2 := c.Rule("R2", "every reference position of the SDL tree is checked on every success path", 14)
	type want struct {
		callee  *ssa.Function
		argIdx  int
		st, fld string
		locIdx  int
		locs    []string
		in      []*ssa.Function // where the call must be
		what    string
	}
	wants := []want{
		{m.vtref, 1, "FieldDefinition", "Type", -1, nil, []*ssa.Function{m.vdef}, "field type reference"},
		{m.vtref, 1, "ArgumentDefinition", "Type", -1, nil, []*ssa.Function{m.vargs}, "argument type reference"},
		{m.vargs, 1, "FieldDefinition", "Arguments", -1, nil, []*ssa.Function{m.vdef}, "field arguments"},
		{m.vargs, 1, "DirectiveDefinition", "Arguments", -1, nil, []*ssa.Function{m.vdir}, "directive arguments"},
		{m.vdirs, 1, "Definition", "Directives", 2, []string{"<Definition.Kind>"}, []*ssa.Function{m.vdef}, "directives on a type"},
		{m.vdirs, 1, "FieldDefinition", "Directives", 2, []string{"FIELD_DEFINITION", "INPUT_FIELD_DEFINITION"}, []*ssa.Function{m.vdef}, "directives on a field"},
		{m.vdirs, 1, "ArgumentDefinition", "Directives", 2, []string{"ARGUMENT_DEFINITION"}, []*ssa.Function{m.vargs}, "directives on an argument"},
		{m.vdirs, 1, "EnumValueDefinition", "Directives", 2, []string{"ENUM_VALUE"}, []*ssa.Function{m.vdef}, "directives on an enum value"},
		{m.vdirs, 1, "SchemaDefinition", "Directives", 2, []string{"SCHEMA"}, []*ssa.Function{m.vsd}, "directives on the schema definition / extension"},
		{m.vname, 1, "FieldDefinition", "Name", -1, nil, []*ssa.Function{m.vdef}, "field name"},
		{m.vname, 1, "ArgumentDefinition", "Name", -1, nil, []*ssa.Function{m.vargs}, "argument name"},
		{m.vname, 1, "DirectiveDefinition", "Name", -1, nil, []*ssa.Function{m.vdir}, "directive definition name"},
		{m.vname, 1, "Directive", "Name", -1, nil, []*ssa.Function{m.vdirs}, "directive use name"},
		{m.vname, 1, "Definition", "Name", -1, nil, []*ssa.Function{m.vdef}, "type name"},
	}
	builtInExempt := func(from, to *ssa.BasicBlock) bool {
		ifi, ok := from.Instrs[len(from.Instrs)-1].(*ssa.If)
		if !ok {
			return false
		}
		cd := normCond(Cond{V: ifi.Cond, True: true})
		if !loadOfField(cd.V, "Definition", "BuiltIn") {
			return false
		}
		// edge taken when BuiltIn is true
		if cd.True {
			return to == from.Succs[0]
		}
		return to == from.Succs[1]
	}
	type place = c07Place
	helpersIn := func(fn *ssa.Function) []place { return c07HelpersIn(p, m, fn) }
	for _, w := range wants {
		found := 0
		var places []place
		for _, fn := range w.in {
			places = append(places, helpersIn(fn)...)
		}
		for _, pl := range places {
			fn := pl.fn
			for _, ci := range callsTo([]*ssa.Function{fn}, w.callee) {
				args := ci.Common().Args
				if !loadOfField(args[w.argIdx], w.st, w.fld) {
					continue
				}
				found++
				key := fmt.Sprintf("%s(%s.%s) in %s", p.FuncName(w.callee), w.st, w.fld, p.FuncName(fn))
				if w.locIdx >= 0 {
					got := constSet(args[w.locIdx], 0)
					if !sameSet(got, w.locs) {
						r2.Fail(ci.Pos(), p.FuncName(fn), key+" location "+strings.Join(got, "|"), fmt.Sprintf("%s are validated for location %v; the specification assigns %v to this node", w.what, got, w.locs))
						continue
					}
					if len(w.locs) == 2 {
						// FIELD_DEFINITION vs INPUT_FIELD_DEFINITION must be selected by Kind == INPUT_OBJECT
						if !c07InputFieldSelector(args[w.locIdx]) {
							r2.Fail(ci.Pos(), p.FuncName(fn), key+" location selector", "INPUT_FIELD_DEFINITION is not selected exactly when the definition's Kind is INPUT_OBJECT")
							continue
						}
					}
				}
				var exempt func(from, to *ssa.BasicBlock) bool
				if w.st == "Definition" && w.fld == "Name" {
					exempt = builtInExempt
				}
				if w.st == "SchemaDefinition" {
					// the schema definition is optional: the branch on len(sd.Schema) decides whether there is one
					exempt = func(from, to *ssa.BasicBlock) bool {
						ifi, ok := from.Instrs[len(from.Instrs)-1].(*ssa.If)
						if !ok {
							return false
						}
						cd := normCond(Cond{V: ifi.Cond, True: true})
						bo, ok := cd.V.(*ssa.BinOp)
						if !ok {
							return false
						}
						for _, o := range []ssa.Value{bo.X, bo.Y} {
							if call, ok := o.(*ssa.Call); ok {
								if b, ok := call.Call.Value.(*ssa.Builtin); ok && b.Name() == "len" && loadOfField(call.Call.Args[0], "SchemaDocument", "Schema") {
									return true
								}
							}
						}
						return false
					}
					key += " [" + rootName(args[w.argIdx]) + "]"
				}
				skippable := canSkip(ci, exempt)
				dropped := !errResultUsed(ci.(*ssa.Call), resultCount(ci.(*ssa.Call)))
				for _, link := range pl.chain {
					if canSkip(link, exempt) {
						skippable = true
					}
					if !errResultUsed(link.(*ssa.Call), resultCount(link.(*ssa.Call))) {
						dropped = true
					}
				}
				if skippable {
					r2.Fail(ci.Pos(), p.FuncName(fn), key+" can be skipped", fmt.Sprintf("a success path (or the next loop iteration) is reachable without this check: some %s would not be validated", w.what))
					continue
				}
				if dropped {
					r2.Fail(ci.Pos(), p.FuncName(fn), key+" result dropped", "the result of the check is not tested")
					continue
				}
				r2.OK(key, "on every success path; result tested")
			}
		}
		if found == 0 {
			r2.Fail(w.in[0].Pos(), p.FuncName(w.in[0]), fmt.Sprintf("no %s(%s.%s)", p.FuncName(w.callee), w.st, w.fld), fmt.Sprintf("%s are no longer validated in %s (which is applied to every entry): a schema with an invalid %s would load", w.what, p.FuncName(w.in[0]), w.what))
		}
	}
	// interfaces -> validateImplements ; union members -> lookup + isValidKind(OBJECT)
	{
		found := false
		for _, ci := range callsTo([]*ssa.Function{m.vdef}, m.vimpl) {
			if !c07RangeElemOf(ci.Common().Args[2], "Definition", "Interfaces") {
				continue
			}
			found = true
			if canSkip(ci, nil) || !errResultUsed(ci.(*ssa.Call), 1) {
				r2.Fail(ci.Pos(), p.FuncName(m.vdef), "validateImplements(Definition.Interfaces[i]) can be skipped", "some implemented interface would not be validated")
			} else {
				r2.OK("validateImplements for every element of Definition.Interfaces", "")
			}
		}
		if !found {
			r2.Fail(m.vdef.Pos(), p.FuncName(m.vdef), "no validateImplements over Definition.Interfaces", "implemented interfaces are no longer validated")
		}
		// union members (in validateDefinition or a helper it hands them to)
		foundU := false
		for _, pl := range helpersIn(m.vdef) {
			pl := pl
			allInstrs(pl.fn, func(in ssa.Instruction) {
				l, ok := schemaMapLookup(in, "Types")
				if !ok || !c07RangeElemOf(l.Index, "Definition", "Types") {
					return
				}
				foundU = true
				// the looked-up value must be nil-tested and its Kind passed to isValidKind with {OBJECT}
				okKind := false
				for _, ci := range callsTo([]*ssa.Function{pl.fn}, m.isValid) {
					if ks, ok := variadicConsts(ci.Common().Args[1]); ok && sameSet(ks, []string{"OBJECT"}) && derivesFrom(ci.Common().Args[0], l, 4) {
						okKind = !canSkip(ci, nil)
					}
				}
				if okKind && !canSkip(in, nil) && !pl.chainSkippable() {
					r2.OK("union members: looked up and required to be OBJECT", "")
				} else {
					r2.Fail(in.Pos(), p.FuncName(pl.fn), "union member kind check", "union members are not required, on every path, to exist and be of kind OBJECT")
				}
			})
		}
		if !foundU {
			r2.Fail(m.vdef.Pos(), p.FuncName(m.vdef), "no lookup of Definition.Types members", "union members are no longer resolved and kind-checked")
		}
	}

	// ---- R3 registrations are guarded by a redeclaration test
	r3 := c.Rule("R3", "every registration into Schema.Types / Schema.Directives is guarded by a lookup of the same key", 3)
	for _, field := range []string{"Types", "Directives"} {
		for _, fn := range reachableList(p, m.vsd) {
			allInstrs(fn, func(in ssa.Instruction) {
				u, ok := schemaMapUpdate(in, field)
				if !ok {
					return
				}
				// a dominating lookup with an equivalent key
				guarded := false
				allInstrs(fn, func(x ssa.Instruction) {
					l, ok := schemaMapLookup(x, field)
					if !ok || !dominatesInstr(x, in) {
						return
					}
					if sameKey(l.Index, u.Key) {
						guarded = true
					}
				})
				key := "Schema." + field + "[...] = ... in " + p.FuncName(fn)
				if guarded {
					r3.OK(key+" at "+p.Pos(in.Pos()), "a lookup of the same key dominates the registration")
				} else {
					r3.Fail(in.Pos(), p.FuncName(fn), "unguarded registration into Schema."+field, "a definition is registered without first looking the name up: a second definition of the same name silently replaces the first (names must be unique)")
				}
			})
		}
	}

	// ---- R4 prelude and introspection fields
	r4 := c.Rule("R4", "the prelude is always loaded first and the introspection fields are added", 4)
	c07Prelude(c, r4, m)

	// ---- R5 kind tables
	r5 := c.Rule("R5", "kind tables equal the specification's", 10)
	c07KindTables(c, r5, m)

	// ---- R6 structural type comparison
	r6 := c.Rule("R6", "structural type comparisons are level-wise", 2)
	typeComparisonRule(c, r6)

	// ---- R7 no shortcut past checks
	r7 := c.Rule("R7", "branches of the loader's check functions are checks, loop control or specified dispatch", 24)
	c07NoShortcut(c, r7)

	// ---- R8 nothing nil published
	r8 := c.Rule("R8", "no possibly-nil definition is registered into the schema's maps and relations", 6)
	c07NothingNil(c, r8)

	// ---- R9 a load depends on its sources only
	// ---- R10 the built-in exemption covers exactly the definitions of built-in sources (shared with C06.R6)
	r10 := c.Rule("R10", "BuiltIn is copied from the source to its own definitions and extensions only", 2)
	if g := newGrammarCtx(c, r10); g != nil {
		g.builtInRule(r10)
	}

	r9 := c.Rule("R9", "parsing and loading keep no process-wide state (package-level variables are only read after init)", 1)
	noProcessState(c, r9, []string{"gqlparser.LoadSchema", "validator.LoadSchema", "validator.ValidateSchemaDocument", "parser.ParseSchema", "parser.ParseSchemas", "parser.ParseSchemaWithLimit", "parser.ParseSchemasWithLimit"})

	r11 := c.Rule("R11", "the loader only adds to the schema's registries", 1)
	registriesGrowOnly(c, r11)

	r12 := c.Rule("R12", "every member list an extension can carry is merged into its definition, for every kind", 5)
	extensionMergeCoverage(c, r12)
}

// registriesGrowOnly (C07.R11 / C09.R8): the closure argument of R2/R3 — every name that was resolved against
// Schema.Types or Schema.Directives while loading still resolves afterwards — and "every schema returned contains the
// built-in scalars, directives and introspection types" both need that nothing registered is taken out again: no delete
// on a registry of ast.Schema, and no second store to a registry field, anywhere in the module outside tests.
func registriesGrowOnly(c *Ctx, r *RuleResult) {
	p := c.P
	schemaT := p.LookupType("ast", "Schema")
	if schemaT == nil {
		r.AnchorLost("ast.Schema")
		return
	}
	registries := map[string]bool{}
	st := schemaT.Underlying().(*types.Struct)
	for i := 0; i < st.NumFields(); i++ {
		if _, ok := st.Field(i).Type().Underlying().(*types.Map); ok {
			registries[st.Field(i).Name()] = true
		}
	}
	if len(registries) == 0 {
		r.AnchorLost("map-typed fields of ast.Schema")
		return
	}
	n := 0
	for _, fn := range p.Funcs() {
		if !p.inModule(fn) {
			continue
		}
		allInstrs(fn, func(in ssa.Instruction) {
			ci, ok := in.(ssa.CallInstruction)
			if !ok {
				return
			}
			b, ok := ci.Common().Value.(*ssa.Builtin)
			if !ok || (b.Name() != "delete" && b.Name() != "clear") {
				return
			}
			m := ci.Common().Args[0]
			if stn, f, ok := fieldLoadOf(m); ok && stn == "Schema" && registries[f] {
				n++
				r.Fail(in.Pos(), p.FuncName(fn), b.Name()+" on Schema."+f, fmt.Sprintf("an entry is removed from Schema.%s: a name that the loader (or validation) has already resolved against the registry — a built-in scalar used only as a directive argument, a type referenced from a place the removal did not look at — no longer resolves, and links looked up under it are nil", f))
			}
		})
	}
	if n == 0 {
		var names []string
		for f := range registries {
			names = append(names, f)
		}
		sort.Strings(names)
		r.OK(fmt.Sprintf("no delete or clear on Schema.{%s} anywhere in the module", strings.Join(names, ",")), "registries only grow")
	}
}

// resultCheckedNil: the (last) result of call is compared with nil and block b lies on the nil side.
func resultCheckedNil(ci ssa.CallInstruction, b *ssa.BasicBlock) bool {
	call, ok := ci.(*ssa.Call)
	if !ok {
		return false
	}
	for _, cd := range condsAt(b) {
		bo, ok := cd.V.(*ssa.BinOp)
		if !ok || (bo.Op != token.NEQ && bo.Op != token.EQL) {
			continue
		}
		if !(derivesFrom(bo.X, call, 3) && isNilConst(bo.Y) || derivesFrom(bo.Y, call, 3) && isNilConst(bo.X)) {
			continue
		}
		isNil := (bo.Op == token.EQL) == cd.True
		if isNil {
			return true
		}
	}
	return false
}

// derivesFrom: v is src, or an Extract / conversion / field load / phi-free projection of it.
func derivesFrom(v ssa.Value, src ssa.Value, depth int) bool {
	if v == src {
		return true
	}
	if depth <= 0 {
		return false
	}
	switch x := v.(type) {
	case *ssa.Extract:
		return derivesFrom(x.Tuple, src, depth-1)
	case *ssa.MakeInterface:
		return derivesFrom(x.X, src, depth-1)
	case *ssa.ChangeInterface:
		return derivesFrom(x.X, src, depth-1)
	case *ssa.ChangeType:
		return derivesFrom(x.X, src, depth-1)
	case *ssa.Convert:
		return derivesFrom(x.X, src, depth-1)
	case *ssa.UnOp:
		if x.Op == token.MUL {
			if fa, ok := x.X.(*ssa.FieldAddr); ok {
				return derivesFrom(fa.X, src, depth-1)
			}
			u := unspill(v)
			if u != v {
				return derivesFrom(u, src, depth-1)
			}
		}
	case *ssa.Field:
		return derivesFrom(x.X, src, depth-1)
	case *ssa.TypeAssert:
		return derivesFrom(x.X, src, depth-1)
	}
	return false
}

// errResultUsed: the error result of the call is compared with nil, returned, or passed on.
// resultCount: how many results the call has (the error is the last one).
func resultCount(call *ssa.Call) int {
	if t, ok := call.Type().(*types.Tuple); ok {
		return t.Len()
	}
	return 1
}

func errResultUsed(call *ssa.Call, nres int) bool {
	var vals []ssa.Value
	if nres == 1 {
		vals = []ssa.Value{call}
	} else {
		for _, ref := range *call.Referrers() {
			if ex, ok := ref.(*ssa.Extract); ok && ex.Index == nres-1 {
				vals = append(vals, ex)
			}
		}
	}
	for _, v := range vals {
		var visit func(v ssa.Value, d int) bool
		visit = func(v ssa.Value, d int) bool {
			if d > 4 || v.Referrers() == nil {
				return false
			}
			for _, ref := range *v.Referrers() {
				switch x := ref.(type) {
				case *ssa.Return:
					return true
				case *ssa.BinOp:
					if x.Op == token.NEQ || x.Op == token.EQL {
						return true
					}
				case *ssa.Store:
					if x.Val == v {
						return true
					}
				case *ssa.Phi:
					if visit(x, d+1) {
						return true
					}
				case *ssa.MakeInterface:
					if visit(x, d+1) {
						return true
					}
				case *ssa.ChangeInterface:
					if visit(x, d+1) {
						return true
					}
				case *ssa.TypeAssert:
					return true
				case ssa.CallInstruction:
					return true
				}
			}
			return false
		}
		if visit(v, 0) {
			return true
		}
	}
	return false
}

// c07EveryEntry: pass applies check to the value looked up for every key of Schema.<field>.
func c07EveryEntry(c *Ctx, r *RuleResult, pass, check *ssa.Function, field string) {
	p := c.P
	name := p.FuncName(pass)
	calls := callsTo([]*ssa.Function{pass}, check)
	if len(calls) == 0 {
		r.Fail(pass.Pos(), name, "no call of "+p.FuncName(check), "the per-entry check is no longer applied")
		return
	}
	for _, ci := range calls {
		// argument 1 is Schema.<field>[k]
		l, ok := unspill(ci.Common().Args[1]).(*ssa.Lookup)
		if !ok || !loadOfField(l.X, "Schema", field) {
			// or the range value of the map itself
			if c07MapRangeValue(ci.Common().Args[1], field) {
				if canSkip(ci, nil) || !errResultUsed(ci.(*ssa.Call), 1) {
					r.Fail(ci.Pos(), name, "per-entry check can be skipped", "some entry of Schema."+field+" would not be validated")
				} else {
					r.OK(name+": "+p.FuncName(check)+" applied to every value of Schema."+field, "range over the map")
				}
				continue
			}
			r.Fail(ci.Pos(), name, p.FuncName(check)+" argument is not an entry of Schema."+field, "the per-entry check is applied to something else than the entries of Schema."+field)
			continue
		}
		// k ranges over a slice filled, unconditionally, from a range over the same map
		if !c07KeyFromAllKeys(l.Index, field) {
			r.Fail(ci.Pos(), name, "keys of the per-entry loop", "the per-entry check does not provably visit every key of Schema."+field+" (the key slice must be appended to on every iteration of a range over the map)")
			continue
		}
		if canSkip(ci, nil) || !errResultUsed(ci.(*ssa.Call), 1) {
			r.Fail(ci.Pos(), name, "per-entry check can be skipped", "some entry of Schema."+field+" would not be validated, or its error is dropped")
			continue
		}
		// success return only after the loop
		r.OK(name+": "+p.FuncName(check)+" applied to Schema."+field+"[k] for every key k", "keys collected from a range over the map; result tested")
	}
}

// c07MapRangeValue: v is the value extracted from a Next over a Range of Schema.<field>.
func c07MapRangeValue(v ssa.Value, field string) bool {
	ex, ok := v.(*ssa.Extract)
	if !ok || ex.Index != 2 {
		return false
	}
	nx, ok := ex.Tuple.(*ssa.Next)
	if !ok {
		return false
	}
	rg, ok := nx.Iter.(*ssa.Range)
	return ok && loadOfField(rg.X, "Schema", field)
}

// c07KeyFromAllKeys: key is an element of a slice S (range over S) and S is built by appending the key of
// every iteration of a range over Schema.<field>.
func c07KeyFromAllKeys(key ssa.Value, field string) bool {
	// key = *(&S[i]) in a range loop
	u, ok := key.(*ssa.UnOp)
	if !ok || u.Op != token.MUL {
		return false
	}
	ia, ok := u.X.(*ssa.IndexAddr)
	if !ok {
		return false
	}
	// S may pass through sort (in place) — find its defining phi/append chain
	return sliceHoldsAllKeys(ia.X, field, map[ssa.Value]bool{})
}

func sliceHoldsAllKeys(s ssa.Value, field string, seen map[ssa.Value]bool) bool {
	if seen[s] {
		return false
	}
	seen[s] = true
	switch x := s.(type) {
	case *ssa.Phi:
		// loop phi: one edge is the initial (make), the other the append in the loop
		for _, e := range x.Edges {
			if call, ok := e.(*ssa.Call); ok && isAppendCall(call) {
				// appended value: slice literal of one element = key of Next over Range Schema.field
				es, ok := mustElems(call.Call.Args[1], map[ssa.Value]bool{})
				if !ok || len(es) != 1 {
					continue
				}
				ex, ok := es[0].(*ssa.Extract)
				if !ok || ex.Index != 1 {
					continue
				}
				nx, ok := ex.Tuple.(*ssa.Next)
				if !ok {
					continue
				}
				rg, ok := nx.Iter.(*ssa.Range)
				if !ok || !loadOfField(rg.X, "Schema", field) {
					continue
				}
				// the append is unconditional in the loop: its block is the loop body entered whenever Next is ok
				if !canSkip(call, nil) {
					return true
				}
			}
		}
	}
	return false
}

// c07RangeElemOf: v is the element variable of a range over <struct>.<field> (a []string).
func c07RangeElemOf(v ssa.Value, st, fld string) bool {
	v = unspill(v)
	u, ok := v.(*ssa.UnOp)
	if !ok || u.Op != token.MUL {
		return false
	}
	ia, ok := u.X.(*ssa.IndexAddr)
	if !ok {
		return false
	}
	return loadOfField(ia.X, st, fld)
}

// c07InputFieldSelector: v = phi(FIELD_DEFINITION, INPUT_FIELD_DEFINITION) where the INPUT edge comes from the block
// entered when Kind == INPUT_OBJECT.
func c07InputFieldSelector(v ssa.Value) bool {
	ph, ok := v.(*ssa.Phi)
	if !ok {
		return false
	}
	for i, e := range ph.Edges {
		s, _ := constString(e)
		pred := ph.Block().Preds[i]
		ks := kindsAt(pred)
		isInput := len(ks) == 1 && ks[0] == "INPUT_OBJECT"
		if s == "INPUT_FIELD_DEFINITION" && !isInput {
			return false
		}
		if s == "FIELD_DEFINITION" && isInput {
			return false
		}
	}
	return true
}

func sameKey(a, b ssa.Value) bool {
	if a == b {
		return true
	}
	sa, fa, oka := fieldLoadOf(a)
	sb, fb, okb := fieldLoadOf(b)
	if oka && okb && sa == sb && fa == fb {
		// same field of (presumably) the same element: require the same base chain textually
		return baseKeyOfLoad(a) == baseKeyOfLoad(b)
	}
	return false
}

func baseKeyOfLoad(v ssa.Value) string {
	v = unspill(v)
	if u, ok := v.(*ssa.UnOp); ok {
		if fa, ok := u.X.(*ssa.FieldAddr); ok {
			return rootName(fa.X)
		}
	}
	if f, ok := v.(*ssa.Field); ok {
		return rootName(f.X)
	}
	return fmt.Sprintf("%p", v)
}

// rootName names the value a pointer was loaded from, so that `def` read twice from the same range variable is one root.
func rootName(v ssa.Value) string {
	v = unspill(v)
	switch x := v.(type) {
	case *ssa.UnOp:
		if x.Op == token.MUL {
			if ia, ok := x.X.(*ssa.IndexAddr); ok {
				return "elem(" + rootName(ia.X) + "," + ia.Index.Name() + ")"
			}
			if fa, ok := x.X.(*ssa.FieldAddr); ok {
				_, f, b, _ := fieldOf(fa)
				return rootName(b) + "." + f
			}
		}
	case *ssa.Parameter:
		return "param:" + x.Name()
	case *ssa.Extract:
		return fmt.Sprintf("extract(%s,%d)", x.Tuple.Name(), x.Index)
	}
	return v.Name()
}

func reachableList(p *Program, root *ssa.Function) []*ssa.Function {
	set := p.reachableFrom([]*ssa.Function{root}, nil)
	var out []*ssa.Function
	for f := range set {
		if p.inModule(f) {
			out = append(out, f)
		}
	}
	sort.Slice(out, func(i, j int) bool { return p.FuncName(out[i]) < p.FuncName(out[j]) })
	return out
}

func c07Prelude(c *Ctx, r *RuleResult, m *loaderModel) {
	p := c.P
	vload := p.Func("validator.LoadSchema")
	var preludeG *ssa.Global
	if sp := p.SPkgs["validator"]; sp != nil {
		if g, ok := sp.Members["Prelude"].(*ssa.Global); ok {
			preludeG = g
		}
	}
	if vload == nil || preludeG == nil {
		r.AnchorLost("validator.LoadSchema / validator.Prelude")
		return
	}
	isPreludeLoad := func(v ssa.Value) bool {
		u, ok := v.(*ssa.UnOp)
		return ok && u.Op == token.MUL && u.X == ssa.Value(preludeG)
	}
	var hasPrelude func(v ssa.Value, depth int) (bool, string)
	hasPrelude = func(v ssa.Value, depth int) (bool, string) {
		if depth > 4 {
			return false, "too deep"
		}
		if es, ok := mustElems(v, map[ssa.Value]bool{}); ok {
			for _, e := range es {
				if isPreludeLoad(e) {
					return true, "append([]*Source{Prelude}, ...)"
				}
			}
		}
		if call, ok := v.(*ssa.Call); ok {
			if g := call.Call.StaticCallee(); g != nil && p.inModule(g) && len(g.Blocks) > 0 {
				for _, ret := range returnsOf(g) {
					if ok, _ := hasPrelude(ret.Results[0], depth+1); ok {
						continue
					}
					// a return of the caller's slice is fine only under `elem == Prelude`
					guard := false
					for _, cd := range condsAt(ret.Block()) {
						if bo, ok := cd.V.(*ssa.BinOp); ok && bo.Op == token.EQL && cd.True && (isPreludeLoad(bo.X) || isPreludeLoad(bo.Y)) {
							guard = true
						}
					}
					if !guard {
						return false, "helper " + p.FuncName(g) + " can return a list without the prelude at " + p.Pos(ret.Pos())
					}
				}
				return true, "helper " + p.FuncName(g) + " adds the prelude on every path"
			}
		}
		return false, "the source list does not certainly contain validator.Prelude"
	}
	n := 0
	for _, fn := range p.FuncsIn("") {
		for _, ci := range callsTo([]*ssa.Function{fn}, vload) {
			n++
			ok, why := hasPrelude(ci.Common().Args[0], 0)
			if ok {
				r.OK(p.FuncName(fn)+" passes the prelude to validator.LoadSchema", why)
			} else {
				r.Fail(ci.Pos(), p.FuncName(fn), "validator.LoadSchema without the prelude", "on some path the schema is loaded without the built-in prelude ("+why+"): built-in scalars, directives and introspection types would be missing")
			}
		}
	}
	if n == 0 {
		r.AnchorLost("a call of validator.LoadSchema from package gqlparser")
	}
	// Prelude is BuiltIn
	okB := false
	if init := p.SPkgs["validator"].Func("init"); init != nil {
		allInstrs(init, func(in ssa.Instruction) {
			s, ok := in.(*ssa.Store)
			if !ok {
				return
			}
			fa, ok := s.Addr.(*ssa.FieldAddr)
			if !ok {
				return
			}
			n, f, base, _ := fieldOf(fa)
			if n != nil && n.Obj().Name() == "Source" && f == "BuiltIn" {
				if cst, ok := s.Val.(*ssa.Const); ok && cst.Value != nil && constant.BoolVal(cst.Value) {
					// base flows into Prelude
					for _, ref := range *base.Referrers() {
						if st, ok := ref.(*ssa.Store); ok && st.Addr == ssa.Value(preludeG) {
							okB = true
						}
					}
				}
			}
		})
	}
	if okB {
		r.OK("validator.Prelude is a BuiltIn source", "")
	} else {
		r.Fail(preludeG.Pos(), "validator.init", "Prelude.BuiltIn", "the prelude source is not marked BuiltIn: its definitions would be subject to the reserved-name rule and printed by the formatter")
	}
	// introspection fields
	foundSchema, foundType := false, false
	var appendInstr ssa.Instruction
	allInstrs(m.vsd, func(in ssa.Instruction) {
		a, ok := in.(*ssa.Alloc)
		if !ok || namedOf(a.Type()) == nil || namedOf(a.Type()).Obj().Name() != "FieldDefinition" {
			return
		}
		for _, nm := range fieldStores(a, "Name") {
			if s, _ := constString(nm); s == "__schema" {
				foundSchema = true
				appendInstr = in
			} else if s == "__type" {
				foundType = true
			}
		}
	})
	if !foundSchema || !foundType {
		r.Fail(m.vsd.Pos(), p.FuncName(m.vsd), "introspection fields", "__schema / __type are no longer added to the query root")
	} else {
		// reachable on every success path except through Query == nil
		exempt := func(from, to *ssa.BasicBlock) bool {
			ifi, ok := from.Instrs[len(from.Instrs)-1].(*ssa.If)
			if !ok {
				return false
			}
			cd := normCond(Cond{V: ifi.Cond, True: true})
			bo, ok := cd.V.(*ssa.BinOp)
			if !ok || !(loadOfField(bo.X, "Schema", "Query") && isNilConst(bo.Y) || loadOfField(bo.Y, "Schema", "Query") && isNilConst(bo.X)) {
				return false
			}
			isNilEdgeTrue := (bo.Op == token.EQL) == cd.True
			if isNilEdgeTrue {
				return to == from.Succs[0]
			}
			return to == from.Succs[1]
		}
		// success return = non-nil schema
		skippable := false
		r0 := reachAvoiding(m.vsd.Blocks[0], func(b *ssa.BasicBlock) bool { return b == appendInstr.Block() }, exempt)
		for b := range r0 {
			if ret, ok := b.Instrs[len(b.Instrs)-1].(*ssa.Return); ok && !isNilConst(ret.Results[0]) {
				skippable = true
			}
		}
		if skippable {
			r.Fail(appendInstr.Pos(), p.FuncName(m.vsd), "introspection fields can be skipped", "a schema with a query root can be returned without __schema/__type on it")
		} else {
			r.OK("__schema and __type are appended to the query root on every path that has one", "")
		}
	}
}

func c07KindTables(c *Ctx, r *RuleResult, m *loaderModel) {
	p := c.P
	// DefinitionKind constants and DirectiveLocation constants of the same spelling
	astp := p.Pkgs["ast"].Types.Scope()
	kinds := map[string]string{}
	locs := map[string]bool{}
	for _, n := range astp.Names() {
		cst, ok := astp.Lookup(n).(*types.Const)
		if !ok {
			continue
		}
		tn := namedOf(cst.Type())
		if tn == nil {
			continue
		}
		switch tn.Obj().Name() {
		case "DefinitionKind":
			kinds[n] = constant.StringVal(cst.Val())
		case "DirectiveLocation":
			locs[constant.StringVal(cst.Val())] = true
		}
	}
	wantKinds := map[string]string{"Scalar": "SCALAR", "Object": "OBJECT", "Interface": "INTERFACE", "Union": "UNION", "Enum": "ENUM", "InputObject": "INPUT_OBJECT"}
	for n, v := range wantKinds {
		if kinds[n] != v {
			r.Fail(token.NoPos, "ast", "DefinitionKind "+n, fmt.Sprintf("ast.%s is %q, the introspection/SDL name is %q", n, kinds[n], v))
		} else if !locs[v] {
			r.Fail(token.NoPos, "ast", "DirectiveLocation for "+n, "no DirectiveLocation constant is spelled "+v+", so DirectiveLocation(def.Kind) names no location")
		} else {
			r.OK("ast."+n+" = "+v+" = a DirectiveLocation", "")
		}
	}
	wantLocs := []string{"QUERY", "MUTATION", "SUBSCRIPTION", "FIELD", "FRAGMENT_DEFINITION", "FRAGMENT_SPREAD", "INLINE_FRAGMENT", "VARIABLE_DEFINITION", "SCHEMA", "SCALAR", "OBJECT", "FIELD_DEFINITION", "ARGUMENT_DEFINITION", "INTERFACE", "UNION", "ENUM", "ENUM_VALUE", "INPUT_OBJECT", "INPUT_FIELD_DEFINITION"}
	for _, l := range wantLocs {
		if !locs[l] {
			r.Fail(token.NoPos, "ast", "DirectiveLocation "+l, "the specification's directive location "+l+" has no constant")
		}
	}
	r.OK(fmt.Sprintf("%d directive locations of the specification are declared", len(wantLocs)), "")

	// isValidKind calls by enclosing Kind branch
	output := []string{"ENUM", "INTERFACE", "OBJECT", "SCALAR", "UNION"}
	input := []string{"ENUM", "INPUT_OBJECT", "SCALAR"}
	seenOut, seenIn := false, false
	type kindCall struct {
		ci ssa.CallInstruction
		pl c07Place
	}
	var kcalls []kindCall
	for _, pl := range c07HelpersIn(p, m, m.vdef) {
		for _, ci := range callsTo([]*ssa.Function{pl.fn}, m.isValid) {
			kcalls = append(kcalls, kindCall{ci, pl})
		}
	}
	for _, kc := range kcalls {
		ci := kc.ci
		ks, ok := variadicConsts(ci.Common().Args[1])
		if !ok {
			r.Undecided(ci.Pos(), p.FuncName(m.vdef), "isValidKind arguments", "the accepted kinds are not constants")
			continue
		}
		br := kc.pl.kindsIn(ci.Block())
		if kc.pl.chainSkippable() {
			r.Fail(ci.Pos(), p.FuncName(kc.pl.fn), "kind check in a helper that can be skipped", "the helper holding this kind check is not called on every path, or its result is dropped")
			continue
		}
		switch {
		case sameSet(br, []string{"INTERFACE", "OBJECT"}):
			seenOut = true
			if sameSet(ks, output) && c07KindArgIsFieldType(ci) && !canSkip(ci, func(from, to *ssa.BasicBlock) bool { return c07LookupMissEdge(from, to) }) {
				r.OK("fields of OBJECT/INTERFACE must be output kinds "+strings.Join(ks, ","), "")
			} else {
				r.Fail(ci.Pos(), p.FuncName(m.vdef), "output kinds "+strings.Join(ks, ","), fmt.Sprintf("fields of objects and interfaces are checked against %v (or the check can be skipped); the specification's output kinds are %v", ks, output))
			}
		case sameSet(br, []string{"INPUT_OBJECT"}):
			seenIn = true
			if sameSet(ks, input) && c07KindArgIsFieldType(ci) && !canSkip(ci, func(from, to *ssa.BasicBlock) bool { return c07LookupMissEdge(from, to) }) {
				r.OK("fields of INPUT_OBJECT must be input kinds "+strings.Join(ks, ","), "")
			} else {
				r.Fail(ci.Pos(), p.FuncName(m.vdef), "input kinds "+strings.Join(ks, ","), fmt.Sprintf("input fields are checked against %v (or the check can be skipped); the specification's input kinds are %v", ks, input))
			}
		case len(br) == 0 && sameSet(ks, []string{"OBJECT"}):
			// union members (R2)
		default:
			r.Fail(ci.Pos(), p.FuncName(m.vdef), fmt.Sprintf("isValidKind%v under Kind in %v", ks, br), "a kind test that matches none of the specification's tables")
		}
	}
	if !seenOut {
		r.Fail(m.vdef.Pos(), p.FuncName(m.vdef), "no output-kind check", "fields of objects and interfaces are no longer required to be output types")
	}
	if !seenIn {
		r.Fail(m.vdef.Pos(), p.FuncName(m.vdef), "no input-kind check", "fields of input objects are no longer required to be input types")
	}
	// IsInputType
	if f := p.Func("ast.(*Definition).IsInputType"); f == nil {
		r.AnchorLost("ast.(*Definition).IsInputType")
	} else {
		got := kindDisjunction(f)
		if sameSet(got, input) {
			r.OK("Definition.IsInputType = Kind in "+strings.Join(got, ","), "")
		} else {
			r.Fail(f.Pos(), p.FuncName(f), "IsInputType kinds "+strings.Join(got, ","), fmt.Sprintf("IsInputType accepts %v; the specification's input kinds are %v (argument types are checked with it)", got, input))
		}
		// used on the argument's type definition in validateArgs
		used := false
		for _, ci := range callsTo([]*ssa.Function{m.vargs}, f) {
			if !canSkip(ci, nil) {
				used = true
			}
		}
		if used {
			r.OK("validateArgs requires IsInputType of every argument type", "")
		} else {
			r.Fail(m.vargs.Pos(), p.FuncName(m.vargs), "argument input-type check", "argument types are no longer required, on every path, to be input types")
		}
	}
	// validateImplements: Kind != INTERFACE -> error
	okI := false
	allInstrs(m.vimpl, func(in ssa.Instruction) {
		bo, ok := in.(*ssa.BinOp)
		if !ok || (bo.Op != token.NEQ && bo.Op != token.EQL) {
			return
		}
		if loadOfField(bo.X, "Definition", "Kind") {
			if s, _ := constString(bo.Y); s == "INTERFACE" {
				okI = true
			}
		}
	})
	if okI {
		r.OK("validateImplements requires the implemented type to be INTERFACE", "")
	} else {
		r.Fail(m.vimpl.Pos(), p.FuncName(m.vimpl), "implemented type kind", "the implemented type is no longer required to be an interface")
	}
	// emptiness tests
	type em struct {
		kind, field string
	}
	need := map[em]bool{{"OBJECT", "Fields"}: false, {"INTERFACE", "Fields"}: false, {"ENUM", "EnumValues"}: false, {"INPUT_OBJECT", "Fields"}: false}
	for _, pl := range c07HelpersIn(p, m, m.vdef) {
		pl := pl
		if pl.chainSkippable() {
			continue
		}
		allInstrs(pl.fn, func(in ssa.Instruction) {
			bo, ok := in.(*ssa.BinOp)
			if !ok || bo.Op != token.EQL {
				return
			}
			k, isK := constInt(bo.Y)
			if !isK || k != 0 {
				return
			}
			call, ok := bo.X.(*ssa.Call)
			if !ok {
				return
			}
			if b, ok := call.Call.Value.(*ssa.Builtin); !ok || b.Name() != "len" {
				return
			}
			st, fld, ok := fieldLoadOf(call.Call.Args[0])
			if !ok || st != "Definition" {
				return
			}
			// the true edge must lead to a failure return
			blk := in.Block()
			ifi, ok := blk.Instrs[len(blk.Instrs)-1].(*ssa.If)
			if !ok || ifi.Cond != ssa.Value(bo) {
				return
			}
			tgt := blk.Succs[0]
			ret, ok := tgt.Instrs[len(tgt.Instrs)-1].(*ssa.Return)
			if !ok || !isFailureReturn(ret) {
				return
			}
			for _, kd := range pl.kindsIn(blk) {
				if _, ok := need[em{kd, fld}]; ok {
					need[em{kd, fld}] = true
				}
			}
		})
	}
	for e, ok := range need {
		if ok {
			r.OK("a "+e.kind+" with no "+e.field+" is rejected", "")
		} else {
			r.Fail(m.vdef.Pos(), p.FuncName(m.vdef), "emptiness test "+e.kind+"."+e.field, "a definition of kind "+e.kind+" with an empty "+e.field+" list is no longer rejected")
		}
	}
}

// c07KindArgIsFieldType: the kind tested is that of Schema.Types[field.Type.Name()].
func c07KindArgIsFieldType(ci ssa.CallInstruction) bool {
	a := ci.Common().Args[0]
	st, f, ok := fieldLoadOf(a)
	if !ok || st != "Definition" || f != "Kind" {
		return false
	}
	return true
}

// c07LookupMissEdge: the edge taken when the `v, ok := m[k]` lookup misses (undefined types are reported by validateTypeRef).
func c07LookupMissEdge(from, to *ssa.BasicBlock) bool {
	ifi, ok := from.Instrs[len(from.Instrs)-1].(*ssa.If)
	if !ok {
		return false
	}
	cd := normCond(Cond{V: ifi.Cond, True: true})
	ex, ok := cd.V.(*ssa.Extract)
	if !ok || ex.Index != 1 {
		return false
	}
	if _, ok := ex.Tuple.(*ssa.Lookup); !ok {
		return false
	}
	if cd.True {
		return to == from.Succs[1]
	}
	return to == from.Succs[0]
}

// kindDisjunction: for `return d.Kind == A || d.Kind == B || ...` the set of constants.
func kindDisjunction(f *ssa.Function) []string {
	set := map[string]bool{}
	allInstrs(f, func(in ssa.Instruction) {
		bo, ok := in.(*ssa.BinOp)
		if !ok || bo.Op != token.EQL {
			return
		}
		if loadOfField(bo.X, "Definition", "Kind") {
			if s, ok := constString(bo.Y); ok {
				set[s] = true
			}
		}
	})
	// the same predicate as a lookup in a read-only table keyed by the Kind: the keys whose (field) value is true
	if len(set) == 0 && curProgram != nil {
		for _, ret := range returnsOf(f) {
			if len(ret.Results) != 1 {
				continue
			}
			tab, idx, isOK, field := tableLookup(curProgram, ret.Results[0])
			if tab == nil || isOK || !loadOfField(stripChange(idx), "Definition", "Kind") {
				continue
			}
			for _, e := range tab.entries {
				val := e.val
				if field != "" {
					val = e.fields[field]
				}
				if cst, ok := val.(*ssa.Const); ok && cst.Value != nil && cst.Value.Kind() == constant.Bool && constant.BoolVal(cst.Value) {
					if e.key.Kind() == constant.String {
						set[constant.StringVal(e.key)] = true
					}
				}
			}
		}
	}
	var out []string
	for s := range set {
		out = append(out, s)
	}
	sort.Strings(out)
	return out
}

// typeComparisonRule (C07.R6, shared with C08): in functions that compare two *ast.Type values,
// string comparisons use the same accessor on both sides, and a cycle (loop or recursion) that
// descends through Elem on both sides reads NonNull on both sides.
func typeComparisonRule(c *Ctx, r *RuleResult) {
	p := c.P
	typeT := p.LookupType("ast", "Type")
	if typeT == nil {
		r.AnchorLost("ast.Type")
		return
	}
	isTypePtr := func(t types.Type) bool {
		pt, ok := t.(*types.Pointer)
		return ok && sameNamed(namedOf(pt.Elem()), typeT) && namedOf(pt.Elem()) != nil
	}
	for _, fn := range p.Funcs() {
		if fn.Parent() != nil {
			continue
		}
		n := 0
		for _, prm := range fn.Params {
			if isTypePtr(prm.Type()) {
				n++
			}
		}
		if n < 2 {
			continue
		}
		name := p.FuncName(fn)
		// accessor of a string operand: "NamedType" (field load) or "Name()" (call), with its root parameter
		access := func(v ssa.Value) (string, string) {
			v = unspill(v)
			if st, f, ok := fieldLoadOf(v); ok && st == "Type" {
				return f, typeRoot(v)
			}
			if call, ok := v.(*ssa.Call); ok {
				if g := call.Call.StaticCallee(); g != nil && g.Signature.Recv() != nil && isTypePtr(g.Signature.Recv().Type()) {
					return g.Name() + "()", typeRoot(call.Call.Args[0])
				}
			}
			return "", ""
		}
		bad := false
		cmp := 0
		allInstrs(fn, func(in ssa.Instruction) {
			bo, ok := in.(*ssa.BinOp)
			if !ok || (bo.Op != token.EQL && bo.Op != token.NEQ) {
				return
			}
			ax, rx := access(bo.X)
			ay, ry := access(bo.Y)
			if ax == "" || ay == "" || rx == ry {
				return
			}
			cmp++
			if ax != ay {
				bad = true
				r.Fail(in.Pos(), name, "comparison of "+ax+" with "+ay, fmt.Sprintf("two types are compared through different accessors (%s of one, %s of the other): Name() unwraps list wrappers, NamedType does not, so a list can compare equal to a named type", ax, ay))
			}
		})
		// descent: Elem loaded from both roots and NonNull loaded from both roots
		elem := map[string]bool{}
		nn := map[string]bool{}
		allInstrs(fn, func(in ssa.Instruction) {
			v, ok := in.(ssa.Value)
			if !ok {
				return
			}
			if st, f, ok := fieldLoadOf(v); ok && st == "Type" {
				if f == "Elem" {
					elem[typeRoot(v)] = true
				}
				if f == "NonNull" {
					nn[typeRoot(v)] = true
				}
			}
		})
		if len(elem) >= 2 {
			// every natural loop that loads Elem must load NonNull from each root inside the loop
			_, bodies := loopsOf(fn)
			for h, body := range bodies {
				le, ln := map[string]bool{}, map[string]bool{}
				for b := range body {
					for _, in := range b.Instrs {
						if v, ok := in.(ssa.Value); ok {
							if st, f, ok := fieldLoadOf(v); ok && st == "Type" {
								if f == "Elem" {
									le[typeRoot(v)] = true
								}
								if f == "NonNull" {
									ln[typeRoot(v)] = true
								}
							}
						}
					}
				}
				if len(le) >= 2 && len(ln) < 2 {
					bad = true
					r.Fail(h.Instrs[0].Pos(), name, "lock-step descent loop without NonNull comparison", "a loop steps through the list wrappers of two types together without reading NonNull of both inside the loop: nullability of the intermediate levels is not compared")
				}
			}
			if len(nn) < 2 {
				bad = true
				r.Fail(fn.Pos(), name, "descent without NonNull of both types", "the function descends through Elem of two types but does not read NonNull of both")
			}
		}
		// a flag that can suppress the nullability failure belongs to the level it was computed for: the recursion on
		// the element types must not inherit it (a non-null default excuses the variable's own nullability, not its items')
		for qi, q := range fn.Params {
			if b, ok := q.Type().Underlying().(*types.Basic); !ok || b.Kind() != types.Bool {
				continue
			}
			relaxes := false
			for _, ret := range returnsOf(fn) {
				if len(ret.Results) != 1 {
					continue
				}
				if cst, ok := ret.Results[0].(*ssa.Const); !ok || cst.Value == nil || constant.BoolVal(cst.Value) {
					continue
				}
				hasQ, hasNN := false, false
				for _, cd := range condsAt(ret.Block()) {
					if cd.V == ssa.Value(q) {
						hasQ = true
					}
					if st, f, ok := fieldLoadOf(cd.V); ok && st == "Type" && f == "NonNull" {
						hasNN = true
					}
				}
				if hasQ && hasNN {
					relaxes = true
				}
			}
			if !relaxes {
				continue
			}
			for _, ci := range callsTo([]*ssa.Function{fn}, fn) {
				args := ci.Common().Args
				roots := map[string]bool{}
				for _, a := range args {
					if st, f, ok := fieldLoadOf(a); ok && st == "Type" && f == "Elem" {
						roots[typeRoot(a)] = true
					}
				}
				if len(roots) >= 2 && qi < len(args) && args[qi] == ssa.Value(q) {
					bad = true
					r.Fail(ci.Pos(), name, "nullability relaxation handed down to the element types ("+q.Name()+")", fmt.Sprintf("parameter %s can suppress the failure for a nullable type in a non-null position, and the recursion on the element types passes it on unchanged: the allowance made for one level (a variable with a non-null default) then holds for list items at every depth, and `[Int]` is accepted where `[Int!]` is expected", q.Name()))
				}
			}
		}
		if !bad && (cmp > 0 || len(elem) >= 2) {
			r.OK(name, fmt.Sprintf("%d cross comparisons use the same accessor; descent reads NonNull of both sides", cmp))
		}
	}
}

// typeRoot: the parameter (or phi of parameters' descendants) a Type access starts from.
func typeRoot(v ssa.Value) string {
	for i := 0; i < 10; i++ {
		v = unspill(v)
		switch x := v.(type) {
		case *ssa.UnOp:
			if fa, ok := x.X.(*ssa.FieldAddr); ok {
				v = fa.X
				continue
			}
		case *ssa.Field:
			v = x.X
			continue
		case *ssa.Phi:
			// loop-carried: t = phi(param t, t.Elem): root is the phi's first parameter edge
			for _, e := range x.Edges {
				if prm, ok := e.(*ssa.Parameter); ok {
					return "param:" + prm.Name()
				}
			}
			return "phi:" + x.Name()
		case *ssa.Parameter:
			return "param:" + x.Name()
		}
		break
	}
	return v.Name()
}

// ---------------------------------------------------------------------------
// C17

func runC17(c *Ctx) {
	p := c.P
	m := newLoaderModel(p)
	r1 := c.Rule("R1", "register before resolve", 8)
	for _, l := range m.lost {
		r1.AnchorLost(l)
	}
	if len(m.lost) > 0 {
		return
	}
	for _, field := range []string{"Types", "Directives"} {
		// which functions contain (transitively) a lookup of Schema.<field>
		looks := map[*ssa.Function]bool{}
		regs := map[*ssa.Function]bool{}
		for _, fn := range p.Funcs() {
			allInstrs(fn, func(in ssa.Instruction) {
				if _, ok := schemaMapLookup(in, field); ok {
					looks[fn] = true
				}
				if _, ok := schemaMapUpdate(in, field); ok {
					regs[fn] = true
				}
			})
		}
		for changed := true; changed; {
			changed = false
			for _, fn := range p.Funcs() {
				allInstrs(fn, func(in ssa.Instruction) {
					ci, ok := in.(ssa.CallInstruction)
					if !ok {
						return
					}
					g := ci.Common().StaticCallee()
					if g == nil {
						return
					}
					if looks[g] && !looks[fn] {
						looks[fn] = true
						changed = true
					}
					if regs[g] && !regs[fn] {
						regs[fn] = true
						changed = true
					}
				})
			}
		}
		fn := m.vsd
		isReg := func(in ssa.Instruction) bool {
			if _, ok := schemaMapUpdate(in, field); ok {
				return true
			}
			if ci, ok := in.(ssa.CallInstruction); ok {
				if g := ci.Common().StaticCallee(); g != nil && regs[g] {
					return true
				}
			}
			return false
		}
		nReg := 0
		allInstrs(fn, func(in ssa.Instruction) {
			if isReg(in) {
				nReg++
			}
		})
		if nReg == 0 {
			r1.AnchorLost("a registration into Schema." + field + " in " + p.FuncName(fn))
			continue
		}
		allInstrs(fn, func(in ssa.Instruction) {
			var what string
			if l, ok := schemaMapLookup(in, field); ok {
				// self lookup: key is the Name field of a Definition/DirectiveDefinition element of the document
				if st, f, ok := fieldLoadOf(l.Index); ok && f == "Name" && (st == "Definition" || st == "DirectiveDefinition") {
					r1.OK("self lookup Schema."+field+"["+st+".Name] at "+p.Pos(in.Pos()), "redeclaration / base lookup of the definition being registered")
					return
				}
				what = "lookup Schema." + field + "[" + describeKey(l.Index) + "]"
			} else if ci, ok := in.(ssa.CallInstruction); ok {
				g := ci.Common().StaticCallee()
				if g == nil || !looks[g] || regs[g] && !looks[g] {
					return
				}
				what = "call " + p.FuncName(g) + " (resolves names in Schema." + field + ")"
			} else {
				return
			}
			if reg, bad := reachesWithout(in, isReg, nil); bad {
				r1.Fail(in.Pos(), p.FuncName(fn), what+" before a registration", fmt.Sprintf("%s can be followed by a registration into Schema.%s (at %s): a definition that appears later in the sources is not yet visible to this lookup, so the result depends on definition order", what, field, p.Pos(reg.Pos())))
			} else {
				r1.OK(what+" at "+p.Pos(in.Pos()), "no registration into Schema."+field+" is reachable afterwards")
			}
		})
	}

	// R2 sorted iteration: validateTypeDefinitions / validateDirectiveDefinitions sort their key slices
	r2 := c.Rule("R2", "per-definition checks iterate sorted names", 2)
	for _, pass := range []*ssa.Function{m.vtd, m.vdd} {
		sorted := false
		allInstrs(pass, func(in ssa.Instruction) {
			if ci, ok := in.(ssa.CallInstruction); ok && totalSorter(calleeName(ci)) {
				sorted = true
			}
		})
		hasMapRange := false
		allInstrs(pass, func(in ssa.Instruction) {
			if rg, ok := in.(*ssa.Range); ok {
				if _, isMap := rg.X.Type().Underlying().(*types.Map); isMap {
					hasMapRange = true
				}
			}
		})
		if sorted || !hasMapRange {
			r2.OK(p.FuncName(pass)+" sorts the names before checking", "which error is reported first does not depend on map order (C10.R1 decides the taint)")
		} else {
			r2.Fail(pass.Pos(), p.FuncName(pass), "unsorted iteration", "definitions are checked in map order: which of several errors is reported is nondeterministic and order dependent")
		}
	}

	// R3 Merge appends every list; ParseSchemas merges every source
	r3 := c.Rule("R3", "SchemaDocument.Merge covers every list; every source is merged", 6)
	sdT := p.LookupType("ast", "SchemaDocument")
	merge := p.Func("ast.(*SchemaDocument).Merge")
	if sdT == nil || merge == nil {
		r3.AnchorLost("ast.SchemaDocument / Merge")
	} else {
		st := sdT.Underlying().(*types.Struct)
		for i := 0; i < st.NumFields(); i++ {
			f := st.Field(i)
			if _, ok := f.Type().Underlying().(*types.Slice); !ok {
				continue
			}
			ok := false
			var okSt *ssa.Store
			for _, s := range storesToField([]*ssa.Function{merge}, sdT, f.Name()) {
				call, isCall := s.store.Val.(*ssa.Call)
				if !isCall || !isAppendCall(call) {
					continue
				}
				a0, a1 := call.Call.Args[0], call.Call.Args[1]
				if loadOfField(a0, "SchemaDocument", f.Name()) && loadOfField(a1, "SchemaDocument", f.Name()) && typeRootDoc(a0) != typeRootDoc(a1) {
					ok, okSt = true, s.store
				}
			}
			if ok && okSt != nil && canSkip(okSt, mergeSkipHarmless(merge, f.Name())) {
				r3.Fail(okSt.Pos(), p.FuncName(merge), "the append of list "+f.Name()+" can be skipped", "a path through SchemaDocument.Merge returns without appending other."+f.Name()+" under a condition other than that list (or the other document) being empty: what a source file declares there is lost, depending on what else the file holds")
			} else if ok {
				r3.OK("Merge: d."+f.Name()+" = append(d."+f.Name()+", other."+f.Name()+"...)", "on every path, or skipped only when other."+f.Name()+" is empty")
			} else {
				r3.Fail(merge.Pos(), p.FuncName(merge), "list "+f.Name()+" not merged", "SchemaDocument.Merge does not append other."+f.Name()+": definitions in a second source file would be lost")
			}
		}
		for _, name := range []string{"parser.ParseSchemas", "parser.ParseSchemasWithLimit"} {
			fn := p.Func(name)
			if fn == nil {
				continue
			}
			okM := false
			for _, ci := range callsTo([]*ssa.Function{fn}, merge) {
				if !canSkip(ci, nil) {
					okM = true
				}
			}
			// delegation to the sibling entry point (which is checked itself)
			for _, other := range []string{"parser.ParseSchemas", "parser.ParseSchemasWithLimit"} {
				if o := p.Func(other); o != nil && o != fn && delegates(fn, o) {
					okM = true
				}
			}
			if okM {
				r3.OK(name+" merges every parsed source", "")
			} else {
				r3.Fail(fn.Pos(), name, "Merge can be skipped", "a successfully parsed source may not be merged into the document")
			}
		}
	}

	// R4 loader errors are located at a node
	r4 := c.Rule("R4", "every loader error carries the position of a node involved", 30)
	epos := p.Func("gqlerror.ErrorPosf")
	if epos == nil {
		r4.AnchorLost("gqlerror.ErrorPosf")
	} else {
		for _, fn := range m.fns {
			if !strings.HasSuffix(p.Fset.Position(fn.Pos()).Filename, "validator/schema.go") {
				continue
			}
			allInstrs(fn, func(in ssa.Instruction) {
				call, ok := in.(*ssa.Call)
				if !ok {
					return
				}
				g := call.Call.StaticCallee()
				if g == nil {
					return
				}
				gn := p.FuncName(g)
				if !strings.HasPrefix(gn, "gqlerror.Error") {
					return
				}
				if g != epos {
					r4.Fail(in.Pos(), p.FuncName(fn), "loader error built with "+gn, "a schema error is created without a position: it cannot name the file it came from")
					return
				}
				if w, ok := positionProvenance(c, call.Call.Args[0], 0); ok {
					r4.OK("ErrorPosf("+w+") in "+p.FuncName(fn)+" at "+p.Pos(in.Pos()), "")
				} else {
					r4.Fail(in.Pos(), p.FuncName(fn), "ErrorPosf position argument", "the position of this schema error is not the Position of an SDL node")
				}
			})
		}
	}

	// ---- R5 what the loader appends to is the definition's own memory
	r5 := c.Rule("R5", "slices the parser hands to the loader share no spare capacity with other nodes", 1)
	if g := newGrammarCtx(c, r5); g != nil {
		g.sharedBufferWindows(r5)
	}

	// ---- R6 whether a check runs does not depend on what was checked before (shared with C07.R7)
	r6 := c.Rule("R6", "branches of the loader's check functions are checks, loop control or specified dispatch — no check is skipped because of an earlier one", 24)
	c07NoShortcut(c, r6)

	r7 := c.Rule("R7", "every member list an extension can carry is merged into its definition, for every kind", 5)
	extensionMergeCoverage(c, r7)

	r8 := c.Rule("R8", "a search through a definition-ordered list decides by existence, not by the first element met", 20)
	orderFreeSearches(c, r8)
}

// orderFreeSearches (C17.R8): PossibleTypes, Implements, field and member lists are filled in the order the definitions
// were written. A loop over such a list inside the loader may leave early with a verdict only if the verdict does not
// depend on which element came first: `return true` / `return false` / `return err` under `err != nil` are existential
// (some element has the property), whereas `return f(elem)` for the first element of some sort answers for that element
// alone and the elements behind it are never looked at — the verdict changes when the definitions are reordered.
func orderFreeSearches(c *Ctx, r *RuleResult) {
	p := c.P
	roots := []*ssa.Function{}
	for _, n := range []string{"validator.ValidateSchemaDocument", "validator.LoadSchema"} {
		if f := p.Func(n); f != nil {
			roots = append(roots, f)
		}
	}
	if len(roots) == 0 {
		r.AnchorLost("validator.ValidateSchemaDocument")
		return
	}
	var fns []*ssa.Function
	for fn := range p.reachableFrom(roots, nil) {
		if p.inModule(fn) && fn.Pkg != nil && strings.HasSuffix(fn.Pkg.Pkg.Path(), "/validator") {
			fns = append(fns, fn)
		}
	}
	sort.Slice(fns, func(i, j int) bool { return p.FuncName(fns[i]) < p.FuncName(fns[j]) })
	nOK := 0
	for _, fn := range fns {
		_, bodies := loopsOf(fn)
		if len(bodies) == 0 {
			continue
		}
		for _, ret := range returnsOf(fn) {
			inLoop := false
			for _, body := range bodies {
				if body[ret.Block()] {
					inLoop = true
				}
			}
			if !inLoop {
				// a return block reached only from inside a loop (the loop's exit edge target with a single predecessor in the body)
				for h, body := range bodies {
					_ = h
					b := ret.Block()
					if len(b.Preds) == 1 && body[b.Preds[0]] && !body[b] {
						// leaves the loop from the body, not from the header's exit test
						if b.Preds[0] != h {
							inLoop = true
						}
					}
				}
			}
			if !inLoop {
				continue
			}
			bad := false
			for _, v := range ret.Results {
				v = stripChange(v)
				if _, isC := v.(*ssa.Const); isC {
					continue
				}
				bt, isBasic := v.Type().Underlying().(*types.Basic)
				isBool := isBasic && bt.Kind() == types.Bool
				isErr := isErrorType(v.Type()) || isGqlErrPtr(v.Type())
				if !isBool && !isErr {
					continue // a found element: looked up by a key that identifies it
				}
				if isErr {
					// failure is failure whichever element reports it
					nonNil := false
					if mi, isMI := v.(*ssa.MakeInterface); isMI {
						v = stripChange(mi.X) // a typed error pointer returned as `error`: the test was made on the pointer
					}
					for _, cd := range condsAt(ret.Block()) {
						if bo, ok := cd.V.(*ssa.BinOp); ok && (bo.Op == token.NEQ) == cd.True && (bo.Op == token.NEQ || bo.Op == token.EQL) {
							if (stripChange(bo.X) == v && isNilConst(bo.Y)) || (stripChange(bo.Y) == v && isNilConst(bo.X)) {
								nonNil = true
							}
						}
					}
					if nonNil || freshError(v) {
						nOK++
						continue
					}
				}
				bad = true
				r.Fail(ret.Pos(), p.FuncName(fn), "loop left with a computed verdict", fmt.Sprintf("inside a loop over a list in definition order the function returns a value computed for the element at hand (%s) instead of a constant: the elements behind it are never examined, so the answer depends on the order in which the definitions (or their sources) were given", describeValue(v)))
			}
			if !bad {
				r.OK(fmt.Sprintf("%s: early exit at %s", p.FuncName(fn), p.Pos(ret.Pos())), "returns constants or an error found non-nil")
			}
		}
	}
	_ = nOK
}

func isGqlErrPtr(t types.Type) bool {
	if pt, ok := t.Underlying().(*types.Pointer); ok {
		if n := namedOf(pt.Elem()); n != nil && n.Obj().Name() == "Error" && n.Obj().Pkg() != nil && strings.HasSuffix(n.Obj().Pkg().Path(), "/gqlerror") {
			return true
		}
	}
	return false
}

// freshError: v is the result of a constructor call (ErrorPosf, Errorf, errors.New ...): non-nil by construction.
func freshError(v ssa.Value) bool {
	call, ok := v.(*ssa.Call)
	if !ok {
		if mi, isMI := v.(*ssa.MakeInterface); isMI {
			return freshError(mi.X)
		}
		_, isAlloc := v.(*ssa.Alloc)
		return isAlloc
	}
	g := call.Call.StaticCallee()
	if g == nil || g.Pkg == nil {
		return false
	}
	switch g.Pkg.Pkg.Path() + "." + g.Name() {
	case "errors.New", "fmt.Errorf":
		return true
	}
	return strings.HasSuffix(g.Pkg.Pkg.Path(), "/gqlerror") && (strings.HasPrefix(g.Name(), "Error") || strings.HasPrefix(g.Name(), "Wrap"))
}

func describeValue(v ssa.Value) string {
	if call, ok := v.(*ssa.Call); ok {
		if g := call.Call.StaticCallee(); g != nil {
			return "the result of " + g.Name()
		}
	}
	return v.Name()
}

func describeKey(v ssa.Value) string {
	if st, f, ok := fieldLoadOf(v); ok {
		return st + "." + f
	}
	if s, ok := constString(v); ok {
		return fmt.Sprintf("%q", s)
	}
	v = unspill(v)
	if u, ok := v.(*ssa.UnOp); ok {
		if ia, ok := u.X.(*ssa.IndexAddr); ok {
			if st, f, ok := fieldLoadOf(ia.X); ok {
				return "element of " + st + "." + f
			}
		}
	}
	if call, ok := v.(*ssa.Call); ok {
		return calleeName(call) + "()"
	}
	return v.Name()
}

func typeRootDoc(v ssa.Value) string {
	v = unspill(v)
	if u, ok := v.(*ssa.UnOp); ok {
		if fa, ok := u.X.(*ssa.FieldAddr); ok {
			return rootName(fa.X)
		}
	}
	return v.Name()
}

// mergeSkipHarmless: the edges of Merge along which skipping the append of list `field` loses nothing — the edge taken
// when the other document is nil, when len(other.field) is zero, or when a helper that answers true whenever
// len(recv.field) > 0 answered false.
func mergeSkipHarmless(merge *ssa.Function, field string) func(from, to *ssa.BasicBlock) bool {
	emptyTest := func(v ssa.Value) (nonEmptyWhenTrue bool, ok bool) {
		// len(x.field) > 0, != 0, >= 1, 0 <, == 0 ...
		bo, isB := v.(*ssa.BinOp)
		if !isB {
			return false, false
		}
		x, y, op := bo.X, bo.Y, bo.Op
		if _, isC := x.(*ssa.Const); isC {
			x, y = y, x
			switch op {
			case token.LSS:
				op = token.GTR
			case token.LEQ:
				op = token.GEQ
			case token.GTR:
				op = token.LSS
			case token.GEQ:
				op = token.LEQ
			}
		}
		call, isCall := x.(*ssa.Call)
		if !isCall {
			return false, false
		}
		if b, isBi := call.Call.Value.(*ssa.Builtin); !isBi || b.Name() != "len" || !loadOfField(call.Call.Args[0], "SchemaDocument", field) {
			return false, false
		}
		k, isK := constInt(y)
		if !isK {
			return false, false
		}
		switch {
		case (op == token.GTR && k == 0) || (op == token.NEQ && k == 0) || (op == token.GEQ && k == 1):
			return true, true
		case (op == token.EQL && k == 0) || (op == token.LSS && k == 1) || (op == token.LEQ && k == 0):
			return false, true
		}
		return false, false
	}
	// helperTrueWhenNonEmpty: fn returns true on every path on which len(recv.field) > 0 was tested true, and that test
	// is reached on every path that returns false
	helperTrue := func(fn *ssa.Function) bool {
		if fn == nil || len(fn.Blocks) == 0 || hasAnyLoop(fn) {
			return false
		}
		// every false-capable return must lie beyond the false edge of a non-empty test of the field
		for _, ret := range returnsOf(fn) {
			if len(ret.Results) != 1 {
				return false
			}
			var mayFalse func(v ssa.Value, via *ssa.BasicBlock, depth int) bool
			mayFalse = func(v ssa.Value, at *ssa.BasicBlock, depth int) bool {
				if depth > 6 {
					return true
				}
				if cst, ok := v.(*ssa.Const); ok {
					if cst.Value != nil && cst.Value.String() == "true" {
						return false
					}
					// false constant: fine only under the false edge of the field's test
					for _, cd := range condsAt(at) {
						if ne, ok := emptyTest(cd.V); ok && ne != cd.True {
							return false
						}
					}
					return true
				}
				if ph, ok := v.(*ssa.Phi); ok {
					for i, e := range ph.Edges {
						if mayFalse(e, ph.Block().Preds[i], depth+1) {
							return true
						}
					}
					return false
				}
				if ne, ok := emptyTest(v); ok && ne {
					return false // the value is the test itself: false only when the list is empty
				}
				if bo, ok := v.(*ssa.BinOp); ok && bo.Op == token.OR {
					return mayFalse(bo.X, at, depth+1) && mayFalse(bo.Y, at, depth+1)
				}
				// any other value may be false while the list is non-empty, unless we are past the false edge of the test
				for _, cd := range condsAt(at) {
					if ne, ok := emptyTest(cd.V); ok && ne != cd.True {
						return false
					}
				}
				return true
			}
			if mayFalse(ret.Results[0], ret.Block(), 0) {
				return false
			}
		}
		return true
	}
	return func(from, to *ssa.BasicBlock) bool {
		ifi, ok := from.Instrs[len(from.Instrs)-1].(*ssa.If)
		if !ok || len(from.Succs) != 2 || from.Succs[0] == from.Succs[1] {
			return false
		}
		cd := normCond(Cond{V: ifi.Cond, True: to == from.Succs[0]})
		if bo, ok := cd.V.(*ssa.BinOp); ok && (bo.Op == token.EQL || bo.Op == token.NEQ) {
			if _, isP := bo.X.(*ssa.Parameter); isP && isNilConst(bo.Y) {
				return (bo.Op == token.EQL) == cd.True
			}
		}
		if ne, ok := emptyTest(cd.V); ok {
			return ne != cd.True
		}
		if call, ok := cd.V.(*ssa.Call); ok && !cd.True {
			return helperTrue(call.Call.StaticCallee())
		}
		return false
	}
}

// c07Place: a function of the loader together with the chain of calls (each with a tested error result) through which a
// check function hands part of its work to it.
type c07Place struct {
	fn    *ssa.Function
	chain []ssa.CallInstruction
}

var c07LoaderOnlyMemo map[*ssa.Function]bool

// c07HelpersIn: fn and the loader-only helpers it hands part of its work to — reached through calls whose error result
// is tested; the chain of those calls is kept so that each link can be checked for skippability and context.
func c07HelpersIn(p *Program, m *loaderModel, fn *ssa.Function) []c07Place {
	if c07LoaderOnlyMemo == nil {
		c07LoaderOnlyMemo = loaderOnly(p)
	}
	lo := c07LoaderOnlyMemo
	out := []c07Place{{fn, nil}}
	seen := map[*ssa.Function]bool{fn: true}
	for i := 0; i < len(out) && len(out) < 12; i++ {
		cur := out[i]
		allInstrs(cur.fn, func(in ssa.Instruction) {
			call, ok := in.(*ssa.Call)
			if !ok {
				return
			}
			h := call.Call.StaticCallee()
			if h == nil || seen[h] || !lo[h] || len(h.Blocks) == 0 {
				return
			}
			switch h {
			case m.vtref, m.vargs, m.vdirs, m.vname, m.vdef, m.vdir, m.vimpl:
				return // the checks themselves are not helpers of their callers
			}
			res := h.Signature.Results()
			if res.Len() == 0 || !isGqlErrorPtr(res.At(res.Len()-1).Type()) {
				return
			}
			seen[h] = true
			out = append(out, c07Place{h, append(append([]ssa.CallInstruction{}, cur.chain...), call)})
		})
	}
	return out
}

// chainSkippable: one of the calls that lead to the helper can be bypassed, or its result is dropped.
func (pl c07Place) chainSkippable() bool {
	for _, link := range pl.chain {
		if canSkip(link, nil) || !errResultUsed(link.(*ssa.Call), 1) {
			return true
		}
	}
	return false
}

// kindsIn: the definition kinds under which block b of the place runs — those established in the helper itself, else
// those of the innermost call of the chain that lies under a kind test.
func (pl c07Place) kindsIn(b *ssa.BasicBlock) []string {
	if ks := kindsAt(b); len(ks) > 0 {
		return ks
	}
	for i := len(pl.chain) - 1; i >= 0; i-- {
		if ks := kindsAt(pl.chain[i].Block()); len(ks) > 0 {
			return ks
		}
	}
	return nil
}
