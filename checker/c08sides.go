package main

import (
	"go/types"
	"sort"
	"strings"

	"golang.org/x/tools/go/ssa"
)

// c08TwoSided (C08.R11): a two-sided comparison takes one operand from each side, at every call.
//
// A function with two parameters of one (non-basic) type compares two things: two selection sets, two field maps, two
// types, two argument lists. Every value in it is labelled with the sides it derives from (through loads, calls, range
// loops, phis). For every callee that is handed, at some call site, one operand from each side at the argument
// positions (i, j), every other call of the same callee in the function that passes single-side operands at (i, j) must
// also take them from different sides: "compare the fields of A with the fragments of A" where the sibling call compares
// the fields of A with the fragments of B is a comparison that is never made, so a conflict (an incompatibility) goes
// unreported. Instances are the call sites examined.
func c08TwoSided(c *Ctx, r *RuleResult) {
	p := c.P
	var fns []*ssa.Function
	for _, rel := range []string{"validator/rules", "validator", "ast"} {
		fns = append(fns, p.FuncsIn(rel)...)
	}
	if len(fns) == 0 {
		r.AnchorLost("packages validator/rules, validator, ast")
		return
	}
	for _, fn := range fns {
		if fn.Blocks == nil {
			continue
		}
		sides := sideParams(fn)
		if len(sides) == 0 {
			continue
		}
		taint := sideTaint(fn, sides)
		type site struct {
			ci ssa.CallInstruction
			t  []uint
		}
		byCallee := map[*ssa.Function][]site{}
		var order []*ssa.Function
		allInstrs(fn, func(in ssa.Instruction) {
			ci, ok := in.(ssa.CallInstruction)
			if !ok {
				return
			}
			g := staticCallee(ci)
			if g == nil || !p.inModule(g) {
				return
			}
			args := ci.Common().Args
			t := make([]uint, len(args))
			n := 0
			for i, a := range args {
				t[i] = taint[a]
				if single(t[i]) {
					n++
				}
			}
			if n < 2 {
				return
			}
			if byCallee[g] == nil {
				order = append(order, g)
			}
			byCallee[g] = append(byCallee[g], site{ci, t})
		})
		sort.Slice(order, func(i, j int) bool { return p.FuncName(order[i]) < p.FuncName(order[j]) })
		for _, g := range order {
			sites := byCallee[g]
			// argument positions that some site fills from two different sides
			type pair struct{ i, j int }
			mixed := map[pair]bool{}
			for _, s := range sites {
				for i := range s.t {
					for j := i + 1; j < len(s.t); j++ {
						if single(s.t[i]) && single(s.t[j]) && s.t[i] != s.t[j] {
							mixed[pair{i, j}] = true
						}
					}
				}
			}
			for _, s := range sites {
				bad := ""
				for pr := range mixed {
					if pr.j < len(s.t) && single(s.t[pr.i]) && s.t[pr.i] == s.t[pr.j] {
						bad = sideName(sides, s.t[pr.i])
					}
				}
				inst := p.FuncName(fn) + " calls " + p.FuncName(g)
				if bad != "" {
					r.Fail(s.ci.Pos(), p.FuncName(fn), "call of "+p.FuncName(g)+" takes both operands from "+bad,
						"another call of "+p.FuncName(g)+" in this function is handed one operand from each of the two sides ("+strings.Join(sideNames(sides), ", ")+"); this one takes both from "+bad+", so one side is compared with itself and the comparison across the sides is never made")
					continue
				}
				r.OK(inst, "operands from different sides wherever a sibling call mixes them")
			}
		}
	}
}

func single(t uint) bool { return t != 0 && t&(t-1) == 0 }

type sideParam struct {
	prm *ssa.Parameter
	bit uint
}

// sideParams: the parameters of fn (receiver included) that share their type with another parameter; basic types,
// function types and interfaces are no sides.
func sideParams(fn *ssa.Function) []sideParam {
	byType := map[string][]*ssa.Parameter{}
	for _, prm := range fn.Params {
		switch prm.Type().Underlying().(type) {
		case *types.Basic, *types.Signature, *types.Interface:
			continue
		}
		k := prm.Type().String()
		byType[k] = append(byType[k], prm)
	}
	var out []sideParam
	for _, prm := range fn.Params {
		if len(byType[prm.Type().String()]) >= 2 {
			out = append(out, sideParam{prm, 1 << uint(len(out))})
		}
	}
	if len(out) > 16 {
		return nil
	}
	return out
}

func sideNames(s []sideParam) []string {
	var out []string
	for _, x := range s {
		out = append(out, x.prm.Name())
	}
	return out
}

func sideName(s []sideParam, t uint) string {
	for _, x := range s {
		if x.bit == t {
			return x.prm.Name()
		}
	}
	return "?"
}

// sideTaint: for every value of fn the set of side parameters it derives from (flow-insensitive fixpoint).
func sideTaint(fn *ssa.Function, sides []sideParam) map[ssa.Value]uint {
	t := map[ssa.Value]uint{}
	for _, s := range sides {
		t[s.prm] = s.bit
	}
	for changed := true; changed; {
		changed = false
		allInstrs(fn, func(in ssa.Instruction) {
			if st, ok := in.(*ssa.Store); ok {
				// a local variable that holds a side-derived value
				if a, isA := st.Addr.(*ssa.Alloc); isA {
					if n := t[a] | t[st.Val]; n != t[a] {
						t[a] = n
						changed = true
					}
				}
				return
			}
			v, ok := in.(ssa.Value)
			if !ok {
				return
			}
			var n uint
			switch x := in.(type) {
			case *ssa.Call:
				for _, a := range x.Call.Args {
					n |= t[a]
				}
				if !x.Call.IsInvoke() {
					n |= t[x.Call.Value]
				}
			case *ssa.Alloc, *ssa.MakeClosure, *ssa.MakeMap, *ssa.MakeSlice, *ssa.MakeChan:
				n = t[v]
			default:
				for _, op := range in.Operands(nil) {
					if *op != nil {
						n |= t[*op]
					}
				}
			}
			if n|t[v] != t[v] {
				t[v] |= n
				changed = true
			}
		})
	}
	return t
}
