package main

import (
	"fmt"
	"go/token"
	"go/types"
	"sort"
	"strings"

	"golang.org/x/tools/go/ssa"
)

// C02.R5: every loop in the validation scope has a recognised termination argument.
//
//	range      the loop is a range loop (operand evaluated once; slices, strings, maps, integers)
//	counting   the exit test compares an induction variable (phi: initial value, then itself plus a positive
//	           constant on every back edge) with a bound that the loop does not change (a value defined outside the
//	           loop, len of such a value, or a reflect Len/NumField call on such a value)
//	cursor     the exit test is a nil test of a pointer cursor that moves to a child field (x = x.Elem) on every back
//	           edge: the chain is a finite tree path
//	worklist   the exit test is on the length of a slice that shrinks by one on every iteration, and everything pushed
//	           onto it is a strict part of the element taken off (child fields, elements), or the push sits behind a
//	           visited-set gate whose set is never deleted from in the loop
//
// Any other loop is undecided (which fails the check): the idioms above are the ones the code uses today.
func c02Loops(c *Ctx, r *RuleResult, scope map[*ssa.Function]bool) {
	p := c.P
	var fns []*ssa.Function
	for fn := range scope {
		if p.inModule(fn) && len(fn.Blocks) > 0 {
			fns = append(fns, fn)
		}
	}
	sort.Slice(fns, func(i, j int) bool { return p.FuncName(fns[i]) < p.FuncName(fns[j]) })
	kinds := map[string]int{}
	for _, fn := range fns {
		if hasCycleOutsideNaturalLoops(fn) {
			r.Undecided(fn.Pos(), p.FuncName(fn), "irreducible control flow", "the function has a cycle that is not a natural loop (goto into a loop); no termination argument is attempted")
			continue
		}
		headers, bodies := loopsOf(fn)
		for i, h := range headers {
			body := bodies[h]
			site := fmt.Sprintf("loop #%d of %s at %s", i+1, p.FuncName(fn), p.Pos(loopPos(h)))
			kind, why := classifyLoop(h, body)
			switch kind {
			case "":
				r.Undecided(loopPos(h), p.FuncName(fn), fmt.Sprintf("loop #%d: no termination argument", i+1), "the loop is none of: range loop, counting loop with an unchanged bound, child-pointer cursor, shrinking worklist — "+why)
			case "bad-worklist":
				r.Fail(loopPos(h), p.FuncName(fn), fmt.Sprintf("loop #%d: worklist grows without a measure", i+1), why)
			default:
				kinds[kind]++
				r.OK(site, kind+": "+why)
			}
		}
	}
	c.Extra["c02_loop_kinds"] = kinds
}

func classifyLoop(h *ssa.BasicBlock, body map[*ssa.BasicBlock]bool) (kind, why string) {
	if isRangeLoop(h) {
		return "range", "range operand is evaluated once"
	}
	// exit tests: Ifs inside the loop with one successor outside
	type exitT struct {
		b    *ssa.BasicBlock
		cond ssa.Value
		stay bool // value of cond on which the loop continues
	}
	var exits []exitT
	for b := range body {
		if ifi, ok := b.Instrs[len(b.Instrs)-1].(*ssa.If); ok {
			in0, in1 := body[b.Succs[0]], body[b.Succs[1]]
			if in0 != in1 {
				exits = append(exits, exitT{b, ifi.Cond, in0})
			}
		}
	}
	sort.Slice(exits, func(i, j int) bool { return exits[i].b.Index < exits[j].b.Index })
	definedOutside := func(v ssa.Value) bool {
		switch x := v.(type) {
		case *ssa.Const, *ssa.Parameter, *ssa.FreeVar, *ssa.Global, *ssa.Function:
			return true
		case ssa.Instruction:
			return !body[x.Block()]
		}
		return false
	}
	var invariant func(v ssa.Value, d int) bool
	invariant = func(v ssa.Value, d int) bool {
		if d > 4 {
			return false
		}
		v = stripChange(v)
		if definedOutside(v) {
			// a load from a cell defined outside is invariant only if the loop does not store to it
			return true
		}
		switch x := v.(type) {
		case *ssa.Call:
			if b, ok := x.Call.Value.(*ssa.Builtin); ok && (b.Name() == "len" || b.Name() == "cap") {
				return invariant(x.Call.Args[0], d+1)
			}
			if g := x.Call.StaticCallee(); g != nil && g.Pkg != nil && g.Pkg.Pkg.Path() == "reflect" && (g.Name() == "Len" || g.Name() == "NumField" || g.Name() == "NumMethod") {
				return invariant(x.Call.Args[0], d+1)
			}
		case *ssa.UnOp:
			if x.Op == token.MUL {
				// load of a struct field (len(def.Fields) evaluated per iteration): nothing in the loop — directly or in
				// a module function it calls — stores to that field of that struct type
				if fa, ok := x.X.(*ssa.FieldAddr); ok {
					if n, f, base, ok := fieldOf(fa); ok && n != nil && invariant(base, d+1) {
						stored := false
						for b := range body {
							for _, in := range b.Instrs {
								if fieldStoredBy(in, n, f, 0) {
									stored = true
								}
							}
						}
						return !stored
					}
				}
				// load of a cell: no store to that cell inside the loop
				if al, ok := x.X.(*ssa.Alloc); ok {
					for _, st := range storesToAlloc(al) {
						if body[st.Block()] {
							return false
						}
					}
					return true
				}
			}
		}
		return false
	}
	// the exit test must be passed on every iteration: it dominates every back edge source
	onEveryIteration := func(b *ssa.BasicBlock) bool {
		for _, pr := range h.Preds {
			if body[pr] && !b.Dominates(pr) {
				return false
			}
		}
		return true
	}
	reasons := []string{}
	for _, ex := range exits {
		if !onEveryIteration(ex.b) {
			continue
		}
		bo, ok := ex.cond.(*ssa.BinOp)
		if !ok {
			continue
		}
		// ---- counting
		for _, side := range []int{0, 1} {
			iv, bound := bo.X, bo.Y
			op := bo.Op
			if side == 1 {
				iv, bound = bo.Y, bo.X
				op = flipOp(op)
			}
			if !ex.stay {
				op = notOp(op)
			}
			ph, ok := stripChange(iv).(*ssa.Phi)
			if !ok || ph.Block() != h || !isIntType(ph.Type()) {
				continue
			}
			dir, ok := inductionStep(ph, h, body)
			if !ok {
				reasons = append(reasons, "the compared variable is not a plain induction variable")
				continue
			}
			if !invariant(bound, 0) {
				reasons = append(reasons, "the bound of the counting loop may change inside the loop")
				continue
			}
			if dir > 0 && (op == token.LSS || op == token.LEQ) {
				return "counting", "induction variable rises by a positive constant towards an unchanged bound"
			}
			if dir < 0 && (op == token.GTR || op == token.GEQ) {
				return "counting", "induction variable falls by a positive constant towards an unchanged bound"
			}
			if (dir == 1 || dir == -1) && op == token.NEQ {
				// i != n with unit steps: terminates when it starts on the right side; accept only the rising-from-below form i := 0 .. n with n = len(...)
				reasons = append(reasons, "a != exit test needs the starting side, which is not decided")
			}
		}
		// ---- cursor
		if isNilConst(bo.Y) || isNilConst(bo.X) {
			cur := bo.X
			if isNilConst(bo.X) {
				cur = bo.Y
			}
			op := bo.Op
			if !ex.stay {
				op = notOp(op)
			}
			ph, ok := stripChange(cur).(*ssa.Phi)
			if !ok {
				// the test may be on a child of the cursor: for c.next != nil { c = c.next }
				for _, in := range h.Instrs {
					if cand, isPhi := in.(*ssa.Phi); isPhi && childStepOf(cur, cand) {
						ph, ok = cand, true
					}
				}
			}
			if !ok && op == token.NEQ {
				// the cursor may live in a field: for x.t.Elem != nil { x.t = x.t.Elem }
				if why, okCell := cellCursor(cur, h, body); okCell {
					return "cursor", why
				}
			}
			if ok && ph.Block() == h && op == token.NEQ {
				all := true
				for i, e := range ph.Edges {
					if !body[h.Preds[i]] {
						continue
					}
					if !childStepOf(e, ph) {
						all = false
					}
				}
				if all {
					return "cursor", "the cursor moves to a child field of itself on every back edge and stops at nil"
				}
				reasons = append(reasons, "the pointer cursor is not advanced to one of its own child fields on every back edge")
			}
		}
		// ---- worklist
		if k, w, ok := worklist(bo, ex.stay, h, body); ok {
			return k, w
		} else if w != "" {
			reasons = append(reasons, w)
		}
	}
	if len(exits) == 0 {
		return "", "the loop has no conditional exit"
	}
	if len(reasons) == 0 {
		return "", "no exit test of a recognised form is passed on every iteration"
	}
	return "", strings.Join(reasons, "; ")
}

func storesToAlloc(al *ssa.Alloc) []*ssa.Store {
	var out []*ssa.Store
	for _, ref := range *al.Referrers() {
		if st, ok := ref.(*ssa.Store); ok && st.Addr == al {
			out = append(out, st)
		}
	}
	return out
}

func flipOp(op token.Token) token.Token {
	switch op {
	case token.LSS:
		return token.GTR
	case token.LEQ:
		return token.GEQ
	case token.GTR:
		return token.LSS
	case token.GEQ:
		return token.LEQ
	}
	return op
}

func notOp(op token.Token) token.Token {
	switch op {
	case token.LSS:
		return token.GEQ
	case token.LEQ:
		return token.GTR
	case token.GTR:
		return token.LEQ
	case token.GEQ:
		return token.LSS
	case token.EQL:
		return token.NEQ
	case token.NEQ:
		return token.EQL
	}
	return op
}

// inductionStep: ph (in header h) is initial on entry edges and, on every back edge, ph moved in one direction by at
// least one positive constant step — possibly through further phis inside the loop and through additions of a value
// that cannot be negative (the width of a decoded rune less one). Returns the direction (+1 / -1 for unit steps,
// +2 / -2 otherwise).
func inductionStep(ph *ssa.Phi, h *ssa.BasicBlock, body map[*ssa.BasicBlock]bool) (int, bool) {
	dir := 0
	unit := true
	var step func(v ssa.Value, d int) (ok, strict bool)
	step = func(v ssa.Value, d int) (bool, bool) {
		if d > 6 {
			return false, false
		}
		v = stripChange(v)
		if v == ssa.Value(ph) {
			return true, false
		}
		switch x := v.(type) {
		case *ssa.BinOp:
			if x.Op != token.ADD && x.Op != token.SUB {
				return false, false
			}
			k, isK := constNum(x.Y)
			base := x.X
			if !isK && x.Op == token.ADD {
				if k, isK = constNum(x.X); isK {
					base = x.Y
				}
			}
			if !isK {
				// i + (w - 1), w the width of a decoded rune of a non-empty string
				if x.Op == token.ADD && runeWidthLessOne(x.Y) {
					ok, strict := step(x.X, d+1)
					if ok && dir < 0 {
						return false, false
					}
					unit = false
					return ok, strict
				}
				return false, false
			}
			if k == 0 {
				return step(base, d+1)
			}
			if x.Op == token.SUB {
				k = -k
			}
			sgn := 1
			if k < 0 {
				sgn = -1
			}
			if dir != 0 && dir != sgn {
				return false, false
			}
			dir = sgn
			if k != 1 && k != -1 {
				unit = false
			}
			ok, _ := step(base, d+1)
			return ok, ok
		case *ssa.Phi:
			if !body[x.Block()] {
				return false, false
			}
			all := true
			for _, e := range x.Edges {
				ok, strict := step(e, d+1)
				if !ok {
					return false, false
				}
				if !strict {
					all = false
				}
			}
			return true, all
		}
		return false, false
	}
	for i, e := range ph.Edges {
		if !body[h.Preds[i]] {
			continue
		}
		if ok, strict := step(e, 0); !ok || !strict {
			return 0, false
		}
	}
	if dir == 0 {
		return 0, false
	}
	if !unit {
		return 2 * dir, true
	}
	return dir, true
}

// runeWidthLessOne: v is w - 1 (or w + -1) where w is the width result of utf8.DecodeRune(InString) / DecodeLastRune*:
// at least 1 for a non-empty argument, so v >= 0. (For an empty argument the width is 0; the loops in question slice
// from an index below the length.)
func runeWidthLessOne(v ssa.Value) bool {
	bo, ok := stripChange(v).(*ssa.BinOp)
	if !ok {
		return false
	}
	k, isK := constNum(bo.Y)
	if !isK || !(bo.Op == token.SUB && k == 1 || bo.Op == token.ADD && k == -1) {
		return false
	}
	ex, ok := stripChange(bo.X).(*ssa.Extract)
	if !ok || ex.Index != 1 {
		return false
	}
	call, ok := ex.Tuple.(*ssa.Call)
	if !ok {
		return false
	}
	nm := calleeName(call)
	return strings.HasPrefix(nm, "unicode/utf8.Decode")
}

// childStepOf: v is *(&x.f) for a non-link field f of the cursor (one or more steps).
func childStepOf(v ssa.Value, cur ssa.Value) bool {
	v = stripChange(v)
	n := 0
	for d := 0; d < 6; d++ {
		if v == cur {
			return n > 0
		}
		u, ok := v.(*ssa.UnOp)
		if !ok || u.Op != token.MUL {
			return false
		}
		fa, ok := u.X.(*ssa.FieldAddr)
		if !ok {
			return false
		}
		nm, f, b, _ := fieldOf(fa)
		if nm != nil && isLinkField(nm.Obj().Name(), f) {
			return false
		}
		n++
		v = stripChange(b)
	}
	return false
}

// partOf: v is reached from one of roots by at least one child step (field that is not a validation link, element,
// range element), through type assertions and conversions.
func partOf(v ssa.Value, roots map[ssa.Value]bool, d int) (ok bool, steps int) {
	if d > 12 {
		return false, 0
	}
	v = stripChange(v)
	if roots[v] {
		return true, 0
	}
	switch x := v.(type) {
	case *ssa.UnOp:
		if x.Op != token.MUL {
			return false, 0
		}
		switch ad := x.X.(type) {
		case *ssa.FieldAddr:
			nm, f, b, _ := fieldOf(ad)
			if nm != nil && isLinkField(nm.Obj().Name(), f) {
				return false, 0
			}
			ok, n := partOf(b, roots, d+1)
			return ok, n + 1
		case *ssa.IndexAddr:
			ok, n := partOf(ad.X, roots, d+1)
			return ok, n + 1
		}
	case *ssa.Field:
		nm, f, b, _ := fieldOf(x)
		if nm != nil && isLinkField(nm.Obj().Name(), f) {
			return false, 0
		}
		ok, n := partOf(b, roots, d+1)
		return ok, n + 1
	case *ssa.Extract:
		if nx, isN := x.Tuple.(*ssa.Next); isN {
			if rg, isR := nx.Iter.(*ssa.Range); isR {
				if _, isMap := rg.X.Type().Underlying().(*types.Map); isMap {
					return false, 0
				}
				ok, n := partOf(rg.X, roots, d+1)
				return ok, n + 1
			}
		}
		if ta, isT := x.Tuple.(*ssa.TypeAssert); isT {
			return partOf(ta.X, roots, d+1)
		}
	case *ssa.TypeAssert:
		return partOf(x.X, roots, d+1)
	case *ssa.MakeInterface:
		return partOf(x.X, roots, d+1)
	case *ssa.Slice:
		return partOf(x.X, roots, d+1)
	case *ssa.Phi:
		// all edges parts (e.g. the two arms of a type switch)
		min := -1
		for _, e := range x.Edges {
			ok, n := partOf(e, roots, d+1)
			if !ok {
				return false, 0
			}
			if min < 0 || n < min {
				min = n
			}
		}
		return min >= 0, min
	}
	return false, 0
}

// worklist recognises `for len(q) != 0 { x := q[i]; q = q[:len-1] | q[1:]; ...; q = append(q, parts of x...) }`.
func worklist(bo *ssa.BinOp, stay bool, h *ssa.BasicBlock, body map[*ssa.BasicBlock]bool) (kind, why string, ok bool) {
	// condition: len(q) OP 0
	var lenCall *ssa.Call
	for _, o := range []ssa.Value{bo.X, bo.Y} {
		if cl, isC := stripChange(o).(*ssa.Call); isC {
			if b, isB := cl.Call.Value.(*ssa.Builtin); isB && b.Name() == "len" {
				lenCall = cl
			}
		}
	}
	if lenCall == nil {
		return "", "", false
	}
	q, isPhi := stripChange(lenCall.Call.Args[0]).(*ssa.Phi)
	if !isPhi || q.Block() != h {
		return "", "", false
	}
	if _, isSlice := q.Type().Underlying().(*types.Slice); !isSlice {
		return "", "", false
	}
	// versions of the list inside the loop: q, slices of versions, appends to versions, phis of versions
	// (greatest fixpoint: start from every candidate, drop those with a foreign input)
	versions := map[ssa.Value]bool{q: true}
	base := map[ssa.Value][]ssa.Value{}
	for b := range body {
		for _, in := range b.Instrs {
			switch x := in.(type) {
			case *ssa.Slice:
				if types.Identical(x.Type(), q.Type()) {
					versions[x] = true
					base[x] = []ssa.Value{x.X}
				}
			case *ssa.Call:
				if bi, isB := x.Call.Value.(*ssa.Builtin); isB && bi.Name() == "append" && types.Identical(x.Type(), q.Type()) {
					versions[x] = true
					base[x] = []ssa.Value{x.Call.Args[0]}
				}
			case *ssa.Phi:
				if x != q && types.Identical(x.Type(), q.Type()) {
					versions[x] = true
					base[x] = x.Edges
				}
			}
		}
	}
	for changed := true; changed; {
		changed = false
		for v, bs := range base {
			if !versions[v] {
				continue
			}
			for _, b := range bs {
				if !versions[stripChange(b)] {
					delete(versions, v)
					changed = true
					break
				}
			}
		}
	}
	var pops []*ssa.Slice
	type pushT struct {
		call *ssa.Call
		arg  ssa.Value
	}
	var pushes []pushT
	for v := range versions {
		switch x := v.(type) {
		case *ssa.Slice:
			pops = append(pops, x)
		case *ssa.Call:
			pushes = append(pushes, pushT{x, x.Call.Args[1]})
		}
	}
	sort.Slice(pushes, func(i, j int) bool { return pushes[i].call.Pos() < pushes[j].call.Pos() })
	// every back edge value of q is a version
	for i, e := range q.Edges {
		if body[h.Preds[i]] && !versions[stripChange(e)] {
			return "", "the work list is replaced inside the loop by a value that is not derived from it", false
		}
	}
	// a pop dominates every back edge: a Slice of a version that drops exactly one element
	popped := false
	for _, s := range pops {
		if !dropsOne(s) {
			continue
		}
		dom := true
		for _, pr := range h.Preds {
			if body[pr] && !s.Block().Dominates(pr) {
				dom = false
			}
		}
		if dom {
			popped = true
		}
	}
	if !popped {
		return "", "no element is removed from the work list on every iteration", false
	}
	// the popped element(s): loads q[i] of versions
	roots := map[ssa.Value]bool{}
	for b := range body {
		for _, in := range b.Instrs {
			if u, isU := in.(*ssa.UnOp); isU && u.Op == token.MUL {
				if ia, isIA := u.X.(*ssa.IndexAddr); isIA && versions[stripChange(ia.X)] {
					roots[u] = true
				}
			}
		}
	}
	// pushes: parts of the popped element, or gated
	for _, pu := range pushes {
		elems := variadicElems(pu.arg)
		if elems == nil {
			elems = []ssa.Value{pu.arg}
		}
		for _, e := range elems {
			if okp, n := partOf(e, roots, 0); okp && n > 0 {
				continue
			}
			if loopGate(pu.call, e, h, body) {
				continue
			}
			return "bad-worklist", "a value pushed onto the work list is not a strict part (child field, element) of the element just taken off, and no visited-set test gates the push: a cyclic reference (types implementing each other, fragments spreading each other) keeps the list non-empty for ever", true
		}
	}
	return "worklist", "one element leaves per iteration; pushed values are strict parts of it (finite tree) or pass a visited-set gate", true
}

// dropsOne: q[1:], q[:len(q)-1]
func dropsOne(s *ssa.Slice) bool {
	if s.Low != nil && s.High == nil {
		if k, ok := constNum(s.Low); ok && k >= 1 {
			return true
		}
	}
	if s.High != nil && s.Low == nil {
		if bo, ok := stripChange(s.High).(*ssa.BinOp); ok && bo.Op == token.SUB {
			if k, ok := constNum(bo.Y); ok && k >= 1 {
				if cl, isC := stripChange(bo.X).(*ssa.Call); isC {
					if b, isB := cl.Call.Value.(*ssa.Builtin); isB && b.Name() == "len" && stripChange(cl.Call.Args[0]) == stripChange(s.X) {
						return true
					}
				}
			}
		}
	}
	return false
}

// variadicElems: the elements stored into the implicit array of a variadic call argument.
func variadicElems(arg ssa.Value) []ssa.Value {
	sl, ok := arg.(*ssa.Slice)
	if !ok {
		return nil
	}
	al, ok := sl.X.(*ssa.Alloc)
	if !ok {
		return nil
	}
	var out []ssa.Value
	for _, ref := range *al.Referrers() {
		if ia, ok := ref.(*ssa.IndexAddr); ok {
			for _, r2 := range *ia.Referrers() {
				if st, ok := r2.(*ssa.Store); ok && st.Addr == ia {
					out = append(out, st.Val)
				}
			}
		}
	}
	return out
}

// loopGate: the push is dominated by an insertion of the pushed value (or of a value with the same access path) into
// a map, the insertion by a lookup of the same map, the lookup's "present" side reaches the loop header without the
// insertion, and nothing is deleted from that map inside the loop.
func loopGate(push ssa.Instruction, elem ssa.Value, h *ssa.BasicBlock, body map[*ssa.BasicBlock]bool) bool {
	fn := push.Parent()
	ok := false
	allInstrs(fn, func(in ssa.Instruction) {
		mu, isMU := in.(*ssa.MapUpdate)
		if ok || !isMU || !body[mu.Block()] || !dominatesInstr(mu, push) {
			return
		}
		if stripChange(mu.Key) != stripChange(elem) && accessPath(mu.Key) != accessPath(elem) {
			return
		}
		key := accessPath(mu.Map)
		var test ssa.Instruction
		allInstrs(fn, func(x ssa.Instruction) {
			if lk, isL := x.(*ssa.Lookup); isL && test == nil && accessPath(lk.X) == key && dominatesInstr(x, mu) && body[lk.Block()] &&
				(stripChange(lk.Index) == stripChange(mu.Key) || accessPath(lk.Index) == accessPath(mu.Key)) {
				test = x
			}
		})
		if test == nil {
			return
		}
		deleted := false
		allInstrs(fn, func(x ssa.Instruction) {
			if cl, isC := x.(ssa.CallInstruction); isC && body[x.Block()] {
				if b, isB := cl.Common().Value.(*ssa.Builtin); isB && b.Name() == "delete" && accessPath(cl.Common().Args[0]) == key {
					deleted = true
				}
			}
		})
		if deleted {
			return
		}
		ok = true
	})
	return ok
}

// cellCursor: the tested value is reached by child steps from a load of a field cell, and inside the loop that cell is
// only ever assigned a child of its own current value, on every iteration.
func cellCursor(tested ssa.Value, h *ssa.BasicBlock, body map[*ssa.BasicBlock]bool) (string, bool) {
	// walk down the child steps to the cell load
	v := stripChange(tested)
	steps := 0
	var cell *ssa.FieldAddr
	for d := 0; d < 6 && cell == nil; d++ {
		u, ok := v.(*ssa.UnOp)
		if !ok || u.Op != token.MUL {
			return "", false
		}
		fa, ok := u.X.(*ssa.FieldAddr)
		if !ok {
			return "", false
		}
		nm, f, b, _ := fieldOf(fa)
		if nm != nil && isLinkField(nm.Obj().Name(), f) && steps == 0 && false {
			return "", false
		}
		// is the base itself a load of a field cell (x.t)? then fa is a child step of that cell
		if bu, ok := stripChange(b).(*ssa.UnOp); ok && bu.Op == token.MUL {
			if bfa, ok := bu.X.(*ssa.FieldAddr); ok {
				steps++
				// candidate cell: bfa — accept when the loop stores to the same path
				cell = bfa
				_ = f
				break
			}
		}
		steps++
		v = stripChange(b)
	}
	if cell == nil || steps == 0 {
		return "", false
	}
	cellPath := accessPath(cell)
	_, cellField, _, _ := fieldOf(cell)
	var stores []*ssa.Store
	okAll := true
	for b := range body {
		for _, in := range b.Instrs {
			st, ok := in.(*ssa.Store)
			if !ok {
				continue
			}
			fa, ok := st.Addr.(*ssa.FieldAddr)
			if !ok {
				continue
			}
			if _, f, _, _ := fieldOf(fa); f != cellField || accessPath(fa) != cellPath {
				continue
			}
			stores = append(stores, st)
			// the stored value: a child of a load of the same cell
			val := stripChange(st.Val)
			n := 0
			good := false
			for d := 0; d < 6; d++ {
				u, ok := val.(*ssa.UnOp)
				if !ok || u.Op != token.MUL {
					break
				}
				fa2, ok := u.X.(*ssa.FieldAddr)
				if !ok {
					break
				}
				if accessPath(fa2) == cellPath && n > 0 {
					good = true
					break
				}
				_, _, b2, _ := fieldOf(fa2)
				n++
				val = stripChange(b2)
			}
			if !good {
				okAll = false
			}
		}
	}
	if !okAll || len(stores) == 0 {
		return "", false
	}
	for _, pr := range h.Preds {
		if !body[pr] {
			continue
		}
		dom := false
		for _, st := range stores {
			if st.Block().Dominates(pr) {
				dom = true
			}
		}
		if !dom {
			return "", false
		}
	}
	return "the cursor cell " + cellPath + " is assigned a child of itself on every iteration and the loop stops at nil", true
}

var fieldStoreMemo = map[string]bool{}

// fieldStoredBy: the instruction stores to field f of struct n, or calls a module function that (transitively,
// through static callees) does.
func fieldStoredBy(in ssa.Instruction, n *types.Named, f string, depth int) bool {
	switch x := in.(type) {
	case *ssa.Store:
		if fa, ok := x.Addr.(*ssa.FieldAddr); ok {
			if n2, f2, _, ok := fieldOf(fa); ok && n2 == n && f2 == f {
				return true
			}
		}
	case ssa.CallInstruction:
		g := x.Common().StaticCallee()
		if g == nil || len(g.Blocks) == 0 || g.Pkg == nil || !strings.HasPrefix(g.Pkg.Pkg.Path(), modPath) || depth > 4 {
			return false
		}
		key := g.String() + "|" + n.Obj().Name() + "." + f
		if v, ok := fieldStoreMemo[key]; ok {
			return v
		}
		fieldStoreMemo[key] = false
		res := false
		allInstrs(g, func(y ssa.Instruction) {
			if !res && fieldStoredBy(y, n, f, depth+1) {
				res = true
			}
		})
		fieldStoreMemo[key] = res
		return res
	}
	return false
}
