package main

import (
	"go/token"
	"go/types"
	"sort"

	"golang.org/x/tools/go/ssa"
)

// c08FastPath (C08.R9 / C09.R9): no report of a validation rule is hidden behind the emptiness of an unrelated list.
//
// Instances are the loops of the rule functions (package validator/rules, closures included) whose body can hand an
// error to the AddErrFunc. For each such loop over a list M, every branch that (i) tests another list L for emptiness
// (len(L) == 0, len(L) > 0, L == nil, ... in either polarity), (ii) dominates the loop with its non-empty side and
// (iii) reports nothing on its empty side is a fast path: it claims that with L empty the loop has nothing to say.
// The claim is checked on the loop body: a report that can be reached from the loop header without entering a loop
// over L and without taking the found side of a search in L (a call that receives L and answers non-nil / true) would
// also be made with L empty, so the fast path drops it. ("Unknown argument" for a field that declares no arguments is
// the example: the declared list is empty, the supplied one is not.) A test of the looped list itself, a test whose
// empty side reports on its own, and a conjunction of tests (neither side then dominates) are not instances.
func c08FastPath(c *Ctx, r *RuleResult) {
	p := c.P
	fns := p.FuncsIn("validator/rules")
	if len(fns) == 0 {
		r.AnchorLost("package validator/rules")
		return
	}
	for _, fn := range fns {
		if fn.Blocks == nil {
			continue
		}
		reports := reportSites(fn)
		if len(reports) == 0 {
			continue
		}
		headers, body := loopsOf(fn)
		tests := emptinessTests(fn)
		for _, h := range headers {
			m := rangedValue(h)
			if m == nil {
				continue
			}
			var inLoop []ssa.Instruction
			for _, e := range reports {
				if body[h][e.Block()] {
					inLoop = append(inLoop, e)
				}
			}
			if len(inLoop) == 0 {
				continue
			}
			mp := accessPath(m)
			inst := p.FuncName(fn) + ": reporting loop over " + describeList(m)
			bad := false
			for _, t := range tests {
				if t.path == mp || !t.nonEmpty.Dominates(h) || body[h][t.blk] {
					continue
				}
				// the empty side says something itself: not a shortcut
				if sideReports(t.empty, t.nonEmpty, reports) {
					continue
				}
				if e := reportWithout(h, body[h], inLoop, t, headers, body); e != nil {
					bad = true
					r.Fail(t.pos, p.FuncName(fn), "emptiness of "+t.desc+" bypasses the reporting loop over "+describeList(m),
						"with "+t.desc+" empty the loop over "+describeList(m)+" would still reach the report at "+p.Pos(e.Pos())+
							" (no loop over "+t.desc+" and no successful search in it lies on the way), so the shortcut drops an error")
				}
			}
			if !bad {
				r.OK(inst, "no emptiness test of another list cuts it off, or every report in it needs that list non-empty")
			}
		}
	}
}

type emptyTest struct {
	blk, empty, nonEmpty *ssa.BasicBlock
	list                 ssa.Value
	path, desc           string
	pos                  token.Pos
}

// emptinessTests: the If instructions of fn that decide on the emptiness of a slice or map, with their two sides.
func emptinessTests(fn *ssa.Function) []emptyTest {
	var out []emptyTest
	for _, b := range fn.Blocks {
		if len(b.Instrs) == 0 {
			continue
		}
		ifi, ok := b.Instrs[len(b.Instrs)-1].(*ssa.If)
		if !ok {
			continue
		}
		cond := ifi.Cond
		neg := false
		for {
			if u, ok := cond.(*ssa.UnOp); ok && u.Op == token.NOT {
				cond = u.X
				neg = !neg
				continue
			}
			break
		}
		bo, ok := cond.(*ssa.BinOp)
		if !ok {
			continue
		}
		list, emptyWhenTrue, ok := emptinessOf(bo)
		if !ok {
			continue
		}
		if neg {
			emptyWhenTrue = !emptyWhenTrue
		}
		t := emptyTest{blk: b, list: list, path: accessPath(list), desc: describeList(list), pos: ifi.Pos()}
		if t.pos == token.NoPos {
			t.pos = bo.Pos()
		}
		if emptyWhenTrue {
			t.empty, t.nonEmpty = b.Succs[0], b.Succs[1]
		} else {
			t.empty, t.nonEmpty = b.Succs[1], b.Succs[0]
		}
		if len(t.nonEmpty.Preds) != 1 {
			continue
		}
		out = append(out, t)
	}
	return out
}

func isListType(t types.Type) bool {
	switch t.Underlying().(type) {
	case *types.Slice, *types.Map:
		return true
	}
	return false
}

// emptinessOf: bo compares len(X) with 0 / 1 or X with nil; reports X and whether a true outcome means "empty".
func emptinessOf(bo *ssa.BinOp) (ssa.Value, bool, bool) {
	lenArg := func(v ssa.Value) ssa.Value {
		if call, ok := v.(*ssa.Call); ok {
			if b, isB := call.Call.Value.(*ssa.Builtin); isB && b.Name() == "len" && isListType(call.Call.Args[0].Type()) {
				return call.Call.Args[0]
			}
		}
		return nil
	}
	x, y, op := bo.X, bo.Y, bo.Op
	if lenArg(y) != nil || (isNilConst(x) && !isNilConst(y)) {
		x, y = y, x
		switch op {
		case token.LSS:
			op = token.GTR
		case token.GTR:
			op = token.LSS
		case token.LEQ:
			op = token.GEQ
		case token.GEQ:
			op = token.LEQ
		}
	}
	if l := lenArg(x); l != nil {
		k, ok := constInt(y)
		if !ok {
			return nil, false, false
		}
		switch {
		case op == token.EQL && k == 0, op == token.LEQ && k == 0, op == token.LSS && k == 1:
			return l, true, true
		case op == token.NEQ && k == 0, op == token.GTR && k == 0, op == token.GEQ && k == 1:
			return l, false, true
		}
		return nil, false, false
	}
	if isNilConst(y) && isListType(x.Type()) {
		switch op {
		case token.EQL:
			return x, true, true
		case token.NEQ:
			return x, false, true
		}
	}
	return nil, false, false
}

// rangedValue: the slice, map or string a range loop with header h runs over (nil when h is no range loop).
func rangedValue(h *ssa.BasicBlock) ssa.Value {
	if len(h.Instrs) == 0 {
		return nil
	}
	ifi, ok := h.Instrs[len(h.Instrs)-1].(*ssa.If)
	if !ok {
		return nil
	}
	// slices: `i+1 < len(X)`
	if bo, ok := ifi.Cond.(*ssa.BinOp); ok && bo.Op == token.LSS {
		if call, ok := bo.Y.(*ssa.Call); ok {
			if b, isB := call.Call.Value.(*ssa.Builtin); isB && b.Name() == "len" {
				return call.Call.Args[0]
			}
		}
	}
	// maps and strings: `ok = extract (next it) #0`
	if ex, ok := ifi.Cond.(*ssa.Extract); ok {
		if nx, ok := ex.Tuple.(*ssa.Next); ok {
			if rg, ok := nx.Iter.(*ssa.Range); ok {
				return rg.X
			}
		}
	}
	return nil
}

func describeList(v ssa.Value) string {
	s := accessPath(v)
	if len(s) > 2 && s[:2] == "v:" {
		// an SSA register has no stable name: describe it by what produced it
		switch x := unspill(stripChange(v)).(type) {
		case *ssa.Call:
			return "the result of " + calleeName(x)
		case *ssa.Phi:
			return "a local " + x.Type().String()
		}
		return "a " + v.Type().String()
	}
	for _, pre := range []string{"p:", "fv:"} {
		if len(s) > len(pre) && s[:len(pre)] == pre {
			s = s[len(pre):]
		}
	}
	return s
}

// reportSites: the calls in fn that hand an error to the rule's AddErrFunc — a call of a value of that type, or a call
// that passes such a value on to a helper.
func reportSites(fn *ssa.Function) []ssa.Instruction {
	isAddErr := func(t types.Type) bool { return t != nil && typeIs(t, "/validator", "AddErrFunc") }
	var out []ssa.Instruction
	allInstrs(fn, func(in ssa.Instruction) {
		ci, ok := in.(ssa.CallInstruction)
		if !ok {
			return
		}
		com := ci.Common()
		if com.IsInvoke() {
			return
		}
		if isAddErr(com.Value.Type()) {
			out = append(out, in)
			return
		}
		for _, a := range com.Args {
			if isAddErr(a.Type()) {
				out = append(out, in)
				return
			}
		}
	})
	sort.Slice(out, func(i, j int) bool { return out[i].Pos() < out[j].Pos() })
	return out
}

// sideReports: a report is reachable from the empty side before control joins the non-empty side.
func sideReports(empty, nonEmpty *ssa.BasicBlock, reports []ssa.Instruction) bool {
	seen := reachAvoiding(empty, func(b *ssa.BasicBlock) bool { return b == nonEmpty }, nil)
	for _, e := range reports {
		if seen[e.Block()] {
			return true
		}
	}
	return false
}

// reportWithout: a report of the loop that is reachable from the loop header although every edge that needs the tested
// list non-empty is closed.
func reportWithout(h *ssa.BasicBlock, in map[*ssa.BasicBlock]bool, reports []ssa.Instruction, t emptyTest, headers []*ssa.BasicBlock, body map[*ssa.BasicBlock]map[*ssa.BasicBlock]bool) ssa.Instruction {
	needs := func(from, to *ssa.BasicBlock) bool {
		if !in[to] {
			return true
		}
		if len(from.Instrs) == 0 {
			return false
		}
		ifi, ok := from.Instrs[len(from.Instrs)-1].(*ssa.If)
		if !ok {
			return false
		}
		// entering the body of a loop over the tested list
		if m := rangedValue(from); m != nil && accessPath(m) == t.path && body[from] != nil && to == from.Succs[0] {
			return true
		}
		// the found side of a search in the tested list
		cd := normCond(Cond{V: ifi.Cond, True: to == from.Succs[0]})
		return foundIn(cd, t.path, 0)
	}
	seen := reachAvoiding(h, nil, needs)
	for _, e := range reports {
		if seen[e.Block()] {
			return e
		}
	}
	return nil
}

// foundIn: the condition holds only if a call that received the list answered non-nil / true / a non-negative index.
func foundIn(cd Cond, path string, depth int) bool {
	if depth > 4 {
		return false
	}
	v := cd.V
	if bo, ok := v.(*ssa.BinOp); ok {
		x, y := bo.X, bo.Y
		if isNilConst(x) {
			x, y = y, x
		}
		if isNilConst(y) {
			nonNil := (bo.Op == token.NEQ) == cd.True
			return nonNil && searchOf(x, path, depth)
		}
		if k, ok := constInt(y); ok && searchOf(x, path, depth) {
			switch {
			case bo.Op == token.GEQ && k == 0 && cd.True, bo.Op == token.LSS && k == 0 && !cd.True,
				bo.Op == token.GTR && k == -1 && cd.True, bo.Op == token.NEQ && k == -1 && cd.True, bo.Op == token.EQL && k == -1 && !cd.True:
				return true
			}
		}
		return false
	}
	if cd.True && searchOf(v, path, depth) {
		return true
	}
	return false
}

// searchOf: v is the result (or one of the results, or a phi / load of results) of a call that takes the list.
func searchOf(v ssa.Value, path string, depth int) bool {
	if depth > 4 {
		return false
	}
	v = unspill(stripChange(v))
	switch x := v.(type) {
	case *ssa.Call:
		for _, a := range x.Call.Args {
			if accessPath(a) == path {
				return true
			}
		}
		if !x.Call.IsInvoke() && accessPath(x.Call.Value) == path {
			return true
		}
	case *ssa.Extract:
		return searchOf(x.Tuple, path, depth+1)
	case *ssa.Lookup:
		return accessPath(x.X) == path
	case *ssa.UnOp:
		if x.Op == token.MUL {
			if fa, ok := x.X.(*ssa.FieldAddr); ok {
				return searchOf(fa.X, path, depth+1)
			}
		}
	case *ssa.Phi:
		for _, e := range x.Edges {
			if c, ok := e.(*ssa.Const); ok && (c.IsNil() || c.Value != nil) {
				// the "not found" initial value of a search written as a loop does not help: give up on phis with
				// anything but search results and nil / false constants
				if c.IsNil() {
					continue
				}
				if k, ok := constInt(c); ok && k <= 0 {
					continue
				}
				if c.Value != nil && c.Value.String() == "false" {
					continue
				}
				return false
			}
			if !searchOf(e, path, depth+1) {
				return false
			}
		}
		return true
	}
	return false
}

// c09MissingLinkReported (C09.R10 / C08.R10): a rule that reports a missing link reports it on every path.
//
// Instances are the branches of the rule functions that establish `<node>.<link> == nil` for one of the link fields
// the walker writes and whose nil side (the blocks it dominates) contains a report: the rule is then the one that
// rejects documents the walker could not link there. Every path from the nil side to a return (or out of the region
// the nil side dominates) must pass a report; a path that leaves silently — an exemption added behind the nil test —
// lets a document through validation with that link unset.
func c09MissingLinkReported(c *Ctx, r *RuleResult) {
	p := c.P
	fns := p.FuncsIn("validator/rules")
	if len(fns) == 0 {
		r.AnchorLost("package validator/rules")
		return
	}
	isLink := map[annot]bool{}
	for _, a := range wantAnnotations {
		isLink[a] = true
	}
	for _, fn := range fns {
		if fn.Blocks == nil {
			continue
		}
		reports := reportSites(fn)
		if len(reports) == 0 {
			continue
		}
		reportBlock := map[*ssa.BasicBlock]bool{}
		for _, e := range reports {
			reportBlock[e.Block()] = true
		}
		for _, b := range fn.Blocks {
			if len(b.Instrs) == 0 {
				continue
			}
			ifi, ok := b.Instrs[len(b.Instrs)-1].(*ssa.If)
			if !ok {
				continue
			}
			cd := normCond(Cond{V: ifi.Cond, True: true})
			bo, ok := cd.V.(*ssa.BinOp)
			if !ok || (bo.Op != token.EQL && bo.Op != token.NEQ) {
				continue
			}
			x, y := bo.X, bo.Y
			if isNilConst(x) {
				x, y = y, x
			}
			if !isNilConst(y) {
				continue
			}
			st, fld, ok := fieldLoadOf(x)
			if !ok || !isLink[annot{st, fld}] {
				continue
			}
			nilWhenTrue := (bo.Op == token.EQL) == cd.True
			s := b.Succs[1]
			if nilWhenTrue {
				s = b.Succs[0]
			}
			if !soleForwardPred(s, b) {
				continue
			}
			// reports that are made only with the link nil
			any := false
			for rb := range reportBlock {
				if s.Dominates(rb) {
					any = true
				}
			}
			if !any {
				continue
			}
			inst := p.FuncName(fn) + ": " + st + "." + fld + " == nil"
			seen := reachAvoiding(s, func(x *ssa.BasicBlock) bool { return reportBlock[x] }, nil)
			var leak *ssa.BasicBlock
			for _, x := range fn.Blocks {
				if !seen[x] || reportBlock[x] {
					continue
				}
				if !s.Dominates(x) {
					leak = x
					break
				}
				if len(x.Instrs) > 0 {
					if _, isRet := x.Instrs[len(x.Instrs)-1].(*ssa.Return); isRet {
						leak = x
						break
					}
				}
			}
			if leak != nil {
				pos := ifi.Pos()
				if pos == token.NoPos {
					pos = bo.Pos()
				}
				r.Fail(pos, p.FuncName(fn), "a path leaves without a report after "+st+"."+fld+" == nil",
					"the rule reports a missing "+st+"."+fld+" on some paths, but control can leave the nil side (block "+leak.String()+") without passing a report: a document whose "+fld+" link is unset can pass this rule")
				continue
			}
			r.OK(inst, "every path from the nil side to a return passes a report")
		}
	}
}
