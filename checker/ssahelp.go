package main

import (
	"go/constant"
	"go/token"
	"go/types"
	"sort"
	"strings"

	"golang.org/x/tools/go/ssa"
)

// Cond is one atomic branch fact known to hold at a block.
type Cond struct {
	V    ssa.Value // the boolean condition of the If
	True bool      // taken branch
	At   *ssa.BasicBlock
}

// condsAt returns the branch conditions that hold on every path to block b
// (edge dominance: b is dominated by a successor of the If that has the If's
// block as its only predecessor). Negations are unfolded.
func condsAt(b *ssa.BasicBlock) []Cond {
	var out []Cond
	for d := b.Idom(); d != nil; d = d.Idom() {
		if len(d.Instrs) == 0 {
			continue
		}
		ifi, ok := d.Instrs[len(d.Instrs)-1].(*ssa.If)
		if !ok {
			continue
		}
		s0, s1 := d.Succs[0], d.Succs[1]
		if s0 == s1 {
			continue
		}
		switch {
		case soleForwardPred(s0, d) && s0.Dominates(b):
			out = append(out, normCond(Cond{ifi.Cond, true, d}))
		case soleForwardPred(s1, d) && s1.Dominates(b):
			out = append(out, normCond(Cond{ifi.Cond, false, d}))
		}
	}
	return out
}

// soleForwardPred: every predecessor of s other than d is dominated by s (a back edge into s),
// so every first entry into s comes through the edge d->s.
func soleForwardPred(s, d *ssa.BasicBlock) bool {
	n := 0
	for _, p := range s.Preds {
		if p == d {
			n++
			continue
		}
		if !s.Dominates(p) {
			return false
		}
	}
	return n == 1
}

func normCond(c Cond) Cond {
	for {
		u, ok := c.V.(*ssa.UnOp)
		if !ok || u.Op != token.NOT {
			return c
		}
		c.V = u.X
		c.True = !c.True
	}
}

// staticCallee returns the statically known callee of a call, looking through
// closures bound at the call site.
func staticCallee(c ssa.CallInstruction) *ssa.Function {
	return c.Common().StaticCallee()
}

// calleeName returns "pkgpath.Func" or "(pkgpath.T).Method" for static and interface calls, "" if dynamic.
func calleeName(c ssa.CallInstruction) string {
	cc := c.Common()
	if cc.IsInvoke() {
		return "(" + types.TypeString(cc.Value.Type(), nil) + ")." + cc.Method.Name()
	}
	if f := cc.StaticCallee(); f != nil {
		if f.Object() != nil {
			return f.Object().(*types.Func).FullName()
		}
		return f.String()
	}
	if b, ok := cc.Value.(*ssa.Builtin); ok {
		return "builtin." + b.Name()
	}
	return ""
}

func constString(v ssa.Value) (string, bool) {
	c, ok := v.(*ssa.Const)
	if !ok || c.Value == nil || c.Value.Kind() != constant.String {
		return "", false
	}
	return constant.StringVal(c.Value), true
}

func constInt(v ssa.Value) (int64, bool) {
	c, ok := v.(*ssa.Const)
	if !ok || c.Value == nil {
		return 0, false
	}
	if c.Value.Kind() != constant.Int {
		return 0, false
	}
	i, ok := constant.Int64Val(c.Value)
	return i, ok
}

func isNilConst(v ssa.Value) bool {
	c, ok := v.(*ssa.Const)
	return ok && c.Value == nil
}

// stripConv removes ChangeType / Convert / MakeInterface / ChangeInterface wrappers.
func stripConv(v ssa.Value) ssa.Value {
	for {
		switch x := v.(type) {
		case *ssa.ChangeType:
			v = x.X
		case *ssa.Convert:
			v = x.X
		case *ssa.MakeInterface:
			v = x.X
		case *ssa.ChangeInterface:
			v = x.X
		default:
			return v
		}
	}
}

// namedOf returns the named type behind pointers.
func namedOf(t types.Type) *types.Named {
	for {
		switch x := t.(type) {
		case *types.Pointer:
			t = x.Elem()
		case *types.Named:
			return x
		case *types.Alias:
			t = types.Unalias(x)
		default:
			return nil
		}
	}
}

func typeIs(t types.Type, pkgSuffix, name string) bool {
	n := namedOf(t)
	if n == nil || n.Obj().Pkg() == nil {
		return false
	}
	return n.Obj().Name() == name && strings.HasSuffix(n.Obj().Pkg().Path(), pkgSuffix)
}

// fieldName returns the struct type and field name addressed by a FieldAddr or Field instruction.
func fieldOf(v ssa.Value) (st *types.Named, name string, base ssa.Value, ok bool) {
	switch x := v.(type) {
	case *ssa.FieldAddr:
		t := x.X.Type().Underlying().(*types.Pointer).Elem()
		s := t.Underlying().(*types.Struct)
		return namedOf(t), s.Field(x.Field).Name(), x.X, true
	case *ssa.Field:
		t := x.X.Type()
		s := t.Underlying().(*types.Struct)
		return namedOf(t), s.Field(x.Field).Name(), x.X, true
	}
	return nil, "", nil, false
}

// allInstrs iterates over every instruction of a function.
func allInstrs(fn *ssa.Function, f func(ssa.Instruction)) {
	for _, b := range fn.Blocks {
		for _, in := range b.Instrs {
			f(in)
		}
	}
}

// rootFunc returns the outermost enclosing function.
func rootFunc(fn *ssa.Function) *ssa.Function {
	for fn.Parent() != nil {
		fn = fn.Parent()
	}
	return fn
}

// withClosures returns fn and all functions nested inside it.
func withClosures(fn *ssa.Function) []*ssa.Function {
	out := []*ssa.Function{fn}
	for _, a := range fn.AnonFuncs {
		out = append(out, withClosures(a)...)
	}
	return out
}

// reachableFrom returns the module functions reachable from roots through static calls,
// closures created (MakeClosure / function values referenced) and, for dynamic calls, the
// given call graph (may be nil: then only static edges and referenced functions are followed).
func (p *Program) reachableFrom(roots []*ssa.Function, dyn func(site ssa.CallInstruction) []*ssa.Function) map[*ssa.Function]bool {
	seen := map[*ssa.Function]bool{}
	var work []*ssa.Function
	push := func(f *ssa.Function) {
		if f == nil || seen[f] {
			return
		}
		if len(f.Blocks) == 0 {
			return
		}
		seen[f] = true
		work = append(work, f)
	}
	for _, r := range roots {
		push(r)
	}
	for len(work) > 0 {
		fn := work[len(work)-1]
		work = work[:len(work)-1]
		allInstrs(fn, func(in ssa.Instruction) {
			// any function value referenced is considered reachable (over-approximation)
			for _, op := range in.Operands(nil) {
				if op == nil || *op == nil {
					continue
				}
				switch v := (*op).(type) {
				case *ssa.Function:
					push(v)
				case *ssa.MakeClosure:
					push(v.Fn.(*ssa.Function))
				}
			}
			if c, ok := in.(ssa.CallInstruction); ok {
				if f := c.Common().StaticCallee(); f != nil {
					push(f)
				} else if dyn != nil {
					for _, f := range dyn(c) {
						push(f)
					}
				}
			}
		})
	}
	return seen
}

// inModule reports whether fn's source is in the analysed module.
func (p *Program) inModule(fn *ssa.Function) bool {
	r := rootFunc(fn)
	return r.Pkg != nil && strings.HasPrefix(r.Pkg.Pkg.Path(), modPath)
}

// vtaCallees gives the dynamic-call resolver based on the VTA call graph.
func (p *Program) vtaCallees() func(site ssa.CallInstruction) []*ssa.Function {
	g := p.VTA()
	return func(site ssa.CallInstruction) []*ssa.Function {
		n := g.Nodes[site.Parent()]
		if n == nil {
			return nil
		}
		var out []*ssa.Function
		for _, e := range n.Out {
			if e.Site == site {
				out = append(out, e.Callee.Func)
			}
		}
		return out
	}
}

func sortStrings(s []string) { sort.Strings(s) }

// inModulePkgPath: the named type is declared in the module under analysis.
func (p *Program) inModulePkgPath(n *types.Named) bool {
	return n != nil && n.Obj().Pkg() != nil && strings.HasPrefix(n.Obj().Pkg().Path(), modPath)
}
