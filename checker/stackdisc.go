package main

import (
	"fmt"
	"go/token"
	"go/types"

	"golang.org/x/tools/go/ssa"
)

// Push/pop discipline of a slice kept in a cell (a struct field, or a local variable captured by closures).
//
// The numeric domain forgets the length of such a slice at every call that may write it, so `x = x[:len(x)-1]` after a
// recursive call cannot be bounded numerically. What the code relies on is structural: the cell is only ever pushed to
// (x = append(x, e)), popped (x = x[:len(x)-1]) or restored to a value saved earlier, and every function that writes it
// leaves it as it found it. The analysis below computes, per function and cell, the height of the stack relative to the
// function's entry along every path (an integer, or unknown after a merge of different heights), treats calls of
// functions that are themselves balanced — or that restore a saved value on every exit — as neutral (recursion is
// assumed balanced while it is being checked: the proof is by induction on the call depth), and answers two questions:
// is the height at a pop site at least one, and is a function balanced.

type stackCell struct {
	alloc *ssa.Alloc // a local variable (captured by closures)
	st    string     // or: struct type name
	fld   string     // and field name
}

func (c stackCell) String() string {
	if c.alloc != nil {
		return c.alloc.Comment
	}
	return c.st + "." + c.fld
}

// resolveFreeVar follows a free variable to the Alloc it is bound to.
func resolveFreeVar(fv *ssa.FreeVar) *ssa.Alloc {
	fn := fv.Parent()
	par := fn.Parent()
	if par == nil {
		return nil
	}
	idx := -1
	for i, f := range fn.FreeVars {
		if f == fv {
			idx = i
		}
	}
	var out *ssa.Alloc
	allInstrs(par, func(in ssa.Instruction) {
		mc, ok := in.(*ssa.MakeClosure)
		if !ok || mc.Fn != ssa.Value(fn) || idx < 0 || idx >= len(mc.Bindings) {
			return
		}
		switch b := mc.Bindings[idx].(type) {
		case *ssa.Alloc:
			out = b
		case *ssa.FreeVar:
			out = resolveFreeVar(b)
		}
	})
	return out
}

// cellOfAddr: the cell an address denotes.
func cellOfAddr(addr ssa.Value) (stackCell, bool) {
	switch x := addr.(type) {
	case *ssa.FieldAddr:
		if n, f, _, _ := fieldOf(x); n != nil {
			return stackCell{st: n.Obj().Name(), fld: f}, true
		}
	case *ssa.Alloc:
		if x.Heap {
			return stackCell{alloc: x}, true
		}
	case *ssa.FreeVar:
		if a := resolveFreeVar(x); a != nil {
			return stackCell{alloc: a}, true
		}
	}
	return stackCell{}, false
}

// cellOfLoad: v is a load of a cell.
func cellOfLoad(v ssa.Value) (stackCell, bool) {
	u, ok := stripChange(v).(*ssa.UnOp)
	if !ok || u.Op != token.MUL {
		return stackCell{}, false
	}
	return cellOfAddr(u.X)
}

type stackDisc struct {
	p          *Program
	dyn        func(site ssa.CallInstruction) []*ssa.Function
	balMemo    map[string]int // 0 unknown, 1 in progress / true, 2 false
	writers    map[string]map[*ssa.Function]bool
	calleeMemo map[ssa.CallInstruction][]*ssa.Function
}

func newStackDisc(p *Program) *stackDisc {
	return &stackDisc{p: p, dyn: p.vtaCallees(), balMemo: map[string]int{}, writers: map[string]map[*ssa.Function]bool{}, calleeMemo: map[ssa.CallInstruction][]*ssa.Function{}}
}

func (s *stackDisc) key(fn *ssa.Function, c stackCell) string {
	return fmt.Sprintf("%p|%p|%s.%s", fn, c.alloc, c.st, c.fld)
}

func (s *stackDisc) callees(ci ssa.CallInstruction) []*ssa.Function {
	cc := ci.Common()
	if g := cc.StaticCallee(); g != nil {
		return []*ssa.Function{g}
	}
	if fs, ok := funcChoice(cc.Value, 0); ok && len(fs) > 0 {
		return fs
	}
	// a closure held in a local variable (`var rec func(); rec = func(){...}`)
	if u, ok := cc.Value.(*ssa.UnOp); ok && u.Op == token.MUL {
		var cell *ssa.Alloc
		switch a := u.X.(type) {
		case *ssa.Alloc:
			cell = a
		case *ssa.FreeVar:
			cell = resolveFreeVar(a)
		}
		if cell != nil {
			var out []*ssa.Function
			okAll := true
			for _, f := range withClosures(rootFunc(cell.Parent())) {
				allInstrs(f, func(in ssa.Instruction) {
					st, isSt := in.(*ssa.Store)
					if !isSt {
						return
					}
					var tgt *ssa.Alloc
					switch a := st.Addr.(type) {
					case *ssa.Alloc:
						tgt = a
					case *ssa.FreeVar:
						tgt = resolveFreeVar(a)
					}
					if tgt != cell {
						return
					}
					if fs, ok := funcChoice(st.Val, 0); ok {
						out = append(out, fs...)
					} else if !isNilConst(st.Val) {
						okAll = false
					}
				})
			}
			if okAll && len(out) > 0 {
				return out
			}
		}
	}
	if s.dyn != nil {
		return s.dyn(ci)
	}
	return nil
}

// mayWrite: fn, a closure it creates or anything it calls stores to the cell. Computed once per cell as a backward
// closure over the call relation (direct writers first), so that cycles in the call graph are handled exactly.
func (s *stackDisc) mayWrite(fn *ssa.Function, c stackCell) bool {
	if fn == nil || len(fn.Blocks) == 0 || !s.p.inModule(fn) {
		return false
	}
	ck := fmt.Sprintf("%p|%s.%s", c.alloc, c.st, c.fld)
	w, ok := s.writers[ck]
	if !ok {
		w = map[*ssa.Function]bool{}
		var fns []*ssa.Function
		for _, f := range s.p.Funcs() {
			if s.p.inModule(f) && len(f.Blocks) > 0 {
				fns = append(fns, f)
			}
		}
		for _, f := range fns {
			allInstrs(f, func(in ssa.Instruction) {
				if st, isSt := in.(*ssa.Store); isSt {
					if cc, isCell := cellOfAddr(st.Addr); isCell && cc == c {
						w[f] = true
					}
				}
			})
		}
		for changed := true; changed; {
			changed = false
			for _, f := range fns {
				if w[f] {
					continue
				}
				allInstrs(f, func(in ssa.Instruction) {
					if w[f] {
						return
					}
					switch x := in.(type) {
					case ssa.CallInstruction:
						for _, g := range s.calleesCached(x) {
							if w[g] {
								w[f] = true
								changed = true
								return
							}
						}
					case *ssa.MakeClosure:
						// a closure created here may be called later by someone we do not follow
						if w[x.Fn.(*ssa.Function)] {
							w[f] = true
							changed = true
						}
					}
				})
			}
		}
		s.writers[ck] = w
	}
	return w[fn]
}

func (s *stackDisc) calleesCached(ci ssa.CallInstruction) []*ssa.Function {
	if fs, ok := s.calleeMemo[ci]; ok {
		return fs
	}
	fs := s.callees(ci)
	s.calleeMemo[ci] = fs
	return fs
}

const hUnknown = -1 << 30

// restoringClosure: g's only write to the cell stores back a value that its parent loaded from the cell (`saved := x`
// ... `x = saved`); returns the load in the parent.
func (s *stackDisc) restoringClosure(g *ssa.Function, c stackCell) (ssa.Value, bool) {
	if g == nil || g.Parent() == nil {
		return nil, false
	}
	var saved ssa.Value
	ok := true
	n := 0
	allInstrs(g, func(in ssa.Instruction) {
		switch x := in.(type) {
		case *ssa.Store:
			cc, isCell := cellOfAddr(x.Addr)
			if !isCell || cc != c {
				return
			}
			n++
			// the stored value: *fv where fv is bound to a cell of the parent stored exactly once, with a load of c
			u, isU := stripChange(x.Val).(*ssa.UnOp)
			if !isU || u.Op != token.MUL {
				ok = false
				return
			}
			fv, isFV := u.X.(*ssa.FreeVar)
			if !isFV {
				ok = false
				return
			}
			a := resolveFreeVar(fv)
			if a == nil {
				ok = false
				return
			}
			sts := storesTo(a)
			if len(sts) != 1 {
				ok = false
				return
			}
			if lc, isL := cellOfLoad(sts[0]); !isL || lc != c {
				ok = false
				return
			}
			saved = sts[0]
		case ssa.CallInstruction:
			for _, h := range s.callees(x) {
				if s.mayWrite(h, c) {
					ok = false
				}
			}
		}
	})
	return saved, ok && n > 0
}


// helperEff: what a straight-line helper does to the cell — afterwards the cell holds the value of the helper's
// parameter `param` (or, for param == -1, what it held at entry) with `delta` elements pushed on top.
type helperEff struct{ param, delta int }

// helperEffect summarises single-block functions that set the cell from a parameter and/or append a fixed number of
// elements (`restorePath(saved)`, `enterPath(saved, elem)`), following calls to other such helpers.
func (s *stackDisc) helperEffect(h *ssa.Function, c stackCell, depth int) (helperEff, bool) {
	if h == nil || len(h.Blocks) != 1 || depth > 3 || !s.p.inModule(h) {
		return helperEff{}, false
	}
	type state struct{ base, delta int }
	cur := state{-1, 0}
	loads := map[ssa.Value]state{}
	ok := true
	wrote := false
	for _, ins := range h.Blocks[0].Instrs {
		switch x := ins.(type) {
		case *ssa.UnOp:
			if lc, isL := cellOfLoad(x); isL && lc == c {
				loads[x] = cur
			}
		case *ssa.Store:
			cc, isCell := cellOfAddr(x.Addr)
			if !isCell || cc != c {
				continue
			}
			wrote = true
			v := stripChange(x.Val)
			if prm, isP := v.(*ssa.Parameter); isP {
				cur = state{paramIndex(h, prm), 0}
				continue
			}
			if call, isC := v.(*ssa.Call); isC {
				if b, isB := call.Call.Value.(*ssa.Builtin); isB && b.Name() == "append" && len(call.Call.Args) == 2 {
					if st, known := loads[stripChange(call.Call.Args[0])]; known {
						if n, fixed := constLenOf(call.Call.Args[1]); fixed {
							cur = state{st.base, st.delta + n}
							continue
						}
					}
				}
			}
			ok = false
		case *ssa.Call:
			for _, g := range s.callees(x) {
				if !s.mayWrite(g, c) {
					continue
				}
				eff, okE := s.helperEffect(g, c, depth+1)
				if !okE {
					ok = false
					continue
				}
				wrote = true
				if eff.param < 0 {
					cur = state{cur.base, cur.delta + eff.delta}
					continue
				}
				if eff.param >= len(x.Call.Args) {
					ok = false
					continue
				}
				if prm, isP := stripChange(x.Call.Args[eff.param]).(*ssa.Parameter); isP {
					cur = state{paramIndex(h, prm), eff.delta}
				} else {
					ok = false
				}
			}
		case *ssa.Defer, *ssa.Go, *ssa.MakeClosure:
			ok = false
		}
	}
	if !ok || !wrote {
		return helperEff{}, false
	}
	return helperEff{cur.base, cur.delta}, true
}

type heightResult struct {
	at       map[ssa.Instruction]int // height before the instruction (hUnknown when not known)
	balanced bool                    // every return leaves the cell as the entry found it
	why      string
}

// heights runs the height analysis of fn for the cell.
func (s *stackDisc) heights(fn *ssa.Function, c stackCell) heightResult {
	res := heightResult{at: map[ssa.Instruction]int{}, balanced: true}
	if len(fn.Blocks) == 0 {
		return res
	}
	savedAt := map[ssa.Value]int{} // loads of the cell: the height when they were taken
	in := map[*ssa.BasicBlock]int{}
	seen := map[*ssa.BasicBlock]bool{}
	deferredRestore := hUnknown - 1 // height restored by a deferred closure (none)
	rebased := false
	work := []*ssa.BasicBlock{fn.Blocks[0]}
	in[fn.Blocks[0]] = 0
	seen[fn.Blocks[0]] = true
	fail := func(why string) {
		if res.balanced {
			res.balanced = false
			res.why = why
		}
	}
	rounds := 0
	for len(work) > 0 && rounds < 10000 {
		rounds++
		b := work[0]
		work = work[1:]
		h := in[b]
		for _, ins := range b.Instrs {
			res.at[ins] = h
			switch x := ins.(type) {
			case *ssa.UnOp:
				if lc, ok := cellOfLoad(x); ok && lc == c {
					savedAt[x] = h
				}
			case *ssa.Store:
				cc, ok := cellOfAddr(x.Addr)
				if !ok || cc != c {
					continue
				}
				nh := s.storeEffect(x, c, h, savedAt)
				if nh == hUnknown && !derivesFromCell(x.Val, c, 0) {
					// a fresh value: the stack starts again, at a length of at least zero
					nh = 0
					rebased = true
				}
				h = nh
			case *ssa.Defer:
				for _, g := range s.callees(x) {
					if sv, ok := s.restoringClosure(g, c); ok {
						if sh, known := savedAt[sv]; known {
							deferredRestore = sh
						} else {
							deferredRestore = hUnknown
						}
					} else if eff, okE := s.helperEffect(g, c, 0); okE && eff.param >= 0 && eff.param < len(x.Call.Args) {
						// `defer v.restore(saved)`: the argument is evaluated now
						if sh, known := savedAt[stripChange(x.Call.Args[eff.param])]; known {
							deferredRestore = sh + eff.delta
						} else {
							deferredRestore = hUnknown
						}
					} else if s.mayWrite(g, c) && !s.balancedFn(g, c) {
						deferredRestore = hUnknown
					}
				}
			case *ssa.Go:
				for _, g := range s.callees(x) {
					if s.mayWrite(g, c) {
						h = hUnknown
						fail("a goroutine writes the cell")
					}
				}
			case *ssa.Call:
				for _, g := range s.callees(x) {
					if !s.mayWrite(g, c) {
						continue
					}
					if sv, ok := s.restoringClosure(g, c); ok {
						if sh, known := savedAt[sv]; known {
							h = sh
						} else {
							h = hUnknown
						}
						continue
					}
					if eff, okE := s.helperEffect(g, c, 0); okE {
						switch {
						case eff.param < 0:
							if h != hUnknown {
								h += eff.delta
							}
						case eff.param < len(x.Call.Args):
							if sh, known := savedAt[stripChange(x.Call.Args[eff.param])]; known {
								h = sh + eff.delta
							} else {
								h = hUnknown
							}
						default:
							h = hUnknown
						}
						continue
					}
					if s.balancedFn(g, c) {
						continue
					}
					// the callee leaves the cell changed: the height is not known from here on (a later restore or a
					// deferred one may still bring the function back to balance)
					h = hUnknown
				}
			case *ssa.RunDefers:
				if deferredRestore > hUnknown-1 {
					h = deferredRestore
				}
			case *ssa.Return:
				if rebased {
					fail("the cell is given a fresh value")
				}
				if h != 0 {
					fail(fmt.Sprintf("a return with the stack %s relative to the entry", heightStr(h)))
				}
			}
		}
		for _, sc := range b.Succs {
			if !seen[sc] {
				seen[sc] = true
				in[sc] = h
				work = append(work, sc)
				continue
			}
			if in[sc] != h && in[sc] != hUnknown {
				in[sc] = hUnknown
				work = append(work, sc)
			}
		}
	}
	return res
}

func heightStr(h int) string {
	if h == hUnknown {
		return "at an unknown height"
	}
	return fmt.Sprintf("at height %+d", h)
}

// storeEffect: the height after a store to the cell.
func (s *stackDisc) storeEffect(st *ssa.Store, c stackCell, h int, savedAt map[ssa.Value]int) int {
	v := stripChange(st.Val)
	// a saved value
	if sh, ok := savedAt[v]; ok {
		return sh
	}
	if u, ok := v.(*ssa.UnOp); ok && u.Op == token.MUL {
		// a local spill of a saved value
		if w := unspill(v); w != v {
			if sh, ok := savedAt[w]; ok {
				return sh
			}
		}
	}
	switch x := v.(type) {
	case *ssa.Call:
		if b, ok := x.Call.Value.(*ssa.Builtin); ok && b.Name() == "append" && len(x.Call.Args) == 2 {
			base := x.Call.Args[0]
			bh := hUnknown
			if sh, ok := savedAt[stripChange(base)]; ok {
				bh = sh
			} else if sl, ok := stripChange(base).(*ssa.Slice); ok {
				// append(saved[:n:n], e) is not a push
				_ = sl
			}
			if bh == hUnknown {
				return hUnknown
			}
			if n, ok := constLenOf(x.Call.Args[1]); ok {
				return bh + n
			}
		}
	case *ssa.Slice:
		// x[:len(x)-1] / x[0:len(x)-1]
		sh, ok := savedAt[stripChange(x.X)]
		if !ok {
			return hUnknown
		}
		if x.Low != nil {
			if k, isK := constInt(x.Low); !isK || k != 0 {
				return hUnknown
			}
		}
		if bo, ok := x.High.(*ssa.BinOp); ok && bo.Op == token.SUB {
			if k, isK := constInt(bo.Y); isK {
				if call, isCall := bo.X.(*ssa.Call); isCall {
					if b, isB := call.Call.Value.(*ssa.Builtin); isB && b.Name() == "len" {
						if lc, isL := cellOfLoad(call.Call.Args[0]); isL && lc == c {
							return sh - int(k)
						}
					}
				}
			}
		}
	}
	return hUnknown
}

// constLenOf: the variadic argument of append built from a fixed number of elements.
func constLenOf(v ssa.Value) (int, bool) {
	sl, ok := v.(*ssa.Slice)
	if !ok || sl.Low != nil || sl.High != nil {
		return 0, false
	}
	a, ok := sl.X.(*ssa.Alloc)
	if !ok {
		return 0, false
	}
	pt, ok := a.Type().Underlying().(*types.Pointer)
	if !ok {
		return 0, false
	}
	arr, ok := pt.Elem().Underlying().(*types.Array)
	if !ok {
		return 0, false
	}
	return int(arr.Len()), true
}

// balancedFn: every return of g (and what it calls) leaves the cell as the entry found it. Recursion is assumed
// balanced while it is being decided.
func (s *stackDisc) balancedFn(g *ssa.Function, c stackCell) bool {
	if g == nil || len(g.Blocks) == 0 {
		return true
	}
	k := s.key(g, c)
	switch s.balMemo[k] {
	case 1:
		return true
	case 2:
		return false
	}
	s.balMemo[k] = 1
	r := s.heights(g, c)
	if !r.balanced {
		s.balMemo[k] = 2
	}
	return r.balanced
}

// popSite describes `x[lo : len(x)-k]` on a load of a cell.
type popSite struct {
	cell stackCell
	low  ssa.Value
	k    int64
}

func asPopSite(sl *ssa.Slice) (popSite, bool) {
	c, ok := cellOfLoad(sl.X)
	if !ok {
		return popSite{}, false
	}
	bo, ok := sl.High.(*ssa.BinOp)
	if !ok || bo.Op != token.SUB {
		return popSite{}, false
	}
	k, isK := constInt(bo.Y)
	call, isCall := bo.X.(*ssa.Call)
	if !isK || !isCall {
		return popSite{}, false
	}
	b, isB := call.Call.Value.(*ssa.Builtin)
	if !isB || b.Name() != "len" {
		return popSite{}, false
	}
	if lc, isL := cellOfLoad(call.Call.Args[0]); !isL || lc != c {
		return popSite{}, false
	}
	return popSite{c, sl.Low, k}, true
}

// provePop: at the slice expression the stack is at least k high relative to the function's entry (where its length is
// at least zero), the enclosing function is balanced, and the low bound is absent or zero.
func (s *stackDisc) provePop(sl *ssa.Slice) (string, bool) {
	ps, ok := asPopSite(sl)
	if !ok {
		return "", false
	}
	if ps.low != nil {
		if k, isK := constInt(ps.low); !isK || k != 0 {
			return "", false
		}
	}
	fn := sl.Parent()
	r := s.heights(fn, ps.cell)
	h, known := r.at[sl]
	if !known || h == hUnknown || int64(h) < ps.k {
		return "", false
	}
	if s.selfRecursive(fn) && !s.balancedFn(fn, ps.cell) {
		return "", false
	}
	return fmt.Sprintf("push/pop discipline of %s: at least %d element(s) were pushed since the function's entry on every path to this pop, and every function that writes %s in between leaves it as it found it (recursion by induction on the call depth)", ps.cell, h, ps.cell), true
}

// recordedDepthSlice: `x[d : len(x)-1]` where d was looked up in a map whose every entry is stored as len(x) of the
// same stack, under the found flag of that lookup, at a point where the stack is at least one high.
func (s *stackDisc) recordedDepthSlice(sl *ssa.Slice) (string, bool) {
	ps, ok := asPopSite(sl)
	if !ok || ps.low == nil || ps.k != 1 {
		return "", false
	}
	fn := sl.Parent()
	r := s.heights(fn, ps.cell)
	h, known := r.at[sl]
	if !known || h == hUnknown {
		return "", false
	}
	if mc, ok := s.recordedDepthValue(unspill(ps.low), sl.Block(), ps.cell); ok {
		if h < 1 {
			return "", false
		}
		return fmt.Sprintf("the low bound was recorded in %s as len(%s) when an enclosing frame was entered; entries are pushed and popped in stack order (decided: push/pop discipline), so the recorded depth is at most the current length minus one — assumed: the entry of %s is deleted when its frame is left", mc, ps.cell, mc), true
	}
	// the recorded depth arrives as a parameter (the report moved into a helper that is called after the push): every
	// call site passes a recorded depth and stands at least one push above its own frame's entry
	if prm, isP := unspill(ps.low).(*ssa.Parameter); isP {
		j := paramIndex(fn, prm)
		sites := callSitesOf(s.p, fn)
		if j < 0 || len(sites) == 0 {
			return "", false
		}
		var mcs string
		for _, cs := range sites {
			if j >= len(cs.Common().Args) {
				return "", false
			}
			mc, ok := s.recordedDepthValue(unspill(cs.Common().Args[j]), cs.Block(), ps.cell)
			if !ok {
				return "", false
			}
			rc := s.heights(cs.Parent(), ps.cell)
			hc, known := rc.at[cs]
			if !known || hc == hUnknown || hc+h < 1 {
				return "", false
			}
			mcs = mc.String()
		}
		return fmt.Sprintf("the low bound is a parameter that every caller takes from %s, where it was recorded as len(%s) when an enclosing frame was entered, and every caller has pushed at least one element since; entries are pushed and popped in stack order (decided: push/pop discipline) — assumed: the entry of %s is deleted when its frame is left", mcs, ps.cell, mcs), true
	}
	return "", false
}

// recordedDepthValue: low is the value found (comma-ok, under the found flag at block b) in a map every update of which
// stores len(cell).
func (s *stackDisc) recordedDepthValue(low ssa.Value, b *ssa.BasicBlock, cell stackCell) (stackCell, bool) {
	ex, ok := low.(*ssa.Extract)
	if !ok || ex.Index != 0 {
		return stackCell{}, false
	}
	lk, ok := ex.Tuple.(*ssa.Lookup)
	if !ok || !lk.CommaOk {
		return stackCell{}, false
	}
	mc, ok := cellOfLoad(lk.X)
	if !ok {
		return stackCell{}, false
	}
	// under the found flag
	found := false
	for _, cd := range condsAt(b) {
		if e2, isE := cd.V.(*ssa.Extract); isE && e2.Tuple == ssa.Value(lk) && e2.Index == 1 && cd.True {
			found = true
		}
	}
	if !found {
		return stackCell{}, false
	}
	// every update of the map stores len(stack)
	n, okAll := 0, true
	for _, f := range s.p.Funcs() {
		if !s.p.inModule(f) {
			continue
		}
		allInstrs(f, func(in ssa.Instruction) {
			mu, isMU := in.(*ssa.MapUpdate)
			if !isMU {
				return
			}
			if c2, isC := cellOfLoad(mu.Map); !isC || c2 != mc {
				return
			}
			n++
			call, isCall := mu.Value.(*ssa.Call)
			if !isCall {
				okAll = false
				return
			}
			b, isB := call.Call.Value.(*ssa.Builtin)
			if !isB || b.Name() != "len" {
				okAll = false
				return
			}
			if lc, isL := cellOfLoad(call.Call.Args[0]); !isL || lc != cell {
				okAll = false
			}
		})
	}
	if n == 0 || !okAll {
		return stackCell{}, false
	}
	return mc, true
}

// derivesFromCell: v is computed from a load of the cell (a slice of it, an append to it).
func derivesFromCell(v ssa.Value, c stackCell, depth int) bool {
	if depth > 6 {
		return true
	}
	v = stripChange(v)
	if lc, ok := cellOfLoad(v); ok && lc == c {
		return true
	}
	switch x := v.(type) {
	case *ssa.Slice:
		return derivesFromCell(x.X, c, depth+1)
	case *ssa.Call:
		if b, ok := x.Call.Value.(*ssa.Builtin); ok && b.Name() == "append" {
			return derivesFromCell(x.Call.Args[0], c, depth+1)
		}
		return false
	case *ssa.Phi:
		for _, e := range x.Edges {
			if derivesFromCell(e, c, depth+1) {
				return true
			}
		}
		return false
	case *ssa.UnOp:
		if w := unspill(v); w != v {
			return derivesFromCell(w, c, depth+1)
		}
		// a load of something else: a saved copy held in a captured variable counts as derived
		if x.Op == token.MUL {
			if fv, ok := x.X.(*ssa.FreeVar); ok {
				if a := resolveFreeVar(fv); a != nil {
					for _, sv := range storesTo(a) {
						if derivesFromCell(sv, c, depth+1) {
							return true
						}
					}
				}
			}
		}
		return false
	}
	return false
}

// selfRecursive: fn can reach itself through calls.
func (s *stackDisc) selfRecursive(fn *ssa.Function) bool {
	seen := map[*ssa.Function]bool{}
	var visit func(f *ssa.Function) bool
	visit = func(f *ssa.Function) bool {
		if f == nil || seen[f] || len(f.Blocks) == 0 || !s.p.inModule(f) {
			return false
		}
		seen[f] = true
		hit := false
		allInstrs(f, func(in ssa.Instruction) {
			if hit {
				return
			}
			if ci, ok := in.(ssa.CallInstruction); ok {
				for _, g := range s.calleesCached(ci) {
					if g == fn || visit(g) {
						hit = true
						return
					}
				}
			}
		})
		return hit
	}
	return visit(fn)
}
