package main

import (
	"fmt"
	"go/types"
	"sort"
	"strings"

	"golang.org/x/tools/go/ssa"
)

// C07.R7: inside the loader's check functions, what decides whether a check runs.
//
// Every branch of a check function (an unexported loader-only function returning *gqlerror.Error) is one of
//
//	check      one side of the branch can only fail (it returns a certain error): the branch IS a check
//	loop       the control of a range / counting loop
//	dispatch   a condition of the frozen dispatch table below: which checks the specification applies to which
//	           definitions (kind dispatch, the built-in exemption, "required argument" = non-null without default,
//	           an optional lookup). One line of reason per entry.
//
// A branch that is none of these decides, from something other than the specification's dispatch, whether the
// checks behind it run — a shortcut past checks. A loop-free, call-free boolean helper is looked through (its own
// branches are classified instead), so folding `NonNull && DefaultValue == nil` into a helper stays silent.
var c07Dispatch = map[string]map[string]string{
	"validateDefinition": {
		`Definition.Kind == "INPUT_OBJECT"`: "input fields take the INPUT_FIELD_DEFINITION location and the input-kind check",
		`Definition.Kind == "OBJECT"`:       "objects must define fields of output kinds",
		`Definition.Kind == "INTERFACE"`:    "interfaces must define fields of output kinds",
		`Definition.Kind == "ENUM"`:         "enums must define values, none of them true/false/null",
		`Definition.BuiltIn`:                "reserved names are allowed to the prelude only",
		`lookup-ok(Schema.Types[Name()])`:   "the kind of a field type is tested when the type exists (existence was checked before)",
	},
	"validateDirectives": {
		`param == nil`:                           "the directive being defined, when there is one (self-reference test)",
		`? == param`:                             "location membership scan",
		`ArgumentDefinition.DefaultValue == nil`: "required argument = non-null type without default",
		`ArgumentDefinition.Type->Type.NonNull`:  "required argument = non-null type without default",
	},
	"validateImplements": {
		`ArgumentDefinition.Type->Type.NonNull`: "additional arguments of the implementer must not be required",
		`ForName() == nil`:                      "an argument the interface does not declare is an additional argument",
	},
}

func c07NoShortcut(c *Ctx, r *RuleResult) {
	p := c.P
	var fns []*ssa.Function
	for fn := range loaderOnly(p) {
		res := fn.Signature.Results()
		if res.Len() == 0 || !isGqlErrorPtr(res.At(res.Len()-1).Type()) {
			continue
		}
		fns = append(fns, fn)
	}
	sort.Slice(fns, func(i, j int) bool { return fns[i].Name() < fns[j].Name() })
	if len(fns) == 0 {
		r.AnchorLost("loader check functions (unexported, loader-only, returning *gqlerror.Error)")
		return
	}
	used := map[string]bool{}
	// a helper that a check function hands part of its work to dispatches by that function's table
	m := newLoaderModel(p)
	tableOf := map[*ssa.Function]map[string]string{}
	ownerName := map[*ssa.Function]string{}
	for name, tab := range c07Dispatch {
		root := p.Func("validator." + name)
		if root == nil {
			continue
		}
		for _, pl := range c07HelpersIn(p, m, root) {
			if tableOf[pl.fn] == nil {
				tableOf[pl.fn] = map[string]string{}
				ownerName[pl.fn] = name
			}
			for k, v := range tab {
				tableOf[pl.fn][k] = v
			}
			if pl.fn == root {
				ownerName[pl.fn] = name
			}
		}
	}
	for _, fn := range fns {
		nCheck := 0
		nNeutral := 0
		var classify func(g *ssa.Function, owner *ssa.Function, depth int)
		classify = func(g *ssa.Function, owner *ssa.Function, depth int) {
			headers, bodiesOf := loopsOf(g)
			isHeader := map[*ssa.BasicBlock]bool{}
			for _, h := range headers {
				isHeader[h] = true
			}
			for _, b := range g.Blocks {
				ifi, ok := b.Instrs[len(b.Instrs)-1].(*ssa.If)
				if !ok {
					continue
				}
				if isHeader[b] {
					continue // loop control
				}
				if g == owner {
					chk := false
					for _, s := range b.Succs {
						if failOnly(s) {
							chk = true
						}
					}
					if chk {
						nCheck++
						continue
					}
				}
				// look through a loop-free, call-free boolean helper of the module
				if call, ok := stripChange(ifi.Cond).(*ssa.Call); ok && depth < 2 {
					if h := call.Call.StaticCallee(); h != nil && p.inModule(h) && simplePredicate(h) {
						classify(h, owner, depth+1)
						continue
					}
				}
				// a branch both sides of which run the same checks before the function returns or the enclosing loop
				// iterates does not decide whether checks run
				if g == owner && sameChecksAhead(b, bodiesOf) {
					nNeutral++
					continue
				}
				desc := canonDispatch(guardDesc(Cond{V: ifi.Cond, True: true}))
				on := ownerName[owner]
				if on == "" {
					on = owner.Name()
				}
				key := on + " | " + desc
				if why, ok := tableOf[owner][desc]; ok {
					if !used[key] {
						used[key] = true
						r.OK("dispatch "+key, why)
					}
					continue
				}
				r.Fail(ifi.Cond.Pos(), p.FuncName(owner), "branch on "+desc, "this branch of a loader check function is neither a check (no side of it fails), nor loop control, nor one of the dispatch conditions the specification gives ("+strings.Join(sortedKeys(tableOf[owner]), "; ")+"): it decides from something else whether the checks behind it run, so a schema those checks reject can load")
			}
		}
		classify(fn, fn, 0)
		if nCheck > 0 {
			r.OK(fmt.Sprintf("%s: %d checks", p.FuncName(fn), nCheck), "each has a side that can only fail")
		}
		if nNeutral > 0 {
			r.OK(fmt.Sprintf("%s: %d branches with the same checks ahead on both sides", p.FuncName(fn), nNeutral), "they do not decide whether checks run")
		}
	}
}

func sortedKeys(m map[string]string) []string {
	var out []string
	for k := range m {
		out = append(out, k)
	}
	sort.Strings(out)
	return out
}

func canonDispatch(d string) string {
	d = strings.TrimPrefix(d, "!")
	d = strings.Replace(d, " != \"", " == \"", 1)
	if strings.HasSuffix(d, " != nil") {
		d = strings.TrimSuffix(d, " != nil") + " == nil"
	}
	return d
}

func isGqlErrorPtr(t types.Type) bool {
	pt, ok := t.(*types.Pointer)
	if !ok {
		return false
	}
	n, ok := pt.Elem().(*types.Named)
	return ok && n.Obj().Name() == "Error" && n.Obj().Pkg() != nil && strings.HasSuffix(n.Obj().Pkg().Path(), "/gqlerror")
}

// simplePredicate: a bool function without loops and without calls (field reads and comparisons only).
func simplePredicate(fn *ssa.Function) bool {
	res := fn.Signature.Results()
	if res.Len() != 1 || !isBoolType(res.At(0).Type()) || len(fn.Blocks) == 0 {
		return false
	}
	if hs, _ := loopsOf(fn); len(hs) > 0 {
		return false
	}
	simple := true
	allInstrs(fn, func(in ssa.Instruction) {
		if _, ok := in.(ssa.CallInstruction); ok {
			simple = false
		}
	})
	return simple
}

func failOnly(s *ssa.BasicBlock) bool {
	n := 0
	for b := range reachAvoiding(s, nil, nil) {
		if ret, ok := b.Instrs[len(b.Instrs)-1].(*ssa.Return); ok {
			if !isFailureReturn(ret) {
				return false
			}
			n++
		}
	}
	return n > 0
}

// C07.R8: nothing nil is published into the schema. Every value stored into Schema.Types / Schema.Directives and
// every definition handed to a Schema method that appends it to one of the schema's relations (PossibleTypes,
// Implements) is non-nil at the call: it is not a map lookup, search result or nullable field, or a nil test of the
// same value dominates the registration — for the maps and relations the loader itself reads while loading (Types,
// Directives, and PossibleTypes through isCovariant): their readers range over them and dereference each element without
// a test, before the check that rejects the undefined name has run. A relation nobody reads while loading (Implements)
// may transiently hold nil: C07.R2 shows the undefined name is rejected before the schema is returned.
func c07NothingNil(c *Ctx, r *RuleResult) {
	p := c.P
	e := newEffects(p)
	scope := validationScope(p, e)
	na := newNilAnalysis(p, scope)
	na.inLoader = true
	schemaT := p.LookupType("ast", "Schema")
	if schemaT == nil {
		r.AnchorLost("ast.Schema")
		return
	}
	// methods of Schema that append a parameter to a relation
	type sinkFn struct {
		param int
		field string
	}
	sinks := map[*ssa.Function]sinkFn{}
	for _, fn := range p.FuncsIn("ast") {
		if fn.Signature.Recv() == nil || namedOf(fn.Signature.Recv().Type()) != schemaT {
			continue
		}
		allInstrs(fn, func(in ssa.Instruction) {
			mu, ok := in.(*ssa.MapUpdate)
			if !ok {
				return
			}
			_, f, ok := fieldLoadOf(mu.Map)
			if !ok {
				return
			}
			call, ok := stripChange(mu.Value).(*ssa.Call)
			if !ok {
				return
			}
			if b, isB := call.Call.Value.(*ssa.Builtin); !isB || b.Name() != "append" {
				return
			}
			for _, el := range variadicElems(call.Call.Args[1]) {
				if prm, ok := stripChange(el).(*ssa.Parameter); ok {
					sinks[fn] = sinkFn{paramIndex(fn, prm), f}
				}
			}
		})
	}
	if len(sinks) == 0 {
		r.AnchorLost("methods of ast.Schema that append to PossibleTypes / Implements")
		return
	}
	// which relations the loader itself reads before it has rejected undefined names
	readInLoader := map[string][]string{}
	if vsd := p.Func("validator.ValidateSchemaDocument"); vsd != nil {
		for fn := range p.reachableFrom([]*ssa.Function{vsd}, nil) {
			if _, isSink := sinks[fn]; isSink || !p.inModule(fn) {
				continue
			}
			allInstrs(fn, func(in ssa.Instruction) {
				if v, ok := in.(ssa.Value); ok {
					if st, f, ok := fieldLoadOf(v); ok && st == "Schema" {
						if _, isMap := v.Type().Underlying().(*types.Map); isMap {
							readInLoader[f] = append(readInLoader[f], p.FuncName(fn))
						}
					}
				}
			})
		}
	}
	check := func(in ssa.Instruction, v ssa.Value, what, field string) {
		fn := in.Parent()
		site := what + " at " + p.Pos(in.Pos())
		why := na.possiblyNil(v, map[ssa.Value]bool{})
		if why == "" {
			r.OK(site, "the value cannot be nil (a parsed definition, a fresh node, an element of a parsed list)")
			return
		}
		if len(readInLoader[field]) == 0 {
			r.OK(site, "possibly nil for an undefined name, but Schema."+field+" is not read while loading, and a schema with an undefined name is rejected before it is returned (C07.R2)")
			return
		}
		st := na.stateAt(in)
		bad := false
		for _, d := range st {
			if na.evalNil(v, d) != 1 {
				bad = true
			}
		}
		if bad {
			r.Fail(in.Pos(), p.FuncName(fn), what+" of a possibly nil definition", why+" and the result is registered without a nil test: the relation then holds a nil entry, which its readers (isCovariant, the overlap and possible-type rules) dereference — an SDL naming an undefined type panics instead of being rejected")
		} else {
			r.OK(site, "nil test on every path")
		}
	}
	n := 0
	for fn := range scope {
		if pk := p.PkgOf(fn); pk == nil || !strings.HasSuffix(pk.PkgPath, "/validator") {
			continue
		}
		allInstrs(fn, func(in ssa.Instruction) {
			switch x := in.(type) {
			case *ssa.MapUpdate:
				if _, f, ok := fieldLoadOf(x.Map); ok && (f == "Types" || f == "Directives") && isPointerLike(x.Value.Type()) {
					n++
					check(in, x.Value, "Schema."+f+"[name] = definition", f)
				}
			case ssa.CallInstruction:
				if g := x.Common().StaticCallee(); g != nil {
					if sk, ok := sinks[g]; ok && sk.param < len(x.Common().Args) {
						n++
						check(in, x.Common().Args[sk.param], g.Name()+" (Schema."+sk.field+")", sk.field)
					}
				}
			}
		})
	}
	if n == 0 {
		r.AnchorLost("registrations into the schema's maps and relations in package validator")
	}
}

// sameChecksAhead: the two successors of b reach the same set of checks (branches one side of which can only fail)
// before the function returns or a loop that contains b iterates.
func sameChecksAhead(b *ssa.BasicBlock, bodies map[*ssa.BasicBlock]map[*ssa.BasicBlock]bool) bool {
	if len(b.Succs) != 2 {
		return false
	}
	blockedHdr := map[*ssa.BasicBlock]bool{}
	for h, body := range bodies {
		if body[b] {
			blockedHdr[h] = true
		}
	}
	ahead := func(s *ssa.BasicBlock) (map[*ssa.BasicBlock]bool, bool) {
		out := map[*ssa.BasicBlock]bool{}
		succeeds := false
		if blockedHdr[s] {
			return out, false
		}
		for x := range reachAvoiding(s, func(y *ssa.BasicBlock) bool { return blockedHdr[y] }, nil) {
			if _, ok := x.Instrs[len(x.Instrs)-1].(*ssa.If); ok {
				for _, sc := range x.Succs {
					if failOnly(sc) {
						out[x] = true
					}
				}
			}
			if ret, ok := x.Instrs[len(x.Instrs)-1].(*ssa.Return); ok && !isFailureReturn(ret) {
				succeeds = true
			}
		}
		return out, succeeds
	}
	a0, _ := ahead(b.Succs[0])
	a1, _ := ahead(b.Succs[1])
	if len(a0) != len(a1) {
		return false
	}
	for x := range a0 {
		if !a1[x] {
			return false
		}
	}
	return true
}
