package main

import (
	"fmt"
	"go/types"
	"sort"
	"strings"

	"golang.org/x/tools/go/ssa"
)

// C07.R7: inside the loader's check functions, what decides whether a check runs.
//
// Every branch of a check function (an unexported loader-only function returning *gqlerror.Error) is one of
//
//	check      one side of the branch can only fail (it returns a certain error): the branch IS a check
//	loop       the control of a range / counting loop
//	dispatch   a condition of the frozen dispatch table below: which checks the specification applies to which
//	           definitions (kind dispatch, the built-in exemption, "required argument" = non-null without default,
//	           an optional lookup). One line of reason per entry.
//
// A branch that is none of these decides, from something other than the specification's dispatch, whether the
// checks behind it run — a shortcut past checks. A loop-free, call-free boolean helper is looked through (its own
// branches are classified instead), so folding `NonNull && DefaultValue == nil` into a helper stays silent.
var c07Dispatch = map[string]map[string]string{
	"validateDefinition": {
		`Definition.Kind == "INPUT_OBJECT"`:     "input fields take the INPUT_FIELD_DEFINITION location and the input-kind check",
		`Definition.Kind == "OBJECT"`:           "objects must define fields of output kinds",
		`Definition.Kind == "INTERFACE"`:        "interfaces must define fields of output kinds",
		`Definition.Kind == "ENUM"`:             "enums must define values, none of them true/false/null",
		`Definition.BuiltIn`:                    "reserved names are allowed to the prelude only",
		`lookup-ok(Schema.Types[Name()])`:       "the kind of a field type is tested when the type exists (existence was checked before)",
	},
	"validateDirectives": {
		`param != nil`:                                "the directive being defined, when there is one (self-reference test)",
		`? == param`:                                  "location membership scan",
		`ArgumentDefinition.DefaultValue == nil`:      "required argument = non-null type without default",
		`ArgumentDefinition.Type->Type.NonNull`:       "required argument = non-null type without default",
	},
	"validateImplements": {
		`ArgumentDefinition.Type->Type.NonNull`: "additional arguments of the implementer must not be required",
		`ForName() == nil`:                      "an argument the interface does not declare is an additional argument",
	},
}

func c07NoShortcut(c *Ctx, r *RuleResult) {
	p := c.P
	var fns []*ssa.Function
	for fn := range loaderOnly(p) {
		res := fn.Signature.Results()
		if res.Len() == 0 || !isGqlErrorPtr(res.At(res.Len()-1).Type()) {
			continue
		}
		fns = append(fns, fn)
	}
	sort.Slice(fns, func(i, j int) bool { return fns[i].Name() < fns[j].Name() })
	if len(fns) == 0 {
		r.AnchorLost("loader check functions (unexported, loader-only, returning *gqlerror.Error)")
		return
	}
	used := map[string]bool{}
	for _, fn := range fns {
		nCheck := 0
		var classify func(g *ssa.Function, owner *ssa.Function, depth int)
		classify = func(g *ssa.Function, owner *ssa.Function, depth int) {
			headers, _ := loopsOf(g)
			isHeader := map[*ssa.BasicBlock]bool{}
			for _, h := range headers {
				isHeader[h] = true
			}
			for _, b := range g.Blocks {
				ifi, ok := b.Instrs[len(b.Instrs)-1].(*ssa.If)
				if !ok {
					continue
				}
				if isHeader[b] {
					continue // loop control
				}
				if g == owner {
					chk := false
					for _, s := range b.Succs {
						if failOnly(s) {
							chk = true
						}
					}
					if chk {
						nCheck++
						continue
					}
				}
				// look through a loop-free, call-free boolean helper of the module
				if call, ok := stripChange(ifi.Cond).(*ssa.Call); ok && depth < 2 {
					if h := call.Call.StaticCallee(); h != nil && p.inModule(h) && simplePredicate(h) {
						classify(h, owner, depth+1)
						continue
					}
				}
				desc := canonDispatch(guardDesc(Cond{V: ifi.Cond, True: true}))
				key := owner.Name() + " | " + desc
				if why, ok := c07Dispatch[owner.Name()][desc]; ok {
					if !used[key] {
						used[key] = true
						r.OK("dispatch "+key, why)
					}
					continue
				}
				r.Fail(ifi.Cond.Pos(), p.FuncName(owner), "branch on "+desc, "this branch of a loader check function is neither a check (no side of it fails), nor loop control, nor one of the dispatch conditions the specification gives ("+strings.Join(sortedKeys(c07Dispatch[owner.Name()]), "; ")+"): it decides from something else whether the checks behind it run, so a schema those checks reject can load")
			}
		}
		classify(fn, fn, 0)
		if nCheck > 0 {
			r.OK(fmt.Sprintf("%s: %d checks", p.FuncName(fn), nCheck), "each has a side that can only fail")
		}
	}
}

func sortedKeys(m map[string]string) []string {
	var out []string
	for k := range m {
		out = append(out, k)
	}
	sort.Strings(out)
	return out
}

func canonDispatch(d string) string {
	d = strings.TrimPrefix(d, "!")
	d = strings.Replace(d, " != \"", " == \"", 1)
	return d
}

func isGqlErrorPtr(t types.Type) bool {
	pt, ok := t.(*types.Pointer)
	if !ok {
		return false
	}
	n, ok := pt.Elem().(*types.Named)
	return ok && n.Obj().Name() == "Error" && n.Obj().Pkg() != nil && strings.HasSuffix(n.Obj().Pkg().Path(), "/gqlerror")
}

// simplePredicate: a bool function without loops and without calls (field reads and comparisons only).
func simplePredicate(fn *ssa.Function) bool {
	res := fn.Signature.Results()
	if res.Len() != 1 || !isBoolType(res.At(0).Type()) || len(fn.Blocks) == 0 {
		return false
	}
	if hs, _ := loopsOf(fn); len(hs) > 0 {
		return false
	}
	simple := true
	allInstrs(fn, func(in ssa.Instruction) {
		if _, ok := in.(ssa.CallInstruction); ok {
			simple = false
		}
	})
	return simple
}

func failOnly(s *ssa.BasicBlock) bool {
	n := 0
	for b := range reachAvoiding(s, nil, nil) {
		if ret, ok := b.Instrs[len(b.Instrs)-1].(*ssa.Return); ok {
			if !isFailureReturn(ret) {
				return false
			}
			n++
		}
	}
	return n > 0
}
