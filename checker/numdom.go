package main

import (
	"fmt"
	"sort"
	"strings"
)

// ---------------------------------------------------------------------------
// Numeric abstract domain: Zone (difference bounds) x Karr (affine equalities), DESIGN §3.1.
// Variables are strings. A state holds constraints over a dynamic variable set; a variable that
// is not mentioned is unconstrained.

const inf = int64(1) << 60

// ---- rationals (small) ----

type rat struct{ n, d int64 }

func gcd(a, b int64) int64 {
	if a < 0 {
		a = -a
	}
	if b < 0 {
		b = -b
	}
	for b != 0 {
		a, b = b, a%b
	}
	if a == 0 {
		return 1
	}
	return a
}

func mk(n, d int64) rat {
	if d < 0 {
		n, d = -n, -d
	}
	g := gcd(n, d)
	return rat{n / g, d / g}
}

func ri(n int64) rat        { return rat{n, 1} }
func (a rat) add(b rat) rat { return mk(a.n*b.d+b.n*a.d, a.d*b.d) }
func (a rat) sub(b rat) rat { return mk(a.n*b.d-b.n*a.d, a.d*b.d) }
func (a rat) mul(b rat) rat { return mk(a.n*b.n, a.d*b.d) }
func (a rat) div(b rat) rat { return mk(a.n*b.d, a.d*b.n) }
func (a rat) neg() rat      { return rat{-a.n, a.d} }
func (a rat) zero() bool    { return a.n == 0 }
func (a rat) eq(b rat) bool { return a.n == b.n && a.d == b.d }
func (a rat) String() string {
	if a.d == 1 {
		return fmt.Sprint(a.n)
	}
	return fmt.Sprintf("%d/%d", a.n, a.d)
}

// ---- linear expressions ----

// linexp is sum(coef[v]*v) + k.
type linexp struct {
	co map[string]rat
	k  rat
}

func lconst(k int64) linexp { return linexp{map[string]rat{}, ri(k)} }
func lvar(v string) linexp  { return linexp{map[string]rat{v: ri(1)}, ri(0)} }

func (a linexp) clone() linexp {
	n := linexp{make(map[string]rat, len(a.co)), a.k}
	for v, c := range a.co {
		n.co[v] = c
	}
	return n
}

func (a linexp) addScaled(b linexp, s rat) linexp {
	n := a.clone()
	for v, c := range b.co {
		nc := n.co[v]
		if nc.d == 0 {
			nc = ri(0)
		}
		nc = nc.add(c.mul(s))
		if nc.zero() {
			delete(n.co, v)
		} else {
			n.co[v] = nc
		}
	}
	n.k = n.k.add(b.k.mul(s))
	return n
}

func (a linexp) plus(b linexp) linexp  { return a.addScaled(b, ri(1)) }
func (a linexp) minus(b linexp) linexp { return a.addScaled(b, ri(-1)) }
func (a linexp) addK(k int64) linexp   { n := a.clone(); n.k = n.k.add(ri(k)); return n }
func (a linexp) isConst() bool         { return len(a.co) == 0 }

func (a linexp) vars() []string {
	var vs []string
	for v := range a.co {
		vs = append(vs, v)
	}
	sort.Strings(vs)
	return vs
}

func (a linexp) String() string {
	var parts []string
	for _, v := range a.vars() {
		c := a.co[v]
		switch {
		case c.eq(ri(1)):
			parts = append(parts, v)
		case c.eq(ri(-1)):
			parts = append(parts, "-"+v)
		default:
			parts = append(parts, c.String()+"*"+v)
		}
	}
	if !a.k.zero() || len(parts) == 0 {
		parts = append(parts, a.k.String())
	}
	return strings.Join(parts, " + ")
}

// ---- Karr: affine equalities, rows in reduced echelon form ----

type karr struct {
	gen    int
	rows   []linexp // each row means row == 0 ; pivot[i] is its leading variable (coef 1)
	pivot  []string
	bottom bool
}

func (k *karr) clone() *karr {
	n := &karr{bottom: k.bottom, gen: k.gen}
	for i, r := range k.rows {
		n.rows = append(n.rows, r.clone())
		n.pivot = append(n.pivot, k.pivot[i])
	}
	return n
}

// reduce substitutes every pivot variable by the rest of its row.
func (k *karr) reduce(e linexp) linexp {
	out := e.clone()
	for i, r := range k.rows {
		p := k.pivot[i]
		c, ok := out.co[p]
		if !ok {
			continue
		}
		// row: p + rest = 0  =>  p = -rest
		out = out.addScaled(r, c.neg())
	}
	return out
}

func pickPivot(e linexp) string {
	vs := e.vars()
	if len(vs) == 0 {
		return ""
	}
	// prefer SSA temporaries and ghosts as pivots so that cells and lengths stay free (better canonical forms)
	best := vs[0]
	rank := func(v string) int {
		switch {
		case strings.HasPrefix(v, "v:"):
			return 0
		case strings.HasPrefix(v, "sv:"), strings.HasPrefix(v, "l:"):
			return 1
		case strings.HasPrefix(v, "len:"):
			return 2
		case strings.HasPrefix(v, "g:"):
			return 3
		case strings.HasPrefix(v, "c:"):
			return 4
		}
		return 5
	}
	for _, v := range vs {
		if rank(v) < rank(best) {
			best = v
		}
	}
	return best
}

// addEq adds e == 0.
func (k *karr) addEq(e linexp) {
	k.gen++
	if k.bottom {
		return
	}
	r := k.reduce(e)
	if r.isConst() {
		if !r.k.zero() {
			k.bottom = true
		}
		return
	}
	p := pickPivot(r)
	c := r.co[p]
	// normalise pivot coefficient to 1
	n := linexp{map[string]rat{}, r.k.div(c)}
	for v, cv := range r.co {
		n.co[v] = cv.div(c)
	}
	// eliminate p from the other rows
	for i := range k.rows {
		if ci, ok := k.rows[i].co[p]; ok {
			k.rows[i] = k.rows[i].addScaled(n, ci.neg())
		}
	}
	k.rows = append(k.rows, n)
	k.pivot = append(k.pivot, p)
}

// forget removes every constraint on v.
func (k *karr) forget(v string) {
	k.gen++
	if k.bottom {
		return
	}
	// choose a row mentioning v to solve for v, eliminate v elsewhere, drop the row
	idx := -1
	for i, p := range k.pivot {
		if p == v {
			idx = i
		}
	}
	if idx < 0 {
		for i, r := range k.rows {
			if _, ok := r.co[v]; ok {
				idx = i
				break
			}
		}
		if idx < 0 {
			return
		}
		// re-pivot row idx on v
		r := k.rows[idx]
		c := r.co[v]
		n := linexp{map[string]rat{}, r.k.div(c)}
		for x, cx := range r.co {
			n.co[x] = cx.div(c)
		}
		k.rows[idx] = n
		k.pivot[idx] = v
		for i := range k.rows {
			if i == idx {
				continue
			}
			if ci, ok := k.rows[i].co[v]; ok {
				k.rows[i] = k.rows[i].addScaled(n, ci.neg())
			}
		}
	}
	// rows other than idx no longer mention v (echelon form): drop row idx; re-establish pivots for rows whose pivot is fine
	k.rows = append(k.rows[:idx], k.rows[idx+1:]...)
	k.pivot = append(k.pivot[:idx], k.pivot[idx+1:]...)
	// a row may have lost its pivot coefficient? no: pivots are other variables. Re-normalise to keep the invariant
	// "pivot appears only in its own row": re-run elimination.
	k.renormalise()
}

func (k *karr) renormalise() {
	rows := k.rows
	k.rows, k.pivot = nil, nil
	for _, r := range rows {
		k.addEq(r)
	}
}

// assign x := e (e may mention x).
func (k *karr) assign(x string, e linexp) {
	k.gen++
	if k.bottom {
		return
	}
	if c, ok := e.co[x]; ok && !c.zero() {
		// invertible: x_old = (x_new - rest) / c ; substitute in every row
		rest := e.clone()
		delete(rest.co, x)
		// x_old = (1/c) * x_new - rest/c
		sub := linexp{map[string]rat{x: ri(1).div(c)}, ri(0)}
		sub = sub.addScaled(rest, ri(-1).div(c))
		rows := k.rows
		k.rows, k.pivot = nil, nil
		for _, r := range rows {
			if cx, ok := r.co[x]; ok {
				nr := r.clone()
				delete(nr.co, x)
				nr = nr.addScaled(sub, cx)
				k.addEq(nr)
			} else {
				k.addEq(r)
			}
		}
		return
	}
	k.forget(x)
	k.addEq(lvar(x).minus(e))
}

func (k *karr) vars() map[string]bool {
	vs := map[string]bool{}
	for _, r := range k.rows {
		for v := range r.co {
			vs[v] = true
		}
	}
	return vs
}

// generators: a point and a basis of directions over the given variable list.
func (k *karr) generators(vars []string) (pt map[string]rat, dirs []map[string]rat) {
	isPivot := map[string]int{}
	for i, p := range k.pivot {
		isPivot[p] = i
	}
	pt = map[string]rat{}
	for _, v := range vars {
		pt[v] = ri(0)
	}
	for i, p := range k.pivot {
		pt[p] = k.rows[i].k.neg() // p + rest = 0 with free vars 0 => p = -k
	}
	for _, f := range vars {
		if _, ok := isPivot[f]; ok {
			continue
		}
		d := map[string]rat{f: ri(1)}
		for i, p := range k.pivot {
			if c, ok := k.rows[i].co[f]; ok {
				d[p] = c.neg()
			}
		}
		dirs = append(dirs, d)
	}
	return
}

// joinKarr: affine hull.
func joinKarr(a, b *karr) *karr {
	if a.bottom {
		return b.clone()
	}
	if b.bottom {
		return a.clone()
	}
	vs := map[string]bool{}
	for v := range a.vars() {
		vs[v] = true
	}
	for v := range b.vars() {
		vs[v] = true
	}
	// only variables constrained on both sides can stay constrained
	av, bv := a.vars(), b.vars()
	var vars []string
	for v := range vs {
		if av[v] && bv[v] {
			vars = append(vars, v)
		}
	}
	sort.Strings(vars)
	if len(vars) == 0 {
		return &karr{}
	}
	// project both onto vars
	pa, pb := a.clone(), b.clone()
	for v := range av {
		if !bv[v] {
			pa.forget(v)
		}
	}
	for v := range bv {
		if !av[v] {
			pb.forget(v)
		}
	}
	p1, d1 := pa.generators(vars)
	p2, d2 := pb.generators(vars)
	dirs := append(append([]map[string]rat{}, d1...), d2...)
	diff := map[string]rat{}
	nz := false
	for _, v := range vars {
		x := p2[v].sub(p1[v])
		if !x.zero() {
			diff[v] = x
			nz = true
		}
	}
	if nz {
		dirs = append(dirs, diff)
	}
	// equalities a.x = a.p1 for all a orthogonal to every direction: null space of the direction matrix
	idx := map[string]int{}
	for i, v := range vars {
		idx[v] = i
	}
	n := len(vars)
	m := make([][]rat, 0, len(dirs))
	for _, d := range dirs {
		row := make([]rat, n)
		for i := range row {
			row[i] = ri(0)
		}
		for v, c := range d {
			row[idx[v]] = c
		}
		m = append(m, row)
	}
	// RREF of m
	piv := make([]int, 0)
	r := 0
	for c := 0; c < n && r < len(m); c++ {
		p := -1
		for i := r; i < len(m); i++ {
			if !m[i][c].zero() {
				p = i
				break
			}
		}
		if p < 0 {
			continue
		}
		m[r], m[p] = m[p], m[r]
		pc := m[r][c]
		for j := 0; j < n; j++ {
			m[r][j] = m[r][j].div(pc)
		}
		for i := 0; i < len(m); i++ {
			if i != r && !m[i][c].zero() {
				f := m[i][c]
				for j := 0; j < n; j++ {
					m[i][j] = m[i][j].sub(f.mul(m[r][j]))
				}
			}
		}
		piv = append(piv, c)
		r++
	}
	isPiv := map[int]int{}
	for i, c := range piv {
		isPiv[c] = i
	}
	out := &karr{}
	for f := 0; f < n; f++ {
		if _, ok := isPiv[f]; ok {
			continue
		}
		// null vector: a_f = 1, a_pivcol = -m[row][f]
		e := linexp{map[string]rat{vars[f]: ri(1)}, ri(0)}
		for i, c := range piv {
			if !m[i][f].zero() {
				e.co[vars[c]] = m[i][f].neg()
			}
		}
		// constant: a . p1
		k := ri(0)
		for v, c := range e.co {
			k = k.add(c.mul(p1[v]))
		}
		e.k = k.neg()
		out.addEq(e)
	}
	return out
}

func (k *karr) equalTo(o *karr) bool {
	if k.bottom != o.bottom || len(k.rows) != len(o.rows) {
		return false
	}
	// o entails every row of k and vice versa
	for _, r := range k.rows {
		x := o.reduce(r)
		if !x.isConst() || !x.k.zero() {
			return false
		}
	}
	for _, r := range o.rows {
		x := k.reduce(r)
		if !x.isConst() || !x.k.zero() {
			return false
		}
	}
	return true
}

// ---- Zone ----

type zone struct {
	gen    int
	idx    map[string]int // variable -> index (>=1); index 0 is the constant zero
	names  []string
	m      [][]int64 // m[i][j]: x_i - x_j <= m[i][j]
	bottom bool
	closed bool
}

func newZone() *zone {
	return &zone{idx: map[string]int{}, names: []string{"0"}, m: [][]int64{{0}}, closed: true}
}

func (z *zone) clone() *zone {
	n := &zone{idx: make(map[string]int, len(z.idx)), names: append([]string{}, z.names...), bottom: z.bottom, closed: z.closed}
	for k, v := range z.idx {
		n.idx[k] = v
	}
	n.m = make([][]int64, len(z.m))
	for i := range z.m {
		n.m[i] = append([]int64{}, z.m[i]...)
	}
	return n
}

func (z *zone) id(v string) int {
	if v == "" {
		return 0
	}
	if i, ok := z.idx[v]; ok {
		return i
	}
	i := len(z.names)
	z.gen++
	z.idx[v] = i
	z.names = append(z.names, v)
	for r := range z.m {
		z.m[r] = append(z.m[r], inf)
	}
	row := make([]int64, i+1)
	for c := range row {
		row[c] = inf
	}
	row[i] = 0
	z.m = append(z.m, row)
	return i
}

func addSat(a, b int64) int64 {
	if a >= inf || b >= inf {
		return inf
	}
	return a + b
}

// add constraint x - y <= c ("" is the zero variable).
func (z *zone) add(x, y string, c int64) {
	if z.bottom {
		return
	}
	i, j := z.id(x), z.id(y)
	if c >= z.m[i][j] {
		return
	}
	if !z.closed {
		z.m[i][j] = c
		return
	}
	// incremental closure: every path a -> i -> j -> b
	n := len(z.m)
	if addSat(c, z.m[j][i]) < 0 {
		z.bottom = true
		z.m[i][j] = c
		return
	}
	for a := 0; a < n; a++ {
		ai := z.m[a][i]
		if ai >= inf {
			continue
		}
		aic := addSat(ai, c)
		for b := 0; b < n; b++ {
			if s := addSat(aic, z.m[j][b]); s < z.m[a][b] {
				z.m[a][b] = s
			}
		}
	}
}

func (z *zone) close() {
	if z.closed || z.bottom {
		return
	}
	n := len(z.m)
	for k := 0; k < n; k++ {
		for i := 0; i < n; i++ {
			ik := z.m[i][k]
			if ik >= inf {
				continue
			}
			for j := 0; j < n; j++ {
				if s := addSat(ik, z.m[k][j]); s < z.m[i][j] {
					z.m[i][j] = s
				}
			}
		}
	}
	for i := 0; i < n; i++ {
		if z.m[i][i] < 0 {
			z.bottom = true
		}
	}
	z.closed = true
}

// upper bound of x - y.
func (z *zone) ub(x, y string) int64 {
	z.close()
	i, ok1 := z.lookup(x)
	j, ok2 := z.lookup(y)
	if !ok1 || !ok2 {
		return inf
	}
	return z.m[i][j]
}

func (z *zone) lookup(v string) (int, bool) {
	if v == "" {
		return 0, true
	}
	i, ok := z.idx[v]
	return i, ok
}

func (z *zone) forget(v string) {
	i, ok := z.idx[v]
	if !ok {
		return
	}
	z.close()
	for k := range z.m {
		if k != i {
			z.m[i][k] = inf
			z.m[k][i] = inf
		}
	}
}

// remove drops the variable entirely (after forget).
func (z *zone) remove(v string) {
	i, ok := z.idx[v]
	if !ok {
		return
	}
	z.forget(v)
	last := len(z.names) - 1
	// swap i with last, then truncate
	if i != last {
		ln := z.names[last]
		z.names[i] = ln
		z.idx[ln] = i
		z.m[i], z.m[last] = z.m[last], z.m[i]
		for r := range z.m {
			z.m[r][i], z.m[r][last] = z.m[r][last], z.m[r][i]
		}
	}
	delete(z.idx, v)
	z.gen++
	z.names = z.names[:last]
	z.m = z.m[:last]
	for r := range z.m {
		z.m[r] = z.m[r][:last]
	}
}

func joinZone(a, b *zone, widen bool) *zone {
	if a.bottom {
		return b.clone()
	}
	if b.bottom {
		return a.clone()
	}
	a.close()
	b.close()
	out := newZone()
	// common variables only
	for _, v := range a.names[1:] {
		if _, ok := b.idx[v]; ok {
			out.id(v)
		}
	}
	for i, vi := range out.names {
		for j, vj := range out.names {
			if i == j {
				continue
			}
			ai, aj := 0, 0
			bi, bj := 0, 0
			if i > 0 {
				ai, bi = a.idx[vi], b.idx[vi]
			}
			if j > 0 {
				aj, bj = a.idx[vj], b.idx[vj]
			}
			x, y := a.m[ai][aj], b.m[bi][bj]
			if widen {
				// a is the old state: keep its bound only if the new one does not exceed it; otherwise jump to the
				// next threshold (small constants keep sign information such as "x >= 0")
				if y <= x {
					out.m[i][j] = x
				} else {
					out.m[i][j] = inf
					for _, t := range []int64{-1, 0, 1, 2, 3, 4} {
						if y <= t {
							out.m[i][j] = t
							break
						}
					}
				}
			} else if x > y {
				out.m[i][j] = x
			} else {
				out.m[i][j] = y
			}
		}
	}
	out.closed = false
	if widen {
		out.closed = true // do not close after widening (termination)
	}
	return out
}

func (z *zone) leq(o *zone) bool {
	// z is included in o: every bound of o holds in z
	if z.bottom {
		return true
	}
	if o.bottom {
		return false
	}
	z.close()
	o.close()
	for i, vi := range o.names {
		for j, vj := range o.names {
			if i == j || o.m[i][j] >= inf {
				continue
			}
			var x, y string
			if i > 0 {
				x = vi
			}
			if j > 0 {
				y = vj
			}
			if z.ub(x, y) > o.m[i][j] {
				return false
			}
		}
	}
	return true
}
