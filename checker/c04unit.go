package main

import (
	"fmt"
	"go/token"
	"go/types"
	"sort"

	"golang.org/x/tools/go/ssa"
)

// C04.R6 — a unit step of both cursors steps over one single-byte character.
//
// `end++; endRunes++` is right only when the byte at the old `end` is a whole character (below 0x80). For every block
// that advances both cursors by the constant one, the byte that is stepped over is identified (the nearest dominating
// read Input[end] / Input[start] in the function) and its possible values are propagated through the branch
// conditions (interval sets, as in C03). From the step, every path must reach — before the function returns or the
// enclosing loop iterates — a block where the byte is known to be below 0x80, or the matching undo
// (`end--; endRunes--`); ReadToken, which steps first and dispatches afterwards, is the reason for the path form.
// Bytes compared for equality with a parameter (acceptByte) are ASCII when every call site passes ASCII constants.
func c04UnitSteps(c *Ctx, r *RuleResult, lexT *types.Named) {
	p := c.P
	for _, fn := range p.FuncsIn("lexer") {
		type stepT struct {
			store *ssa.Store
			k     int64
		}
		unit := map[*ssa.BasicBlock]map[string]int64{}
		var firstStore = map[*ssa.BasicBlock]*ssa.Store{}
		firstPos := map[*ssa.BasicBlock]ssa.Instruction{}
		for _, fld := range []string{"end", "endRunes"} {
			for _, s := range storesToField([]*ssa.Function{fn}, lexT, fld) {
				bo, ok := s.store.Val.(*ssa.BinOp)
				if !ok || (bo.Op != token.ADD && bo.Op != token.SUB) || !isFieldLoad(bo.X, lexT, fld) {
					continue
				}
				k, ok := constNum(bo.Y)
				if !ok {
					continue
				}
				if bo.Op == token.SUB {
					k = -k
				}
				b := s.store.Block()
				if unit[b] == nil {
					unit[b] = map[string]int64{}
				}
				unit[b][fld] += k
				if firstStore[b] == nil {
					firstStore[b] = s.store
				}
				if firstPos[b] == nil {
					firstPos[b] = s.store
				}
			}
		}
		// calls of a stepping helper (a one-block function that only moves the cursors by one) step here
		allInstrs(fn, func(in ssa.Instruction) {
			ci, ok := in.(ssa.CallInstruction)
			if !ok {
				return
			}
			g := ci.Common().StaticCallee()
			if g == nil || !p.inModule(g) || !isStepper(p, g, lexT) {
				return
			}
			k := stepperDelta(g, lexT)
			if k == nil {
				return
			}
			b := in.Block()
			if unit[b] == nil {
				unit[b] = map[string]int64{}
			}
			unit[b]["end"] += k["end"]
			unit[b]["endRunes"] += k["endRunes"]
			if firstPos[b] == nil {
				firstPos[b] = in
			}
		})
		// `end += w; endRunes++` where w is 1 on some incoming edges and a decoded width on others: on the edges that
		// bring the constant one, the byte stepped over must be below 0x80
		for _, s := range storesToField([]*ssa.Function{fn}, lexT, "end") {
			bo, ok := s.store.Val.(*ssa.BinOp)
			if !ok || bo.Op != token.ADD || !isFieldLoad(bo.X, lexT, "end") {
				continue
			}
			ph, ok := stripChange(bo.Y).(*ssa.Phi)
			if !ok {
				continue
			}
			// the byte read at the cursor that dominates the phi
			var scrV ssa.Value
			var scrIn ssa.Instruction
			allInstrs(fn, func(in ssa.Instruction) {
				idx, v, ok := strIndex(in)
				if !ok || !isByteVal(v) || !isFieldLoad(stripChange(idx), lexT, "end") {
					return
				}
				if in.Block().Dominates(ph.Block()) && (scrIn == nil || scrIn.Block().Dominates(in.Block())) {
					scrV, scrIn = v, in
				}
			})
			if scrV == nil {
				continue
			}
			_, edges := reachSetsEdges(fn, scrV, scrIn.Block(), ivFull(0xFF))
			for i, e := range ph.Edges {
				k, isK := constNum(e)
				if !isK || k != 1 {
					continue
				}
				set := edges[ph.Block()][ph.Block().Preds[i]]
				site := fmt.Sprintf("width 1 chosen at %s in %s", p.Pos(s.store.Pos()), p.FuncName(fn))
				if len(set) > 0 && set[len(set)-1][1] >= 0x80 {
					r.Fail(s.store.Pos(), p.FuncName(fn), "byte cursor advanced by one over a byte that may start a multi-byte character", "on one incoming path the width of the character is taken to be 1 although the byte may be "+set.String()+": the byte cursor then stops inside the character while the rune cursor counts it, and every following byte of it is counted as a further character")
				} else {
					r.OK(site, "the byte is below 0x80 on the path that takes width 1")
				}
			}
		}
		undo := map[*ssa.BasicBlock]bool{}
		var steps []*ssa.BasicBlock
		for b, m := range unit {
			if m["end"] == 1 && m["endRunes"] == 1 {
				steps = append(steps, b)
			}
			if m["end"] == -1 && m["endRunes"] == -1 {
				undo[b] = true
			}
		}
		sort.Slice(steps, func(i, j int) bool { return steps[i].Index < steps[j].Index })
		runeOnly := 0
		for _, m := range unit {
			if m["endRunes"] == 1 && m["end"] == 0 {
				runeOnly++
			}
		}
		if len(steps) == 0 && runeOnly == 0 {
			continue
		}
		// byte reads at the cursor
		type readT struct {
			v  ssa.Value
			in ssa.Instruction
		}
		var reads []readT
		allInstrs(fn, func(in ssa.Instruction) {
			idx, v, ok := strIndex(in)
			if !ok || !isByteVal(v) {
				return
			}
			if isFieldLoad(stripChange(idx), lexT, "end") || isFieldLoad(stripChange(idx), lexT, "start") {
				reads = append(reads, readT{v, in})
			}
		})
		// a byte parameter that every caller fills with the byte it has just read at the cursor is a read at entry
		if fn.Parent() == nil && len(fn.Blocks) > 0 && len(fn.Blocks[0].Instrs) > 0 {
			for _, prm := range fn.Params {
				if isByteVal(prm) && c04ParamIsCursorByte(p, fn, prm, lexT) {
					reads = append(reads, readT{prm, fn.Blocks[0].Instrs[0]})
				}
			}
		}
		// the split form of a byte-wise scan: the byte cursor moves in one block and the rune cursor is counted in another,
		// under a test of the byte — then it must not be counted for a continuation byte (0x80–0xBF)
		endStoreBlocks := map[*ssa.BasicBlock]bool{}
		for _, es := range storesToField([]*ssa.Function{fn}, lexT, "end") {
			endStoreBlocks[es.store.Block()] = true
		}
		for b, m := range unit {
			if !(m["endRunes"] == 1 && m["end"] == 0) || endStoreBlocks[b] {
				continue
			}
			st := firstPos[b]
			var scr *readT
			for i := range reads {
				rd := &reads[i]
				if !rd.in.Block().Dominates(b) {
					continue
				}
				if scr == nil || scr.in.Block().Dominates(rd.in.Block()) {
					scr = rd
				}
			}
			if scr == nil {
				continue // not a scan of the input: R3 decides the unit of the step
			}
			set := reachSets(fn, scr.v, scr.in.Block(), ivFull(0xFF))[b]
			cont := ivset{}
			for _, iv := range set {
				lo, hi := iv[0], iv[1]
				if lo < 0x80 {
					lo = 0x80
				}
				if hi > 0xBF {
					hi = 0xBF
				}
				if lo <= hi {
					cont = append(cont, [2]int64{lo, hi})
				}
			}
			site := fmt.Sprintf("character counted apart from the byte step at %s in %s", p.Pos(st.Pos()), p.FuncName(fn))
			if len(cont) > 0 {
				r.Fail(st.Pos(), p.FuncName(fn), "a continuation byte is counted as a character", "the rune cursor is advanced for byte values "+cont.String()+", which only occur inside a multi-byte character: a character whose encoding contains such a byte is counted twice, and every later offset is too large while line and column stay right")
			} else {
				r.OK(site, "never for a byte in 0x80–0xBF: "+set.String())
			}
		}
		headers, bodies := loopsOf(fn)
		if isStepper(p, fn, lexT) && stepperDelta(fn, lexT) != nil {
			// the helper itself: its call sites carry the obligation
			r.OK("stepping helper "+p.FuncName(fn), "checked at its call sites")
			continue
		}
		for _, b := range steps {
			st := firstPos[b]
			site := fmt.Sprintf("unit step of both cursors at %s in %s", p.Pos(st.Pos()), p.FuncName(fn))
			// nearest dominating read
			var scr *readT
			for i := range reads {
				rd := &reads[i]
				if !dominatesInstr(rd.in, st) {
					continue
				}
				if scr == nil || scr.in.Block().Dominates(rd.in.Block()) {
					scr = rd
				}
			}
			if scr == nil {
				// the byte at the cursor may be known to every caller (a case of the caller's scan handed to a helper): the
				// step is the first movement of the cursor in this function and every call site lies where the byte read at
				// the cursor is below 0x80
				if why := c04EntryByteAscii(p, fn, b, lexT); why != "" {
					r.OK(site, why)
					continue
				}
				r.Undecided(st.Pos(), p.FuncName(fn), "unit step without a read of the byte stepped over", "both cursors advance by one but neither the function nor its callers read Input[end] before: whether a whole character is skipped is not decided")
				continue
			}
			sets := reachSets(fn, scr.v, scr.in.Block(), ivFull(0xFF))
			ascii := func(x *ssa.BasicBlock) bool {
				s := sets[x]
				if len(s) == 0 {
					return true // infeasible for every byte value
				}
				return s[len(s)-1][1] < 0x80
			}
			if !ascii(b) && c04EqualsAsciiParam(p, fn, scr.v, b) {
				r.OK(site, "the byte equals a parameter that is an ASCII constant at every call site")
				continue
			}
			// the innermost loop containing the step: its header ends the iteration
			var hdr *ssa.BasicBlock
			for _, h := range headers {
				if bodies[h][b] && (hdr == nil || len(bodies[h]) < len(bodies[hdr])) {
					hdr = h
				}
			}
			resolved := func(x *ssa.BasicBlock) bool { return ascii(x) || undo[x] }
			if resolved(b) {
				r.OK(site, "the byte stepped over is below 0x80 for every value that reaches the step: "+sets[b].String())
				continue
			}
			bad := ""
			seen := map[*ssa.BasicBlock]bool{b: true}
			work := []*ssa.BasicBlock{b}
			for len(work) > 0 && bad == "" {
				x := work[0]
				work = work[1:]
				if _, isRet := x.Instrs[len(x.Instrs)-1].(*ssa.Return); isRet {
					bad = "the function returns"
					break
				}
				for _, s := range x.Succs {
					if s == hdr || s == scr.in.Block() && s != b {
						bad = "the loop goes on to the next character"
						break
					}
					if seen[s] || resolved(s) {
						continue
					}
					seen[s] = true
					work = append(work, s)
				}
			}
			if bad != "" {
				r.Fail(st.Pos(), p.FuncName(fn), "unit step over a byte that may be part of a multi-byte character", "both cursors advance by one for byte values "+sets[b].String()+" and "+bad+" without that byte having been found below 0x80 (and without the step being undone): a multi-byte character is counted once per byte, every later offset is too large — up to past the end of the source — while line and column stay right")
			} else {
				r.OK(site, "every path from the step reaches a branch that knows the byte is below 0x80, or the undo")
			}
		}
	}
}

// c04EqualsAsciiParam: block b lies under `scr == x` where x ranges over a variadic/byte parameter whose values at every
// call site in the module are ASCII constants.
func c04EqualsAsciiParam(p *Program, fn *ssa.Function, scr ssa.Value, b *ssa.BasicBlock) bool {
	for _, cd := range condsAt(b) {
		bo, ok := cd.V.(*ssa.BinOp)
		if !ok || bo.Op != token.EQL || !cd.True {
			continue
		}
		other := bo.Y
		if !sameScrutinee(bo.X, scr) {
			if !sameScrutinee(bo.Y, scr) {
				continue
			}
			other = bo.X
		}
		// other: element of a parameter slice (range over bytes ...uint8)
		var prm *ssa.Parameter
		switch x := stripChange(other).(type) {
		case *ssa.UnOp:
			if ia, ok := x.X.(*ssa.IndexAddr); ok {
				prm, _ = stripChange(ia.X).(*ssa.Parameter)
			}
		case *ssa.Parameter:
			prm = x
		}
		if prm == nil {
			continue
		}
		idx := paramIndex(fn, prm)
		calls := callsTo(p.Funcs(), fn)
		if idx < 0 || len(calls) == 0 {
			continue
		}
		all := true
		for _, ci := range calls {
			a := ci.Common().Args[idx]
			elems := variadicElems(a)
			if elems == nil {
				elems = []ssa.Value{a}
			}
			for _, e := range elems {
				k, ok := constNum(stripChange(e))
				if !ok || k < 0 || k >= 0x80 {
					all = false
				}
			}
		}
		if all {
			return true
		}
	}
	return false
}

// stepperDelta: the constant by which a stepping helper moves each cursor.
func stepperDelta(g *ssa.Function, lexT *types.Named) map[string]int64 {
	out := map[string]int64{}
	for _, in := range g.Blocks[0].Instrs {
		st, ok := in.(*ssa.Store)
		if !ok {
			continue
		}
		for _, fld := range []string{"end", "endRunes"} {
			bo, ok := st.Val.(*ssa.BinOp)
			if !ok || !isFieldLoad(bo.X, lexT, fld) {
				continue
			}
			if fa, ok := st.Addr.(*ssa.FieldAddr); !ok {
				continue
			} else if _, f, _, _ := fieldOf(fa); f != fld {
				continue
			}
			k, ok := constNum(bo.Y)
			if !ok {
				return nil
			}
			if bo.Op == token.SUB {
				k = -k
			}
			out[fld] += k
		}
	}
	return out
}

// c04EntryByteAscii: block b of helper fn steps over the byte that was at the cursor when fn was entered (no other store
// to the byte cursor can come before it in fn), and at every call site of fn the caller has read that byte — with no
// movement of the cursor between the read and the call — and knows it to be below 0x80.
func c04EntryByteAscii(p *Program, fn *ssa.Function, b *ssa.BasicBlock, lexT *types.Named) string {
	if fn.Parent() != nil {
		return ""
	}
	movesCursor := func(x *ssa.BasicBlock, before ssa.Instruction) bool {
		for _, in := range x.Instrs {
			if in == before {
				return false
			}
			switch y := in.(type) {
			case *ssa.Store:
				if fa, ok := y.Addr.(*ssa.FieldAddr); ok {
					if n, f, _, _ := fieldOf(fa); n != nil && sameNamed(n, lexT) && f == "end" {
						return true
					}
				}
			case ssa.CallInstruction:
				if g := y.Common().StaticCallee(); g != nil && p.inModule(g) && len(storesToField([]*ssa.Function{g}, lexT, "end")) > 0 {
					return true
				}
			}
		}
		return false
	}
	// nothing moves the cursor before the step inside fn
	for _, x := range fn.Blocks {
		if x == b {
			continue
		}
		if movesCursor(x, nil) && reachAvoiding(x, nil, nil)[b] {
			return ""
		}
	}
	calls := callsTo(p.FuncsIn("lexer"), fn)
	if len(calls) == 0 {
		return ""
	}
	for _, ci := range calls {
		caller := ci.Parent()
		cb := ci.Block()
		// nearest read of Input[end] that dominates the call
		var scrV ssa.Value
		var scrIn ssa.Instruction
		allInstrs(caller, func(in ssa.Instruction) {
			idx, v, ok := strIndex(in)
			if !ok || !isByteVal(v) || !isFieldLoad(stripChange(idx), lexT, "end") {
				return
			}
			if dominatesInstr(in, ci) && (scrIn == nil || scrIn.Block().Dominates(in.Block())) {
				scrV, scrIn = v, in
			}
		})
		if scrV == nil {
			return ""
		}
		// the cursor does not move between the read and the call
		rb := scrIn.Block()
		for _, x := range caller.Blocks {
			if x == rb {
				continue
			}
			var before ssa.Instruction
			if x == cb {
				before = ci
			}
			if !movesCursor(x, before) {
				continue
			}
			if x == cb || (reachAvoiding(rb, nil, nil)[x] && reachAvoiding(x, func(y *ssa.BasicBlock) bool { return y == rb }, nil)[cb]) {
				return ""
			}
		}
		if rb == cb {
			// read and call in one block: no store to the cursor between them
			seenRead := false
			for _, in := range cb.Instrs {
				if in == scrIn {
					seenRead = true
				}
				if in == ssa.Instruction(ci) {
					break
				}
				if st, ok := in.(*ssa.Store); ok && seenRead {
					if fa, ok := st.Addr.(*ssa.FieldAddr); ok {
						if n, f, _, _ := fieldOf(fa); n != nil && sameNamed(n, lexT) && f == "end" {
							return ""
						}
					}
				}
			}
		}
		sets := reachSets(caller, scrV, rb, ivFull(0xFF))
		set := sets[cb]
		if len(set) > 0 && set[len(set)-1][1] >= 0x80 {
			return ""
		}
	}
	return fmt.Sprintf("the byte at the cursor on entry is below 0x80 at each of the %d call site(s), and nothing moves the cursor before this step", len(calls))
}

// c04ParamIsCursorByte: at every call site of fn in the lexer the argument for prm is the value read from Input[end]
// with no movement of the cursor between the read and the call.
func c04ParamIsCursorByte(p *Program, fn *ssa.Function, prm *ssa.Parameter, lexT *types.Named) bool {
	idx := paramIndex(fn, prm)
	calls := callsTo(p.FuncsIn("lexer"), fn)
	if idx < 0 || len(calls) == 0 {
		return false
	}
	for _, ci := range calls {
		if idx >= len(ci.Common().Args) {
			return false
		}
		arg := stripChange(ci.Common().Args[idx])
		var rdIn ssa.Instruction
		allInstrs(ci.Parent(), func(in ssa.Instruction) {
			ix, v, ok := strIndex(in)
			if ok && stripChange(v) == arg && isFieldLoad(stripChange(ix), lexT, "end") {
				rdIn = in
			}
		})
		if rdIn == nil || !dominatesInstr(rdIn, ci) {
			return false
		}
		// the cursor does not move between the read and the call
		rb, cb := rdIn.Block(), ci.Block()
		moved := false
		for _, x := range ci.Parent().Blocks {
			for _, in := range x.Instrs {
				st, ok := in.(*ssa.Store)
				if !ok {
					continue
				}
				fa, ok := st.Addr.(*ssa.FieldAddr)
				if !ok {
					continue
				}
				if n, f, _, _ := fieldOf(fa); n == nil || !sameNamed(n, lexT) || f != "end" {
					continue
				}
				switch {
				case x == rb && x == cb:
					if instrIndex(in) > instrIndex(rdIn) && instrIndex(in) < instrIndex(ci) {
						moved = true
					}
				case x == cb:
					if instrIndex(in) < instrIndex(ci) {
						moved = true
					}
				case x == rb:
					if instrIndex(in) > instrIndex(rdIn) && reachAvoiding(x, nil, nil)[cb] {
						// later in the read's block, then on to the call without re-reading: only if the call is not
						// dominated through the loop head again
						moved = moved || !cb.Dominates(x)
					}
				default:
					if reachAvoiding(rb, nil, nil)[x] && reachAvoiding(x, func(y *ssa.BasicBlock) bool { return y == rb }, nil)[cb] {
						moved = true
					}
				}
			}
		}
		if moved {
			return false
		}
	}
	return true
}

// c04CRLFOnce (C04.R2, second half): a scanner that counts a line for a carriage return must swallow a line feed that
// follows it in the same step — otherwise the LF is seen again on the next iteration and the pair is counted as two
// lines. For every branch entered for exactly the byte 0x0D in which the line counter is incremented, the paths to the
// next loop iteration (or return) are enumerated with the constant advances of the byte cursor summed up: a path that
// took the "next byte is LF" edge of a comparison with '\n' must have advanced by two, every other path by one, and at
// least one path must make that comparison.
func c04CRLFOnce(c *Ctx, r *RuleResult, lexT *types.Named) {
	p := c.P
	n := 0
	for _, fn := range p.FuncsIn("lexer") {
		if len(fn.Blocks) == 0 {
			continue
		}
		// the byte read at the cursor
		var scrV ssa.Value
		var scrIn ssa.Instruction
		allInstrs(fn, func(in ssa.Instruction) {
			idx, v, ok := strIndex(in)
			if ok && isByteVal(v) && isFieldLoad(stripChange(idx), lexT, "end") && scrV == nil {
				scrV, scrIn = v, in
			}
		})
		if scrV == nil {
			for _, prm := range fn.Params {
				if isByteVal(prm) && fn.Parent() == nil && c04ParamIsCursorByte(p, fn, prm, lexT) {
					scrV, scrIn = prm, fn.Blocks[0].Instrs[0]
				}
			}
		}
		if scrV == nil {
			continue
		}
		sets := reachSets(fn, scrV, scrIn.Block(), ivFull(0xFF))
		headers, bodies := loopsOf(fn)
		isHeader := map[*ssa.BasicBlock]bool{}
		for _, h := range headers {
			isHeader[h] = true
		}
		_ = bodies
		isCR := func(b *ssa.BasicBlock) bool { return sets[b].eq(ivPoints(0x0D)) }
		// entries of CR regions
		for _, b := range fn.Blocks {
			if !isCR(b) {
				continue
			}
			entry := false
			for _, pd := range b.Preds {
				if !isCR(pd) {
					entry = true
				}
			}
			if !entry {
				continue
			}
			// does the region count a line?
			counts := false
			region := reachAvoiding(b, func(x *ssa.BasicBlock) bool { return isHeader[x] || !isCR(x) && x != b }, nil)
			region[b] = true
			for x := range region {
				for _, in := range x.Instrs {
					if st, ok := in.(*ssa.Store); ok {
						if fa, ok := st.Addr.(*ssa.FieldAddr); ok {
							if nn, f, _, _ := fieldOf(fa); nn != nil && sameNamed(nn, lexT) && f == "line" {
								counts = true
							}
						}
					}
					if ci, ok := in.(ssa.CallInstruction); ok {
						if g := ci.Common().StaticCallee(); g != nil && g.Pkg == fn.Pkg && len(storesToField([]*ssa.Function{g}, lexT, "line")) > 0 {
							counts = true
						}
					}
				}
			}
			if !counts {
				continue
			}
			n++
			type pst struct {
				b     *ssa.BasicBlock
				delta int64
				lf    int // -1 not compared, 0 not LF, 1 LF
			}
			var bad string
			sawLF := false
			seen := map[string]bool{}
			var walk func(s pst, from *ssa.BasicBlock)
			walk = func(s pst, from *ssa.BasicBlock) {
				if bad != "" {
					return
				}
				key := fmt.Sprintf("%d|%d|%d", s.b.Index, s.delta, s.lf)
				if seen[key] {
					return
				}
				seen[key] = true
				d := s.delta
				for _, in := range s.b.Instrs {
					switch x := in.(type) {
					case *ssa.Store:
						if fa, ok := x.Addr.(*ssa.FieldAddr); ok {
							if nn, f, _, _ := fieldOf(fa); nn != nil && sameNamed(nn, lexT) && f == "end" {
								if bo, ok := x.Val.(*ssa.BinOp); ok && isFieldLoad(bo.X, lexT, "end") {
									if k, ok := constNum(bo.Y); ok {
										if bo.Op == token.SUB {
											k = -k
										}
										d += k
									} else {
										d += 100 // a variable width: not a CR/LF step
									}
								}
							}
						}
					case ssa.CallInstruction:
						if g := x.Common().StaticCallee(); g != nil && p.inModule(g) && len(g.Blocks) > 0 {
							if isStepper(p, g, lexT) {
								if k := stepperDelta(g, lexT); k != nil {
									d += k["end"]
									continue
								}
							}
							// advance(n): the byte cursor moves by a parameter, here a constant
							for _, st2 := range storesToField([]*ssa.Function{g}, lexT, "end") {
								bo, ok := st2.store.Val.(*ssa.BinOp)
								if !ok || bo.Op != token.ADD || !isFieldLoad(bo.X, lexT, "end") {
									d += 100
									continue
								}
								if prm, isP := bo.Y.(*ssa.Parameter); isP {
									if j := paramIndex(g, prm); j >= 0 && j < len(x.Common().Args) {
										if k, isK := constNum(x.Common().Args[j]); isK {
											d += k
											continue
										}
									}
									d += 100
								} else if k, isK := constNum(bo.Y); isK {
									d += k
								} else {
									d += 100
								}
							}
						}
					}
				}
				end := func(where string) {
					want := int64(1)
					if s.lf == 1 {
						want = 2
						sawLF = true
					}
					if d != want {
						lfTxt := "is not a line feed (or is not looked at)"
						if s.lf == 1 {
							lfTxt = "is a line feed"
						}
						bad = fmt.Sprintf("on a path to the %s on which the byte after the carriage return %s, the byte cursor has advanced by %d instead of %d", where, lfTxt, d, want)
					}
				}
				if _, isRet := s.b.Instrs[len(s.b.Instrs)-1].(*ssa.Return); isRet {
					end("return")
					return
				}
				if ifi, ok := s.b.Instrs[len(s.b.Instrs)-1].(*ssa.If); ok && len(s.b.Succs) == 2 {
					// a comparison of a byte of the input with '\n'
					cd := normCond(Cond{V: ifi.Cond, True: true})
					if bo, ok := cd.V.(*ssa.BinOp); ok && (bo.Op == token.EQL || bo.Op == token.NEQ) {
						var other ssa.Value
						if k, isK := constNum(bo.Y); isK && k == '\n' {
							other = bo.X
						} else if k, isK := constNum(bo.X); isK && k == '\n' {
							other = bo.Y
						}
						if other != nil {
							if oi, isI := stripChange(other).(ssa.Instruction); isI {
								if _, v, isIdx := strIndex(oi); isIdx && isByteVal(v) && !sameScrutinee(other, scrV) {
									for i, sc := range s.b.Succs {
										taken := (i == 0) == cd.True
										isLF := (bo.Op == token.EQL) == taken
										ns := pst{sc, d, 0}
										if isLF {
											ns.lf = 1
										}
										if isHeader[sc] {
											s2 := s
											s2.lf = ns.lf
											s = s2
											end("next iteration")
											continue
										}
										walk(ns, s.b)
									}
									return
								}
							}
						}
					}
				}
				for _, sc := range s.b.Succs {
					if isHeader[sc] {
						end("next iteration")
						continue
					}
					walk(pst{sc, d, s.lf}, s.b)
				}
			}
			walk(pst{b, 0, -1}, nil)
			site := fmt.Sprintf("carriage-return branch at %s in %s", p.Pos(lastPos(b)), p.FuncName(fn))
			switch {
			case bad != "":
				r.Fail(lastPos(b), p.FuncName(fn), "CR LF is not consumed as one line terminator", bad+": a CRLF pair is either counted as two line terminators (every later line number is one too high) or half of it is left for the next token")
			case !sawLF:
				r.Fail(lastPos(b), p.FuncName(fn), "the byte after a carriage return is never compared with LF", "a line is counted for the carriage return and nothing looks for a line feed after it: the LF of a CRLF pair is seen on the next iteration and counted as another line")
			default:
				r.OK(site, "CR advances by one, CR LF by two, before the next iteration")
			}
		}
	}
	if n == 0 {
		r.AnchorLost("a carriage-return branch that counts a line in the lexer")
	}
}
