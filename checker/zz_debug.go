package main

import (
	"fmt"
	"os"
	"strings"

	"golang.org/x/tools/go/ssa"
)

func init() {
	debugHooks = append(debugHooks, func(c *Ctx) {
		p := c.P
		if os.Getenv("GQLVET_GLOBALS") == "" {
			return
		}
		for _, fn := range p.Funcs() {
			if !p.inModule(fn) {
				continue
			}
			allInstrs(fn, func(in ssa.Instruction) {
				for _, op := range in.Operands(nil) {
					if g, ok := (*op).(*ssa.Global); ok && g.Pkg != nil && strings.HasPrefix(g.Pkg.Pkg.Path(), modPath) {
						fmt.Printf("%s: %s uses global %s in %T\n", p.Pos(in.Pos()), p.FuncName(fn), g.Name(), in)
					}
				}
			})
		}
	})
}
