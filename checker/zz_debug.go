package main

import (
	"fmt"
	"os"
	"sort"
	"strings"

	"golang.org/x/tools/go/ssa"
)

func init() {
	debugHooks = append(debugHooks, func(c *Ctx) {
		if os.Getenv("GQLVET_DEBUG") != "exits" {
			return
		}
		p := c.P
		var fns []*ssa.Function
		for fn := range loaderOnly(p) {
			fns = append(fns, fn)
		}
		sort.Slice(fns, func(i, j int) bool { return fns[i].Name() < fns[j].Name() })
		for _, fn := range fns {
			for _, b := range fn.Blocks {
				ifi, ok := b.Instrs[len(b.Instrs)-1].(*ssa.If)
				if !ok {
					continue
				}
				cls := ""
				for _, sc := range b.Succs {
					if failOnly(sc) {
						cls = "check"
					}
				}
				fmt.Printf("IF %s %s cls=%s cond=%s\n", fn.Name(), p.Pos(ifi.Cond.Pos()), cls, guardDesc(Cond{V: ifi.Cond, True: true}))
			}
			rets := returnsOf(fn)
			for _, ret := range rets {
				if isFailureReturn(ret) {
					continue
				}
				var gs []string
				for _, cd := range condsAt(ret.Block()) {
					gs = append(gs, guardDesc(cd))
				}
				fmt.Printf("EXIT %s %s results=%v guards=[%s]\n", fn.Name(), p.Pos(ret.Pos()), ret.Results, strings.Join(gs, " ; "))
			}
		}
	})
}

