package main
