package main

import (
	"fmt"
	"os"
	"strings"

	"golang.org/x/tools/go/ssa"
)

func init() {
	debugHooks = append(debugHooks, func(c *Ctx) {
		p := c.P
		if os.Getenv("GQLVET_GLOBALS") == "" {
			return
		}
		for _, fn := range p.Funcs() {
			if !p.inModule(fn) {
				continue
			}
			allInstrs(fn, func(in ssa.Instruction) {
				for _, op := range in.Operands(nil) {
					if g, ok := (*op).(*ssa.Global); ok && g.Pkg != nil && strings.HasPrefix(g.Pkg.Pkg.Path(), modPath) {
						fmt.Printf("%s: %s uses global %s in %T\n", p.Pos(in.Pos()), p.FuncName(fn), g.Name(), in)
					}
				}
			})
		}
	})
}

func init() {
	debugHooks = append(debugHooks, func(c *Ctx) {
		if os.Getenv("GQLVET_SD") == "" {
			return
		}
		p := c.P
		sd := newStackDisc(p)
		for _, name := range []string{"validator.VariableValues", "validator.(*varValidator).validateVarType"} {
			fn := p.Func(name)
			if fn == nil {
				continue
			}
			cell := stackCell{st: "varValidator", fld: "path"}
			r := sd.heights(fn, cell)
			fmt.Println(name, "balanced", r.balanced, r.why, "mayWrite", sd.mayWrite(fn, cell))
			allInstrs(fn, func(in ssa.Instruction) {
				if sl, ok := in.(*ssa.Slice); ok {
					if _, ok := asPopSite(sl); ok {
						fmt.Println("  pop site", p.Pos(sl.Pos()), r.at[sl])
					}
				}
				if st, ok := in.(*ssa.Store); ok {
					if cc, ok := cellOfAddr(st.Addr); ok && cc == cell {
						fmt.Println("  store", p.Pos(st.Pos()), "height before", r.at[st], st.Val)
					}
				}
			})
		}
	})
}
