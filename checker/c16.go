package main

import (
	"fmt"
	"go/token"
	"go/types"
	"math"
	"sort"
	"strings"

	"golang.org/x/tools/go/ssa"
)

func init() {
	register("C16", "Token limit: (R1) tokens are consumed at a single point — ReadToken is called only by the look-ahead and the advance function, the current token and the look-ahead flag are rewritten only by the advance function (or a helper called only from it), and the counter has one store, +1, dominating every consumption; (R2) exactness — along every path of the advance function the branch conditions over (count, limit) imply `limit = 0 or count <= limit` at each consumption and `limit != 0 and count >= limit+1` at the limit error (interval reasoning over d = count-limit and limit), and every return follows a consumption or an error; (R3) each limited entry point stores its limit parameter into every parser it creates, forwards it to every entry point it calls, and a parser is pointed at a source only when freshly created; (R4) each limited entry point agrees with its unlimited twin on callees and stored fields; (R5) recursion depth of the parser is bounded by consumed tokens (shared with C01.R6). (R6) no branch outside the advance function and its private helpers reads the token counter or the limit. (R7) no consuming call is asked for the end-of-input kind. (R8) no entry point drops an error it has obtained.", runC16)
}

// lin is a*count_after + b*limit + k.
type lin struct {
	a, b, k int64
	ok      bool
}

type c16 struct {
	m        *parserModel
	incStore *ssa.Store
}

// linOf evaluates v as a linear form over the advanced token count and the limit.
func (x *c16) linOf(v ssa.Value, depth int) lin {
	if depth > 10 {
		return lin{}
	}
	if k, ok := constInt(v); ok {
		return lin{0, 0, k, true}
	}
	if x.m.load(v, "maxTokenLimit") {
		return lin{0, 1, 0, true}
	}
	if x.m.load(v, "tokenCount") {
		ld := v.(ssa.Instruction)
		if x.incStore == nil {
			return lin{}
		}
		if dominatesInstr(x.incStore, ld) {
			return lin{1, 0, 0, true}
		}
		if dominatesInstr(ld, x.incStore) {
			return lin{1, 0, -1, true}
		}
		return lin{}
	}
	switch b := v.(type) {
	case *ssa.BinOp:
		l, r := x.linOf(b.X, depth+1), x.linOf(b.Y, depth+1)
		if !l.ok || !r.ok {
			return lin{}
		}
		switch b.Op {
		case token.ADD:
			return lin{l.a + r.a, l.b + r.b, l.k + r.k, true}
		case token.SUB:
			return lin{l.a - r.a, l.b - r.b, l.k - r.k, true}
		}
	case *ssa.Convert:
		return x.linOf(b.X, depth+1)
	case *ssa.ChangeType:
		return x.linOf(b.X, depth+1)
	}
	return lin{}
}

// ivl is an integer interval with optional excluded point.
type ivl struct {
	lo, hi int64
	ne     []int64
}

func fullIvl() ivl { return ivl{math.MinInt64 / 4, math.MaxInt64 / 4, nil} }
func (i ivl) empty() bool {
	if i.lo > i.hi {
		return true
	}
	if i.lo == i.hi {
		for _, n := range i.ne {
			if n == i.lo {
				return true
			}
		}
	}
	// shrink by excluded endpoints
	lo, hi := i.lo, i.hi
	changed := true
	for changed {
		changed = false
		for _, n := range i.ne {
			if n == lo {
				lo++
				changed = true
			}
			if n == hi {
				hi--
				changed = true
			}
		}
		if lo > hi {
			return true
		}
	}
	return false
}

// constrain applies `x OP 0` where x = v + k (v is the variable).
func (i ivl) constrain(op token.Token, k int64, truth bool) ivl {
	if !truth {
		switch op {
		case token.LSS:
			op = token.GEQ
		case token.LEQ:
			op = token.GTR
		case token.GTR:
			op = token.LEQ
		case token.GEQ:
			op = token.LSS
		case token.EQL:
			op = token.NEQ
		case token.NEQ:
			op = token.EQL
		}
	}
	// v + k OP 0  <=>  v OP -k
	c := -k
	switch op {
	case token.LSS:
		if c-1 < i.hi {
			i.hi = c - 1
		}
	case token.LEQ:
		if c < i.hi {
			i.hi = c
		}
	case token.GTR:
		if c+1 > i.lo {
			i.lo = c + 1
		}
	case token.GEQ:
		if c > i.lo {
			i.lo = c
		}
	case token.EQL:
		if c > i.lo {
			i.lo = c
		}
		if c < i.hi {
			i.hi = c
		}
	case token.NEQ:
		i.ne = append(append([]int64{}, i.ne...), c)
	}
	return i
}

type pathState struct {
	d, l ivl
	und  string // first undecidable condition met
}

func negOp(op token.Token) token.Token {
	switch op {
	case token.LSS:
		return token.GTR
	case token.LEQ:
		return token.GEQ
	case token.GTR:
		return token.LSS
	case token.GEQ:
		return token.LEQ
	}
	return op
}

// applyCond refines the state with branch condition cond==truth.
func (x *c16) applyCond(s pathState, cond ssa.Value, truth bool) pathState {
	c := normCond(Cond{V: cond, True: truth})
	b, ok := c.V.(*ssa.BinOp)
	if !ok {
		if x.m.mentions(c.V, "tokenCount", 0) || x.m.mentions(c.V, "maxTokenLimit", 0) {
			s.und = "condition over the count/limit that is not a comparison"
		}
		return s
	}
	switch b.Op {
	case token.LSS, token.LEQ, token.GTR, token.GEQ, token.EQL, token.NEQ:
	default:
		return s
	}
	involves := x.m.mentions(b, "tokenCount", 0) || x.m.mentions(b, "maxTokenLimit", 0)
	if !involves {
		return s
	}
	l, r := x.linOf(b.X, 0), x.linOf(b.Y, 0)
	if !l.ok || !r.ok {
		s.und = "comparison over the count/limit that is not linear"
		return s
	}
	e := lin{l.a - r.a, l.b - r.b, l.k - r.k, true}
	op := b.Op
	// normalise sign so that the variable has coefficient +1
	switch {
	case e.a == 1 && e.b == -1: // d + k OP 0
		s.d = s.d.constrain(op, e.k, c.True)
	case e.a == -1 && e.b == 1: // -d + k OP 0  <=>  d - k negOP 0
		s.d = s.d.constrain(negOp(op), -e.k, c.True)
	case e.a == 0 && e.b == 1:
		s.l = s.l.constrain(op, e.k, c.True)
	case e.a == 0 && e.b == -1:
		s.l = s.l.constrain(negOp(op), -e.k, c.True)
	case e.a == 0 && e.b == 0:
		// constant condition: nothing
	default:
		s.und = fmt.Sprintf("comparison %d*count%+d*limit%+d is outside the supported forms (count-limit, limit)", e.a, e.b, e.k)
	}
	return s
}

func runC16(c *Ctx) {
	p := c.P
	m := newParserModel(p)
	r1 := c.Rule("R1", "single advance point: ReadToken callers, writers of prev/peeked/tokenCount", 8)
	for _, l := range m.lost {
		r1.AnchorLost(l)
	}
	if len(m.lost) > 0 {
		return
	}
	x := &c16{m: m}
	nextName := p.FuncName(m.next)

	// --- R1a: who calls ReadToken
	for _, ci := range callsTo(m.fns, m.read) {
		fn := ci.Parent()
		if fn == m.next || fn == m.peek {
			r1.OK("ReadToken call in "+p.FuncName(fn), "look-ahead or advance function")
		} else {
			r1.Fail(ci.Pos(), p.FuncName(fn), "call lexer.ReadToken", "the lexer is read outside the look-ahead/advance functions: tokens obtained here are neither counted nor limited")
		}
	}
	// --- R1b: the counter has one store, +1
	if len(m.countSt) != 1 {
		for _, s := range m.countSt {
			r1.Fail(s.store.Pos(), p.FuncName(s.fn), "store parser.tokenCount", fmt.Sprintf("the token counter is written at %d places; exactly one (+1 in the advance function) is expected", len(m.countSt)))
		}
		if len(m.countSt) == 0 {
			r1.AnchorLost("store to parser.tokenCount")
		}
	} else {
		s := m.countSt[0]
		okInc := false
		if b, ok := s.store.Val.(*ssa.BinOp); ok && b.Op == token.ADD {
			if k, ok := constInt(b.Y); ok && k == 1 && m.load(b.X, "tokenCount") {
				okInc = true
			}
			if k, ok := constInt(b.X); ok && k == 1 && m.load(b.Y, "tokenCount") {
				okInc = true
			}
		}
		if okInc {
			x.incStore = s.store
			r1.OK("tokenCount = tokenCount + 1 in "+p.FuncName(s.fn), "the only store to the counter")
		} else {
			r1.Fail(s.store.Pos(), p.FuncName(s.fn), "store parser.tokenCount", "the only store to the token counter is not an increment by one")
		}
	}
	// --- R1c: writers of prev and of peeked=false
	type site struct {
		in   ssa.Instruction
		what string
	}
	var consumption []site // consumption sites inside NEXT (stores or calls of helpers)
	helperUsed := map[*ssa.Function]bool{}
	checkWriter := func(s fieldStoreSite, what string) {
		fn := s.fn
		if fn == m.next {
			consumption = append(consumption, site{s.store, what})
			r1.OK(what+" in "+nextName, "advance function")
			return
		}
		// a helper is accepted when every call site is in NEXT
		if fn.Parent() == nil {
			calls := callsTo(m.fns, fn)
			all := len(calls) > 0
			var outside []string
			for _, ci := range calls {
				if ci.Parent() != m.next {
					all = false
					outside = append(outside, p.FuncName(ci.Parent()))
				}
			}
			if len(outside) > 0 {
				sort.Strings(outside)
				r1.Fail(s.store.Pos(), p.FuncName(fn), what+" outside the advance function", fmt.Sprintf("%s consumes a token (%s) and is called outside %s (from %s): the token is neither counted nor checked against the limit", p.FuncName(fn), what, nextName, strings.Join(dedupe(outside), ", ")))
			}
			// referenced as a value?
			if all {
				if !helperUsed[fn] {
					helperUsed[fn] = true
					for _, ci := range calls {
						consumption = append(consumption, site{ci, "call " + p.FuncName(fn)})
					}
				}
				r1.OK(what+" in helper "+p.FuncName(fn), "called only from the advance function")
			}
			return
		}
		r1.Fail(s.store.Pos(), p.FuncName(fn), what, fmt.Sprintf("%s outside %s: a token is consumed without being counted or checked against the limit", what, nextName))
	}
	for _, s := range storesToField(m.fns, m.T, "prev") {
		checkWriter(s, "store parser.prev")
	}
	// the look-ahead function, or a helper all of whose call sites are in it
	inPeek := func(fn *ssa.Function) bool {
		if fn == m.peek {
			return true
		}
		if fn.Parent() != nil {
			return false
		}
		calls := callsTo(m.fns, fn)
		for _, ci := range calls {
			if ci.Parent() != m.peek {
				return false
			}
		}
		return len(calls) > 0
	}
	for _, s := range m.stores("peeked") {
		if inPeek(s.fn) {
			if cst, ok := s.store.Val.(*ssa.Const); ok && cst.Value != nil && cst.Value.String() == "true" {
				r1.OK("store parser.peeked=true in "+p.FuncName(s.fn), "look-ahead function")
				continue
			}
		}
		checkWriter(s, "store parser.peeked")
	}
	// peekToken only in PEEK
	for _, s := range m.stores("peekToken") {
		if !inPeek(s.fn) {
			r1.Fail(s.store.Pos(), p.FuncName(s.fn), "store parser.peekToken", "the look-ahead slot is filled outside the look-ahead function")
		}
	}
	// the increment dominates every consumption
	if x.incStore != nil {
		for _, cs := range consumption {
			if dominatesInstr(x.incStore, cs.in) {
				r1.OK("increment dominates "+cs.what, "")
			} else {
				r1.Fail(cs.in.Pos(), nextName, cs.what+" not dominated by the increment", "a path consumes a token without counting it")
			}
		}
	}

	// --- R2 exactness
	r2 := c.Rule("R2", "exactness of the limit along every path of the advance function", 4)
	c.Assume("limits are non-negative (the behaviour for a negative limit is not specified by the property)")
	if x.incStore != nil {
		fn := m.next
		// error sites: stores to parser.err of a freshly built error
		var errSites []ssa.Instruction
		for _, s := range storesToField([]*ssa.Function{fn}, m.T, "err") {
			if _, ok := s.store.Val.(*ssa.Call); ok {
				errSites = append(errSites, s.store)
			}
		}
		isCons := map[ssa.Instruction]bool{}
		for _, cs := range consumption {
			if cs.in.Parent() == fn {
				isCons[cs.in] = true
			}
		}
		isErr := map[ssa.Instruction]bool{}
		for _, e := range errSites {
			isErr[e] = true
		}
		if hasAnyLoop(fn) {
			r2.Undecided(fn.Pos(), nextName, "loop in advance function", "the advance function contains a loop; the path enumeration of R2 requires an acyclic body")
		} else {
			start := pathState{d: fullIvl(), l: fullIvl()}
			start.l = start.l.constrain(token.GEQ, 0, true) // assumption L >= 0
			npaths := 0
			var walk func(b *ssa.BasicBlock, st pathState)
			walk = func(b *ssa.BasicBlock, st pathState) {
				if npaths > 20000 {
					return
				}
				for _, in := range b.Instrs {
					if isCons[in] {
						what := "consumption at " + p.Pos(in.Pos())
						if st.und != "" {
							r2.Undecided(in.Pos(), nextName, "path to consumption", st.und)
						} else {
							bad := st
							bad.l = bad.l.constrain(token.NEQ, 0, true)
							bad.d = bad.d.constrain(token.GEQ, -1, true) // d - 1 >= 0
							if !bad.l.empty() && !bad.d.empty() {
								r2.Fail(in.Pos(), nextName, "consumption possible with limit != 0 and count > limit", fmt.Sprintf("a path consumes a token although limit != 0 and count-limit may be in [%d,%d]: more than `limit` tokens can be consumed", bad.d.lo, minI(bad.d.hi, 1<<40)))
							} else {
								r2.OK(what, "path conditions exclude (limit != 0 and count > limit)")
							}
						}
					}
					if isErr[in] {
						what := "limit error at " + p.Pos(in.Pos())
						if st.und != "" {
							r2.Undecided(in.Pos(), nextName, "path to limit error", st.und)
						} else {
							b1 := st
							b1.l = b1.l.constrain(token.EQL, 0, true)
							b2 := st
							b2.d = b2.d.constrain(token.LEQ, 0, true)
							switch {
							case !b1.l.empty() && !b1.d.empty():
								r2.Fail(in.Pos(), nextName, "limit error possible with limit == 0", "a path reports the token-limit error although the limit is 0 (unlimited)")
							case !b2.l.empty() && !b2.d.empty():
								r2.Fail(in.Pos(), nextName, "limit error possible with count <= limit", fmt.Sprintf("a path reports the token-limit error although count-limit may be in [%d,%d]: an input with at most `limit` tokens is rejected", maxI(b2.d.lo, -(1<<40)), b2.d.hi))
							default:
								r2.OK(what, "path conditions imply limit != 0 and count >= limit+1")
							}
						}
					}
				}
				if len(b.Succs) == 0 {
					npaths++
					return
				}
				if ifi, ok := b.Instrs[len(b.Instrs)-1].(*ssa.If); ok {
					walk(b.Succs[0], x.applyCond(st, ifi.Cond, true))
					walk(b.Succs[1], x.applyCond(st, ifi.Cond, false))
					return
				}
				for _, s := range b.Succs {
					walk(s, st)
				}
			}
			walk(fn.Blocks[0], start)
			c.Extra["c16_paths_enumerated"] = npaths
			if len(errSites) == 0 {
				r2.AnchorLost("the store of the token-limit error in " + nextName)
			}
			// every return follows a consumption, an error, or the sticky-error entry guard
			for _, ret := range returnsOf(fn) {
				if onlyViaErrGuard(m, fn, ret, isCons, isErr) {
					r2.OK("return at "+p.Pos(ret.Pos())+" follows a consumption, an error or the sticky-error guard", "")
				} else {
					r2.Fail(ret.Pos(), nextName, "return without consumption or error", "the advance function can return without consuming a token and without recording an error: callers that loop on it would not make progress")
				}
			}
		}
	}

	// --- R3 the limit reaches the parser
	r3 := c.Rule("R3", "the limit parameter reaches every parser created and every entry point called; one parser per source", 6)
	isEP := map[*ssa.Function]bool{}
	for _, f := range m.eps {
		isEP[f] = true
	}
	for _, fn := range m.eps {
		ip := intParam(fn)
		if ip == -2 {
			r3.Undecided(fn.Pos(), p.FuncName(fn), "several int parameters", "cannot tell which parameter is the limit")
			continue
		}
		allInstrs(fn, func(in ssa.Instruction) {
			switch v := in.(type) {
			case *ssa.Alloc:
				if !sameNamed(namedOf(v.Type()), m.T) {
					return
				}
				if ip < 0 {
					// unlimited entry point: maxTokenLimit must stay 0
					for _, st := range fieldStores(v, "maxTokenLimit") {
						if k, ok := constInt(st); !ok || k != 0 {
							r3.Fail(v.Pos(), p.FuncName(fn), "parser.maxTokenLimit in unlimited entry point", "an unlimited entry point sets a non-zero limit")
							return
						}
					}
					r3.OK(p.FuncName(fn)+": parser created without limit", "")
					return
				}
				sts := fieldStores(v, "maxTokenLimit")
				if len(sts) == 1 && sts[0] == ssa.Value(fn.Params[ip]) {
					r3.OK(p.FuncName(fn)+": parser.maxTokenLimit = "+fn.Params[ip].Name(), "")
				} else {
					r3.Fail(v.Pos(), p.FuncName(fn), "parser created without the limit parameter", fmt.Sprintf("the parser created here does not receive parameter %s as its token limit", fn.Params[ip].Name()))
				}
			case ssa.CallInstruction:
				callee := v.Common().StaticCallee()
				if callee == nil || !isEP[callee] {
					return
				}
				cip := intParam(callee)
				if ip < 0 {
					if cip >= 0 {
						if k, ok := constInt(v.Common().Args[cip]); ok && k == 0 {
							r3.OK(p.FuncName(fn)+" delegates to "+p.FuncName(callee)+" with limit 0", "")
						} else {
							r3.Fail(v.Pos(), p.FuncName(fn), "call "+p.FuncName(callee), "an unlimited entry point calls a limited one with a limit that is not the constant 0")
						}
					} else {
						r3.OK(p.FuncName(fn)+" calls "+p.FuncName(callee), "both unlimited")
					}
					return
				}
				if cip < 0 {
					r3.Fail(v.Pos(), p.FuncName(fn), "call "+p.FuncName(callee), fmt.Sprintf("the limited entry point %s parses through the unlimited %s: the limit is dropped for this source", p.FuncName(fn), p.FuncName(callee)))
					return
				}
				if v.Common().Args[cip] == ssa.Value(fn.Params[ip]) {
					r3.OK(p.FuncName(fn)+" forwards "+fn.Params[ip].Name()+" to "+p.FuncName(callee), "")
				} else {
					r3.Fail(v.Pos(), p.FuncName(fn), "call "+p.FuncName(callee), "the limit passed on is not this entry point's limit parameter")
				}
			}
		})
	}
	// methods on *parser that set the limit after construction are fine (SetMaxTokenLimit); but a parser
	// must be pointed at a source only at creation: stores to parser.lexer go to a fresh local allocation.
	for _, s := range storesToField(m.fns, m.T, "lexer") {
		base := s.addr.X
		if a, ok := base.(*ssa.Alloc); ok && sameNamed(namedOf(a.Type()), m.T) {
			// allocation and store in the same loop context
			_, bodies := loopsOf(s.fn)
			same := true
			for _, bd := range bodies {
				if bd[s.store.Block()] != bd[a.Block()] {
					same = false
				}
			}
			if same {
				r3.OK(p.FuncName(s.fn)+": lexer set on a fresh parser", "")
				continue
			}
		}
		r3.Fail(s.store.Pos(), p.FuncName(s.fn), "store parser.lexer on an existing parser", "a parser is re-pointed at another source: its token count (and sticky state) carries over, so the limit is no longer per source")
	}
	for _, s := range storesToField(m.fns, m.T, "maxTokenLimit") {
		if _, ok := s.addr.X.(*ssa.Alloc); ok {
			continue
		}
		// a setter: accepted if it is a method whose only effect is this store
		if s.fn.Signature.Recv() != nil && len(s.fn.Blocks) == 1 {
			r3.OK("setter "+p.FuncName(s.fn), "stores its parameter")
			continue
		}
		r3.Fail(s.store.Pos(), p.FuncName(s.fn), "store parser.maxTokenLimit", "the limit is changed after construction")
	}

	// --- R4 twins
	r4 := c.Rule("R4", "limited and unlimited entry points agree", 3)
	sigKey := func(fn *ssa.Function) string {
		var ps []string
		for i, prm := range fn.Params {
			if i == intParam(fn) {
				continue
			}
			ps = append(ps, types.TypeString(prm.Type(), nil))
		}
		return strings.Join(ps, ",") + "->" + types.TypeString(fn.Signature.Results().At(0).Type(), nil)
	}
	byKey := map[string][]*ssa.Function{}
	for _, fn := range m.eps {
		byKey[sigKey(fn)] = append(byKey[sigKey(fn)], fn)
	}
	var keys []string
	for k := range byKey {
		keys = append(keys, k)
	}
	sort.Strings(keys)
	twinOf := map[*ssa.Function]*ssa.Function{}
	for _, k := range keys {
		fs := byKey[k]
		if len(fs) == 2 && (intParam(fs[0]) < 0) != (intParam(fs[1]) < 0) {
			a, b := fs[0], fs[1]
			if intParam(a) >= 0 {
				a, b = b, a
			}
			twinOf[b] = a
			twinOf[a] = b
		}
	}
	for _, k := range keys {
		fs := byKey[k]
		if len(fs) != 2 || twinOf[fs[0]] == nil {
			for _, f := range fs {
				if intParam(f) >= 0 {
					r4.Undecided(f.Pos(), p.FuncName(f), "no unlimited twin", "limited entry point without an unlimited twin of the same signature")
				}
			}
			continue
		}
		unl, lim := fs[0], fs[1]
		if intParam(unl) >= 0 {
			unl, lim = lim, unl
		}
		// delegation: unlimited body is a single call of the twin
		if delegates(unl, lim) || delegates(lim, unl) {
			r4.OK(p.FuncName(unl)+" ~ "+p.FuncName(lim), "one delegates to the other")
			continue
		}
		sa, sb := epSummary(p, m, unl, twinOf), epSummary(p, m, lim, twinOf)
		var diff []string
		for k := range sa {
			if !sb[k] {
				diff = append(diff, "only in "+p.FuncName(unl)+": "+k)
			}
		}
		for k := range sb {
			if !sa[k] {
				diff = append(diff, "only in "+p.FuncName(lim)+": "+k)
			}
		}
		sort.Strings(diff)
		if len(diff) == 0 {
			r4.OK(p.FuncName(unl)+" ~ "+p.FuncName(lim), fmt.Sprintf("%d callees/stores agree", len(sa)))
		} else {
			r4.Fail(lim.Pos(), p.FuncName(lim), "differs from "+p.FuncName(unl)+": "+strings.Join(diff, "; "), "the limited entry point and its unlimited twin do different things besides the limit: "+strings.Join(diff, "; "))
		}
	}

	// --- R5 recursion bounded by consumption (shared with C01.R6)
	r5 := c.Rule("R5", "parser recursion is bounded by consumed tokens (C01.R6)", 3)
	parserRecursion(c, r5, m)

	// --- R6 no decision outside the advance function depends on the counter or on the limit
	r6 := c.Rule("R6", "no branch outside the advance function reads the token counter or the limit", 1)
	nextOnly := map[*ssa.Function]bool{m.next: true}
	for changed := true; changed; {
		changed = false
		for _, fn := range m.fns {
			if nextOnly[fn] || fn.Parent() != nil {
				continue
			}
			calls := callsTo(m.fns, fn)
			all := len(calls) > 0
			for _, ci := range calls {
				all = all && nextOnly[ci.Parent()]
			}
			if all {
				nextOnly[fn], changed = true, true
			}
		}
	}
	inNext, outside := 0, 0
	for _, fn := range m.fns {
		allInstrs(fn, func(in ssa.Instruction) {
			fa, ok := in.(*ssa.FieldAddr)
			if !ok {
				return
			}
			n, name, _, _ := fieldOf(fa)
			if n == nil || !sameNamed(n, m.T) || (name != "tokenCount" && name != "maxTokenLimit") {
				return
			}
			// does a load of it reach a branch?
			seen := map[ssa.Value]bool{}
			var work []ssa.Value
			for _, ref := range *fa.Referrers() {
				if u, ok := ref.(*ssa.UnOp); ok && u.Op == token.MUL {
					work = append(work, u)
				}
			}
			var br ssa.Instruction
			for len(work) > 0 && br == nil {
				v := work[len(work)-1]
				work = work[:len(work)-1]
				if seen[v] {
					continue
				}
				seen[v] = true
				for _, ref := range *v.Referrers() {
					switch x := ref.(type) {
					case *ssa.If:
						br = x
					case *ssa.BinOp:
						work = append(work, x)
					case *ssa.UnOp:
						work = append(work, x)
					case *ssa.Phi:
						work = append(work, x)
					case *ssa.Convert:
						work = append(work, x)
					case *ssa.ChangeType:
						work = append(work, x)
					}
				}
			}
			if br == nil {
				return
			}
			root := fn
			for root.Parent() != nil {
				root = root.Parent()
			}
			if nextOnly[root] {
				inNext++
				return
			}
			outside++
			r6.Fail(fa.Pos(), p.FuncName(fn), "branch on parser."+name+" outside the advance function", fmt.Sprintf("%s decides on parser.%s; the limit verdict must be a function of the number of tokens consumed alone, taken where they are consumed (%s): a second decision point makes the outcome depend on look-ahead state", p.FuncName(fn), name, nextName))
		})
	}
	// --- R7 the end-of-input marker is never consumed: it is not a token of the input and must not be counted
	r7 := c.Rule("R7", "no consuming call is asked for the end-of-input kind", 1)
	{
		f := newParserFlow(m)
		eof := eofKind(p)
		n, nbad := 0, 0
		for _, fn := range m.fns {
			allInstrs(fn, func(in ssa.Instruction) {
				ci, ok := in.(ssa.CallInstruction)
				if !ok {
					return
				}
				g := ci.Common().StaticCallee()
				if g == nil || !f.mayConsume[g] {
					return
				}
				for _, a := range ci.Common().Args {
					if nm := namedOf(a.Type()); nm == nil || nm.Obj().Name() != "Type" || nm.Obj().Pkg() == nil || nm.Obj().Pkg().Name() != "lexer" {
						continue
					}
					n++
					if k, isC := constInt(a); isC && k == eof {
						nbad++
						r7.Fail(ci.Pos(), p.FuncName(fn), "consuming call "+g.Name()+"(EOF)", fmt.Sprintf("%s is asked to consume the end-of-input marker: it goes through %s, is counted as a token and checked against the limit, so an input with exactly `limit` tokens is rejected by this grammar", g.Name(), nextName))
					}
				}
			})
		}
		if n < 20 {
			r7.AnchorLost(fmt.Sprintf("calls of consuming functions with a token kind argument (%d found, at least 20 expected)", n))
		} else if nbad == 0 {
			r7.OK(fmt.Sprintf("%d consuming calls with a token kind argument", n), "none asks for EOF; the grammars stop at EOF by looking at it only")
		}
	}
	r8 := c.Rule("R8", "no entry point drops an error it has obtained", 4)
	parserErrorsNotDropped(c, r8, m)
	// --- R9 once the limit has tripped (an error is recorded and nothing is consumed any more) every loop leaves: the work
	// done after the limit is bounded (shared with C01.R4 / R5)
	r9 := c.Rule("R9", "every parser loop leaves when an error is recorded; every iteration consumes or fails (C01.R4/R5)", 20)
	{
		fl := newParserFlow(m)
		c01LoopsLeave(c, r9, m, fl)
		c01Progress(c, r9, m, fl)
	}
	if inNext == 0 {
		r6.AnchorLost("a branch on the counter or the limit in the advance function")
	} else if outside == 0 {
		r6.OK(fmt.Sprintf("%d reads of the counter/limit feed branches, all in %s or helpers called only from it", inNext, nextName), fmt.Sprintf("%d parser functions scanned", len(m.fns)))
	}
}

func minI(a, b int64) int64 {
	if a < b {
		return a
	}
	return b
}
func maxI(a, b int64) int64 {
	if a > b {
		return a
	}
	return b
}

func hasAnyLoop(fn *ssa.Function) bool {
	for _, b := range fn.Blocks {
		for _, s := range b.Succs {
			if s == b || reachAvoiding(s, nil, nil)[b] {
				return true
			}
		}
	}
	return false
}

// onlyViaErrGuard: every consumption/error-free path from entry to ret passes the true edge of `p.err != nil`.
func onlyViaErrGuard(m *parserModel, fn *ssa.Function, ret *ssa.Return, isCons, isErr map[ssa.Instruction]bool) bool {
	blockedEdge := func(from, to *ssa.BasicBlock) bool {
		ifi, ok := from.Instrs[len(from.Instrs)-1].(*ssa.If)
		if !ok {
			return false
		}
		c := normCond(Cond{V: ifi.Cond, True: true})
		b, ok := c.V.(*ssa.BinOp)
		if !ok {
			return false
		}
		isErrTest := (m.load(b.X, "err") && isNilConst(b.Y)) || (m.load(b.Y, "err") && isNilConst(b.X))
		if !isErrTest {
			return false
		}
		// which successor is "err != nil"?
		neTrue := (b.Op == token.NEQ) == c.True
		if neTrue {
			return to == from.Succs[0]
		}
		return to == from.Succs[1]
	}
	blockedBlock := func(b *ssa.BasicBlock) bool { return false }
	// instruction-level stop: approximate by blocking blocks that contain a consumption/error before... we need
	// instruction granularity: treat a block containing a cons/err instruction as blocked unless ret is in that block before it.
	blockedBlock = func(b *ssa.BasicBlock) bool {
		for _, in := range b.Instrs {
			if in == ssa.Instruction(ret) {
				return false
			}
			if isCons[in] || isErr[in] {
				return true
			}
		}
		return false
	}
	r := reachAvoiding(fn.Blocks[0], blockedBlock, blockedEdge)
	return !r[ret.Block()]
}

// delegates: a's body consists of one call to b whose result it returns.
func delegates(a, b *ssa.Function) bool {
	if len(a.Blocks) != 1 {
		return false
	}
	n := 0
	ok := false
	for _, in := range a.Blocks[0].Instrs {
		if ci, isCall := in.(ssa.CallInstruction); isCall {
			n++
			if ci.Common().StaticCallee() == b {
				ok = true
			}
		}
	}
	return ok && n == 1
}

// epSummary: callees (twins mapped to the unlimited name) and stored fields of an entry point.
func epSummary(p *Program, m *parserModel, fn *ssa.Function, twinOf map[*ssa.Function]*ssa.Function) map[string]bool {
	out := map[string]bool{}
	for _, f := range withClosures(fn) {
		allInstrs(f, func(in ssa.Instruction) {
			switch v := in.(type) {
			case ssa.CallInstruction:
				callee := v.Common().StaticCallee()
				if callee == nil {
					if v.Common().IsInvoke() {
						out["invoke "+v.Common().Method.Name()] = true
					}
					return
				}
				if t := twinOf[callee]; t != nil && intParam(callee) >= 0 {
					callee = t
				}
				out["call "+p.FuncName(callee)] = true
			case *ssa.Store:
				if fa, ok := v.Addr.(*ssa.FieldAddr); ok {
					n, f, _, _ := fieldOf(fa)
					if n != nil && !(sameNamed(n, m.T) && f == "maxTokenLimit") {
						out["store "+n.Obj().Name()+"."+f] = true
					}
				}
			case *ssa.Range:
				out["range"] = true
			}
		})
	}
	return out
}

func dedupe(in []string) []string {
	var out []string
	for i, x := range in {
		if i == 0 || x != in[i-1] {
			out = append(out, x)
		}
	}
	return out
}

// parserErrorsNotDropped (C01.R9, C16.R8): in every entry point of the parser, an error that was obtained — the
// parser's sticky error read after parsing, or the error result of another entry point — reaches the caller: on every
// path from the place it is obtained to a return, it is either what the return hands back, or it has been compared
// with nil and found nil. (A test of the document instead of the error lets a partial document through with a nil
// error.)
func parserErrorsNotDropped(c *Ctx, r *RuleResult, m *parserModel) {
	p := c.P
	isEP := map[*ssa.Function]bool{}
	for _, f := range m.eps {
		isEP[f] = true
	}
	n := 0
	for _, fn := range m.eps {
		var sources []ssa.Value
		allInstrs(fn, func(in ssa.Instruction) {
			switch x := in.(type) {
			case *ssa.UnOp:
				if x.Op == token.MUL && m.fieldAddr(x.X, "err") {
					sources = append(sources, x)
				}
			case *ssa.Extract:
				if call, ok := x.Tuple.(*ssa.Call); ok && isErrorType(x.Type()) {
					if g := call.Call.StaticCallee(); g != nil && p.inModule(g) {
						sources = append(sources, x)
					}
				}
			}
		})
		for _, s := range sources {
			n++
			site := fmt.Sprintf("error obtained at %s in %s", p.Pos(s.Pos()), p.FuncName(fn))
			// values that carry s
			carries := func(v ssa.Value) bool {
				seen := map[ssa.Value]bool{}
				var walk func(v ssa.Value, d int) bool
				walk = func(v ssa.Value, d int) bool {
					if d > 5 || seen[v] {
						return false
					}
					seen[v] = true
					v = unspill(v)
					if v == s {
						return true
					}
					switch y := v.(type) {
					case *ssa.Phi:
						for _, e := range y.Edges {
							if walk(e, d+1) {
								return true
							}
						}
					case *ssa.MakeInterface:
						return walk(y.X, d+1)
					case *ssa.ChangeInterface:
						return walk(y.X, d+1)
					case *ssa.ChangeType:
						return walk(y.X, d+1)
					}
					return false
				}
				return walk(v, 0)
			}
			nilTestOf := func(cond ssa.Value) (isNE bool, ok bool) {
				cd := normCond(Cond{V: cond, True: true})
				bo, isB := cd.V.(*ssa.BinOp)
				if !isB || (bo.Op != token.EQL && bo.Op != token.NEQ) {
					return false, false
				}
				var other ssa.Value
				if isNilConst(bo.Y) {
					other = bo.X
				} else if isNilConst(bo.X) {
					other = bo.Y
				}
				if other == nil || !carries(other) {
					return false, false
				}
				ne := bo.Op == token.NEQ
				if !cd.True {
					ne = !ne
				}
				return ne, true
			}
			var bad *ssa.Return
			seen := map[*ssa.BasicBlock]bool{}
			var walk func(b *ssa.BasicBlock, first bool)
			walk = func(b *ssa.BasicBlock, first bool) {
				if bad != nil || (seen[b] && !first) {
					return
				}
				seen[b] = true
				if ret, ok := b.Instrs[len(b.Instrs)-1].(*ssa.Return); ok {
					okRet := false
					for _, rv := range ret.Results {
						if carries(rv) {
							okRet = true
						}
					}
					if !okRet {
						bad = ret
					}
					return
				}
				if ifi, ok := b.Instrs[len(b.Instrs)-1].(*ssa.If); ok {
					if ne, isTest := nilTestOf(ifi.Cond); isTest {
						// the nil side needs nothing more; the non-nil side goes on
						nonNil := b.Succs[0]
						if !ne {
							nonNil = b.Succs[1]
						}
						walk(nonNil, false)
						return
					}
				}
				for _, sc := range b.Succs {
					walk(sc, false)
				}
			}
			walk(s.(ssa.Instruction).Block(), true)
			if bad != nil {
				r.Fail(bad.Pos(), p.FuncName(fn), "error obtained at "+p.Pos(s.Pos())+" can be dropped", "a path from the place this error is obtained reaches a return that does not hand it back, without the error having been found nil: the caller gets a nil error (and a partial document) for an input that failed")
			} else {
				r.OK(site, "returned, or found nil, on every path to a return")
			}
		}
	}
	if n == 0 {
		r.AnchorLost("reads of the parser's error in the entry points")
	}
}

func isErrorType(t types.Type) bool {
	if n := namedOf(t); n != nil && n.Obj().Name() == "error" && n.Obj().Pkg() == nil {
		return true
	}
	if pt, ok := t.Underlying().(*types.Pointer); ok {
		if n := namedOf(pt.Elem()); n != nil && n.Obj().Name() == "Error" {
			return true
		}
	}
	return types.IsInterface(t) && t.String() == "error"
}
