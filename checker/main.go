// gqlvet: repository-specific static analysis of vektah/gqlparser.
//
//	gqlvet check <Cxx> <quick|thorough>   decide one property on /repo's working tree
//	gqlvet list                           list properties and rules
//	gqlvet funcs                          list analysed functions (debugging aid)
package main

import (
	"fmt"
	"os"
	"runtime/debug"
	"runtime/pprof"
	"sort"
	"time"
)

type propCheck struct {
	explain string
	run     func(c *Ctx)
}

var props = map[string]*propCheck{}

func register(id, explain string, run func(c *Ctx)) {
	props[id] = &propCheck{explain: explain, run: run}
}

func main() {
	if len(os.Args) < 2 {
		usage()
	}
	debug.SetGCPercent(800)
	if pf := os.Getenv("GQLVET_PROF"); pf != "" {
		f, err := os.Create(pf)
		if err == nil {
			_ = pprof.StartCPUProfile(f)
			defer pprof.StopCPUProfile()
		}
	}
	switch os.Args[1] {
	case "list":
		var ids []string
		for id := range props {
			ids = append(ids, id)
		}
		sort.Strings(ids)
		for _, id := range ids {
			fmt.Printf("%s  %s\n", id, props[id].explain)
		}
	case "funcs":
		p, err := Load(repoDir(), "")
		if err != nil {
			fmt.Fprintln(os.Stderr, err)
			os.Exit(2)
		}
		for _, fn := range p.Funcs() {
			fmt.Println(p.FuncName(fn), p.Pos(fn.Pos()))
		}
	case "findings":
		// gqlvet findings <Cxx,Cyy|all>: one load, runs the named checks, prints "FINDING <prop> <kind> <key>" per finding
		// (evidence is written to GQLVET_EVIDENCE or a temp dir; used by tools/sweep.py, not by MANIFEST commands)
		os.Exit(runFindings(os.Args[2:]))
	case "check":
		if len(os.Args) < 4 {
			usage()
		}
		code := runCheck(os.Args[2], os.Args[3])
		pprof.StopCPUProfile()
		os.Exit(code)
	default:
		usage()
	}
}

func usage() {
	fmt.Fprintln(os.Stderr, "usage: gqlvet check <Cxx> <quick|thorough> | list | funcs")
	os.Exit(2)
}

var debugHooks []func(*Ctx)

func runCheck(id, tier string) (code int) {
	pc := props[id]
	if pc == nil {
		fmt.Fprintf(os.Stderr, "gqlvet: no check for property %s\n", id)
		return 2
	}
	if tier != "quick" && tier != "thorough" {
		usage()
	}
	start := time.Now()
	p, err := Load(repoDir(), "")
	if err != nil {
		// a tree that does not load cannot be analysed: fail, never pass vacuously
		fmt.Fprintln(os.Stderr, "gqlvet: load failed:", err)
		fmt.Printf("VIOLATION property=%s replay=%s\n", id, "/verif/evidence/replay/"+id+"-load.json")
		return 1
	}
	c := &Ctx{Prop: id, Tier: tier, P: p, start: start, Explanation: pc.explain, Extra: map[string]interface{}{}}
	defer func() {
		if r := recover(); r != nil {
			fmt.Fprintf(os.Stderr, "gqlvet: analysis panic in %s: %v\n%s\n", id, r, debug.Stack())
			fmt.Printf("VIOLATION property=%s replay=%s\n", id, "/verif/evidence/replay/"+id+"-panic.json")
			code = 1
		}
	}()
	for _, h := range debugHooks {
		h(c)
	}
	pc.run(c)
	if tier == "thorough" {
		thoroughExtras(c, pc)
	}
	return c.Finish()
}

func runFindings(args []string) int {
	want := map[string]bool{}
	if len(args) == 0 || args[0] == "all" {
		for id := range props {
			want[id] = true
		}
	} else {
		for _, a := range args {
			want[a] = true
		}
	}
	p, err := Load(repoDir(), "")
	if err != nil {
		fmt.Println("FINDING * load", err)
		return 1
	}
	var ids []string
	for id := range want {
		ids = append(ids, id)
	}
	sort.Strings(ids)
	for _, id := range ids {
		pc := props[id]
		if pc == nil {
			continue
		}
		func() {
			c := &Ctx{Prop: id, Tier: "quick", P: p, start: time.Now(), Explanation: pc.explain, Extra: map[string]interface{}{}}
			defer func() {
				if r := recover(); r != nil {
					fmt.Printf("FINDING %s panic %v\n", id, r)
				}
			}()
			pc.run(c)
			known, _ := loadKnown()
			for _, r := range c.Rules {
				if r.Instances < r.Floor {
					fmt.Printf("FINDING %s floor %s instances<%d\n", id, r.ID, r.Floor)
				}
				for _, f := range r.Findings {
					isKnown := false
					if known != nil {
						for _, k := range known.Known {
							if k.Property == id && k.Key == f.Key {
								isKnown = true
							}
						}
					}
					if !isKnown {
						fmt.Printf("FINDING %s %s %s\n", id, f.Kind, f.Key)
					}
				}
			}
			fmt.Printf("DONE %s\n", id)
		}()
	}
	return 0
}
