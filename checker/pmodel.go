package main

import (
	"go/token"
	"go/types"
	"sort"

	"golang.org/x/tools/go/ssa"
)

// parserModel resolves the roles the parser rules are keyed on. Every role is found
// from what the code does (which function stores which field, which function calls
// ReadToken), falling back to nothing: a missing role is reported as ANCHOR-LOST.
type parserModel struct {
	p       *Program
	T       *types.Named // parser.parser
	fns     []*ssa.Function
	lost    []string
	next    *ssa.Function // the function that increments tokenCount
	peek    *ssa.Function // the function that stores peekToken
	read    *ssa.Function // lexer.(*Lexer).ReadToken
	countSt []fieldStoreSite
	// entry points: exported functions of package parser returning (*ast.XDocument, error)
	eps []*ssa.Function
}

func newParserModel(p *Program) *parserModel {
	m := &parserModel{p: p}
	m.T = p.LookupType("parser", "parser")
	if m.T == nil {
		m.lost = append(m.lost, "type parser.parser")
		return m
	}
	m.fns = p.FuncsIn("parser")
	st, _ := m.T.Underlying().(*types.Struct)
	need := []string{"lexer", "err", "peeked", "peekToken", "peekError", "prev", "tokenCount", "maxTokenLimit"}
	have := map[string]bool{}
	for i := 0; st != nil && i < st.NumFields(); i++ {
		have[st.Field(i).Name()] = true
	}
	for _, n := range need {
		if !have[n] {
			m.lost = append(m.lost, "field parser."+n)
		}
	}
	m.read = p.Func("lexer.(*Lexer).ReadToken")
	if m.read == nil {
		m.lost = append(m.lost, "lexer.(*Lexer).ReadToken")
	}
	m.countSt = storesToField(m.fns, m.T, "tokenCount")
	fset := map[*ssa.Function]bool{}
	for _, s := range m.countSt {
		fset[s.fn] = true
	}
	if len(fset) == 1 {
		for f := range fset {
			m.next = f
		}
	} else if f := p.Func("parser.(*parser).next"); f != nil {
		m.next = f
	}
	if m.next == nil {
		m.lost = append(m.lost, "the function that advances the token count (parser.next)")
	}
	pset := map[*ssa.Function]bool{}
	for _, s := range storesToField(m.fns, m.T, "peekToken") {
		pset[s.fn] = true
	}
	if len(pset) == 1 {
		for f := range pset {
			m.peek = f
		}
	} else if f := p.Func("parser.(*parser).peek"); f != nil {
		m.peek = f
	}
	if m.peek == nil {
		m.lost = append(m.lost, "the function that fills the look-ahead slot (parser.peek)")
	}
	for _, fn := range m.fns {
		if fn.Parent() != nil || fn.Object() == nil || !fn.Object().Exported() || fn.Signature.Recv() != nil {
			continue
		}
		res := fn.Signature.Results()
		if res.Len() != 2 {
			continue
		}
		n := namedOf(res.At(0).Type())
		if n == nil || (n.Obj().Name() != "QueryDocument" && n.Obj().Name() != "SchemaDocument") {
			continue
		}
		m.eps = append(m.eps, fn)
	}
	sort.Slice(m.eps, func(i, j int) bool { return m.eps[i].Name() < m.eps[j].Name() })
	return m
}

// intParam returns the index of the (single) int parameter of an entry point, or -1.
func intParam(fn *ssa.Function) int {
	idx := -1
	for i, prm := range fn.Params {
		if b, ok := prm.Type().Underlying().(*types.Basic); ok && b.Kind() == types.Int {
			if idx >= 0 {
				return -2
			}
			idx = i
		}
	}
	return idx
}

// isParserFieldAddr: v is &X.name for X of type *parser.
func (m *parserModel) fieldAddr(v ssa.Value, name string) bool {
	fa, ok := v.(*ssa.FieldAddr)
	if !ok {
		return false
	}
	n, f, _, _ := fieldOf(fa)
	return n != nil && sameNamed(n, m.T) && f == name
}

func (m *parserModel) load(v ssa.Value, name string) bool {
	return isFieldLoad(v, m.T, name)
}

// mentions reports whether the expression tree of v (through BinOp/UnOp/Convert/Phi-free ops)
// contains a load of parser.<name>.
func (m *parserModel) mentions(v ssa.Value, name string, depth int) bool {
	if depth > 8 || v == nil {
		return false
	}
	if m.load(v, name) {
		return true
	}
	switch x := v.(type) {
	case *ssa.BinOp:
		return m.mentions(x.X, name, depth+1) || m.mentions(x.Y, name, depth+1)
	case *ssa.UnOp:
		if x.Op == token.MUL {
			return false
		}
		return m.mentions(x.X, name, depth+1)
	case *ssa.Convert:
		return m.mentions(x.X, name, depth+1)
	case *ssa.ChangeType:
		return m.mentions(x.X, name, depth+1)
	case *ssa.Phi:
		for _, e := range x.Edges {
			if m.mentions(e, name, depth+1) {
				return true
			}
		}
	}
	return false
}
