package main

import (
	"go/token"
	"go/types"
	"sort"

	"golang.org/x/tools/go/ssa"
)

// parserModel resolves the roles the parser rules are keyed on. Every role is found
// from what the code does (which function stores which field, which function calls
// ReadToken), falling back to nothing: a missing role is reported as ANCHOR-LOST.
type parserModel struct {
	p       *Program
	T       *types.Named // parser.parser
	fns     []*ssa.Function
	lost    []string
	next    *ssa.Function // the function that increments tokenCount
	peek    *ssa.Function // the function that stores peekToken
	read    *ssa.Function // lexer.(*Lexer).ReadToken
	countSt []fieldStoreSite
	// entry points: exported functions of package parser returning (*ast.XDocument, error)
	eps []*ssa.Function
	// roles: the look-ahead slot may live in the parser struct under its usual names or, regrouped, in a struct it
	// embeds; each role is resolved to (struct type, field name) from what peek() does with ReadToken's results
	roles map[string]fieldRef
}

type fieldRef struct {
	st *types.Named
	f  string
}

// stores: the stores to the field that plays the role.
func (m *parserModel) stores(role string) []fieldStoreSite {
	if r, ok := m.roles[role]; ok {
		return storesToField(m.fns, r.st, r.f)
	}
	return storesToField(m.fns, m.T, role)
}

func newParserModel(p *Program) *parserModel {
	m := &parserModel{p: p}
	m.T = p.LookupType("parser", "parser")
	if m.T == nil {
		m.lost = append(m.lost, "type parser.parser")
		return m
	}
	m.fns = p.FuncsIn("parser")
	st, _ := m.T.Underlying().(*types.Struct)
	need := []string{"lexer", "err", "peeked", "peekToken", "peekError", "prev", "tokenCount", "maxTokenLimit"}
	have := map[string]bool{}
	for i := 0; st != nil && i < st.NumFields(); i++ {
		have[st.Field(i).Name()] = true
	}
	m.roles = map[string]fieldRef{}
	m.read = p.Func("lexer.(*Lexer).ReadToken")
	if m.read == nil {
		m.lost = append(m.lost, "lexer.(*Lexer).ReadToken")
	}
	// the look-ahead roles by use: in a function that calls ReadToken and does not count tokens, the fields that
	// receive its two results, and the bool field set to true next to them
	var peekByUse *ssa.Function
	if !have["peeked"] || !have["peekToken"] || !have["peekError"] {
		counts := map[*ssa.Function]bool{}
		for _, s := range storesToField(m.fns, m.T, "tokenCount") {
			counts[s.fn] = true
		}
		for _, fn := range m.fns {
			if counts[fn] || m.read == nil {
				continue
			}
			allInstrs(fn, func(in ssa.Instruction) {
				call, ok := in.(*ssa.Call)
				if !ok || call.Call.StaticCallee() != m.read || call.Referrers() == nil {
					return
				}
				// where a result goes: a field of the parser (or of a struct it embeds), directly or through a small
				// helper that stores its parameters (`p.store(p.lexer.ReadToken())`)
				var flagFns []*ssa.Function
				flagFns = append(flagFns, fn)
				fieldsStoredFrom := func(v ssa.Value) []fieldRef {
					var out []fieldRef
					if v.Referrers() == nil {
						return nil
					}
					for _, r2 := range *v.Referrers() {
						switch x := r2.(type) {
						case *ssa.Store:
							if x.Val != v {
								continue
							}
							if fa, ok := x.Addr.(*ssa.FieldAddr); ok {
								if n, f, _, _ := fieldOf(fa); n != nil {
									out = append(out, fieldRef{n, f})
								}
							}
						case ssa.CallInstruction:
							h := x.Common().StaticCallee()
							if h == nil || h.Pkg != fn.Pkg || len(h.Blocks) > 3 {
								continue
							}
							for i, a := range x.Common().Args {
								if a != v || i >= len(h.Params) {
									continue
								}
								prm := h.Params[i]
								if prm.Referrers() == nil {
									continue
								}
								for _, r3 := range *prm.Referrers() {
									if st3, ok := r3.(*ssa.Store); ok && st3.Val == ssa.Value(prm) {
										if fa, ok := st3.Addr.(*ssa.FieldAddr); ok {
											if n, f, _, _ := fieldOf(fa); n != nil {
												out = append(out, fieldRef{n, f})
												flagFns = append(flagFns, h)
											}
										}
									}
								}
							}
						}
					}
					return out
				}
				for _, ref := range *call.Referrers() {
					ex, ok := ref.(*ssa.Extract)
					if !ok || ex.Referrers() == nil {
						continue
					}
					for _, fr := range fieldsStoredFrom(ex) {
						if ex.Index == 0 {
							m.roles["peekToken"] = fr
						} else {
							m.roles["peekError"] = fr
						}
						peekByUse = fn
					}
				}
				// a call whose results are passed on as a tuple: f(g()) has no Extract; the call itself is the argument list
				// (go/ssa expands it into Extracts, so nothing to do here)
				// the flag: a bool field of the same struct stored true in this function (or in the storing helper)
				if r, ok := m.roles["peekToken"]; ok {
					for _, ff := range flagFns {
						allInstrs(ff, func(in2 ssa.Instruction) {
							stt, ok := in2.(*ssa.Store)
							if !ok {
								return
							}
							cst, ok := stt.Val.(*ssa.Const)
							if !ok || cst.Value == nil || cst.Value.String() != "true" {
								return
							}
							if fa, ok := stt.Addr.(*ssa.FieldAddr); ok {
								if n, f, _, _ := fieldOf(fa); n != nil && sameNamed(n, r.st) {
									m.roles["peeked"] = fieldRef{n, f}
								}
							}
						})
					}
				}
			})
		}
	}
	for _, n := range need {
		if _, byRole := m.roles[n]; !have[n] && !byRole {
			m.lost = append(m.lost, "field parser."+n)
		}
	}
	m.countSt = storesToField(m.fns, m.T, "tokenCount")
	fset := map[*ssa.Function]bool{}
	for _, s := range m.countSt {
		fset[s.fn] = true
	}
	if len(fset) == 1 {
		for f := range fset {
			m.next = f
		}
	} else if f := p.Func("parser.(*parser).next"); f != nil {
		m.next = f
	}
	if m.next == nil {
		m.lost = append(m.lost, "the function that advances the token count (parser.next)")
	}
	pset := map[*ssa.Function]bool{}
	for _, s := range m.stores("peekToken") {
		pset[s.fn] = true
	}
	if peekByUse != nil {
		m.peek = peekByUse
	} else if len(pset) == 1 {
		for f := range pset {
			m.peek = f
		}
	} else if f := p.Func("parser.(*parser).peek"); f != nil {
		m.peek = f
	}
	if m.peek == nil {
		m.lost = append(m.lost, "the function that fills the look-ahead slot (parser.peek)")
	}
	for _, fn := range m.fns {
		if fn.Parent() != nil || fn.Object() == nil || !fn.Object().Exported() || fn.Signature.Recv() != nil {
			continue
		}
		res := fn.Signature.Results()
		if res.Len() != 2 {
			continue
		}
		n := namedOf(res.At(0).Type())
		if n == nil || (n.Obj().Name() != "QueryDocument" && n.Obj().Name() != "SchemaDocument") {
			continue
		}
		m.eps = append(m.eps, fn)
	}
	sort.Slice(m.eps, func(i, j int) bool { return m.eps[i].Name() < m.eps[j].Name() })
	return m
}

// intParam returns the index of the (single) int parameter of an entry point, or -1.
func intParam(fn *ssa.Function) int {
	idx := -1
	for i, prm := range fn.Params {
		if b, ok := prm.Type().Underlying().(*types.Basic); ok && b.Kind() == types.Int {
			if idx >= 0 {
				return -2
			}
			idx = i
		}
	}
	return idx
}

// isParserFieldAddr: v is &X.name for X of type *parser.
func (m *parserModel) fieldAddr(v ssa.Value, name string) bool {
	fa, ok := v.(*ssa.FieldAddr)
	if !ok {
		return false
	}
	n, f, _, _ := fieldOf(fa)
	if r, ok := m.roles[name]; ok {
		return n != nil && sameNamed(n, r.st) && f == r.f
	}
	return n != nil && sameNamed(n, m.T) && f == name
}

func (m *parserModel) load(v ssa.Value, name string) bool {
	if r, ok := m.roles[name]; ok {
		return isFieldLoad(v, r.st, r.f)
	}
	return isFieldLoad(v, m.T, name)
}

// mentions reports whether the expression tree of v (through BinOp/UnOp/Convert/Phi-free ops)
// contains a load of parser.<name>.
func (m *parserModel) mentions(v ssa.Value, name string, depth int) bool {
	if depth > 8 || v == nil {
		return false
	}
	if m.load(v, name) {
		return true
	}
	switch x := v.(type) {
	case *ssa.BinOp:
		return m.mentions(x.X, name, depth+1) || m.mentions(x.Y, name, depth+1)
	case *ssa.UnOp:
		if x.Op == token.MUL {
			return false
		}
		return m.mentions(x.X, name, depth+1)
	case *ssa.Convert:
		return m.mentions(x.X, name, depth+1)
	case *ssa.ChangeType:
		return m.mentions(x.X, name, depth+1)
	case *ssa.Phi:
		for _, e := range x.Edges {
			if m.mentions(e, name, depth+1) {
				return true
			}
		}
	}
	return false
}
