package main

import (
	"fmt"
	"go/token"
	"sort"
	"strings"

	"golang.org/x/tools/go/ssa"
)

func init() {
	register("C15", "Argument resolution: (R1) validation excludes unconvertible literals — in the OnValue observer of ValuesOfCorrectType the conversion test (Value.Value, error -> addError) cannot be skipped by any return other than those taken because an annotation is missing, and the report after a failed conversion is guarded by the error test only; (R2) nil safety of arg2map, Field.ArgumentMap, Directive.ArgumentMap and Value.Value under the validated-document precondition, and the panics of arg2map are reached only through a conversion error; (R3) variable presence is decided by the comma-ok form of the lookup in the variables map — the looked-up value is never compared with nil to decide between the supplied value and a default (an explicit null must win over the default); (R4) Field.ArgumentMap and Directive.ArgumentMap are the same single call of arg2map on their own definition's arguments and their own arguments; (R5) in arg2map the literal/variable branch is tried first, the default is consulted only when no value was found, and the result is written only when a value was found. (R7) index and slice expressions reachable from ArgumentMap are in bounds; (R8) an explicit null supplied for a variable is written to the coerced map on every path (C14.R10). (R1 also) every child is walked before the node's observers run (C09.R5), so the conversion test sees every literal. (R9) resolution reads no operation-relative link.", runC15)
}

func runC15(c *Ctx) {
	p := c.P
	r1 := c.Rule("R1", "validation dominates conversion: no unconvertible literal passes", 2)
	vct := p.Func("rules.ruleFuncValuesOfCorrectType")
	valueFn := p.Func("ast.(*Value).Value")
	a2m := p.Func("ast.arg2map")
	if vct == nil || valueFn == nil || a2m == nil {
		r1.AnchorLost("rules.ruleFuncValuesOfCorrectType / ast.(*Value).Value / ast.arg2map")
		return
	}
	// the OnValue observer: the closure of vct that calls Value.Value(nil)
	var obs *ssa.Function
	var conv *ssa.Call
	for _, cl := range withClosures(vct) {
		for _, ci := range callsTo([]*ssa.Function{cl}, valueFn) {
			if call, ok := ci.(*ssa.Call); ok && cl.Parent() == vct {
				obs, conv = cl, call
			}
		}
	}
	if obs == nil {
		r1.Fail(vct.Pos(), p.FuncName(vct), "no conversion test", "ValuesOfCorrectType no longer converts literals with Value.Value: unconvertible literals (integers beyond int64, floats beyond float64) would pass validation and make ArgumentMap panic")
	} else {
		// returns reachable without the conversion, other than through missing-annotation tests
		exempt := func(from, to *ssa.BasicBlock) bool {
			return nilEdge(from, to, func(v ssa.Value) bool {
				st, f, ok := fieldLoadOf(v)
				return ok && st == "Value" && (f == "Definition" || f == "ExpectedType")
			})
		}
		rr := reachAvoiding(obs.Blocks[0], func(b *ssa.BasicBlock) bool { return b == conv.Block() }, exempt)
		n := 0
		for b := range rr {
			ret, ok := b.Instrs[len(b.Instrs)-1].(*ssa.Return)
			if !ok {
				continue
			}
			var gs []string
			for _, cd := range condsAt(b) {
				if structuralGuard(cd) {
					continue
				}
				gs = append(gs, guardDesc(cd))
			}
			sort.Strings(gs)
			n++
			r1.Fail(ret.Pos(), p.FuncName(obs), "return before the conversion test under "+strings.Join(gs, " && "), fmt.Sprintf("the observer returns (under %s) before the literal has been converted with Value.Value: a literal that cannot be converted (e.g. 99999999999999999999 or 1e999) passes validation at this position, and Field.ArgumentMap / Directive.ArgumentMap then panic on it", strings.Join(gs, " && ")))
		}
		if n == 0 {
			r1.OK("every path of the OnValue observer converts the literal (or leaves because an annotation is missing)", "")
		}
		// the error of the conversion is reported, guarded by the error test only
		var errVal ssa.Value
		for _, ref := range *conv.Referrers() {
			if ex, ok := ref.(*ssa.Extract); ok && ex.Index == 1 {
				errVal = ex
			}
		}
		reported := false
		if errVal != nil {
			allInstrs(obs, func(in ssa.Instruction) {
				ci, ok := in.(ssa.CallInstruction)
				if !ok || reported {
					return
				}
				// a call that (transitively) raises an error: addError itself or a helper taking addError
				takesAdd := false
				for _, a := range ci.Common().Args {
					if n := namedOf(a.Type()); n != nil && n.Obj().Name() == "AddErrFunc" {
						takesAdd = true
					}
				}
				if n := namedOf(ci.Common().Value.Type()); n != nil && n.Obj().Name() == "AddErrFunc" {
					takesAdd = true
				}
				if !takesAdd {
					return
				}
				var extra []string
				hasErr := false
				for _, cd := range condsAt(in.Block()) {
					if structuralGuard(cd) {
						continue
					}
					if bo, ok := cd.V.(*ssa.BinOp); ok && (bo.X == errVal || bo.Y == errVal) && (isNilConst(bo.X) || isNilConst(bo.Y)) && (bo.Op == token.NEQ) == cd.True {
						hasErr = true
						continue
					}
					extra = append(extra, guardDesc(cd))
				}
				if !hasErr {
					return
				}
				reported = true
				// guards that were already in force at the conversion itself are not extra
				var atConv []string
				for _, cd := range condsAt(conv.Block()) {
					atConv = append(atConv, guardDesc(cd))
				}
				var real []string
				for _, g := range extra {
					dup := false
					for _, h := range atConv {
						if g == h {
							dup = true
						}
					}
					if !dup {
						real = append(real, g)
					}
				}
				if len(real) > 0 {
					r1.Fail(in.Pos(), p.FuncName(obs), "conversion error suppressed under "+strings.Join(real, " && "), fmt.Sprintf("a failed conversion is reported only when additionally %s: some unconvertible literals pass validation and make ArgumentMap panic", strings.Join(real, " && ")))
				} else {
					r1.OK("a failed conversion is always reported", "guarded by err != nil only")
				}
			})
		}
		if !reported {
			r1.Fail(conv.Pos(), p.FuncName(obs), "conversion error not reported", "the error of Value.Value is not turned into a validation error")
		}
	}

	// ---- R2 nil safety under the validated-document precondition
	// the conversion test and the links arg2map relies on exist only for the values, arguments and directives the walker
	// reaches: every child is walked (C08.R3 / C09.R5)
	if m := newWalkerModel(p); len(m.lost) == 0 {
		walkCoverage(c, r1, m)
		// ... and only for the values that carry their expected type: the links are the lookups the specification names,
		// stored whenever they can be resolved (C09.R2/R3)
		written := walkerWrites(m)
		c09Provenance(c, r1, m, written)
		c09Guards(c, r1, m, written)
	}

	r2 := c.Rule("R2", "nil safety of argument resolution for validated documents", 3)
	scope := map[*ssa.Function]bool{}
	for _, n := range []string{"ast.arg2map", "ast.(*Field).ArgumentMap", "ast.(*Directive).ArgumentMap", "ast.(*Value).Value"} {
		if f := p.Func(n); f != nil {
			for g := range p.reachableFrom([]*ssa.Function{f}, nil) {
				if p.inModule(g) {
					scope[g] = true
				}
			}
		} else {
			r2.AnchorLost(n)
		}
	}
	na := newNilAnalysis(p, scope)
	na.validated = true
	fs, checked := na.findings()
	for _, f := range fs {
		r2.Fail(f.in.Pos(), p.FuncName(f.fn), f.key[strings.Index(f.key, "|")+2:], fmt.Sprintf("%s and is dereferenced here without a nil test on every path (validated-document precondition applied)", f.why))
	}
	for i := 0; i < checked-len(fs); i++ {
		r2.Instances++
		r2.Discharged++
	}
	r2.Samples = append(r2.Samples, fmt.Sprintf("%d dereferences of possibly-nil values are guarded", checked-len(fs)))
	// panics of arg2map: only under err != nil of a Value.Value call
	allInstrs(a2m, func(in ssa.Instruction) {
		pn, ok := in.(*ssa.Panic)
		if !ok {
			return
		}
		okP := false
		for _, cd := range condsAt(in.Block()) {
			if bo, ok := cd.V.(*ssa.BinOp); ok && (bo.Op == token.NEQ) == cd.True && (isNilConst(bo.X) || isNilConst(bo.Y)) {
				v := bo.X
				if isNilConst(v) {
					v = bo.Y
				}
				if ex, ok := unspill(v).(*ssa.Extract); ok {
					if call, ok := ex.Tuple.(*ssa.Call); ok && call.Call.StaticCallee() == valueFn {
						okP = true
					}
				}
				if u, ok := v.(*ssa.UnOp); ok {
					// `err` is a variable shared by both conversions: every store into it is the error of a Value.Value call
					if a, ok := u.X.(*ssa.Alloc); ok {
						all := true
						for _, s := range storesTo(a) {
							if isNilConst(s) {
								continue
							}
							ex, ok := s.(*ssa.Extract)
							if !ok {
								all = false
								continue
							}
							if call, ok := ex.Tuple.(*ssa.Call); !ok || call.Call.StaticCallee() != valueFn {
								all = false
							}
						}
						okP = all
					}
				}
				if ph, ok := v.(*ssa.Phi); ok {
					all := true
					for _, e := range ph.Edges {
						if isNilConst(e) {
							continue
						}
						ex, ok := e.(*ssa.Extract)
						if !ok {
							// nested phi of the loop-carried err variable
							if _, isPhi := e.(*ssa.Phi); isPhi {
								continue
							}
							all = false
							continue
						}
						if call, ok := ex.Tuple.(*ssa.Call); !ok || call.Call.StaticCallee() != valueFn {
							all = false
						}
					}
					okP = all
				}
			}
		}
		if okP {
			r2.OK("panic in arg2map at "+p.Pos(pn.Pos()), "reached only when Value.Value returned an error, which R1 shows validation excludes")
		} else {
			r2.Fail(pn.Pos(), p.FuncName(a2m), "panic not tied to a conversion error", "arg2map panics on a path that validation does not exclude")
		}
	})

	// ---- R3 presence by comma-ok
	r3 := c.Rule("R3", "variable presence is decided by comma-ok, never by comparing the value with nil", 2)
	for _, fn := range []*ssa.Function{a2m, valueFn} {
		allInstrs(fn, func(in ssa.Instruction) {
			l, ok := in.(*ssa.Lookup)
			if !ok {
				return
			}
			// the variables map: a parameter of type map[string]interface{}
			prm, ok := l.X.(*ssa.Parameter)
			if !ok {
				return
			}
			site := p.FuncName(fn) + ": " + prm.Name() + "[...]"
			if !l.CommaOk {
				r3.Fail(in.Pos(), p.FuncName(fn), "variable looked up without comma-ok", "whether a variable was supplied cannot be told from the looked-up value: an explicit null is indistinguishable from an absent variable, so the default wrongly replaces it")
				return
			}
			bad := false
			for _, ref := range *l.Referrers() {
				ex, ok := ref.(*ssa.Extract)
				if !ok || ex.Index != 0 {
					continue
				}
				for _, r2 := range *ex.Referrers() {
					if bo, ok := r2.(*ssa.BinOp); ok && (isNilConst(bo.X) || isNilConst(bo.Y)) {
						bad = true
						r3.Fail(bo.Pos(), p.FuncName(fn), "supplied variable value compared with nil", "the value of a supplied variable is compared with nil to choose between it and a default: an explicit null loses to the default")
					}
				}
			}
			if !bad {
				r3.OK(site, "presence from the ok result; the value is not nil-tested")
			}
		})
	}

	// ---- R4 twins
	r4 := c.Rule("R4", "Field.ArgumentMap and Directive.ArgumentMap are the same call of arg2map", 2)
	for _, pr := range [][2]string{{"ast.(*Field).ArgumentMap", "Field"}, {"ast.(*Directive).ArgumentMap", "Directive"}} {
		fn := p.Func(pr[0])
		if fn == nil {
			r4.AnchorLost(pr[0])
			continue
		}
		okT := len(fn.Blocks) == 1
		var call *ssa.Call
		n := 0
		allInstrs(fn, func(in ssa.Instruction) {
			if cc, ok := in.(*ssa.Call); ok {
				n++
				if cc.Call.StaticCallee() == a2m {
					call = cc
				}
			}
		})
		if call == nil || n != 1 || !okT {
			r4.Fail(fn.Pos(), pr[0], "not a single call of arg2map", "the argument map of a "+strings.ToLower(pr[1])+" is not computed by one unconditional call of arg2map: a shortcut (for instance returning an empty map when no arguments are written) drops argument defaults")
			continue
		}
		defs, args, vars := call.Call.Args[0], call.Call.Args[1], call.Call.Args[2]
		okArgs := loadOfField(args, pr[1], "Arguments")
		// defs = <recv>.Definition.Arguments
		okDefs := false
		if _, f, ok := fieldLoadOf(defs); ok && f == "Arguments" {
			if u, ok := unspill(stripChange(defs)).(*ssa.UnOp); ok {
				if fa, ok := u.X.(*ssa.FieldAddr); ok && loadOfField(fa.X, pr[1], "Definition") {
					okDefs = true
				}
			}
		}
		_, okVars := vars.(*ssa.Parameter)
		if okArgs && okDefs && okVars {
			r4.OK(pr[0]+" = arg2map(x.Definition.Arguments, x.Arguments, vars)", "")
		} else {
			r4.Fail(call.Pos(), pr[0], "arg2map called with other arguments", "the definition's argument list, the node's own arguments and the caller's variables are not what is passed")
		}
	}

	// ---- R5 precedence structure of arg2map
	r5 := c.Rule("R5", "literal or variable first, default only when nothing was found, write only when found", 3)
	{
		// the default: every call Value.Value on ArgumentDefinition.DefaultValue lies under hasValue == false
		var defaultCall, literalCall ssa.Instruction
		allInstrs(a2m, func(in ssa.Instruction) {
			ci, ok := in.(ssa.CallInstruction)
			if !ok {
				return
			}
			h := ci.Common().StaticCallee()
			var recv ssa.Value
			switch {
			case h == valueFn:
				recv = ci.Common().Args[0]
			case h != nil && p.inModule(h) && len(h.Blocks) > 0:
				// a wrapper that converts one of its parameters (`mustValue(v, vars)`)
				for _, c2 := range callsTo([]*ssa.Function{h}, valueFn) {
					if prm, isP := c2.Common().Args[0].(*ssa.Parameter); isP {
						if k := paramIndex(h, prm); k >= 0 && k < len(ci.Common().Args) {
							recv = ci.Common().Args[k]
						}
					}
				}
			}
			if recv == nil {
				return
			}
			switch {
			case loadOfField(recv, "ArgumentDefinition", "DefaultValue"):
				defaultCall = ci
			case loadOfField(recv, "Argument", "Value"):
				literalCall = ci
			}
		})
		if defaultCall == nil || literalCall == nil {
			r5.Fail(a2m.Pos(), p.FuncName(a2m), "literal / default conversions not found", "arg2map no longer converts the written argument and the argument definition's default")
		} else if c15PathForm(p, a2m, literalCall, defaultCall, r5) {
			// decided on the control-flow graph, without a 'found' flag
		} else {
			// hasValue is a phi; the default's block must be guarded by !hasValue where hasValue is true after the literal/variable branch
			guardedByNotFound := false
			for _, cd := range condsAt(defaultCall.Block()) {
				if ph, ok := cd.V.(*ssa.Phi); ok && !cd.True && isBoolPhi(ph) {
					guardedByNotFound = true
				}
			}
			if guardedByNotFound && dominatesOrPrecedes(literalCall, defaultCall) {
				r5.OK("the default is consulted only when neither a literal nor a supplied variable gave a value", "")
			} else {
				r5.Fail(defaultCall.Pos(), p.FuncName(a2m), "default not guarded by 'no value found'", "the argument default can override a written literal or a supplied variable")
			}
			// the write
			nW := 0
			allInstrs(a2m, func(in ssa.Instruction) {
				mu, ok := in.(*ssa.MapUpdate)
				if !ok {
					return
				}
				nW++
				okW := false
				for _, cd := range condsAt(in.Block()) {
					if ph, ok := cd.V.(*ssa.Phi); ok && cd.True && isBoolPhi(ph) {
						okW = true
					}
				}
				if okW && loadOfField(mu.Key, "ArgumentDefinition", "Name") {
					r5.OK("result[argDef.Name] is written only when a value was found", "")
				} else {
					r5.Fail(in.Pos(), p.FuncName(a2m), "result written without 'value found'", "an argument without any value appears in the map, or under a wrong key")
				}
			})
			if nW != 1 {
				r5.Fail(a2m.Pos(), p.FuncName(a2m), fmt.Sprintf("%d writes to the result", nW), "exactly one write per argument definition is expected")
			}
			// the loop is over the definition's arguments (so defaults of unwritten arguments are included)
			okLoop := false
			allInstrs(a2m, func(in ssa.Instruction) {
				if ia, ok := in.(*ssa.IndexAddr); ok {
					if prm, ok := ia.X.(*ssa.Parameter); ok && prm == a2m.Params[0] {
						okLoop = true
					}
				}
			})
			if okLoop {
				r5.OK("arg2map iterates the argument definitions (unwritten arguments get their defaults)", "")
			} else {
				r5.Fail(a2m.Pos(), p.FuncName(a2m), "loop not over the argument definitions", "arguments that are not written would get no default")
			}
		}
	}

	// ---- R6 resolving arguments leaves the document and the schema as it found them
	r6 := c.Rule("R6", "argument resolution writes no field of a document or schema node", 3)
	{
		e := newEffects(p)
		var roots []*ssa.Function
		for _, n := range []string{"ast.(*Field).ArgumentMap", "ast.(*Directive).ArgumentMap", "ast.arg2map", "ast.(*Value).Value"} {
			if f := p.Func(n); f != nil {
				roots = append(roots, f)
			}
		}
		cs := map[*ssa.Function]bool{}
		for fn := range p.reachableFrom(roots, e.dyn) {
			if p.inModule(fn) {
				cs[fn] = true
			}
		}
		treeWrites(c, e, cs, r6, "argument resolution")
		r7 := c.Rule("R7", "index and slice expressions reachable from ArgumentMap are in bounds", 3)
		c02IndexSafety(c, r7, cs)
	}
	// ---- R8 an explicit null supplied for a variable reaches the coerced map (so that it can beat a default)
	r8 := c.Rule("R8", "a supplied or defaulted variable is written to VariableValues' result on every path", 1)
	if vv := p.Func("validator.VariableValues"); vv == nil {
		r8.AnchorLost("validator.VariableValues")
	} else {
		c14EveryValuedVariableWritten(c, r8, vv)
	}
	// ---- R9 what resolution reads from the document does not depend on which operation validation walked last
	r9 := c.Rule("R9", "argument resolution reads no link that validation sets relative to the operation being walked", 1)
	c15OperationRelativeLinks(c, r9)
}

// c15OperationRelativeLinks: the walker visits the body of a fragment once for every operation that spreads it and
// overwrites the links it finds there. A link whose value is computed from Walker.CurrentOperation therefore holds,
// after validation, whatever the operation walked LAST made of it. Rules that run during the walk may read it; code that
// runs afterwards for one chosen operation (ArgumentMap, Value.Value) must not: with two operations sharing a fragment
// it would see the other operation's variable definition and default.
func c15OperationRelativeLinks(c *Ctx, r *RuleResult) {
	p := c.P
	walkerT := p.LookupType("validator", "Walker")
	if walkerT == nil {
		r.AnchorLost("validator.Walker")
		return
	}
	var fromOp func(v ssa.Value, depth int) bool
	fromOp = func(v ssa.Value, depth int) bool {
		if depth <= 0 || v == nil {
			return false
		}
		v = stripChange(v)
		if loadOfField(v, "Walker", "CurrentOperation") {
			return true
		}
		switch x := v.(type) {
		case *ssa.UnOp:
			return fromOp(x.X, depth-1)
		case *ssa.FieldAddr:
			return fromOp(x.X, depth-1)
		case *ssa.Field:
			return fromOp(x.X, depth-1)
		case *ssa.IndexAddr:
			return fromOp(x.X, depth-1)
		case *ssa.Index:
			return fromOp(x.X, depth-1)
		case *ssa.Lookup:
			return fromOp(x.X, depth-1)
		case *ssa.Extract:
			return fromOp(x.Tuple, depth-1)
		case *ssa.Slice:
			return fromOp(x.X, depth-1)
		case *ssa.Phi:
			for _, e := range x.Edges {
				if e != ssa.Value(x) && fromOp(e, depth-1) {
					return true
				}
			}
		case *ssa.Alloc:
			for _, sv := range storesTo(x) {
				if fromOp(sv, depth-1) {
					return true
				}
			}
		case *ssa.Call:
			// a lookup on a list of the operation (ForName) yields a part of the operation
			for _, a := range x.Call.Args {
				if isRefType(a.Type()) && fromOp(a, depth-1) {
					return true
				}
			}
		}
		return false
	}
	relative := map[annot]token.Pos{}
	for _, fn := range p.FuncsIn("validator") {
		allInstrs(fn, func(in ssa.Instruction) {
			st, ok := in.(*ssa.Store)
			if !ok {
				return
			}
			fa, ok := st.Addr.(*ssa.FieldAddr)
			if !ok {
				return
			}
			n, f, _, _ := fieldOf(fa)
			if n == nil || n.Obj().Pkg() == nil || !strings.HasSuffix(n.Obj().Pkg().Path(), "/ast") {
				return
			}
			if !isRefType(st.Val.Type()) {
				return
			}
			if fromOp(st.Val, 8) {
				relative[annot{n.Obj().Name(), f}] = st.Pos()
			}
		})
	}
	var roots []*ssa.Function
	for _, n := range []string{"ast.(*Field).ArgumentMap", "ast.(*Directive).ArgumentMap", "ast.arg2map", "ast.(*Value).Value"} {
		if f := p.Func(n); f != nil {
			roots = append(roots, f)
		}
	}
	if len(roots) == 0 {
		r.AnchorLost("ast.arg2map / ast.(*Value).Value")
		return
	}
	var fns []*ssa.Function
	for fn := range p.reachableFrom(roots, nil) {
		if p.inModule(fn) {
			fns = append(fns, fn)
		}
	}
	sort.Slice(fns, func(i, j int) bool { return p.FuncName(fns[i]) < p.FuncName(fns[j]) })
	n := 0
	for _, fn := range fns {
		allInstrs(fn, func(in ssa.Instruction) {
			v, ok := in.(ssa.Value)
			if !ok {
				return
			}
			stName, f, ok := fieldLoadOf(v)
			if !ok {
				return
			}
			pos, rel := relative[annot{stName, f}]
			if !rel {
				return
			}
			n++
			r.Fail(in.Pos(), p.FuncName(fn), "reads "+stName+"."+f+", which the walker sets from the operation being walked", fmt.Sprintf("%s.%s is stored by the walker from Walker.CurrentOperation (%s); inside a fragment spread by several operations it keeps the value of the operation walked last, so resolving arguments for another operation uses that operation's variable definition — its default value replaces the absent variable of the operation actually executed", stName, f, p.Pos(pos)))
		})
	}
	var rl []string
	for a := range relative {
		rl = append(rl, a.st+"."+a.fld)
	}
	sort.Strings(rl)
	if n == 0 {
		r.OK(fmt.Sprintf("argument resolution (%d functions) reads none of the operation-relative links %v", len(fns), rl), "")
	}
}

func isBoolPhi(ph *ssa.Phi) bool {
	for _, e := range ph.Edges {
		switch x := e.(type) {
		case *ssa.Const:
		case *ssa.Extract:
			if _, ok := x.Tuple.(*ssa.Lookup); !ok {
				return false
			}
		case *ssa.Phi:
		default:
			return false
		}
	}
	return true
}

func dominatesOrPrecedes(a, b ssa.Instruction) bool {
	if dominatesInstr(a, b) {
		return true
	}
	// a's block reaches b's block and not the reverse within one loop iteration: approximate by block index order
	return a.Block().Index < b.Block().Index
}

// c15PathForm decides the precedence structure of arg2map on the control-flow graph alone, for code that has no
// 'value found' flag: inside one iteration over the argument definitions (1) the default conversion is not reachable
// from the literal conversion nor from the 'found' side of the variable lookup, (2) every value obtained — literal,
// supplied variable, default — reaches a write of result[argDef.Name] before the iteration ends, and (3) every write
// stores one of those three values under that key. Returns false (deciding nothing) when the shape is not this one.
func c15PathForm(p *Program, a2m *ssa.Function, literalCall, defaultCall ssa.Instruction, r *RuleResult) bool {
	headers, bodies := loopsOf(a2m)
	var hdr *ssa.BasicBlock
	for _, h := range headers {
		if bodies[h][literalCall.Block()] && bodies[h][defaultCall.Block()] && (hdr == nil || len(bodies[h]) < len(bodies[hdr])) {
			hdr = h
		}
	}
	if hdr == nil {
		return false
	}
	// a flag form has a boolean phi deciding the default: leave that to the flag rule
	for _, cd := range condsAt(defaultCall.Block()) {
		if ph, ok := cd.V.(*ssa.Phi); ok && isBoolPhi(ph) {
			return false
		}
	}
	inIter := func(from *ssa.BasicBlock, blocked map[*ssa.BasicBlock]bool) map[*ssa.BasicBlock]bool {
		return reachAvoiding(from, func(b *ssa.BasicBlock) bool { return b == hdr || blocked[b] }, nil)
	}
	// the variable lookup and its found edge
	var foundStart *ssa.BasicBlock
	var lookupVal ssa.Value
	allInstrs(a2m, func(in ssa.Instruction) {
		lk, ok := in.(*ssa.Lookup)
		if !ok || !lk.CommaOk || lk.X != ssa.Value(a2m.Params[2]) {
			return
		}
		for _, ref := range *lk.Referrers() {
			ex, ok := ref.(*ssa.Extract)
			if !ok {
				continue
			}
			if ex.Index == 0 {
				lookupVal = ex
			}
			if ex.Index == 1 {
				for _, r2 := range *ex.Referrers() {
					if ifi, ok := r2.(*ssa.If); ok {
						foundStart = ifi.Block().Succs[0]
					}
				}
			}
		}
	})
	if foundStart == nil || lookupVal == nil {
		return false
	}
	var writes []*ssa.MapUpdate
	writeBlocks := map[*ssa.BasicBlock]bool{}
	allInstrs(a2m, func(in ssa.Instruction) {
		if mu, ok := in.(*ssa.MapUpdate); ok {
			writes = append(writes, mu)
			writeBlocks[in.Block()] = true
		}
	})
	if len(writes) == 0 {
		return false
	}
	okAll := true
	fail := func(pos token.Pos, what, msg string) {
		okAll = false
		r.Fail(pos, p.FuncName(a2m), what, msg)
	}
	// (1)
	afterLiteral := inIter(literalCall.Block(), nil)
	if afterLiteral[defaultCall.Block()] && literalCall.Block() != defaultCall.Block() {
		fail(defaultCall.Pos(), "default not guarded by 'no value found'", "the default conversion is reachable after the written literal was converted: the argument default can override a written literal")
	}
	if inIter(foundStart, nil)[defaultCall.Block()] || foundStart == defaultCall.Block() {
		fail(defaultCall.Pos(), "default not guarded by 'no value found'", "the default conversion is reachable on the side where the variable was found among the supplied values: the argument default can override a supplied variable (an explicit null included)")
	}
	// (2) each source reaches a write before the iteration ends
	ends := func(from *ssa.BasicBlock) bool {
		if writeBlocks[from] {
			return false
		}
		for b := range inIter(from, writeBlocks) {
			for _, s := range b.Succs {
				if s == hdr {
					return true
				}
			}
		}
		return false
	}
	// the error branches panic: they do not end the iteration normally (no edge to the header)
	for _, src := range []struct {
		b    *ssa.BasicBlock
		what string
	}{{literalCall.Block(), "the converted literal"}, {foundStart, "the supplied variable"}, {defaultCall.Block(), "the converted default"}} {
		if ends(src.b) {
			fail(src.b.Instrs[0].Pos(), "result written without 'value found'", src.what+" can be dropped: the iteration can end without result[argDef.Name] having been written")
		}
	}
	// (3)
	for _, mu := range writes {
		if !loadOfField(mu.Key, "ArgumentDefinition", "Name") {
			fail(mu.Pos(), "result written under another key", "the key is not the argument definition's name")
			continue
		}
		okV := false
		var walk func(v ssa.Value, d int)
		walk = func(v ssa.Value, d int) {
			if d > 5 || okV {
				return
			}
			v = stripChange(v)
			if v == lookupVal {
				okV = true
				return
			}
			switch x := v.(type) {
			case *ssa.Extract:
				if call, ok := x.Tuple.(*ssa.Call); ok && (call == literalCall.(*ssa.Call) || call == defaultCall.(*ssa.Call)) && x.Index == 0 {
					okV = true
				}
			case *ssa.Phi:
				for _, e := range x.Edges {
					walk(e, d+1)
				}
			case *ssa.UnOp:
				if al, ok := x.X.(*ssa.Alloc); ok {
					for _, sv := range storesTo(al) {
						walk(sv, d+1)
					}
				}
			}
		}
		walk(mu.Value, 0)
		if !okV {
			fail(mu.Pos(), "result written with another value", "the value stored is not the converted literal, the supplied variable or the converted default")
		}
	}
	if okAll {
		r.OK("arg2map: literal or supplied variable first, default unreachable from either, every obtained value written under argDef.Name", "decided on the control-flow graph of one iteration")
		r.OK("arg2map: every write stores one of the three sources", "")
		// the loop is over the definition's arguments
		okLoop := false
		allInstrs(a2m, func(in ssa.Instruction) {
			if ia, ok := in.(*ssa.IndexAddr); ok {
				if prm, ok := ia.X.(*ssa.Parameter); ok && prm == a2m.Params[0] {
					okLoop = true
				}
			}
		})
		if okLoop {
			r.OK("arg2map iterates the argument definitions (unwritten arguments get their defaults)", "")
		} else {
			r.Fail(a2m.Pos(), p.FuncName(a2m), "loop not over the argument definitions", "arguments that are not written would get no default")
		}
	}
	return true
}
