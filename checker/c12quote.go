package main

import (
	"fmt"
	"go/constant"
	"go/types"
	"sort"
	"strings"

	"golang.org/x/tools/go/ssa"
)

// Writer / reader agreement of the string quoting function (C12.R2, C13.R2), by interval-set propagation of the
// scanned byte through the quoting function's branches (the technique of C03):
//
//	for every byte value, what the quoting function writes for it must be what the lexer's readString maps back to
//	exactly that byte:
//	  a single-character escape \x        only for the byte the lexer decodes \x to
//	  a verbatim copy                     only for bytes the lexer accepts raw inside "..." and keeps (not ", \, < 0x20 but tab)
//	  \u%04x of the scanned byte          only for bytes < 0x80 (the lexer writes the code point back as UTF-8)
//	  anything else                       not decided (a decoded rune, a computed code unit, a substring)
//	and something is written for every byte on every path of the loop.
var escapeDecodes = map[string]int64{`\"`: 0x22, `\\`: 0x5C, `\/`: 0x2F, `\b`: 8, `\f`: 12, `\n`: 10, `\r`: 13, `\t`: 9}

var rawStringChars = ivOf(0x09, 0x09, 0x20, 0x21, 0x23, 0x5B, 0x5D, 0xFF)

type quoteCheck struct {
	p    *Program
	r    *RuleResult
	g    *ssa.Function
	nOK  int
	seen map[*ssa.Function]bool
}

func quoterAgreement(c *Ctx, r *RuleResult, g *ssa.Function) {
	p := c.P
	qc := &quoteCheck{p: p, r: r, g: g, seen: map[*ssa.Function]bool{}}
	// the scanned byte: an index of the string parameter
	var scr ssa.Value
	n := 0
	allInstrs(g, func(in ssa.Instruction) {
		if _, v, ok := strIndex(in); ok && isByteVal(v) {
			if base := indexBase(in); base != nil {
				if _, isParam := stripChange(base).(*ssa.Parameter); isParam {
					scr = v
					n++
				}
			}
		}
	})
	if n != 1 {
		r.Undecided(g.Pos(), p.FuncName(g), "quoting function scan", fmt.Sprintf("the quoting function does not scan its argument byte by byte through one index expression (%d found): the per-byte agreement with the lexer is not decided", n))
		return
	}
	start := scr.(ssa.Instruction).Block()
	headers, bodies := loopsOf(g)
	var body map[*ssa.BasicBlock]bool
	for _, h := range headers {
		if bodies[h][start] && (body == nil || len(bodies[h]) < len(body)) {
			body = bodies[h]
		}
	}
	if body == nil {
		r.Undecided(g.Pos(), p.FuncName(g), "quoting function scan", "the scanned byte is not read inside a loop")
		return
	}
	sets := reachSets(g, scr, start, ivFull(0xFF))
	writeBlocks := map[*ssa.BasicBlock]bool{}
	var blocks []*ssa.BasicBlock
	for b := range body {
		blocks = append(blocks, b)
	}
	sort.Slice(blocks, func(i, j int) bool { return blocks[i].Index < blocks[j].Index })
	for _, b := range blocks {
		set := sets[b]
		if len(set) == 0 {
			continue
		}
		for _, in := range b.Instrs {
			if qc.write(in, scr, set, 0) {
				writeBlocks[b] = true
			}
		}
	}
	// something is written for every byte: from the read, the next iteration is not reachable around the writes
	feasible := func(b *ssa.BasicBlock) bool { return len(sets[b]) > 0 }
	reach := reachAvoiding(start, func(b *ssa.BasicBlock) bool { return writeBlocks[b] || !feasible(b) || !body[b] }, nil)
	for b := range reach {
		for _, s := range b.Succs {
			if s.Dominates(b) && body[s] && reach[b] && b != start || (s == start && b != start) {
				// a back edge reached without a write
				if !writeBlocks[b] {
					r.Fail(loopPos(s), p.FuncName(g), "a byte can be skipped without output", "the quoting loop reaches its next iteration for byte values "+sets[b].String()+" without having written anything: those bytes disappear from the printed value")
					return
				}
			}
		}
	}
	if qc.nOK > 0 {
		r.OK(fmt.Sprintf("per-byte agreement of %s with the lexer: %d writes", p.FuncName(g), qc.nOK), "each write is what readString decodes back to the scanned byte, for the byte values that reach it")
	}
}

func indexBase(in ssa.Instruction) ssa.Value {
	switch x := in.(type) {
	case *ssa.Lookup:
		return x.X
	case *ssa.Index:
		return x.X
	}
	return nil
}

// write checks one instruction if it writes to the output; reports whether it is a write.
func (qc *quoteCheck) write(in ssa.Instruction, scr ssa.Value, set ivset, depth int) bool {
	p, r := qc.p, qc.r
	ci, ok := in.(ssa.CallInstruction)
	if !ok {
		return false
	}
	cm := ci.Common()
	if _, isB := cm.Value.(*ssa.Builtin); isB {
		return false
	}
	name := calleeName(ci)
	fn := in.Parent()
	fail := func(what, msg string) {
		r.Fail(in.Pos(), p.FuncName(fn), what, msg)
	}
	switch {
	case strings.HasSuffix(name, "strings.Builder).WriteString") || strings.HasSuffix(name, "bytes.Buffer).WriteString"):
		s, isConst := constString(cm.Args[len(cm.Args)-1])
		if !isConst {
			// the escape of the scanned byte looked up in a read-only table: each entry must be the byte's own escape
			if tab, idx, isOK, field := tableLookup(p, cm.Args[len(cm.Args)-1]); tab != nil && !isOK && field == "" && sameScrutinee(stripChange(idx), scr) {
				okAll := true
				for _, iv := range set {
					for x := iv[0]; x <= iv[1]; x++ {
						found := false
						for _, e := range tab.entries {
							if k, ok := constant.Int64Val(e.key); ok && k == x {
								es, isS := constString(e.val)
								if want, isEsc := escapeDecodes[es]; isS && isEsc && want == x {
									found = true
								}
							}
						}
						if !found {
							okAll = false
						}
					}
				}
				if okAll {
					qc.nOK++
				} else {
					fail("escape table "+tab.g.Name()+" written for bytes "+set.String(), "an entry of the table is not the escape the lexer decodes back to its key, or a byte reaches the write that the table does not hold")
				}
				return true
			}
			r.Undecided(in.Pos(), p.FuncName(fn), "write of a computed string", "the quoting function writes a string that is not a constant escape for byte values "+set.String()+": whether the lexer maps it back to the scanned byte is not decided")
			return true
		}
		want, isEsc := escapeDecodes[s]
		if !isEsc {
			r.Undecided(in.Pos(), p.FuncName(fn), fmt.Sprintf("write of %q", s), "not a single-character escape of the GraphQL grammar")
			return true
		}
		if !set.eq(ivPoints(want)) {
			fail(fmt.Sprintf("escape %s written for bytes %s", s, set.String()), fmt.Sprintf("the lexer decodes %s to byte 0x%02X only; written for other bytes the value changes on re-parsing", s, want))
			return true
		}
		qc.nOK++
		return true
	case strings.HasSuffix(name, "strings.Builder).WriteByte") || strings.HasSuffix(name, "bytes.Buffer).WriteByte") ||
		strings.HasSuffix(name, "strings.Builder).WriteRune") || strings.HasSuffix(name, "bytes.Buffer).WriteRune"):
		a := cm.Args[len(cm.Args)-1]
		if !sameScrutinee(a, scr) {
			r.Undecided(in.Pos(), p.FuncName(fn), "write of a value that is not the scanned byte", "for byte values "+set.String()+" the quoting function writes something other than the scanned byte or a constant escape")
			return true
		}
		var bad ivset
		for _, iv := range set {
			for x := iv[0]; x <= iv[1]; x++ {
				if len(rawStringChars.intersectRange(x, x)) == 0 {
					bad = bad.union(ivPoints(x))
				}
			}
		}
		if len(bad) > 0 {
			fail("bytes "+bad.String()+" copied verbatim", "inside \"...\" the lexer ends the string at a quote, starts an escape at a backslash and rejects control characters other than tab: these bytes must be escaped")
			return true
		}
		qc.nOK++
		return true
	case name == "fmt.Fprintf" || name == "fmt.Fprint" || name == "fmt.Fprintln":
		if name != "fmt.Fprintf" || len(cm.Args) < 3 {
			r.Undecided(in.Pos(), p.FuncName(fn), "formatted write", "not a \\u%04x escape")
			return true
		}
		f, isConst := constString(cm.Args[1])
		elems := variadicElems(cm.Args[2])
		if !isConst || (f != `\u%04x` && f != `\u%04X`) || len(elems) != 1 {
			r.Undecided(in.Pos(), p.FuncName(fn), "formatted write", "the format is not exactly one \\u escape of four hex digits with one argument")
			return true
		}
		a := elems[0]
		if mi, isMI := a.(*ssa.MakeInterface); isMI {
			a = mi.X
		}
		if !sameScrutinee(a, scr) {
			fail("\\u escape of a value that is not the scanned character", "the code unit written is computed (a decoded rune, a surrogate half, an offset): the lexer decodes each \\uXXXX on its own to the UTF-8 of that code point, which is the scanned byte only when the scanned byte itself, below 0x80, is what was written")
			return true
		}
		if hi := set[len(set)-1][1]; hi > 0x7F {
			fail("\\u escape for bytes "+set.String(), "the lexer writes \\u00XX back as the UTF-8 encoding of U+00XX, two bytes for XX >= 0x80: the byte does not survive")
			return true
		}
		qc.nOK++
		return true
	}
	// a helper of the module that receives the output and the scanned character
	g := cm.StaticCallee()
	if g == nil || !p.inModule(g) || len(g.Blocks) == 0 {
		return false
	}
	takesOut := false
	for _, prm := range g.Params {
		if pt, ok := prm.Type().(*types.Pointer); ok {
			if nm, ok := pt.Elem().(*types.Named); ok && (nm.Obj().Name() == "Builder" || nm.Obj().Name() == "Buffer") {
				takesOut = true
			}
		}
		if types.IsInterface(prm.Type()) && strings.Contains(prm.Type().String(), "Writer") {
			takesOut = true
		}
	}
	if !takesOut {
		return false
	}
	if depth > 2 {
		r.Undecided(in.Pos(), p.FuncName(fn), "nested writing helpers", "more than two levels of helpers")
		return true
	}
	var prm *ssa.Parameter
	for i, a := range cm.Args {
		if sameScrutinee(a, scr) && i < len(g.Params) {
			prm = g.Params[i]
		}
	}
	if prm == nil {
		r.Fail(in.Pos(), p.FuncName(fn), "writing helper "+p.FuncName(g)+" called with a value that is not the scanned character", "for byte values "+set.String()+" the quoting function hands a computed value (a decoded rune, an offset) to a helper that writes it: what the lexer reads back is not decided to be the scanned bytes")
		return true
	}
	sub := reachSets(g, prm, g.Blocks[0], set)
	wrote := false
	for _, b := range g.Blocks {
		if len(sub[b]) == 0 {
			continue
		}
		for _, x := range b.Instrs {
			if qc.write(x, prm, sub[b], depth+1) {
				wrote = true
			}
		}
	}
	return wrote
}

// rootInferenceRule (C13.R5): the reader half of the formatter's omission of the `schema { ... }` block. FormatSchema
// leaves the block out when every root has its default name (and prints schema directives as `extend schema @d`); the
// loader must then infer the roots from the default names whenever there is no schema *definition* — whatever
// extensions exist. The three inference stores `schema.X = schema.Types["X"]` in ValidateSchemaDocument are therefore
// guarded by exactly: no schema definition, root X not set, type X exists (and by checks that passed).
func rootInferenceRule(c *Ctx, r *RuleResult) {
	p := c.P
	vsd := p.Func("validator.ValidateSchemaDocument")
	schemaT := p.LookupType("ast", "Schema")
	if vsd == nil || schemaT == nil {
		r.AnchorLost("validator.ValidateSchemaDocument / ast.Schema")
		return
	}
	found := 0
	for _, root := range []string{"Query", "Mutation", "Subscription"} {
		for _, st := range storesToField([]*ssa.Function{vsd}, schemaT, root) {
			lk, ok := stripChange(st.store.Val).(*ssa.Lookup)
			if !ok {
				continue
			}
			key, isConst := constString(lk.Index)
			if !isConst || !loadOfField(lk.X, "Schema", "Types") {
				continue
			}
			found++
			site := "inference of Schema." + root + " at " + p.Pos(st.store.Pos())
			if key != root {
				r.Fail(st.store.Pos(), p.FuncName(vsd), "root "+root+" inferred from type "+key, "the default name of the "+root+" root is "+root)
				continue
			}
			want := map[string]bool{
				"len(SchemaDocument.Schema) == 0":                    false,
				"Schema." + root + " == nil":                         false,
				fmt.Sprintf("lookup(Schema.Types[%q]) != nil", root): false,
			}
			var extra []string
			for _, cd := range condsAt(st.store.Block()) {
				// a check that passed: the other side can only fail
				if ifb := cd.At; ifb != nil && len(ifb.Succs) == 2 {
					other := ifb.Succs[0]
					if cd.True {
						other = ifb.Succs[1]
					}
					if failOnly(other) {
						continue
					}
				}
				if structuralGuard(cd) {
					continue // loop bounds, type switches
				}
				d := guardDesc(cd)
				if bo, isB := cd.V.(*ssa.BinOp); isB && d == "lookup(Schema.Types) != nil" {
					for _, o := range []ssa.Value{bo.X, bo.Y} {
						if l2, isL := stripChange(o).(*ssa.Lookup); isL {
							if k2, isC := constString(l2.Index); isC {
								d = fmt.Sprintf("lookup(Schema.Types[%q]) != nil", k2)
							}
						}
					}
				}
				if _, ok := want[d]; ok {
					want[d] = true
				} else {
					extra = append(extra, d)
				}
			}
			var missing []string
			for d, seen := range want {
				if !seen {
					missing = append(missing, d)
				}
			}
			sort.Strings(missing)
			sort.Strings(extra)
			switch {
			case len(extra) > 0:
				r.Fail(st.store.Pos(), p.FuncName(vsd), "inference of Schema."+root+" also depends on "+strings.Join(extra, "; "), "FormatSchema omits the schema block whenever the roots have their default names and prints schema directives as an extension: a loader that does not infer the roots under this extra condition reloads the formatted schema without them")
			case len(missing) > 0:
				r.Fail(st.store.Pos(), p.FuncName(vsd), "inference of Schema."+root+" is not guarded by "+strings.Join(missing, "; "), "roots would be inferred although a schema definition exists or the root is already set: the reloaded schema has roots the original did not have")
			default:
				r.OK(site, "guarded by exactly: no schema definition, root unset, type exists")
			}
		}
	}
	if found == 0 {
		r.AnchorLost("stores schema.X = schema.Types[\"X\"] in ValidateSchemaDocument")
	}
}

// rootBlockRule (C13.R7): the writer half of the same agreement. The loader infers default-named roots only when the
// document has no schema definition, so whenever FormatSchema writes a schema definition it must write every root that
// is set. The three writes `WriteWord(schema.X.Name)` may therefore be guarded only by "root X is set" and by
// conditions that guard all three alike (the decision to write the definition at all); a test of X's own name that
// guards only X's write lets the definition appear without X.
func rootBlockRule(c *Ctx, r *RuleResult) {
	p := c.P
	fs := p.Func("formatter.(*formatter).FormatSchema")
	if fs == nil {
		r.AnchorLost("formatter.(*formatter).FormatSchema")
		return
	}
	type wr struct {
		in     ssa.Instruction
		guards map[string]bool
	}
	writes := map[string]*wr{}
	for _, fn := range withClosures(fs) {
		allInstrs(fn, func(in ssa.Instruction) {
			ci, ok := in.(ssa.CallInstruction)
			if !ok || ci.Common().StaticCallee() == nil || ci.Common().StaticCallee().Name() != "WriteWord" || len(ci.Common().Args) < 2 {
				return
			}
			d := operandDesc(ci.Common().Args[1])
			for _, root := range []string{"Query", "Mutation", "Subscription"} {
				if d == "Schema."+root+"->Definition.Name" {
					w := &wr{in, map[string]bool{}}
					for _, cd := range condsAt(in.Block()) {
						if structuralGuard(cd) {
							continue
						}
						w.guards[guardDesc(cd)] = true
					}
					writes[root] = w
				}
			}
		})
	}
	if len(writes) != 3 {
		r.AnchorLost(fmt.Sprintf("the three writes of schema.X.Name in FormatSchema (found %d)", len(writes)))
		return
	}
	for _, root := range []string{"Query", "Mutation", "Subscription"} {
		w := writes[root]
		var own []string
		for g := range w.guards {
			if g == "Schema."+root+" != nil" {
				continue
			}
			shared := true
			for _, o := range writes {
				if !o.guards[g] {
					shared = false
				}
			}
			if !shared {
				own = append(own, g)
			}
		}
		sort.Strings(own)
		if len(own) > 0 {
			r.Fail(w.in.Pos(), p.FuncName(w.in.Parent()), "the "+root+" root is written only when "+strings.Join(own, " and "), "the schema definition is also written when another root has a non-default name; "+root+" is then left out of it although it is set, and the loader infers default-named roots only when there is no schema definition at all: the reloaded schema has no "+root+" root")
		} else {
			r.OK("write of the "+root+" root in FormatSchema", "guarded only by the root being set and by the conditions shared by all three root writes")
		}
	}
}
