package main

import (
	"go/token"
	"go/types"

	"golang.org/x/tools/go/ssa"
)

// c20NoTypedNil (C20.R8): no nil *gqlerror.Error (and no empty gqlerror.List) is turned into an `error`.
//
// A nil pointer stored in an interface is a non-nil interface: a caller's `err != nil` sees an error whose message,
// locations and path cannot be read. Instances are the conversions (MakeInterface) of a *gqlerror.Error or a
// gqlerror.List to an interface type in the module. Each must be given a value that is provably present: a fresh
// allocation, the result of a function all of whose results are fresh (or results of such functions), a value that a
// dominating branch compared with nil and found non-nil (for a list: found non-empty), or a phi of such values.
func c20NoTypedNil(c *Ctx, r *RuleResult) {
	p := c.P
	errT := p.LookupType("gqlerror", "Error")
	listT := p.LookupType("gqlerror", "List")
	if errT == nil || listT == nil {
		r.AnchorLost("gqlerror.Error / gqlerror.List")
		return
	}
	isErrPtr := func(t types.Type) bool {
		pt, ok := t.(*types.Pointer)
		return ok && sameNamed(namedOf(pt.Elem()), errT)
	}
	isList := func(t types.Type) bool {
		n, ok := t.(*types.Named)
		return ok && sameNamed(n, listT)
	}
	// functions that never return nil at a result index
	neverNil := map[*ssa.Function]map[int]bool{}
	// functions whose (single) result is nil only when parameter k is nil: gqlerror.Wrap and its like
	nilOnlyIf := map[*ssa.Function]int{}
	present := func(v ssa.Value, at *ssa.BasicBlock) bool {
		v = unspill(stripChange(v))
		if _, ok := v.(*ssa.MakeInterface); ok {
			return true
		}
		for _, cd := range append(condsAt(at), edgeCond(at)...) {
			if presentBy(cd, v) {
				return true
			}
		}
		return false
	}
	var fresh func(v ssa.Value, at *ssa.BasicBlock, depth int) bool
	fresh = func(v ssa.Value, at *ssa.BasicBlock, depth int) bool {
		if depth > 6 {
			return false
		}
		v = unspill(stripChange(v))
		switch x := v.(type) {
		case *ssa.Alloc:
			return true
		case *ssa.Call:
			if g := staticCallee(x); g != nil && g.Signature.Results().Len() == 1 {
				if neverNil[g][0] {
					return true
				}
				if k, ok := nilOnlyIf[g]; ok && k < len(x.Call.Args) && present(x.Call.Args[k], x.Block()) {
					return true
				}
			}
		case *ssa.Extract:
			if call, ok := x.Tuple.(*ssa.Call); ok {
				if g := staticCallee(call); g != nil && neverNil[g][x.Index] {
					return true
				}
			}
			// the value of a comma-ok type assertion that a dominating branch found to have succeeded: what the interface
			// held, and by this very rule no interface of the module holds a nil pointer
			if ta, ok := x.Tuple.(*ssa.TypeAssert); ok && ta.CommaOk && x.Index == 0 && at != nil {
				for _, cd := range append(condsAt(at), edgeCond(at)...) {
					if ex, ok := cd.V.(*ssa.Extract); ok && ex.Tuple == ta && ex.Index == 1 && cd.True {
						return true
					}
				}
			}
		case *ssa.UnOp:
			// an element of a gqlerror.List (lists hold no nil: every element appended is decided by this rule as well)
			if ia, ok := x.X.(*ssa.IndexAddr); ok && x.Op == token.MUL && isList(ia.X.Type()) {
				return true
			}
		case *ssa.Phi:
			ok := len(x.Edges) > 0
			for i, e := range x.Edges {
				if !fresh(e, x.Block().Preds[i], depth+1) {
					ok = false
				}
			}
			if ok {
				return true
			}
		case *ssa.Slice:
			// a non-empty list stays non-empty only if we know its bounds; not attempted
		}
		// a dominating test found it present
		if at != nil {
			for _, cd := range append(condsAt(at), edgeCond(at)...) {
				if presentBy(cd, v) {
					return true
				}
			}
		}
		return false
	}
	for changed := true; changed; {
		changed = false
		for _, fn := range p.Funcs() {
			if fn.Blocks == nil || !p.inModule(fn) {
				continue
			}
			res := fn.Signature.Results()
			for i := 0; i < res.Len(); i++ {
				if neverNil[fn][i] || !(isErrPtr(res.At(i).Type()) || isList(res.At(i).Type())) {
					continue
				}
				all := true
				rets := returnsOf(fn)
				for _, ret := range rets {
					vals := returnValues(ret)
					if i >= len(vals) || !fresh(vals[i], ret.Block(), 0) {
						all = false
					}
				}
				if all && len(rets) > 0 {
					if neverNil[fn] == nil {
						neverNil[fn] = map[int]bool{}
					}
					neverNil[fn][i] = true
					changed = true
					continue
				}
				if _, done := nilOnlyIf[fn]; done || res.Len() != 1 || len(rets) == 0 {
					continue
				}
				// nil is returned only under `param == nil`
				k := -1
				okAll := true
				for _, ret := range rets {
					vals := returnValues(ret)
					if fresh(vals[0], ret.Block(), 0) {
						continue
					}
					found := -1
					if isNilConst(unspill(stripChange(vals[0]))) {
						for _, cd := range append(condsAt(ret.Block()), edgeCond(ret.Block())...) {
							if bo, ok := cd.V.(*ssa.BinOp); ok && (bo.Op == token.EQL) == cd.True && (bo.Op == token.EQL || bo.Op == token.NEQ) {
								x, y := bo.X, bo.Y
								if isNilConst(x) {
									x, y = y, x
								}
								if prm, isP := unspill(stripChange(x)).(*ssa.Parameter); isP && isNilConst(y) {
									found = paramIndex(fn, prm)
								}
							}
						}
					}
					// ... or is what such a function makes of this function's own parameter
					if call, isC := unspill(stripChange(vals[0])).(*ssa.Call); isC && found < 0 {
						if g := staticCallee(call); g != nil {
							if gk, ok := nilOnlyIf[g]; ok && gk < len(call.Call.Args) {
								if prm, isP := unspill(stripChange(call.Call.Args[gk])).(*ssa.Parameter); isP {
									found = paramIndex(fn, prm)
								}
							}
						}
					}
					if found < 0 || (k >= 0 && k != found) {
						okAll = false
						break
					}
					k = found
				}
				if okAll && k >= 0 {
					nilOnlyIf[fn] = k
					changed = true
				}
			}
		}
	}
	for _, fn := range p.Funcs() {
		if fn.Blocks == nil || !p.inModule(fn) {
			continue
		}
		allInstrs(fn, func(in ssa.Instruction) {
			mi, ok := in.(*ssa.MakeInterface)
			if !ok {
				return
			}
			if !(isErrPtr(mi.X.Type()) || isList(mi.X.Type())) {
				return
			}
			what := "*gqlerror.Error"
			if isList(mi.X.Type()) {
				what = "gqlerror.List"
			}
			inst := p.FuncName(fn) + ": " + what + " -> " + mi.Type().String()
			if fresh(mi.X, mi.Block(), 0) {
				r.OK(inst, "the value converted is fresh or was found present by a dominating test")
				return
			}
			r.Fail(mi.Pos(), p.FuncName(fn), what+" that may be nil is converted to "+mi.Type().String()+" ("+stableValue(mi.X)+")",
				"a nil "+what+" inside an interface is a non-nil error without message, location or path; the value is neither fresh nor compared with nil on the way here")
		})
	}
}

// edgeCond: when block b has a single predecessor that ends in an If, the condition of that edge.
func edgeCond(b *ssa.BasicBlock) []Cond {
	if len(b.Preds) != 1 {
		return nil
	}
	d := b.Preds[0]
	if len(d.Instrs) == 0 {
		return nil
	}
	ifi, ok := d.Instrs[len(d.Instrs)-1].(*ssa.If)
	if !ok || d.Succs[0] == d.Succs[1] {
		return nil
	}
	return []Cond{normCond(Cond{ifi.Cond, d.Succs[0] == b, d})}
}

// presentBy: cd says v != nil (or len(v) > 0 / != 0).
func presentBy(cd Cond, v ssa.Value) bool {
	bo, ok := cd.V.(*ssa.BinOp)
	if !ok {
		return false
	}
	same := func(a ssa.Value) bool { return unspill(stripChange(a)) == v }
	x, y := bo.X, bo.Y
	if isNilConst(x) {
		x, y = y, x
	}
	if isNilConst(y) && same(x) {
		return (bo.Op == token.NEQ) == cd.True
	}
	if l, emptyWhenTrue, ok := emptinessOf(bo); ok && same(l) {
		return emptyWhenTrue != cd.True
	}
	return false
}

// stableValue describes a value without its SSA register name (finding keys must survive unrelated edits).
func stableValue(v ssa.Value) string {
	v = unspill(stripChange(v))
	switch x := v.(type) {
	case *ssa.Call:
		return "the result of " + calleeName(x)
	case *ssa.Extract:
		if call, ok := x.Tuple.(*ssa.Call); ok {
			return "a result of " + calleeName(call)
		}
		if _, ok := x.Tuple.(*ssa.TypeAssert); ok {
			return "the value of a type assertion"
		}
	case *ssa.Parameter:
		return "parameter " + x.Name()
	case *ssa.Phi:
		return "a value chosen on several paths"
	}
	if st, f, ok := fieldLoadOf(v); ok {
		return st + "." + f
	}
	return "a local value"
}
