package main

import (
	"go/token"
	"go/types"

	"golang.org/x/tools/go/ssa"
)

// ---------------------------------------------------------------------------
// Small CFG / SSA utilities shared by the structural rules.

type edge struct{ from, to *ssa.BasicBlock }

// reachAvoiding returns the blocks reachable from start without entering a blocked block
// and without following a blocked edge. start itself is included unless blocked.
func reachAvoiding(start *ssa.BasicBlock, blockedBlock func(*ssa.BasicBlock) bool, blockedEdge func(from, to *ssa.BasicBlock) bool) map[*ssa.BasicBlock]bool {
	seen := map[*ssa.BasicBlock]bool{}
	if start == nil || (blockedBlock != nil && blockedBlock(start)) {
		return seen
	}
	work := []*ssa.BasicBlock{start}
	seen[start] = true
	for len(work) > 0 {
		b := work[len(work)-1]
		work = work[:len(work)-1]
		for _, s := range b.Succs {
			if seen[s] {
				continue
			}
			if blockedBlock != nil && blockedBlock(s) {
				continue
			}
			if blockedEdge != nil && blockedEdge(b, s) {
				continue
			}
			seen[s] = true
			work = append(work, s)
		}
	}
	return seen
}

// instrBlockedReach: is `to` reachable from the instruction following `from` without
// executing an instruction for which stop() is true? Works at instruction granularity.
func reachesWithout(from ssa.Instruction, to func(ssa.Instruction) bool, stop func(ssa.Instruction) bool) (ssa.Instruction, bool) {
	b := from.Block()
	idx := -1
	for i, in := range b.Instrs {
		if in == from {
			idx = i
			break
		}
	}
	type item struct {
		b *ssa.BasicBlock
		i int
	}
	seen := map[*ssa.BasicBlock]bool{}
	work := []item{{b, idx + 1}}
	for len(work) > 0 {
		it := work[len(work)-1]
		work = work[:len(work)-1]
		stopped := false
		for i := it.i; i < len(it.b.Instrs); i++ {
			in := it.b.Instrs[i]
			if to(in) {
				return in, true
			}
			if stop != nil && stop(in) {
				stopped = true
				break
			}
		}
		if stopped {
			continue
		}
		for _, s := range it.b.Succs {
			if !seen[s] {
				seen[s] = true
				work = append(work, item{s, 0})
			}
		}
	}
	return nil, false
}

// entryReachesWithout: from function entry.
func entryReachesWithout(fn *ssa.Function, to func(ssa.Instruction) bool, stop func(ssa.Instruction) bool) (ssa.Instruction, bool) {
	if len(fn.Blocks) == 0 {
		return nil, false
	}
	type item struct {
		b *ssa.BasicBlock
	}
	seen := map[*ssa.BasicBlock]bool{fn.Blocks[0]: true}
	work := []*ssa.BasicBlock{fn.Blocks[0]}
	for len(work) > 0 {
		b := work[len(work)-1]
		work = work[:len(work)-1]
		stopped := false
		for _, in := range b.Instrs {
			if to(in) {
				return in, true
			}
			if stop != nil && stop(in) {
				stopped = true
				break
			}
		}
		if stopped {
			continue
		}
		for _, s := range b.Succs {
			if !seen[s] {
				seen[s] = true
				work = append(work, s)
			}
		}
	}
	return nil, false
}

// loopOf returns, for every block, the set of natural-loop headers whose loop contains it.
func loopsOf(fn *ssa.Function) (headers []*ssa.BasicBlock, body map[*ssa.BasicBlock]map[*ssa.BasicBlock]bool) {
	body = map[*ssa.BasicBlock]map[*ssa.BasicBlock]bool{}
	for _, b := range fn.Blocks {
		for _, s := range b.Succs {
			if s.Dominates(b) { // back edge b -> s
				if body[s] == nil {
					body[s] = map[*ssa.BasicBlock]bool{s: true}
					headers = append(headers, s)
				}
				// collect natural loop of back edge
				stack := []*ssa.BasicBlock{b}
				for len(stack) > 0 {
					x := stack[len(stack)-1]
					stack = stack[:len(stack)-1]
					if body[s][x] {
						continue
					}
					body[s][x] = true
					stack = append(stack, x.Preds...)
				}
			}
		}
	}
	return
}

// irreducibleCycle reports whether fn has a cycle that is not a natural loop (no dominating header).
func hasCycleOutsideNaturalLoops(fn *ssa.Function) bool {
	_, body := loopsOf(fn)
	inLoop := func(a, b *ssa.BasicBlock) bool {
		for _, bd := range body {
			if bd[a] && bd[b] {
				return true
			}
		}
		return false
	}
	// any SCC edge not inside a natural loop?
	for _, b := range fn.Blocks {
		for _, s := range b.Succs {
			if reachAvoiding(s, nil, nil)[b] && !inLoop(b, s) {
				return true
			}
		}
	}
	return false
}

// fieldLoad reports whether v is a load (*FieldAddr or Field) of the named struct field.
func isFieldLoad(v ssa.Value, st *types.Named, name string) bool {
	switch x := v.(type) {
	case *ssa.UnOp:
		if x.Op != token.MUL {
			return false
		}
		if fa, ok := x.X.(*ssa.FieldAddr); ok {
			n, f, _, _ := fieldOf(fa)
			return n != nil && sameNamed(n, st) && f == name
		}
	case *ssa.Field:
		n, f, _, _ := fieldOf(x)
		return n != nil && sameNamed(n, st) && f == name
	}
	return false
}

func sameNamed(a, b *types.Named) bool {
	if a == nil || b == nil {
		return false
	}
	return a.Obj() == b.Obj()
}

// fieldStore describes one store to a struct field.
type fieldStoreSite struct {
	fn    *ssa.Function
	store *ssa.Store
	addr  *ssa.FieldAddr
}

// storesToField lists all stores to st.name in the given functions.
func storesToField(fns []*ssa.Function, st *types.Named, name string) []fieldStoreSite {
	var out []fieldStoreSite
	for _, fn := range fns {
		allInstrs(fn, func(in ssa.Instruction) {
			s, ok := in.(*ssa.Store)
			if !ok {
				return
			}
			fa, ok := s.Addr.(*ssa.FieldAddr)
			if !ok {
				return
			}
			n, f, _, _ := fieldOf(fa)
			if n != nil && sameNamed(n, st) && f == name {
				out = append(out, fieldStoreSite{fn, s, fa})
			}
		})
	}
	return out
}

// derefValue follows single-store local spills: for `*alloc` where alloc has exactly one store, returns the stored value.
func unspill(v ssa.Value) ssa.Value {
	for i := 0; i < 8; i++ {
		u, ok := v.(*ssa.UnOp)
		if !ok || u.Op != token.MUL {
			return v
		}
		a, ok := u.X.(*ssa.Alloc)
		if !ok {
			return v
		}
		st := storesTo(a)
		if len(st) != 1 {
			return v
		}
		v = st[0]
	}
	return v
}

// callsTo lists the call instructions in fns whose static callee is target.
func callsTo(fns []*ssa.Function, target *ssa.Function) []ssa.CallInstruction {
	var out []ssa.CallInstruction
	for _, fn := range fns {
		allInstrs(fn, func(in ssa.Instruction) {
			if c, ok := in.(ssa.CallInstruction); ok {
				if c.Common().StaticCallee() == target {
					out = append(out, c)
				}
			}
		})
	}
	return out
}

// instrIndex returns the index of in within its block.
func instrIndex(in ssa.Instruction) int {
	for i, x := range in.Block().Instrs {
		if x == in {
			return i
		}
	}
	return -1
}

// strictlyBefore: a executes before b on every path to b (a dominates b).
func dominatesInstr(a, b ssa.Instruction) bool {
	if a.Block() == b.Block() {
		return instrIndex(a) < instrIndex(b)
	}
	return a.Block().Dominates(b.Block())
}

// returnsOf lists the Return instructions of fn.
func returnsOf(fn *ssa.Function) []*ssa.Return {
	var out []*ssa.Return
	allInstrs(fn, func(in ssa.Instruction) {
		if r, ok := in.(*ssa.Return); ok {
			if fn.Recover != nil && in.Block() == fn.Recover {
				return // the synthetic return taken after a recovered panic, not a return statement
			}
			out = append(out, r)
		}
	})
	return out
}

// returnValues resolves defer-spilled results: with a defer in the function go/ssa stores each result into a cell,
// runs the defers and loads the cells again; the value returned is the last store in the return's own block.
func returnValues(ret *ssa.Return) []ssa.Value {
	out := make([]ssa.Value, len(ret.Results))
	for i, r := range ret.Results {
		out[i] = r
		u, ok := r.(*ssa.UnOp)
		if !ok || u.Op != token.MUL {
			continue
		}
		a, ok := u.X.(*ssa.Alloc)
		if !ok {
			continue
		}
		// a result cell is only ever stored to and loaded as a whole; a local variable whose fields are
		// addressed is not one
		plain := true
		for _, ref := range *a.Referrers() {
			switch x := ref.(type) {
			case *ssa.Store:
				if x.Addr != ssa.Value(a) {
					plain = false
				}
			case *ssa.UnOp:
			default:
				plain = false
			}
		}
		if !plain {
			continue
		}
		var last ssa.Value
		for _, in := range ret.Block().Instrs {
			if in == ssa.Instruction(u) {
				break
			}
			if st, ok := in.(*ssa.Store); ok && st.Addr == ssa.Value(a) {
				last = st.Val
			}
		}
		if last != nil {
			out[i] = last
		}
	}
	return out
}

func constantIntOfObj(o types.Object) (int64, bool) {
	c, ok := o.(*types.Const)
	if !ok {
		return 0, false
	}
	return constantInt(c)
}

var callSiteMemo = map[*Program]map[*ssa.Function][]ssa.CallInstruction{}

// callSitesOf: every call instruction of the module that may invoke fn — static calls, and calls through a function
// value chosen among known functions (`f := A; if c { f = B }; f(x)`, a table of functions), bound methods and method
// expressions unwrapped.
func callSitesOf(p *Program, fn *ssa.Function) []ssa.CallInstruction {
	m, ok := callSiteMemo[p]
	if !ok {
		m = map[*ssa.Function][]ssa.CallInstruction{}
		for _, f := range p.Funcs() {
			if !p.inModule(f) {
				continue
			}
			allInstrs(f, func(in ssa.Instruction) {
				ci, ok := in.(ssa.CallInstruction)
				if !ok {
					return
				}
				cc := ci.Common()
				if cc.IsInvoke() {
					return
				}
				if g := cc.StaticCallee(); g != nil {
					g = unwrapThunk(g)
					m[g] = append(m[g], ci)
					return
				}
				if _, isB := cc.Value.(*ssa.Builtin); isB {
					return
				}
				if fs, ok := funcChoice(cc.Value, 0); ok {
					seen := map[*ssa.Function]bool{}
					for _, g := range fs {
						if !seen[g] {
							seen[g] = true
							m[g] = append(m[g], ci)
						}
					}
				}
			})
		}
		callSiteMemo[p] = m
	}
	return m[fn]
}
