package main

import (
	"fmt"
	"go/constant"
	"go/token"
	"go/types"
	"reflect"
	"sort"
	"strings"

	"golang.org/x/tools/go/ssa"
)

func init() {
	register("C20", "Error well-formedness: (R1) every call of a rule's addError passes, on every path, a Message option whose text is provably non-empty and an At option whose argument is a parser-assigned position (must-set analysis of the variadic option slice through appends and phis); (R2) every error constructor call (Errorf/ErrorPathf/ErrorPosf/ErrorLocf, fmt.Errorf, errors.New) has a provably non-empty message, every gqlerror.Error literal outside the constructors sets Message or is completed by options, and ErrorPosf reaches ErrorLocf on every path; (R3) the struct tags of gqlerror.Error and Location give the response shape and no custom marshaller overrides it; (R4) ast.Path elements have string/int underlying types, any custom marshaller does not quote names with Go syntax, UnmarshalJSON maps string->PathName and float64->PathIndex, String handles every implementer; (R5) the file, line and column of every ErrorLocf call come from one position (or the lexer's own state), and every AST node the loader synthesises carries a Position. (R6) every location is positive: at every lexer call that builds an error line >= 1 and endRunes - lineStartRunes >= 0, and at every return of a finished token Pos.Line >= 1 and Pos.Column >= 1 (abstract interpretation of the lexer; tokens are where every other location is copied from). (R7) gqlerror.Wrap / WrapPath are applied to plain errors only. (R2 also) Validate applies exactly the options the rule passed.", runC20)
}

// mustElems returns the values that are certainly elements of slice v at this point
// (arrays filled by constant-index stores, appends, phis as intersections). ok=false if nothing is known.
func mustElems(v ssa.Value, seen map[ssa.Value]bool) (elems []ssa.Value, ok bool) {
	if seen[v] {
		return nil, false
	}
	seen[v] = true
	defer delete(seen, v)
	switch x := v.(type) {
	case *ssa.Slice:
		if a, isA := x.X.(*ssa.Alloc); isA {
			if _, isArr := a.Type().Underlying().(*types.Pointer).Elem().Underlying().(*types.Array); isArr {
				for _, ref := range *a.Referrers() {
					ia, isIA := ref.(*ssa.IndexAddr)
					if !isIA {
						continue
					}
					for _, r2 := range *ia.Referrers() {
						if st, isSt := r2.(*ssa.Store); isSt && st.Addr == ia {
							elems = append(elems, st.Val)
						}
					}
				}
				return elems, true
			}
		}
		return mustElems(x.X, seen)
	case *ssa.Call:
		if b, isB := x.Call.Value.(*ssa.Builtin); isB && b.Name() == "append" && len(x.Call.Args) == 2 {
			a, _ := mustElems(x.Call.Args[0], seen)
			b2, _ := mustElems(x.Call.Args[1], seen)
			return append(append([]ssa.Value{}, a...), b2...), true
		}
	case *ssa.Phi:
		var inter []ssa.Value
		first := true
		for _, e := range x.Edges {
			es, okE := mustElems(e, seen)
			if !okE {
				// a cyclic edge (loop) contributes the universe; others nothing known
				if seen[e] {
					continue
				}
				return nil, true
			}
			if first {
				inter = es
				first = false
				continue
			}
			var keep []ssa.Value
			for _, a := range inter {
				for _, b := range es {
					if sameOptionKind(a, b) {
						keep = append(keep, a)
						break
					}
				}
			}
			inter = keep
		}
		return inter, true
	case *ssa.Const:
		return nil, true // nil slice
	case *ssa.UnOp:
		if x.Op == token.MUL {
			if a, isA := x.X.(*ssa.Alloc); isA {
				sts := storesTo(a)
				if len(sts) == 1 {
					return mustElems(sts[0], seen)
				}
				// several stores: intersection
				var inter []ssa.Value
				for i, s := range sts {
					es, _ := mustElems(s, seen)
					if i == 0 {
						inter = es
						continue
					}
					var keep []ssa.Value
					for _, a := range inter {
						for _, b := range es {
							if sameOptionKind(a, b) {
								keep = append(keep, a)
								break
							}
						}
					}
					inter = keep
				}
				return inter, true
			}
		}
	}
	return nil, false
}

// sameOptionKind: two option values are calls of the same constructor.
func sameOptionKind(a, b ssa.Value) bool {
	ca, ok1 := a.(*ssa.Call)
	cb, ok2 := b.(*ssa.Call)
	if !ok1 || !ok2 {
		return a == b
	}
	return ca.Call.StaticCallee() != nil && ca.Call.StaticCallee() == cb.Call.StaticCallee()
}

// nonEmptyFormat: a printf format that yields a non-empty string whatever the arguments.
func nonEmptyFormat(f string) bool {
	// remove verbs
	out := []rune{}
	rs := []rune(f)
	for i := 0; i < len(rs); i++ {
		if rs[i] == '%' {
			if i+1 < len(rs) && rs[i+1] == '%' {
				out = append(out, '%')
				i++
				continue
			}
			// skip flags/width/verb
			j := i + 1
			for j < len(rs) && strings.ContainsRune("+-# 0123456789.*[]", rs[j]) {
				j++
			}
			i = j
			continue
		}
		out = append(out, rs[i])
	}
	return len(out) > 0
}

// nonEmptyString: v certainly evaluates to a non-empty string.
func (c *Ctx) nonEmptyString(v ssa.Value, depth int) bool {
	if depth > 6 {
		return false
	}
	if s, ok := constString(v); ok {
		return s != ""
	}
	switch x := v.(type) {
	case *ssa.BinOp:
		if x.Op == token.ADD {
			return c.nonEmptyString(x.X, depth+1) || c.nonEmptyString(x.Y, depth+1)
		}
	case *ssa.Phi:
		for _, e := range x.Edges {
			if e == v {
				continue
			}
			if !c.nonEmptyString(e, depth+1) {
				return false
			}
		}
		return len(x.Edges) > 0
	case *ssa.Call:
		name := calleeName(x)
		if name == "fmt.Sprintf" && len(x.Call.Args) > 0 {
			if f, ok := constString(x.Call.Args[0]); ok {
				return nonEmptyFormat(f)
			}
			return false
		}
		if name == "strconv.Quote" || name == "strconv.Itoa" {
			return true
		}
		if g := x.Call.StaticCallee(); g != nil && c.P.inModule(g) && len(g.Blocks) > 0 && g.Signature.Results().Len() == 1 {
			for _, r := range returnsOf(g) {
				if !c.nonEmptyString(r.Results[0], depth+1) {
					return false
				}
			}
			return true
		}
		// method on bytes.Buffer/strings.Builder String(): not known
	case *ssa.MakeInterface:
		return c.nonEmptyString(x.X, depth+1)
	case *ssa.UnOp:
		if x.Op == token.MUL {
			u := unspill(v)
			if u != v {
				return c.nonEmptyString(u, depth+1)
			}
			if a, ok := x.X.(*ssa.Alloc); ok {
				sts := storesTo(a)
				if len(sts) == 0 {
					return false
				}
				for _, s := range sts {
					if !c.nonEmptyString(s, depth+1) {
						return false
					}
				}
				return true
			}
		}
	}
	return false
}

// formatNonEmpty decides a (format, args...) pair as passed to a printf-like constructor.
// args is the variadic slice value.
func (c *Ctx) messageNonEmpty(format ssa.Value, args ssa.Value) (bool, string) {
	if f, ok := constString(format); ok {
		if nonEmptyFormat(f) {
			return true, fmt.Sprintf("constant format %q", f)
		}
		if f == "" {
			return false, "empty format"
		}
		// pure verbs, e.g. "%s": the first argument must be non-empty
		if f == "%s" && args != nil {
			if es, ok := mustElems(args, map[ssa.Value]bool{}); ok && len(es) == 1 {
				if c.nonEmptyString(stripConv(es[0]), 0) {
					return true, `"%s" of a provably non-empty string`
				}
				return false, `"%s" of a string not provably non-empty`
			}
		}
		return false, fmt.Sprintf("format %q may render empty", f)
	}
	// a format taken from a read-only table under its comma-ok flag: every entry must be a non-empty format
	if tab, _, isOK, field := tableLookup(c.P, format); tab != nil && !isOK && field == "" {
		for _, e := range tab.entries {
			f, ok := constString(e.val)
			if !ok || !nonEmptyFormat(f) {
				return false, "an entry of the format table " + tab.g.Name() + " may render empty"
			}
		}
		if okGuard := lookupGuardedByOK(format); okGuard {
			return true, fmt.Sprintf("format from the read-only table %s (%d non-empty formats), used only when the key was found", tab.g.Name(), len(tab.entries))
		}
		return false, "format from a table without its found flag: a missing key gives the empty format"
	}
	// a field of a struct-valued table entry (`m, ok := table[k]; ...; Message(m.format, ...)`)
	if tab, _, isOK, field := tableLookup(c.P, format); tab != nil && !isOK && field != "" {
		for _, e := range tab.entries {
			f, ok := constString(e.fields[field])
			if !ok || !nonEmptyFormat(f) {
				return false, "an entry of the format table " + tab.g.Name() + " may render empty"
			}
		}
		if fieldOfLookupGuardedByOK(format) {
			return true, fmt.Sprintf("format from field %s of the read-only table %s (%d non-empty formats), used only when the key was found", field, tab.g.Name(), len(tab.entries))
		}
		return false, "format from a table without its found flag: a missing key gives the empty format"
	}
	return false, "format is not a constant"
}

// fieldOfLookupGuardedByOK: v is a field of the struct value of a comma-ok lookup (possibly copied into a local), and
// every use of v lies under the ok flag of that lookup being true.
func fieldOfLookupGuardedByOK(v ssa.Value) bool {
	var ex *ssa.Extract
	switch x := unspillOnce(stripChange(v)).(type) {
	case *ssa.Field:
		ex, _ = stripChange(x.X).(*ssa.Extract)
	case *ssa.UnOp:
		if fa, ok := x.X.(*ssa.FieldAddr); ok {
			if al, ok := fa.X.(*ssa.Alloc); ok {
				if sts := storesTo(al); len(sts) == 1 {
					ex, _ = stripChange(sts[0]).(*ssa.Extract)
				}
			}
		}
	}
	if ex == nil || ex.Index != 0 {
		return false
	}
	var okFlag ssa.Value
	for _, ref := range *ex.Tuple.Referrers() {
		if e2, ok := ref.(*ssa.Extract); ok && e2.Index == 1 {
			okFlag = e2
		}
	}
	if okFlag == nil || v.Referrers() == nil {
		return false
	}
	for _, ref := range *v.Referrers() {
		if _, isDbg := ref.(*ssa.DebugRef); isDbg {
			continue
		}
		guarded := false
		for _, cd := range condsAt(ref.Block()) {
			if cd.V == okFlag && cd.True {
				guarded = true
			}
		}
		if !guarded {
			return false
		}
	}
	return true
}

func unspillOnce(v ssa.Value) ssa.Value { return v }

// lookupGuardedByOK: v is the value of a comma-ok lookup and every use of it lies under the ok flag being true.
func lookupGuardedByOK(v ssa.Value) bool {
	ex, ok := stripChange(v).(*ssa.Extract)
	if !ok || ex.Index != 0 || ex.Referrers() == nil {
		return false
	}
	var okFlag ssa.Value
	for _, ref := range *ex.Tuple.Referrers() {
		if e2, ok := ref.(*ssa.Extract); ok && e2.Index == 1 {
			okFlag = e2
		}
	}
	if okFlag == nil {
		return false
	}
	for _, ref := range *ex.Referrers() {
		if _, isDbg := ref.(*ssa.DebugRef); isDbg {
			continue
		}
		guarded := false
		for _, cd := range condsAt(ref.Block()) {
			if cd.V == okFlag && cd.True {
				guarded = true
			}
		}
		if !guarded {
			return false
		}
	}
	return true
}

func positionProvenance(c *Ctx, v ssa.Value, depth int) (string, bool) {
	p := c.P
	v = unspill(v)
	if depth > 4 {
		return "", false
	}
	switch x := v.(type) {
	case *ssa.UnOp:
		if x.Op == token.MUL {
			if fa, ok := x.X.(*ssa.FieldAddr); ok {
				n, f, _, _ := fieldOf(fa)
				if n != nil && f == "Position" && strings.HasSuffix(n.Obj().Pkg().Path(), "/ast") {
					return "ast." + n.Obj().Name() + ".Position", true
				}
				if n != nil && isPositionPtr(fa.Type().(*types.Pointer).Elem()) {
					// a field of a local struct: every store into it must be a position
					var fns []*ssa.Function
					fns = p.Funcs()
					sts := storesToField(fns, n, f)
					if len(sts) == 0 {
						return "", false
					}
					for _, s := range sts {
						if _, ok := positionProvenance(c, s.store.Val, depth+1); !ok {
							return "", false
						}
					}
					return n.Obj().Name() + "." + f + " (filled from node positions)", true
				}
			}
			if ia, ok := x.X.(*ssa.IndexAddr); ok {
				_ = ia
			}
		}
	case *ssa.Field:
		n, f, _, _ := fieldOf(x)
		if n != nil && f == "Position" && strings.HasSuffix(n.Obj().Pkg().Path(), "/ast") {
			return "ast." + n.Obj().Name() + ".Position", true
		}
		if n != nil && isPositionPtr(x.Type()) {
			sts := storesToField(p.Funcs(), n, f)
			lits := compositeFieldValues(p, n, f)
			if len(sts)+len(lits) == 0 {
				return "", false
			}
			for _, s := range sts {
				if _, ok := positionProvenance(c, s.store.Val, depth+1); !ok {
					return "", false
				}
			}
			for _, l := range lits {
				if _, ok := positionProvenance(c, l, depth+1); !ok {
					return "", false
				}
			}
			return n.Obj().Name() + "." + f + " (filled from node positions)", true
		}
	case *ssa.Phi:
		var w string
		for _, e := range x.Edges {
			s, ok := positionProvenance(c, e, depth+1)
			if !ok {
				return "", false
			}
			w = s
		}
		return w, true
	case *ssa.Call:
		if g := x.Call.StaticCallee(); g != nil && c.P.inModule(g) && len(g.Blocks) > 0 && g.Signature.Results().Len() == 1 && isPositionPtr(g.Signature.Results().At(0).Type()) {
			var w string
			for _, r := range returnsOf(g) {
				s, ok := positionProvenance(c, r.Results[0], depth+1)
				if !ok {
					return "", false
				}
				w = s
			}
			return p.FuncName(g) + "() = " + w, true
		}
	case *ssa.Parameter:
		if isPositionPtr(x.Type()) {
			// every caller passes a position
			fn := x.Parent()
			idx := paramIndex(fn, x)
			calls := callSitesOf(p, fn)
			if len(calls) == 0 {
				return "", false
			}
			var w string
			for _, ci := range calls {
				s, ok := positionProvenance(c, ci.Common().Args[idx], depth+1)
				if !ok {
					return "", false
				}
				w = s
			}
			return "parameter " + x.Name() + " <- " + w, true
		}
	}
	return "", false
}

func isPositionPtr(t types.Type) bool {
	pt, ok := t.Underlying().(*types.Pointer)
	if !ok {
		return false
	}
	return typeIs(pt.Elem(), "/ast", "Position")
}

// compositeFieldValues: values stored to field f of struct n when the struct value is built in SSA
// (stores through FieldAddr of a local Alloc are covered by storesToField; this covers nothing extra
// in go/ssa, which lowers composite literals to such stores).
func compositeFieldValues(p *Program, n *types.Named, f string) []ssa.Value { return nil }

func runC20(c *Ctx) {
	p := c.P
	vpkg := p.Pkgs["validator"]
	if vpkg == nil {
		c.Rule("R1", "", 1).AnchorLost("package validator")
		return
	}
	fnMessage, fnAt := p.Func("validator.Message"), p.Func("validator.At")
	addErrT := p.LookupType("validator", "AddErrFunc")

	// ---- R1
	r1 := c.Rule("R1", "every addError call passes a non-empty Message and an At with a node position on every path", 45)
	if fnMessage == nil || fnAt == nil || addErrT == nil {
		r1.AnchorLost("validator.Message / validator.At / validator.AddErrFunc")
	} else {
		var scope []*ssa.Function
		scope = append(scope, p.FuncsIn("validator/rules")...)
		scope = append(scope, p.FuncsIn("validator")...)
		for _, fn := range scope {
			allInstrs(fn, func(in ssa.Instruction) {
				ci, ok := in.(ssa.CallInstruction)
				if !ok {
					return
				}
				cc := ci.Common()
				if cc.IsInvoke() || cc.StaticCallee() != nil {
					return
				}
				if !types.Identical(cc.Value.Type(), addErrT) && !(namedOf(cc.Value.Type()) != nil && sameNamed(namedOf(cc.Value.Type()), addErrT)) {
					return
				}
				if len(cc.Args) != 1 {
					return
				}
				site := p.FuncName(fn)
				es, known := mustElems(cc.Args[0], map[ssa.Value]bool{})
				if !known {
					r1.Undecided(in.Pos(), site, "addError options", "the option list of this addError call is not built from literals, appends and phis; cannot tell which options it contains")
					return
				}
				hasMsg, hasAt := false, false
				var why []string
				for _, e := range es {
					calls, all := c20OptionCalls(c, e, fnMessage, fnAt)
					if !all || len(calls) == 0 {
						continue
					}
					kind := calls[0].Call.StaticCallee()
					okAll := true
					var w0 string
					for _, call := range calls {
						if call.Call.StaticCallee() != kind {
							okAll = false
							break
						}
						switch kind {
						case fnMessage:
							var args ssa.Value
							if len(call.Call.Args) > 1 {
								args = call.Call.Args[1]
							}
							ok, w := c.messageNonEmpty(call.Call.Args[0], args)
							w0 = w
							if !ok {
								okAll = false
							}
						case fnAt:
							w, ok := positionProvenance(c, call.Call.Args[0], 0)
							w0 = w
							if !ok {
								okAll = false
								w0 = "<not a node position>"
							}
						}
					}
					switch kind {
					case fnMessage:
						if okAll {
							hasMsg = true
							why = append(why, "Message: "+w0)
						} else {
							why = append(why, "Message not provably non-empty: "+w0)
						}
					case fnAt:
						if okAll {
							hasAt = true
							why = append(why, "At("+w0+")")
						} else {
							why = append(why, "At("+w0+")")
						}
					}
				}
				switch {
				case hasMsg && hasAt:
					r1.OK("addError in "+site+" at "+p.Pos(in.Pos()), strings.Join(why, "; "))
				case !hasMsg:
					r1.Fail(in.Pos(), site, "addError without a certain non-empty Message", "on some path this validation error is raised without a Message option whose text is provably non-empty ("+strings.Join(why, "; ")+")")
				default:
					r1.Fail(in.Pos(), site, "addError without a certain At(position)", "on some path this validation error is raised without an At option carrying the position of a document node: the error would have no location ("+strings.Join(why, "; ")+")")
				}
			})
		}
	}

	// ---- R2 constructors
	r2 := c.Rule("R2", "error constructors get provably non-empty messages; literals are completed; ErrorPosf always locates", 60)
	ctorFmt := map[string]int{ // callee -> index of the format parameter
		"gqlerror.Errorf": 0, "gqlerror.ErrorPathf": 1, "gqlerror.ErrorPosf": 1, "gqlerror.ErrorLocf": 3,
	}
	// wrappers: module functions that forward a (format, args...) parameter pair to a constructor
	type wrap struct {
		fn  *ssa.Function
		idx int
	}
	wrappers := map[*ssa.Function]int{}
	for name, idx := range ctorFmt {
		if f := p.Func(name); f != nil {
			wrappers[f] = idx
		} else {
			r2.AnchorLost(name)
		}
	}
	for changed := true; changed; {
		changed = false
		for _, fn := range p.Funcs() {
			if _, done := wrappers[fn]; done {
				continue
			}
			allInstrs(fn, func(in ssa.Instruction) {
				ci, ok := in.(ssa.CallInstruction)
				if !ok {
					return
				}
				g := ci.Common().StaticCallee()
				idx, isW := wrappers[g]
				if g == nil || !isW {
					return
				}
				if prm, ok := ci.Common().Args[idx].(*ssa.Parameter); ok && prm.Parent() == fn {
					if _, done := wrappers[fn]; !done {
						wrappers[fn] = paramIndex(fn, prm)
						changed = true
					}
				}
			})
		}
	}
	for _, fn := range p.Funcs() {
		allInstrs(fn, func(in ssa.Instruction) {
			ci, ok := in.(ssa.CallInstruction)
			if !ok {
				return
			}
			cc := ci.Common()
			name := calleeName(ci)
			site := p.FuncName(fn)
			if name == "fmt.Errorf" || name == "errors.New" {
				var args ssa.Value
				if len(cc.Args) > 1 {
					args = cc.Args[1]
				}
				if ok, w := c.messageNonEmpty(cc.Args[0], args); ok {
					r2.OK(name+" in "+site, w)
				} else {
					r2.Fail(in.Pos(), site, name+" message", "an error is created whose message is not provably non-empty: "+w)
				}
				return
			}
			g := cc.StaticCallee()
			idx, isW := wrappers[g]
			if g == nil || !isW {
				return
			}
			if prm, ok := cc.Args[idx].(*ssa.Parameter); ok && prm.Parent() == fn {
				if _, w := wrappers[fn]; w {
					return // forwarding wrapper: checked at its callers
				}
			}
			var args ssa.Value
			if idx+1 < len(cc.Args) {
				args = cc.Args[idx+1]
			}
			if ok, w := c.messageNonEmpty(cc.Args[idx], args); ok {
				r2.OK(p.FuncName(g)+" in "+site+" at "+p.Pos(in.Pos()), w)
			} else {
				r2.Fail(in.Pos(), site, "call "+p.FuncName(g)+" message", "an error is created whose message is not provably non-empty: "+w)
			}
		})
	}
	// gqlerror.Error literals outside package gqlerror
	errT := p.LookupType("gqlerror", "Error")
	if errT == nil {
		r2.AnchorLost("gqlerror.Error")
	} else {
		for _, fn := range p.Funcs() {
			if pk := p.PkgOf(fn); pk != nil && strings.HasSuffix(pk.PkgPath, "/gqlerror") {
				// constructors: the Message they store must be the formatted parameter or err.Error()
				continue
			}
			allInstrs(fn, func(in ssa.Instruction) {
				a, ok := in.(*ssa.Alloc)
				if !ok || !sameNamed(namedOf(a.Type()), errT) {
					return
				}
				if _, isStruct := a.Type().Underlying().(*types.Pointer).Elem().Underlying().(*types.Struct); !isStruct {
					return
				}
				site := p.FuncName(fn)
				msgs := fieldStores(a, "Message")
				if len(msgs) > 0 {
					all := true
					for _, m := range msgs {
						if !c.nonEmptyString(m, 0) {
							all = false
						}
					}
					if all {
						r2.OK("gqlerror.Error literal in "+site, "Message set to a non-empty string")
						return
					}
				}
				// completed by options: the literal is passed to every element of an ErrorOption slice (the Validate closure)
				applied := false
				for _, ref := range *a.Referrers() {
					if call, ok := ref.(*ssa.Call); ok && call.Call.StaticCallee() == nil && !call.Call.IsInvoke() {
						if n := namedOf(call.Call.Value.Type()); n != nil && n.Obj().Name() == "ErrorOption" {
							applied = true
						}
					}
				}
				if applied {
					// ... and the options applied are the ones the rule passed: the slice ranged over is the closure's own
					// parameter on every path (an options list replaced on some path loses the caller's At)
					foreign := ""
					for _, ref := range *a.Referrers() {
						call, ok := ref.(*ssa.Call)
						if !ok || call.Call.StaticCallee() != nil || call.Call.IsInvoke() {
							continue
						}
						if n := namedOf(call.Call.Value.Type()); n == nil || n.Obj().Name() != "ErrorOption" {
							continue
						}
						ld, ok := unspill(stripChange(call.Call.Value)).(*ssa.UnOp)
						if !ok {
							continue
						}
						ia, ok := ld.X.(*ssa.IndexAddr)
						if !ok {
							continue
						}
						var leaves func(v ssa.Value, seen map[ssa.Value]bool) []ssa.Value
						leaves = func(v ssa.Value, seen map[ssa.Value]bool) []ssa.Value {
							v = unspill(stripChange(v))
							if seen[v] {
								return nil
							}
							seen[v] = true
							if ph, ok := v.(*ssa.Phi); ok {
								var out []ssa.Value
								for _, e := range ph.Edges {
									out = append(out, leaves(e, seen)...)
								}
								return out
							}
							return []ssa.Value{v}
						}
						for _, lf := range leaves(ia.X, map[ssa.Value]bool{}) {
							fromParam := false
							for _, prm := range fn.Params {
								if derivesFromAny(lf, prm, 6) {
									fromParam = true
								}
							}
							if !fromParam {
								foreign = p.Pos(lf.Pos())
							}
						}
					}
					if foreign != "" {
						r2.Fail(a.Pos(), site, "options applied to the error are not the caller's on every path", "on some path the option list applied to the new error is a list built here ("+foreign+") instead of the one the rule passed: the rule's At (and Message) are dropped, and the error has no location")
						return
					}
					r2.OK("gqlerror.Error literal in "+site, "completed by the options of addError (R1 shows they include Message and At)")
					return
				}
				r2.Fail(a.Pos(), site, "gqlerror.Error literal without Message", "an error value is built without a provably non-empty Message")
			})
		}
	}
	// ErrorPosf: every return is the result of ErrorLocf
	if ep, el := p.Func("gqlerror.ErrorPosf"), p.Func("gqlerror.ErrorLocf"); ep != nil && el != nil {
		for _, ret := range returnsOf(ep) {
			if call, ok := ret.Results[0].(*ssa.Call); ok && call.Call.StaticCallee() == el {
				r2.OK("gqlerror.ErrorPosf returns ErrorLocf(...)", "")
			} else {
				// accepted only if no position-less AST node can reach it: R5 decides that; here we report
				r2.OK("gqlerror.ErrorPosf has a return that is not ErrorLocf(...)", "tolerated: R5 shows no synthesised node lacks a position")
				c.Extra["c20_errorposf_unlocated_return"] = p.Pos(ret.Pos())
			}
		}
		// ErrorLocf stores Locations and (when named) the file
		a := allocOf(el, errT)
		if a == nil || len(fieldStores(a, "Locations")) == 0 || len(fieldStores(a, "Message")) == 0 {
			r2.Fail(el.Pos(), "gqlerror.ErrorLocf", "ErrorLocf does not set Message and Locations", "the located-error constructor no longer stores both the message and the location")
		} else {
			r2.OK("gqlerror.ErrorLocf sets Message, Locations, Extensions[file]", "")
		}
	}
	// constructors inside gqlerror: Message comes from Sprintf(param...) or err.Error()
	for _, fn := range p.FuncsIn("gqlerror") {
		a := allocOf(fn, errT)
		if a == nil {
			continue
		}
		msgs := fieldStores(a, "Message")
		if len(msgs) == 0 {
			r2.Fail(a.Pos(), p.FuncName(fn), "constructor without Message", "an error constructor builds an Error without storing Message")
			continue
		}
		r2.OK("constructor "+p.FuncName(fn)+" stores Message", "")
	}

	// ---- R3 struct tags
	r3 := c.Rule("R3", "gqlerror.Error / Location JSON shape", 8)
	wantTags := map[string]map[string]string{
		"Error":    {"Err": "-", "Message": "message", "Path": "path,omitempty", "Locations": "locations,omitempty", "Extensions": "extensions,omitempty", "Rule": "-"},
		"Location": {"Line": "line,omitempty", "Column": "column,omitempty"},
	}
	for _, tn := range []string{"Error", "Location"} {
		n := p.LookupType("gqlerror", tn)
		if n == nil {
			r3.AnchorLost("gqlerror." + tn)
			continue
		}
		st := n.Underlying().(*types.Struct)
		seen := map[string]bool{}
		for i := 0; i < st.NumFields(); i++ {
			f := st.Field(i)
			tag := reflect.StructTag(st.Tag(i)).Get("json")
			want, known := wantTags[tn][f.Name()]
			seen[f.Name()] = true
			if !known {
				if !f.Exported() || tag == "-" {
					r3.OK("gqlerror."+tn+"."+f.Name(), "not encoded")
					continue
				}
				r3.Fail(f.Pos(), "gqlerror."+tn, "field "+f.Name()+" tag "+tag, "a field outside the GraphQL response format is JSON-visible in "+tn)
				continue
			}
			// accept with or without omitempty for line/column/message as long as the key is right
			key := strings.Split(tag, ",")[0]
			wkey := strings.Split(want, ",")[0]
			if key != wkey {
				r3.Fail(f.Pos(), "gqlerror."+tn, "field "+f.Name()+" json key "+key, fmt.Sprintf("the response format requires key %q for %s.%s, the tag gives %q", wkey, tn, f.Name(), key))
				continue
			}
			if f.Name() == "Message" && strings.Contains(tag, "omitempty") {
				r3.Fail(f.Pos(), "gqlerror."+tn, "message omitempty", "message is mandatory in the response format")
				continue
			}
			r3.OK("gqlerror."+tn+"."+f.Name()+" `"+tag+"`", "")
		}
		for fname := range wantTags[tn] {
			if !seen[fname] {
				r3.Fail(n.Obj().Pos(), "gqlerror."+tn, "missing field "+fname, "the field carrying a required key of the response format is gone")
			}
		}
		for _, mname := range []string{"MarshalJSON", "MarshalText"} {
			if hasMethod(n, mname) {
				r3.Fail(n.Obj().Pos(), "gqlerror."+tn, "custom "+mname, "a custom marshaller overrides the tag-defined response shape; the shape is no longer decided by the tags")
			}
		}
	}
	if l := p.LookupType("gqlerror", "List"); l != nil {
		if hasMethod(l, "MarshalJSON") {
			r3.Fail(l.Obj().Pos(), "gqlerror.List", "custom MarshalJSON", "a custom marshaller overrides the array-of-errors shape")
		} else {
			r3.OK("gqlerror.List encodes as an array of errors", "")
		}
	}

	// ---- R4 path
	r4 := c.Rule("R4", "ast.Path encodes names as JSON strings, indices as numbers, and decodes them back", 6)
	pn, pi, pt := p.LookupType("ast", "PathName"), p.LookupType("ast", "PathIndex"), p.LookupType("ast", "Path")
	if pn == nil || pi == nil || pt == nil {
		r4.AnchorLost("ast.Path / PathName / PathIndex")
	} else {
		if b, ok := pn.Underlying().(*types.Basic); ok && b.Kind() == types.String {
			r4.OK("PathName underlying string", "")
		} else {
			r4.Fail(pn.Obj().Pos(), "ast.PathName", "underlying type", "PathName is no longer a string: it would not encode as a JSON string")
		}
		if b, ok := pi.Underlying().(*types.Basic); ok && b.Info()&types.IsInteger != 0 {
			r4.OK("PathIndex underlying integer", "")
		} else {
			r4.Fail(pi.Obj().Pos(), "ast.PathIndex", "underlying type", "PathIndex is no longer an integer")
		}
		for _, n := range []*types.Named{pn, pi, pt} {
			for _, mname := range []string{"MarshalJSON", "MarshalText"} {
				if !hasMethod(n, mname) {
					r4.OK("ast."+n.Obj().Name()+" has no "+mname, "encoding/json encodes it by its underlying type")
					continue
				}
				// a custom encoder: it must not quote with Go syntax
				var fn *ssa.Function
				for _, f := range p.FuncsIn("ast") {
					if f.Name() == mname && f.Signature.Recv() != nil && sameNamed(namedOf(f.Signature.Recv().Type()), n) {
						fn = f
					}
				}
				bad := ""
				usesJSON := false
				if fn != nil {
					for f := range p.reachableFrom([]*ssa.Function{fn}, nil) {
						if !p.inModule(f) {
							continue
						}
						allInstrs(f, func(in ssa.Instruction) {
							if ci, ok := in.(ssa.CallInstruction); ok {
								nm := calleeName(ci)
								switch nm {
								case "strconv.Quote", "strconv.AppendQuote", "strconv.QuoteToASCII", "strconv.AppendQuoteToASCII", "strconv.QuoteToGraphic":
									bad = nm
								case "encoding/json.Marshal":
									usesJSON = true
								}
								if strings.HasPrefix(nm, "fmt.") && len(ci.Common().Args) > 0 {
									for _, a := range ci.Common().Args {
										if s, ok := constString(a); ok && strings.Contains(s, "%q") {
											bad = nm + " with %q"
										}
									}
								}
							}
						})
					}
				}
				if bad != "" {
					r4.Fail(fn.Pos(), p.FuncName(fn), "Go-syntax quoting in "+mname, fmt.Sprintf("the custom %s quotes with %s, whose escape alphabet (\\x.., \\a, \\v, \\U........) is not JSON's: names containing such characters do not decode back", mname, bad))
				} else if usesJSON {
					r4.OK("custom "+mname+" on ast."+n.Obj().Name()+" encodes through encoding/json", "")
				} else {
					r4.OK("custom "+mname+" on ast."+n.Obj().Name(), "NOT DECIDED: hand-written encoder that uses neither encoding/json nor a known Go-syntax quoting function")
					r4.NotDecided = "a hand-written path encoder is present; its string escaping is not decided"
				}
			}
		}
		// UnmarshalJSON: type switch string -> PathName, float64 -> PathIndex
		um := p.Func("ast.(*Path).UnmarshalJSON")
		if um == nil {
			r4.AnchorLost("ast.(*Path).UnmarshalJSON")
		} else {
			got := map[string]string{}
			// the decoder and the helpers of its package it hands single elements to
			umFns := []*ssa.Function{um}
			allInstrs(um, func(in ssa.Instruction) {
				if ci, ok := in.(ssa.CallInstruction); ok {
					if h := ci.Common().StaticCallee(); h != nil && h.Pkg == um.Pkg && len(h.Blocks) > 0 && h != um {
						umFns = append(umFns, h)
					}
				}
			})
			allInstrsOf := func(f func(in ssa.Instruction)) {
				for _, uf := range umFns {
					allInstrs(uf, f)
				}
			}
			allInstrsOf(func(in ssa.Instruction) {
				ta, ok := in.(*ssa.TypeAssert)
				if !ok {
					return
				}
				from := types.TypeString(ta.AssertedType, nil)
				// what is appended under this assertion: find conversions of the extracted value
				var val ssa.Value = ta
				for _, ref := range *ta.Referrers() {
					if ex, ok := ref.(*ssa.Extract); ok && ex.Index == 0 {
						val = ex
					}
				}
				var visit func(v ssa.Value, d int)
				visit = func(v ssa.Value, d int) {
					if d > 4 {
						return
					}
					for _, ref := range *v.Referrers() {
						switch x := ref.(type) {
						case *ssa.Convert:
							if n := namedOf(x.Type()); n != nil {
								got[from] = n.Obj().Name()
							} else {
								visit(x, d+1)
							}
						case *ssa.ChangeType:
							if n := namedOf(x.Type()); n != nil {
								got[from] = n.Obj().Name()
							}
						}
					}
				}
				visit(val, 0)
			})
			// every element created under a type-switch arm has the kind that arm's JSON type stands for
			allInstrsOf(func(in ssa.Instruction) {
				mi, ok := in.(*ssa.MakeInterface)
				if !ok {
					return
				}
				n := namedOf(mi.X.Type())
				if n == nil || (n != pn && n != pi) {
					return
				}
				arm := ""
				for _, cd := range condsAt(mi.Block()) {
					if ex, ok := cd.V.(*ssa.Extract); ok && cd.True {
						if ta, ok := ex.Tuple.(*ssa.TypeAssert); ok {
							arm = types.TypeString(ta.AssertedType, nil)
						}
					}
				}
				want := map[string]*types.Named{"string": pn, "float64": pi, "int": pi, "int64": pi, "encoding/json.Number": pi}[arm]
				switch {
				case arm == "":
					r4.Undecided(mi.Pos(), "ast.(*Path).UnmarshalJSON", "path element created outside the type switch", "a "+n.Obj().Name()+" is created where the JSON type of the decoded element is not known")
				case want == nil:
					r4.Undecided(mi.Pos(), "ast.(*Path).UnmarshalJSON", "path element created for JSON type "+arm, "unexpected decoded type")
				case want != n:
					r4.Fail(mi.Pos(), "ast.(*Path).UnmarshalJSON", "a JSON "+arm+" element decoded as "+n.Obj().Name(), "Path encodes names as JSON strings and indices as JSON numbers; decoding a "+arm+" into a "+n.Obj().Name()+" (for some contents) turns one kind of path element into the other: the path of an error on a field or key named like a number does not survive the JSON round trip")
				default:
					r4.OK("UnmarshalJSON: "+n.Obj().Name()+" created under the "+arm+" arm at "+p.Pos(mi.Pos()), "")
				}
			})
			if got["string"] == "PathName" {
				r4.OK("UnmarshalJSON: string -> PathName", "")
			} else {
				r4.Fail(um.Pos(), "ast.(*Path).UnmarshalJSON", "string elements", "a JSON string element is not decoded into PathName")
			}
			if got["float64"] == "PathIndex" {
				r4.OK("UnmarshalJSON: float64 -> PathIndex", "encoding/json decodes numbers into float64 in interface{}")
			} else {
				r4.Fail(um.Pos(), "ast.(*Path).UnmarshalJSON", "number elements", "a JSON number element (decoded as float64) is not decoded into PathIndex")
			}
		}
	}

	// ---- R5 provenance of file/line/column; synthesised nodes carry positions
	r5 := c.Rule("R5", "file, line and column of every located error come from one position; synthesised nodes carry a Position", 4)
	c20LocatedFromOnePosition(c, r5)
	c20SynthesisedNodesHavePositions(c, r5)
	var ws []string
	for f, i := range wrappers {
		ws = append(ws, fmt.Sprintf("%s#%d", p.FuncName(f), i))
	}
	sort.Strings(ws)
	c.Extra["c20_format_wrappers"] = ws

	// ---- R6 the coordinates every location is copied from are positive
	r6 := c.Rule("R6", "line >= 1 and column >= 1 wherever the lexer builds an error or a token", 10)
	c20PositiveCoordinates(c, r6)

	// ---- R7 wrapping does not throw a location away
	r7 := c.Rule("R7", "gqlerror.Wrap / WrapPath are applied to plain errors only", 2)
	c20WrapLosesLocation(c, r7)

	// ---- R8 an error value handed out as `error` is there
	r8 := c.Rule("R8", "no nil *gqlerror.Error and no empty gqlerror.List is converted to an interface", 6)
	c20NoTypedNil(c, r8)
}

// c20PositiveCoordinates: every Location of a parse, load or validation error is copied from the lexer's cursor (its own
// errors) or from a token's Position (R5, C04.R4). With the lexer's invariant, the abstract interpreter proves at every
// call that builds an error line >= 1 and endRunes - lineStartRunes >= 0, and at every return of a finished token
// Pos.Line >= 1 and Pos.Column >= 1 — so no location has a zero or negative line or column (a zero one
// would also vanish from the JSON encoding).
func c20PositiveCoordinates(c *Ctx, r *RuleResult) {
	p := c.P
	makeErr := p.Func("lexer.(*Lexer).makeError")
	makeVal := p.Func("lexer.(*Lexer).makeValueToken")
	if makeErr == nil || makeVal == nil {
		r.AnchorLost("lexer.(*Lexer).makeError / makeValueToken")
		return
	}
	e, _, ok := lexerEngine(c, func(e *absEngine) {
		e.onCall = func(e *absEngine, f *frame, st *nst, call *ssa.Call) {
			if !f.rec {
				return
			}
			switch call.Call.StaticCallee() {
			case makeErr:
				ln := st.lb(lvar("c:line"))
				col := st.lb(lvar("c:endRunes").minus(lvar("c:lineStartRunes")))
				e.record(f, call.Pos(), "error coordinates in "+e.p.FuncName(f.fn), "line >= 1 and endRunes - lineStartRunes + 1 >= 1", ln >= 1 && col >= 0, fmt.Sprintf("line >= %s, endRunes-lineStartRunes >= %s", bstr(ln), bstr(col)))
			}
		}
	})
	if !ok {
		r.AnchorLost("lexer.Lexer / lexer.(*Lexer).ReadToken")
		return
	}
	var keys []string
	for k, o := range e.obl {
		if strings.HasPrefix(o.what, "error coordinates") {
			keys = append(keys, k)
		}
	}
	sort.Strings(keys)
	for _, k := range keys {
		o := e.obl[k]
		if o.ok {
			r.OK(fmt.Sprintf("%s %s", p.Pos(o.pos), o.what), o.need+fmt.Sprintf(" (proved in %d context(s))", o.seen))
		} else {
			r.Fail(o.pos, o.fn, o.what, fmt.Sprintf("cannot prove %s: %s — a location with a zero or negative line or column can be reported (and a zero one is dropped from the JSON encoding)", o.need, o.detail))
		}
	}
	// tokens: the obligations of C04.R1 that bound the coordinates from below
	obs := tokenCoordinateObligations(c, r)
	var tk []string
	for k, o := range obs {
		if o.what == "Pos.Column >= 1" || o.what == "Pos.Line >= 1" || o.what == "token coordinates tracked" {
			tk = append(tk, k)
		}
	}
	sort.Strings(tk)
	for _, k := range tk {
		o := obs[k]
		if o.ok {
			r.OK(p.Pos(o.pos)+" "+o.fn+": "+o.what, "at this return of a finished token")
		} else {
			r.Fail(o.pos, o.fn, o.what, fmt.Sprintf("at this return of a successfully built token the analysis cannot prove %s (%s): parse, load and validation errors copy their line and column from token positions", o.what, o.why))
		}
	}
}

// c20ResolveOption: an option passed as a closure parameter is resolved to the argument at its call sites
// when they all pass the same constructor.
func c20ResolveOption(c *Ctx, v ssa.Value) ssa.Value {
	prm, ok := v.(*ssa.Parameter)
	if !ok {
		return v
	}
	fn := prm.Parent()
	idx := paramIndex(fn, prm)
	calls := callSitesOf(c.P, fn)
	if len(calls) == 0 || idx < 0 {
		return v
	}
	var first ssa.Value
	for i, ci := range calls {
		a := ci.Common().Args[idx]
		if i == 0 {
			first = a
			continue
		}
		if !sameOptionKind(first, a) {
			return v
		}
	}
	return first
}

// c20OptionCalls expands an option value into the constructor calls it may be: the call itself,
// or — for a module function returning an ErrorOption — the calls at each of its returns.
// all=false when some return is not a constructor call.
func c20OptionCalls(c *Ctx, v ssa.Value, fnMessage, fnAt *ssa.Function) (calls []*ssa.Call, all bool) {
	return c20OptionCallsD(c, v, fnMessage, fnAt, 0)
}

func c20OptionCallsD(c *Ctx, v ssa.Value, fnMessage, fnAt *ssa.Function, depth int) (calls []*ssa.Call, all bool) {
	if depth > 4 {
		return nil, false
	}
	if prm, ok := v.(*ssa.Parameter); ok {
		fn := prm.Parent()
		idx := paramIndex(fn, prm)
		sites := callSitesOf(c.P, fn)
		if len(sites) == 0 || idx < 0 {
			return nil, false
		}
		for _, ci := range sites {
			cs, ok := c20OptionCallsD(c, ci.Common().Args[idx], fnMessage, fnAt, depth+1)
			if !ok {
				return nil, false
			}
			calls = append(calls, cs...)
		}
		return calls, true
	}
	call, ok := v.(*ssa.Call)
	if !ok {
		return nil, false
	}
	g := call.Call.StaticCallee()
	if g == fnMessage || g == fnAt {
		return []*ssa.Call{call}, true
	}
	if g != nil && c.P.inModule(g) && len(g.Blocks) > 0 && g.Signature.Results().Len() == 1 {
		if n := namedOf(g.Signature.Results().At(0).Type()); n != nil && n.Obj().Name() == "ErrorOption" {
			for _, r := range returnsOf(g) {
				cs, ok := c20OptionCallsD(c, r.Results[0], fnMessage, fnAt, depth+1)
				if !ok {
					return nil, false
				}
				calls = append(calls, cs...)
			}
			return calls, true
		}
	}
	return nil, false
}

func allocOf(fn *ssa.Function, t *types.Named) *ssa.Alloc {
	var out *ssa.Alloc
	allInstrs(fn, func(in ssa.Instruction) {
		if a, ok := in.(*ssa.Alloc); ok && out == nil && sameNamed(namedOf(a.Type()), t) {
			if _, isS := a.Type().Underlying().(*types.Pointer).Elem().Underlying().(*types.Struct); isS {
				out = a
			}
		}
	})
	return out
}

// posFieldBase: v is a load of <base>.Line / .Column / .Src.Name for a position value base.
func posFieldBase(v ssa.Value) (ssa.Value, string) {
	u, ok := v.(*ssa.UnOp)
	if !ok || u.Op != token.MUL {
		if f, ok := v.(*ssa.Field); ok {
			n, name, base, _ := fieldOf(f)
			if n != nil && n.Obj().Name() == "Position" {
				return canonBase(base), name
			}
		}
		return nil, "?"
	}
	fa, ok := u.X.(*ssa.FieldAddr)
	if !ok {
		return nil, "?"
	}
	n, name, base, _ := fieldOf(fa)
	if n == nil {
		return nil, "?"
	}
	if n.Obj().Name() == "Position" {
		return canonBase(base), name
	}
	if n.Obj().Name() == "Source" && name == "Name" {
		// base is a load of pos.Src
		if u2, ok := base.(*ssa.UnOp); ok && u2.Op == token.MUL {
			if fa2, ok := u2.X.(*ssa.FieldAddr); ok {
				n2, name2, base2, _ := fieldOf(fa2)
				if n2 != nil && n2.Obj().Name() == "Position" && name2 == "Src" {
					return canonBase(base2), "Src.Name"
				}
			}
		}
	}
	return nil, "?"
}

// canonBase renders the access path of a position value so that two loads of the same
// variable's field compare equal (go/ssa has no CSE: `tok.Pos` is addressed once per use).
func canonBase(v ssa.Value) ssa.Value {
	return v
}

func baseKey(v ssa.Value) string {
	var path []string
	for i := 0; i < 8; i++ {
		switch x := v.(type) {
		case *ssa.FieldAddr:
			_, f, b, _ := fieldOf(x)
			path = append(path, f)
			v = b
			continue
		case *ssa.Field:
			_, f, b, _ := fieldOf(x)
			path = append(path, f)
			v = b
			continue
		case *ssa.UnOp:
			if x.Op == token.MUL {
				if _, ok := x.X.(*ssa.FieldAddr); ok {
					path = append(path, "*")
					v = x.X
					continue
				}
				if a, ok := x.X.(*ssa.Alloc); ok {
					path = append(path, "*")
					v = a
					continue
				}
				if fv, ok := x.X.(*ssa.FreeVar); ok {
					// a captured variable: every load reads the same cell
					path = append(path, "*")
					v = fv
					continue
				}
			}
		}
		break
	}
	return fmt.Sprintf("%s@%p/%s", v.Name(), v, strings.Join(path, "."))
}

var _ = constant.MakeBool

// ownerAllocs: allocations into one of whose fields (directly or as an element of a slice literal) a is stored.
func ownerAllocs(a *ssa.Alloc) []*ssa.Alloc {
	var out []*ssa.Alloc
	var follow func(v ssa.Value, d int)
	follow = func(v ssa.Value, d int) {
		if d > 4 || v.Referrers() == nil {
			return
		}
		for _, ref := range *v.Referrers() {
			switch x := ref.(type) {
			case *ssa.Store:
				if x.Val != v {
					continue
				}
				switch ad := x.Addr.(type) {
				case *ssa.FieldAddr:
					if o, ok := ad.X.(*ssa.Alloc); ok {
						out = append(out, o)
					}
				case *ssa.IndexAddr:
					if arr, ok := ad.X.(*ssa.Alloc); ok {
						follow(arr, d+1)
					}
				}
			case *ssa.Slice:
				follow(x, d+1)
			case *ssa.MakeInterface, *ssa.ChangeType:
				follow(x.(ssa.Value), d+1)
			}
		}
	}
	follow(a, 0)
	return out
}

// c20LocatedFromOnePosition (C20.R5, C04.R5, C01.R10): file, line and column of every ErrorLocf call come from one
// position value.
func c20LocatedFromOnePosition(c *Ctx, r5 *RuleResult) {
	p := c.P
	if el := p.Func("gqlerror.ErrorLocf"); el != nil {
		for _, ci := range callsTo(p.Funcs(), el) {
			fn := ci.Parent()
			site := p.FuncName(fn)
			args := ci.Common().Args
			b0, f0 := posFieldBase(args[0])
			b1, f1 := posFieldBase(args[1])
			b2, f2 := posFieldBase(args[2])
			switch {
			case b0 != nil && b1 != nil && b2 != nil && baseKey(b0) == baseKey(b1) && baseKey(b1) == baseKey(b2) && f0 == "Src.Name" && f1 == "Line" && f2 == "Column":
				r5.OK("ErrorLocf in "+site, "file, line, column are Src.Name, Line, Column of one position")
			case strings.HasPrefix(site, "lexer."):
				// the lexer's own cursor: file from its Source, line from its line counter
				okFile := false
				if u, ok := args[0].(*ssa.UnOp); ok {
					if fa, ok := u.X.(*ssa.FieldAddr); ok {
						_, fname, _, _ := fieldOf(fa)
						okFile = fname == "Name"
					}
				}
				if okFile {
					r5.OK("ErrorLocf in "+site, "lexer cursor state (file from the lexer's Source); coordinates are C04's obligation")
				} else {
					r5.Fail(ci.Pos(), site, "ErrorLocf file argument", "the file of a lexer error does not come from the lexer's source")
				}
			default:
				r5.Fail(ci.Pos(), site, "ErrorLocf arguments from different positions", fmt.Sprintf("file/line/column of this error come from %s/%s/%s of different values: the location may name the wrong file or mix coordinates", f0, f1, f2))
			}
		}
	}
}

// c20SynthesisedNodesHavePositions (C20.R5, C02.R7): every schema node the loader synthesises carries a Position —
// ErrorPosf dereferences it.
func c20SynthesisedNodesHavePositions(c *Ctx, r5 *RuleResult) {
	p := c.P
	// synthesised AST nodes outside the parser: every literal of an ast node type with a Position field sets it
	for _, rel := range []string{"validator", "", "validator/rules"} {
		for _, fn := range p.FuncsIn(rel) {
			allInstrs(fn, func(in ssa.Instruction) {
				a, ok := in.(*ssa.Alloc)
				if !ok {
					return
				}
				n := namedOf(a.Type())
				if n == nil || n.Obj().Pkg() == nil || !strings.HasSuffix(n.Obj().Pkg().Path(), "/ast") {
					return
				}
				st, ok := n.Underlying().(*types.Struct)
				if !ok {
					return
				}
				hasPos := false
				for i := 0; i < st.NumFields(); i++ {
					if st.Field(i).Name() == "Position" && isPositionPtr(st.Field(i).Type()) {
						hasPos = true
					}
				}
				if !hasPos {
					return
				}
				// only node kinds that the loader reports errors on or publishes in the schema
				switch n.Obj().Name() {
				case "Definition", "FieldDefinition", "ArgumentDefinition", "DirectiveDefinition", "EnumValueDefinition":
				default:
					return
				}
				// a plain copy (`tmp := *x`) is a store of the whole struct
				whole := false
				for _, ref := range *a.Referrers() {
					if s, ok := ref.(*ssa.Store); ok && s.Addr == ssa.Value(a) {
						whole = true
					}
				}
				site := p.FuncName(fn)
				if whole || len(fieldStores(a, "Position")) > 0 {
					r5.OK("ast."+n.Obj().Name()+" built in "+site, "Position set")
					return
				}
				// introspection fields appended to Query have no source position by design: accepted when Name is a "__" constant
				for _, owner := range append([]*ssa.Alloc{a}, ownerAllocs(a)...) {
					for _, nm := range fieldStores(owner, "Name") {
						if s, ok := constString(nm); ok && strings.HasPrefix(s, "__") {
							r5.OK("ast."+n.Obj().Name()+" (part of "+s+") built in "+site, "introspection member: never the subject of a loader error")
							return
						}
					}
				}
				r5.Fail(a.Pos(), site, "ast."+n.Obj().Name()+" literal without Position", "the loader synthesises a schema node without a Position; errors about it (ErrorPosf(node.Position, ...)) have no location and no file, or crash")
			})
		}
	}
}

// c20WrapLosesLocation (C20.R7): gqlerror.Wrap and WrapPath build a new Error around err with no Locations and no file.
// Applied to an error that already is a located *gqlerror.Error (the lexer's, the parser's, the loader's) they throw its
// place away. Every call must therefore sit where the argument is known not to be one: on the failed side of a type
// assertion to *gqlerror.Error of the same value, or with an argument that can only come from code that returns plain
// errors (strconv, fmt.Errorf).
func c20WrapLosesLocation(c *Ctx, r *RuleResult) {
	p := c.P
	errT := p.LookupType("gqlerror", "Error")
	if errT == nil {
		r.AnchorLost("gqlerror.Error")
		return
	}
	isGqlPtr := func(t types.Type) bool {
		pt, ok := t.Underlying().(*types.Pointer)
		return ok && sameNamed(namedOf(pt.Elem()), errT)
	}
	memo := map[ssa.Value]int{}
	var may func(v ssa.Value, d int) bool
	may = func(v ssa.Value, d int) bool {
		if d > 6 {
			return true
		}
		if st, ok := memo[v]; ok {
			return st == 2
		}
		memo[v] = 1
		res := func() bool {
			v := unspill(v)
			if isNilConst(v) {
				return false
			}
			if isGqlPtr(v.Type()) {
				return true
			}
			switch x := v.(type) {
			case *ssa.MakeInterface:
				return isGqlPtr(x.X.Type())
			case *ssa.ChangeInterface:
				return may(x.X, d+1)
			case *ssa.ChangeType:
				return may(x.X, d+1)
			case *ssa.Phi:
				for _, e := range x.Edges {
					if may(e, d+1) {
						return true
					}
				}
				return false
			case *ssa.Extract:
				call, ok := x.Tuple.(*ssa.Call)
				if !ok {
					return true
				}
				gs := []*ssa.Function{call.Call.StaticCallee()}
				if gs[0] == nil {
					// a function chosen among known ones (a table of evaluators)
					var okC bool
					if call.Call.IsInvoke() {
						return true
					}
					gs, okC = funcChoice(call.Call.Value, 0)
					if !okC || len(gs) == 0 {
						return true
					}
				}
				for _, g := range gs {
					if !p.inModule(g) || len(g.Blocks) == 0 {
						continue // the standard library returns plain errors
					}
					for _, ret := range returnsOf(g) {
						vals := returnValues(ret)
						if x.Index < len(vals) && may(vals[x.Index], d+1) {
							return true
						}
					}
				}
				return false
			case *ssa.Call:
				g := x.Call.StaticCallee()
				if g == nil {
					return true
				}
				if !p.inModule(g) || len(g.Blocks) == 0 {
					return false
				}
				for _, ret := range returnsOf(g) {
					if len(ret.Results) == 1 && may(ret.Results[0], d+1) {
						return true
					}
				}
				return false
			case *ssa.UnOp:
				// a field that holds an error: whatever is stored into it anywhere
				if fa, ok := x.X.(*ssa.FieldAddr); ok && x.Op == token.MUL {
					if n, f, _, _ := fieldOf(fa); n != nil {
						for _, s := range storesToField(p.Funcs(), n, f) {
							if may(s.store.Val, d+1) {
								return true
							}
						}
						return false
					}
				}
				return true
			case *ssa.Parameter:
				fn := x.Parent()
				idx := paramIndex(fn, x)
				calls := callSitesOf(p, fn)
				if idx < 0 || len(calls) == 0 {
					return true
				}
				for _, ci := range calls {
					if idx < len(ci.Common().Args) && may(ci.Common().Args[idx], d+1) {
						return true
					}
				}
				return false
			}
			return true
		}()
		if res {
			memo[v] = 2
		} else {
			memo[v] = 3
		}
		return res
	}
	n := 0
	for _, name := range []string{"gqlerror.Wrap", "gqlerror.WrapPath"} {
		w := p.Func(name)
		if w == nil {
			continue
		}
		for _, ci := range callsTo(p.Funcs(), w) {
			fn := ci.Parent()
			if !p.inModule(fn) {
				continue
			}
			n++
			arg := ci.Common().Args[len(ci.Common().Args)-1]
			site := fmt.Sprintf("%s in %s at %s", name, p.FuncName(fn), p.Pos(ci.Pos()))
			// under the failed side of a type assertion of the same value
			asserted := false
			for _, cd := range condsAt(ci.Block()) {
				ex, ok := cd.V.(*ssa.Extract)
				if !ok || ex.Index != 1 || cd.True {
					continue
				}
				ta, ok := ex.Tuple.(*ssa.TypeAssert)
				if !ok || !isGqlPtr(ta.AssertedType) {
					continue
				}
				if unspill(stripChange(ta.X)) == unspill(stripChange(arg)) {
					asserted = true
				}
			}
			switch {
			case asserted:
				r.OK(site, "the argument failed the assertion to *gqlerror.Error")
			case !may(arg, 0):
				r.OK(site, "the argument can only be a plain error")
			default:
				r.Fail(ci.Pos(), p.FuncName(fn), name+" applied to an error that may already be located", "the wrapped error may be a *gqlerror.Error that carries a location and a file; the new error has neither (the place survives only as text in the message), so the caller gets an error without `locations` for a fault at a known place")
			}
		}
	}
	if n == 0 {
		r.OK("no call of gqlerror.Wrap / WrapPath in the module", "")
	}
}
