package main

import (
	"fmt"
	"go/ast"
	"go/importer"
	"go/parser"
	"go/token"
	"go/types"
	"sort"

	"golang.org/x/tools/go/ssa"
	"golang.org/x/tools/go/ssa/ssautil"
)

// C05.R8 / C06.R8 — writes into the tree land in the node that is published.
//
// An interior pointer &buf[i] into a slice that lives in a struct field is valid only until the next append to that
// field: append may move the backing array, after which a write through the pointer goes to the abandoned copy and
// the element that is later published keeps its old content (a child value without its Value, a field without its
// type). The rule: no pointer derived from &F[i] — F a slice-typed struct field with at least one appending store in
// the analysed functions — is used (loaded from, stored through, passed on) after an instruction that may store to F:
// a store to F itself or a call of a function that may, transitively. Functions returning such a pointer hand the
// obligation to their callers. The expected count on today's parser is zero (its parser struct holds no slices), so
// the rule carries a positive example that must be reported on every run.
type bufID struct {
	st *types.Named
	f  string
}

func (b bufID) String() string { return b.st.Obj().Name() + "." + b.f }

type aliasCtx struct {
	p        *Program
	fns      []*ssa.Function
	callees  func(ssa.CallInstruction) []*ssa.Function
	grows    map[*ssa.Function]map[bufID]bool
	interior map[*ssa.Function]*bufID // functions returning an interior pointer of the buffer
	pos      func(token.Pos) string
	name     func(*ssa.Function) string
}

// fieldBuf: v is a slice loaded from a struct field (possibly resliced): the field.
func fieldBuf(v ssa.Value, d int) (bufID, bool) {
	if d > 6 {
		return bufID{}, false
	}
	v = stripChange(v)
	switch x := v.(type) {
	case *ssa.UnOp:
		if x.Op == token.MUL {
			if fa, ok := x.X.(*ssa.FieldAddr); ok {
				if n, f, _, ok := fieldOf(fa); ok && n != nil {
					if _, isSlice := x.Type().Underlying().(*types.Slice); isSlice {
						return bufID{n, f}, true
					}
				}
			}
		}
	case *ssa.Slice:
		return fieldBuf(x.X, d+1)
	case *ssa.Phi:
		var got bufID
		found := false
		for _, e := range x.Edges {
			if b, ok := fieldBuf(e, d+1); ok {
				got, found = b, true
			}
		}
		return got, found
	case *ssa.Call:
		if b, ok := x.Call.Value.(*ssa.Builtin); ok && b.Name() == "append" {
			return fieldBuf(x.Call.Args[0], d+1)
		}
	}
	return bufID{}, false
}

func (a *aliasCtx) storeTo(in ssa.Instruction) (bufID, bool) {
	st, ok := in.(*ssa.Store)
	if !ok {
		return bufID{}, false
	}
	fa, ok := st.Addr.(*ssa.FieldAddr)
	if !ok {
		return bufID{}, false
	}
	n, f, _, ok := fieldOf(fa)
	if !ok || n == nil {
		return bufID{}, false
	}
	if _, isSlice := st.Val.Type().Underlying().(*types.Slice); !isSlice {
		return bufID{}, false
	}
	return bufID{n, f}, true
}

func (a *aliasCtx) compute() {
	a.grows = map[*ssa.Function]map[bufID]bool{}
	for _, fn := range a.fns {
		a.grows[fn] = map[bufID]bool{}
		allInstrs(fn, func(in ssa.Instruction) {
			if b, ok := a.storeTo(in); ok {
				a.grows[fn][b] = true
			}
		})
	}
	for changed := true; changed; {
		changed = false
		for _, fn := range a.fns {
			allInstrs(fn, func(in ssa.Instruction) {
				ci, ok := in.(ssa.CallInstruction)
				if !ok {
					return
				}
				for _, g := range a.callees(ci) {
					for b := range a.grows[g] {
						if !a.grows[fn][b] {
							a.grows[fn][b] = true
							changed = true
						}
					}
				}
				// closures handed to a callee may be run by it
				for _, arg := range ci.Common().Args {
					if mc, ok := arg.(*ssa.MakeClosure); ok {
						for b := range a.grows[mc.Fn.(*ssa.Function)] {
							if !a.grows[fn][b] {
								a.grows[fn][b] = true
								changed = true
							}
						}
					}
				}
			})
		}
	}
	// functions returning an interior pointer
	a.interior = map[*ssa.Function]*bufID{}
	for changed := true; changed; {
		changed = false
		for _, fn := range a.fns {
			if a.interior[fn] != nil {
				continue
			}
			for _, ret := range returnsOf(fn) {
				for _, rv := range ret.Results {
					if b, ok := a.interiorOf(rv, 0); ok {
						bb := b
						a.interior[fn] = &bb
						changed = true
					}
				}
			}
		}
	}
}

// interiorOf: v points into the backing array of a field buffer.
func (a *aliasCtx) interiorOf(v ssa.Value, d int) (bufID, bool) {
	if d > 6 {
		return bufID{}, false
	}
	v = stripChange(v)
	switch x := v.(type) {
	case *ssa.IndexAddr:
		if _, isSlice := x.X.Type().Underlying().(*types.Slice); isSlice {
			return fieldBuf(x.X, 0)
		}
		return a.interiorOf(x.X, d+1) // &arr[i] of an array inside an element
	case *ssa.FieldAddr:
		return a.interiorOf(x.X, d+1)
	case *ssa.Phi:
		for _, e := range x.Edges {
			if b, ok := a.interiorOf(e, d+1); ok {
				return b, true
			}
		}
	case *ssa.Call:
		if g := x.Call.StaticCallee(); g != nil {
			if b := a.interior[g]; b != nil {
				return *b, true
			}
		}
	}
	return bufID{}, false
}

type aliasFinding struct {
	fn   *ssa.Function
	at   token.Pos
	buf  bufID
	what string
}

func (a *aliasCtx) run() (findings []aliasFinding, tracked int) {
	a.compute()
	appended := map[bufID]bool{}
	for _, fn := range a.fns {
		for b := range a.grows[fn] {
			appended[b] = true
		}
	}
	for _, fn := range a.fns {
		// definitions of interior pointers in fn
		var defs []ssa.Value
		allInstrs(fn, func(in ssa.Instruction) {
			v, ok := in.(ssa.Value)
			if !ok {
				return
			}
			switch v.(type) {
			case *ssa.IndexAddr, *ssa.Call:
			default:
				return
			}
			if b, ok := a.interiorOf(v, 0); ok && appended[b] {
				defs = append(defs, v)
			}
		})
		for _, def := range defs {
			buf, _ := a.interiorOf(def, 0)
			tracked++
			dIn := def.(ssa.Instruction)
			// growers in fn
			var growers []ssa.Instruction
			allInstrs(fn, func(in ssa.Instruction) {
				if in == dIn {
					return
				}
				if b, ok := a.storeTo(in); ok && b == buf {
					growers = append(growers, in)
				}
				if ci, ok := in.(ssa.CallInstruction); ok {
					for _, g := range a.callees(ci) {
						if a.grows[g][buf] {
							growers = append(growers, in)
						}
					}
					for _, arg := range ci.Common().Args {
						if mc, ok := arg.(*ssa.MakeClosure); ok && a.grows[mc.Fn.(*ssa.Function)][buf] {
							growers = append(growers, in)
						}
					}
				}
			})
			if len(growers) == 0 {
				continue
			}
			// uses of the pointer (through field addresses and phis)
			derived := map[ssa.Value]bool{def: true}
			var uses []ssa.Instruction
			work := []ssa.Value{def}
			for len(work) > 0 {
				v := work[0]
				work = work[1:]
				if v.Referrers() == nil {
					continue
				}
				for _, ref := range *v.Referrers() {
					switch x := ref.(type) {
					case *ssa.FieldAddr, *ssa.IndexAddr, *ssa.Phi, *ssa.ChangeType, *ssa.Convert:
						xv := x.(ssa.Value)
						if !derived[xv] {
							derived[xv] = true
							work = append(work, xv)
						}
					case *ssa.DebugRef:
					default:
						uses = append(uses, ref)
					}
				}
			}
			reported := false
			for _, u := range uses {
				if reported {
					break
				}
				for _, g := range growers {
					if g == u {
						// the pointer handed to the growing call itself: it may be used there after the growth
						continue
					}
					// D -> G -> U with the last leg not passing D again
					if _, ok := reachesWithout(dIn, func(x ssa.Instruction) bool { return x == g }, func(x ssa.Instruction) bool { return false }); !ok {
						continue
					}
					if _, ok := reachesWithout(g, func(x ssa.Instruction) bool { return x == u }, func(x ssa.Instruction) bool { return x == dIn }); !ok {
						continue
					}
					findings = append(findings, aliasFinding{fn, u.Pos(), buf, fmt.Sprintf("pointer into %s taken at %s is used after %s may have grown the buffer", buf, a.pos(dIn.Pos()), a.pos(g.Pos()))})
					reported = true
					break
				}
			}
		}
	}
	sort.Slice(findings, func(i, j int) bool { return findings[i].at < findings[j].at })
	return
}

func staleInteriorRule(g *grammarCtx, r *RuleResult) {
	p := g.p
	a := &aliasCtx{p: p, fns: g.m.fns, callees: func(ci ssa.CallInstruction) []*ssa.Function { return g.f.calleesOf[ci] },
		pos: p.Pos, name: p.FuncName}
	fs, tracked := a.run()
	for _, f := range fs {
		r.Fail(f.at, p.FuncName(f.fn), "stale interior pointer into "+f.buf.String(), f.what+": append may move the backing array, the write (or read) then goes to the abandoned copy and the element that ends up in the tree keeps its old content")
	}
	nb := 0
	seen := map[bufID]bool{}
	for _, fn := range a.fns {
		for b := range a.grows[fn] {
			if !seen[b] {
				seen[b] = true
				nb++
			}
		}
	}
	if len(fs) == 0 {
		r.OK(fmt.Sprintf("package parser: %d functions, %d growable field buffers, %d interior pointers tracked", len(a.fns), nb, tracked), "no interior pointer is used after a possible growth of its buffer")
	}
	// the positive example: the rule must report it
	if err := staleSelfTest(); err != nil {
		r.Undecided(token.NoPos, "checker self-test", "stale interior pointer: positive example", "the rule did not behave as expected on its built-in example ("+err.Error()+"): its silence on the parser proves nothing")
	} else {
		r.OK("built-in positive example (a field pushed onto a shared stack, filled in after a nested push)", "reported, and its repaired twin is not")
	}
}

const staleExample = `package ex
type child struct{ name string; value *node }
type node struct{ children []*child }
type parser struct{ stack []child; toks []string; i int }
func (p *parser) push(c child) *child {
	p.stack = append(p.stack, c)
	return &p.stack[len(p.stack)-1]
}
func (p *parser) pop(base int) []*child {
	blk := make([]child, len(p.stack)-base)
	copy(blk, p.stack[base:])
	p.stack = p.stack[:base]
	out := make([]*child, len(blk))
	for i := range blk { out[i] = &blk[i] }
	return out
}
func (p *parser) value() *node {
	if p.i < len(p.toks) && p.toks[p.i] == "{" { return p.object() }
	p.i++
	return &node{}
}
func (p *parser) object() *node {
	base := len(p.stack)
	p.i++
	for p.i < len(p.toks) && p.toks[p.i] != "}" { p.field() }
	p.i++
	return &node{children: p.pop(base)}
}
// bad: the pointer returned by push is written through after the nested value may have pushed
func (p *parser) field() {
	f := p.push(child{name: p.toks[p.i]})
	p.i++
	f.value = p.value()
}
// good: the nested value is parsed first
func (p *parser) fieldOK() {
	name := p.toks[p.i]
	p.i++
	v := p.value()
	f := p.push(child{name: name})
	f.value = v
}
`

var staleSelfTestMemo *error

func staleSelfTest() error {
	if staleSelfTestMemo != nil {
		return *staleSelfTestMemo
	}
	err := func() error {
		fset := token.NewFileSet()
		f, err := parser.ParseFile(fset, "ex.go", staleExample, 0)
		if err != nil {
			return err
		}
		pkg := types.NewPackage("ex", "ex")
		spkg, _, err := ssautil.BuildPackage(&types.Config{Importer: importer.Default()}, fset, pkg, []*ast.File{f}, ssa.InstantiateGenerics)
		if err != nil {
			return err
		}
		var fns []*ssa.Function
		for _, m := range spkg.Members {
			if fn, ok := m.(*ssa.Function); ok {
				fns = append(fns, fn)
			}
		}
		pt := spkg.Type("parser")
		ms := spkg.Prog.MethodSets.MethodSet(types.NewPointer(pt.Type()))
		for i := 0; i < ms.Len(); i++ {
			if fn := spkg.Prog.MethodValue(ms.At(i)); fn != nil {
				fns = append(fns, fn)
			}
		}
		a := &aliasCtx{fns: fns, callees: func(ci ssa.CallInstruction) []*ssa.Function {
			if g := ci.Common().StaticCallee(); g != nil {
				return []*ssa.Function{g}
			}
			return nil
		}, pos: func(p token.Pos) string { return fset.Position(p).String() }, name: func(fn *ssa.Function) string { return fn.Name() }}
		fs, _ := a.run()
		bad, good := 0, 0
		for _, x := range fs {
			switch x.fn.Name() {
			case "field":
				bad++
			default:
				good++
			}
		}
		if bad != 1 || good != 0 {
			return fmt.Errorf("expected exactly one report, in field; got %d there and %d elsewhere", bad, good)
		}
		return nil
	}()
	staleSelfTestMemo = &err
	return err
}

// peekedBeforeNext (C05.R9 / C06.R8): `next()` hands out the look-ahead token when there is one; when there is none
// it reads the lexer directly and returns whatever comes — a comment token included, because comments are folded into
// the look-ahead only by `peek()`. The grammar functions therefore call next() only on a token they have peeked: on
// every path from the function's entry to a call of next(), a call of peek() comes after the last call that may
// consume a token. (Forward must-analysis over the CFG; calls that cannot consume leave the state unchanged.)
func (g *grammarCtx) peekedBeforeNext(r *RuleResult, sides map[string]bool) {
	p := g.p
	m := g.m
	// the premise: next() has a branch that reads the lexer itself
	direct := false
	allInstrs(m.next, func(in ssa.Instruction) {
		if ci, ok := in.(ssa.CallInstruction); ok {
			if sc := ci.Common().StaticCallee(); sc != nil && sc.Name() == "ReadToken" {
				direct = true
			}
		}
	})
	if !direct {
		r.OK("next() never reads the lexer itself", "every token it hands out went through peek(); nothing to require of its callers")
		return
	}
	for _, fn := range m.fns {
		if fn == m.next || fn == m.peek || !sides[g.side(fn)] {
			continue
		}
		// does fn call next at all?
		var nexts []ssa.Instruction
		allInstrs(fn, func(in ssa.Instruction) {
			if ci, ok := in.(ssa.CallInstruction); ok && ci.Common().StaticCallee() == m.next {
				nexts = append(nexts, in)
			}
		})
		if len(nexts) == 0 {
			continue
		}
		// the comment-consuming machinery reads tokens on purpose
		if _, isLatch := g.f.latch(rootFunc(fn)); isLatch {
			r.OK("next() in "+p.FuncName(fn), "the comment group reader (behind its re-entrancy latch) takes tokens as they come")
			continue
		}
		g.peekFlow(fn, func(ins ssa.Instruction, peeked bool) {
			if !peeked {
				r.Fail(ins.Pos(), p.FuncName(fn), "next() on a token that was not peeked", "on some path no peek() comes between the last consumed token and this next(): with nothing in the look-ahead next() reads the lexer directly and returns a comment token as if it were the next token — a document with a comment in that one place is rejected (or mis-parsed), so the result depends on an ignored token")
			} else {
				r.OK("next() at "+p.Pos(ins.Pos())+" in "+p.FuncName(fn), "a peek() comes after the last consumption on every path")
			}
		})
	}
}

// peekFlow: forward must-analysis of "the look-ahead holds a token peeked since the last consumption" over fn (false at
// entry, greatest fixpoint). report, when given, is called at every call of next() with the state before it. Returns
// whether the state holds at every return — a helper that always ends on a peek (a loop `for p.peek().Kind != end`)
// leaves its caller with a peeked token.
func (g *grammarCtx) peekFlow(fn *ssa.Function, report func(ins ssa.Instruction, peeked bool)) bool {
	m := g.m
	if g.endsPeeked == nil {
		g.endsPeeked = map[*ssa.Function]int{}
	}
	in := map[*ssa.BasicBlock]bool{}
	for _, b := range fn.Blocks {
		in[b] = true
	}
	in[fn.Blocks[0]] = false
	transfer := func(b *ssa.BasicBlock, st bool, rep bool) bool {
		for _, ins := range b.Instrs {
			ci, ok := ins.(ssa.CallInstruction)
			if !ok {
				continue
			}
			if _, isB := ci.Common().Value.(*ssa.Builtin); isB {
				continue
			}
			callees := g.f.calleesOf[ci]
			if len(callees) == 0 {
				if sc := ci.Common().StaticCallee(); sc != nil {
					callees = []*ssa.Function{sc}
				}
			}
			for _, cal := range callees {
				switch {
				case cal == m.peek:
					st = true
				case cal == m.next:
					if rep && report != nil {
						report(ins, st)
					}
					st = false
				case inParserPkg(m, cal) && len(cal.Blocks) > 0 && cal != fn:
					// a helper: what it leaves behind on every path
					switch g.endsPeeked[cal] {
					case 0:
						g.endsPeeked[cal] = 1 // in progress: assume nothing
						if g.peekFlow(cal, nil) {
							g.endsPeeked[cal] = 2
						} else {
							g.endsPeeked[cal] = 3
						}
					}
					switch {
					case g.endsPeeked[cal] == 2:
						st = true
					case g.f.mayConsume[cal]:
						st = false
					}
				case inParserPkg(m, cal) && g.f.mayConsume[cal]:
					st = false
				}
			}
		}
		return st
	}
	for changed := true; changed; {
		changed = false
		for _, b := range fn.Blocks {
			if b == fn.Blocks[0] {
				continue
			}
			st := len(b.Preds) > 0
			for _, pd := range b.Preds {
				if !transfer(pd, in[pd], false) {
					st = false
				}
			}
			if st != in[b] {
				in[b] = st
				changed = true
			}
		}
	}
	all := true
	nret := 0
	for _, b := range fn.Blocks {
		out := transfer(b, in[b], true)
		if _, isRet := b.Instrs[len(b.Instrs)-1].(*ssa.Return); isRet {
			nret++
			if !out {
				all = false
			}
		}
	}
	return all && nret > 0
}

// sharedBufferWindows (C17.R5): a window of a buffer the parser keeps in its own struct (a shared
// scratch slice that later productions append to) may leave the parser — be returned or stored into a node — only with
// its capacity clipped to its length (`buf[a:b:b]`). A two-index window keeps the buffer's spare capacity: an append by
// whoever holds the node (the loader merging an extension's fields into a definition) then writes over the elements the
// parser put behind it for the next definition, and which definition is damaged depends on source order.
func (g *grammarCtx) sharedBufferWindows(r *RuleResult) {
	p := g.p
	n := 0
	for _, fn := range g.m.fns {
		allInstrs(fn, func(in ssa.Instruction) {
			sl, ok := in.(*ssa.Slice)
			if !ok {
				return
			}
			buf, ok := fieldBuf(sl.X, 0)
			if !ok || buf.st != g.m.T {
				return
			}
			if _, isSlice := sl.X.Type().Underlying().(*types.Slice); !isSlice {
				return
			}
			n++
			clipped := sl.Max != nil && sl.High != nil && stripChange(sl.Max) == stripChange(sl.High)
			// where does the window go?
			escapes := ""
			var visit func(v ssa.Value, d int)
			seen := map[ssa.Value]bool{}
			visit = func(v ssa.Value, d int) {
				if seen[v] || d > 4 || v.Referrers() == nil {
					return
				}
				seen[v] = true
				for _, ref := range *v.Referrers() {
					switch x := ref.(type) {
					case *ssa.Return:
						escapes = "returned"
					case *ssa.Store:
						if x.Val == v {
							if b2, ok := storedFieldBuf(x); ok && b2 == buf {
								continue // trimmed in place: p.buf = p.buf[:n]
							}
							escapes = "stored"
						}
					case *ssa.Phi:
						visit(x, d+1)
					case *ssa.ChangeType, *ssa.MakeInterface, *ssa.Convert:
						visit(x.(ssa.Value), d+1)
					case *ssa.Call:
						if b, isB := x.Call.Value.(*ssa.Builtin); isB {
							switch b.Name() {
							case "len", "cap", "copy":
								continue
							case "append":
								if len(x.Call.Args) > 0 && x.Call.Args[0] == v {
									visit(x, d+1) // append(window, ...) continues the window
								}
								continue
							}
						}
						escapes = "passed to " + calleeName(x)
					}
				}
			}
			visit(sl, 0)
			site := fmt.Sprintf("window of parser.%s at %s in %s", buf.f, p.Pos(sl.Pos()), p.FuncName(fn))
			switch {
			case escapes == "":
				r.OK(site, "stays inside the parser (trimmed in place, copied or measured)")
			case clipped:
				r.OK(site, escapes+" with its capacity clipped to its length")
			default:
				r.Fail(sl.Pos(), p.FuncName(fn), "window of the shared buffer parser."+buf.f+" "+escapes+" with spare capacity", "the slice handed out still has the buffer's capacity behind it: an append through it (the loader merging extension fields into a definition) overwrites what the parser stored there for the following definition — which definition loses its fields depends on the order of the definitions and on how they are split over sources")
			}
		})
	}
	if n == 0 {
		r.OK("the parser keeps no shared slice buffer in its struct", "nothing to clip")
	}
}

func storedFieldBuf(st *ssa.Store) (bufID, bool) {
	fa, ok := st.Addr.(*ssa.FieldAddr)
	if !ok {
		return bufID{}, false
	}
	n, f, _, ok := fieldOf(fa)
	if !ok || n == nil {
		return bufID{}, false
	}
	return bufID{n, f}, true
}
