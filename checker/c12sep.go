package main

import (
	"fmt"
	"go/token"
	"go/types"
	"sort"
	"strings"

	"golang.org/x/tools/go/ssa"
)

// C12.R5 / C13.R6 — the printer never glues two tokens together.
//
// The formatter separates tokens through two flags (padNext: a space is owed before the next write; lineHead: the
// line is empty) and a handful of write primitives. Whether two name-like tokens end up adjacent without a separator
// is a typestate question over the sequence of writes. The abstract state is (padNext, lineHead, class of the last
// character written: W = letter, digit, underscore or unknown text; P = punctuation, space, line start); it is
// propagated through every function of package formatter from the exported Format* entry points, with stores to the
// two flags, branches on them, and calls of the lowest write primitive (the function handing bytes to the io.Writer)
// interpreted; every other function of the package is analysed per (entry state, classes of its string arguments)
// and summarised. Text of unknown content (names, Value.String(), Type.String()) counts as W at both ends.
// Obligation: at every write whose text may start with W, the last character written is not W.
type sepClass struct {
	first, last byte // 'W' or 'P'
	mayEmpty    bool
}

type sepKey struct {
	fn   *ssa.Function
	st   int
	args string
}

// sepCtx: what a function is told about its arguments — the character classes of its string parameters (in order) and
// which of its slice parameters are known non-empty at the call.
type sepCtx struct {
	strs     []sepClass
	nonEmpty map[*ssa.Parameter]bool
}

func (c sepCtx) key() string {
	k := argsKey(c.strs)
	var ns []string
	for p := range c.nonEmpty {
		ns = append(ns, p.Name())
	}
	sort.Strings(ns)
	return k + "|" + strings.Join(ns, ",")
}

type sepSummary struct {
	out  uint16 // bitset of states (8 base states x last-iteration bit)
	viol bool
}

type sepViol struct {
	fn   *ssa.Function
	pos  token.Pos
	what string
}

type sepEngine struct {
	p              *Program
	prim           *ssa.Function // writeString
	fmtT           *types.Named
	memo           map[sepKey]*sepSummary
	inProg         map[sepKey]bool
	changed        bool
	viols          map[string]sepViol
	sites          map[string]bool
	unresolved     map[string]bool
	inRound        map[sepKey]bool
	nonEmptyFields map[string]bool // "Struct.Field": lists the parser never leaves empty
}

func sepEnc(pad, head bool, last byte) int {
	s := 0
	if pad {
		s |= 1
	}
	if head {
		s |= 2
	}
	if last == 'W' {
		s |= 4
	}
	return s
}

func sepDec(s int) (pad, head bool, last byte) {
	last = 'P'
	if s&4 != 0 {
		last = 'W'
	}
	return s&1 != 0, s&2 != 0, last
}

func isWordByte(b byte) bool {
	return b == '_' || b >= '0' && b <= '9' || b >= 'a' && b <= 'z' || b >= 'A' && b <= 'Z' || b >= 0x80
}

func (e *sepEngine) classOf(v ssa.Value, fn *ssa.Function, cx sepCtx, depth int) sepClass {
	args := cx.strs
	unknown := sepClass{'W', 'W', false}
	if depth > 6 {
		return unknown
	}
	if s, ok := constString(v); ok {
		if s == "" {
			return sepClass{'P', 'P', true}
		}
		c := sepClass{'P', 'P', false}
		if isWordByte(s[0]) {
			c.first = 'W'
		}
		if isWordByte(s[len(s)-1]) {
			c.last = 'W'
		}
		return c
	}
	switch x := v.(type) {
	case *ssa.Parameter:
		i := 0
		for _, prm := range fn.Params {
			if isStringType(prm.Type()) {
				if prm == x {
					if i < len(args) {
						return args[i]
					}
					return unknown
				}
				i++
			}
		}
	case *ssa.Call:
		nm := calleeName(x)
		switch nm {
		case "strings.TrimSpace", "strings.ToLower", "strings.ToUpper":
			c := e.classOf(x.Call.Args[0], fn, cx, depth+1)
			return c
		case "strings.Repeat":
			c := e.classOf(x.Call.Args[0], fn, cx, depth+1)
			c.mayEmpty = true
			return c
		}
	case *ssa.BinOp:
		if x.Op == token.ADD {
			l, r := e.classOf(x.X, fn, cx, depth+1), e.classOf(x.Y, fn, cx, depth+1)
			c := sepClass{l.first, r.last, l.mayEmpty && r.mayEmpty}
			if l.mayEmpty && r.first == 'W' {
				c.first = 'W'
			}
			if r.mayEmpty && l.last == 'W' {
				c.last = 'W'
			}
			return c
		}
	case *ssa.Phi:
		c := sepClass{'P', 'P', false}
		for _, ed := range x.Edges {
			k := e.classOf(ed, fn, cx, depth+1)
			if k.first == 'W' {
				c.first = 'W'
			}
			if k.last == 'W' {
				c.last = 'W'
			}
			c.mayEmpty = c.mayEmpty || k.mayEmpty
		}
		return c
	case *ssa.UnOp:
		if x.Op == token.MUL {
			// the formatter's indent string: spaces or tabs by configuration
			if st, f, ok := fieldLoadOf(x); ok && st == "formatter" && f == "indent" {
				return sepClass{'P', 'P', true}
			}
		}
	}
	return unknown
}

func isStringType(t types.Type) bool {
	b, ok := t.Underlying().(*types.Basic)
	return ok && b.Info()&types.IsString != 0
}

func (e *sepEngine) flagField(addr ssa.Value) string {
	fa, ok := addr.(*ssa.FieldAddr)
	if !ok {
		return ""
	}
	n, f, _, ok := fieldOf(fa)
	if !ok || n != e.fmtT {
		return ""
	}
	if f == "padNext" || f == "lineHead" {
		return f
	}
	return ""
}

func (e *sepEngine) flagLoad(v ssa.Value) string {
	v = unspill(stripChange(v))
	if u, ok := v.(*ssa.UnOp); ok && u.Op == token.MUL {
		return e.flagField(u.X)
	}
	return ""
}

func (e *sepEngine) resolve(ci ssa.CallInstruction) *ssa.Function {
	if g := ci.Common().StaticCallee(); g != nil {
		return g
	}
	v := ci.Common().Value
	for i := 0; i < 4; i++ {
		switch x := v.(type) {
		case *ssa.MakeClosure:
			return x.Fn.(*ssa.Function)
		case *ssa.Function:
			return x
		case *ssa.UnOp:
			if al, ok := x.X.(*ssa.Alloc); ok && x.Op == token.MUL {
				sts := storesTo(al)
				if len(sts) == 1 {
					v = sts[0]
					continue
				}
			}
			return nil
		}
		return nil
	}
	return nil
}

func argsKey(a []sepClass) string {
	var sb strings.Builder
	for _, c := range a {
		sb.WriteByte(c.first)
		sb.WriteByte(c.last)
		if c.mayEmpty {
			sb.WriteByte('?')
		}
	}
	return sb.String()
}

// states: bits 0..2 as sepEnc; bit 3: "this is the last iteration of range loop <lastHdr>" (set on the false edge of
// `idx != len(X)-1`, consumed at that loop's header, where only the exit is then possible).
const sepLast = 8

// analyse returns the states at the returns of fn entered in state st.
func (e *sepEngine) analyse(fn *ssa.Function, st int, args sepCtx) *sepSummary {
	key := sepKey{fn, st, args.key()}
	if e.inProg[key] {
		if m := e.memo[key]; m != nil {
			return m
		}
		return &sepSummary{}
	}
	if prev := e.memo[key]; prev != nil && e.inRound[key] {
		return prev
	}
	e.inRound[key] = true
	e.inProg[key] = true
	defer delete(e.inProg, key)
	sum := &sepSummary{}
	if prev := e.memo[key]; prev != nil {
		sum.out, sum.viol = prev.out, prev.viol
	}
	if len(fn.Blocks) == 0 {
		sum.out |= 1 << uint(st)
		e.store(key, sum)
		return sum
	}
	headers, bodiesOf := loopsOf(fn)
	isHeader := map[*ssa.BasicBlock]bool{}
	for _, h := range headers {
		isHeader[h] = true
	}
	in := map[*ssa.BasicBlock]uint16{fn.Blocks[0]: 1 << uint(st)}
	work := []*ssa.BasicBlock{fn.Blocks[0]}
	for len(work) > 0 {
		b := work[0]
		work = work[1:]
		cur := in[b]
		for _, ins := range b.Instrs {
			if cur == 0 {
				break
			}
			cur = e.transfer(fn, ins, cur, args, sum)
		}
		push := func(s *ssa.BasicBlock, set uint16) {
			if set&^in[s] != 0 {
				in[s] |= set
				work = append(work, s)
			}
		}
		clearLast := func(set uint16) uint16 { return (set | set>>sepLast) & 0xFF }
		last := b.Instrs[len(b.Instrs)-1]
		switch t := last.(type) {
		case *ssa.Return:
			sum.out |= clearLast(cur)
		case *ssa.If:
			cond := t.Cond
			neg := false
			for {
				u, ok := cond.(*ssa.UnOp)
				if !ok || u.Op != token.NOT {
					break
				}
				cond, neg = u.X, !neg
			}
			// the header of a range loop or of a counting loop `i < len(X)`: states marked "last iteration" can only leave
			if isHeader[b] && (isRangeLoop(b) || countingHeader(b)) {
				marked := cur >> sepLast & 0xFF
				plain := cur & 0xFF
				bodyIdx, exitIdx := 0, 1
				if bodiesOf[b] != nil && !bodiesOf[b][b.Succs[0]] {
					bodyIdx, exitIdx = 1, 0
				}
				push(b.Succs[bodyIdx], plain)
				push(b.Succs[exitIdx], plain|marked)
				continue
			}
			if isHeader[b] {
				cur = clearLast(cur)
			}
			// conditions decided by what is known about the arguments / the parser's output
			if val, known := e.condKnown(cond, args); known {
				if neg {
					val = !val
				}
				if val {
					push(b.Succs[0], cur)
				} else {
					push(b.Succs[1], cur)
				}
				continue
			}
			// idx != len(X)-1 in a range loop over X: the other edge is the last iteration
			if hdr, isNE, ok := lastIterationTest(cond); ok && !neg {
				_ = hdr
				tEdge, fEdge := b.Succs[0], b.Succs[1]
				if !isNE {
					tEdge, fEdge = fEdge, tEdge
				}
				// tEdge: not the last iteration; fEdge: the last one
				push(tEdge, cur)
				push(fEdge, (cur&0xFF)<<sepLast|(cur&0xFF00))
				continue
			}
			fl := e.flagLoad(cond)
			var tset, fset uint16
			for s := 0; s < 16; s++ {
				if cur&(1<<uint(s)) == 0 {
					continue
				}
				pad, head, _ := sepDec(s & 7)
				val, known := false, false
				switch fl {
				case "padNext":
					val, known = pad, true
				case "lineHead":
					val, known = head, true
				}
				if known && neg {
					val = !val
				}
				if !known || val {
					tset |= 1 << uint(s)
				}
				if !known || !val {
					fset |= 1 << uint(s)
				}
			}
			push(b.Succs[0], tset)
			push(b.Succs[1], fset)
		default:
			for _, s := range b.Succs {
				if isHeader[s] && !isRangeLoop(s) && !countingHeader(s) {
					push(s, clearLast(cur))
				} else {
					push(s, cur)
				}
			}
		}
	}
	e.store(key, sum)
	return sum
}

// lastIterationTest: cond is `idx != len(X)-1` (or ==) where idx is the index of a range loop over X.
func lastIterationTest(cond ssa.Value) (hdr *ssa.BasicBlock, isNE bool, ok bool) {
	bo, isB := cond.(*ssa.BinOp)
	if !isB || (bo.Op != token.NEQ && bo.Op != token.EQL) {
		return nil, false, false
	}
	// the index of a range loop: go/ssa keeps a phi that starts at -1 and hands phi+1 to the body
	rangeIdx := func(v ssa.Value) *ssa.Phi {
		orig := v
		v = stripChange(v)
		if add, ok := v.(*ssa.BinOp); ok && add.Op == token.ADD {
			if k, okK := constNum(add.Y); okK && k == 1 {
				v = stripChange(add.X)
			}
		}
		if ph, ok := v.(*ssa.Phi); ok && strings.Contains(ph.Comment, "rangeindex") {
			return ph
		}
		// the induction variable of `for i := 0; i < len(X); i++`
		if ph, ok := stripChange(orig).(*ssa.Phi); ok && countingHeader(ph.Block()) && countingVar(ph.Block()) == ph {
			return ph
		}
		return nil
	}
	lim := bo.Y
	ph := rangeIdx(bo.X)
	if ph == nil {
		lim = bo.X
		if ph = rangeIdx(bo.Y); ph == nil {
			return nil, false, false
		}
	}
	sub, isS := stripChange(lim).(*ssa.BinOp)
	if !isS || sub.Op != token.SUB {
		return nil, false, false
	}
	if k, okK := constNum(sub.Y); !okK || k != 1 {
		return nil, false, false
	}
	lc, isC := stripChange(sub.X).(*ssa.Call)
	if !isC {
		return nil, false, false
	}
	if b, isBi := lc.Call.Value.(*ssa.Builtin); !isBi || b.Name() != "len" {
		return nil, false, false
	}
	// the loop's own bound is len of the same value
	x := stripChange(lc.Call.Args[0])
	same := false
	if countingHeader(ph.Block()) {
		if bx := countingBound(ph.Block()); bx != nil && (stripChange(bx) == x || accessPath(bx) == accessPath(x)) {
			same = true
		}
	}
	for _, in := range ph.Block().Instrs {
		if c2, ok := in.(*ssa.Call); ok {
			if b, isBi := c2.Call.Value.(*ssa.Builtin); isBi && b.Name() == "len" && stripChange(c2.Call.Args[0]) == x {
				same = true
			}
		}
	}
	if !same {
		// the bound is computed before the loop: len(X) in a dominating block
		for _, ref := range *x.Referrers() {
			if c2, ok := ref.(*ssa.Call); ok && c2 != lc {
				if b, isBi := c2.Call.Value.(*ssa.Builtin); isBi && b.Name() == "len" && c2.Block().Dominates(ph.Block()) {
					same = true
				}
			}
		}
	}
	if !same {
		return nil, false, false
	}
	return ph.Block(), bo.Op == token.NEQ, true
}

// condKnown: len(X) ==/!=/> 0 where X is known non-empty (a parameter the caller tested, or a list the parser never
// leaves empty).
func (e *sepEngine) condKnown(cond ssa.Value, cx sepCtx) (val, known bool) {
	bo, ok := cond.(*ssa.BinOp)
	if !ok {
		return false, false
	}
	k, isK := constNum(bo.Y)
	lc, isC := stripChange(bo.X).(*ssa.Call)
	if !isK || !isC || k != 0 {
		return false, false
	}
	if b, isBi := lc.Call.Value.(*ssa.Builtin); !isBi || b.Name() != "len" {
		return false, false
	}
	if !e.nonEmpty(lc.Call.Args[0], cx) {
		return false, false
	}
	switch bo.Op {
	case token.EQL, token.LEQ:
		return false, true
	case token.NEQ, token.GTR:
		return true, true
	}
	return false, false
}

func (e *sepEngine) nonEmpty(v ssa.Value, cx sepCtx) bool {
	v = unspill(stripChange(v))
	if prm, ok := v.(*ssa.Parameter); ok {
		return cx.nonEmpty[prm]
	}
	if st, f, ok := fieldLoadOf(v); ok {
		return e.nonEmptyFields[st+"."+f]
	}
	return false
}

// nonEmptyAt: the argument is non-empty at the call — by itself, or because the call lies under len(arg) != 0.
func (e *sepEngine) nonEmptyAt(a ssa.Value, call ssa.Instruction, cx sepCtx) bool {
	if e.nonEmpty(a, cx) {
		return true
	}
	ap := accessPath(a)
	for _, cd := range condsAt(call.Block()) {
		bo, ok := cd.V.(*ssa.BinOp)
		if !ok {
			continue
		}
		k, isK := constNum(bo.Y)
		lc, isC := stripChange(bo.X).(*ssa.Call)
		if !isK || !isC || k != 0 {
			continue
		}
		if b, isBi := lc.Call.Value.(*ssa.Builtin); !isBi || b.Name() != "len" {
			continue
		}
		if stripChange(lc.Call.Args[0]) != stripChange(a) && accessPath(lc.Call.Args[0]) != ap {
			continue
		}
		nonZero := (bo.Op == token.NEQ || bo.Op == token.GTR) == cd.True
		if bo.Op == token.EQL || bo.Op == token.LEQ {
			nonZero = !cd.True
		}
		if nonZero {
			return true
		}
	}
	return false
}

func (e *sepEngine) store(key sepKey, sum *sepSummary) {
	old := e.memo[key]
	if old == nil || old.out != sum.out || old.viol != sum.viol {
		e.changed = true
	}
	e.memo[key] = sum
}

func (e *sepEngine) transfer(fn *ssa.Function, ins ssa.Instruction, cur uint16, args sepCtx, sum *sepSummary) uint16 {
	// apply f to the base state of every member, keeping the last-iteration bit
	each := func(f func(s int) uint8) uint16 {
		var out uint16
		for s := 0; s < 16; s++ {
			if cur&(1<<uint(s)) == 0 {
				continue
			}
			o := uint16(f(s & 7))
			if s&sepLast != 0 {
				o <<= sepLast
			}
			out |= o
		}
		return out
	}
	switch x := ins.(type) {
	case *ssa.Store:
		fl := e.flagField(x.Addr)
		if fl == "" {
			return cur
		}
		var vals []bool
		if c, ok := x.Val.(*ssa.Const); ok && c.Value != nil {
			vals = []bool{c.Value.String() == "true"}
		} else {
			vals = []bool{false, true}
		}
		return each(func(s int) uint8 {
			var out uint8
			pad, head, last := sepDec(s)
			for _, v := range vals {
				if fl == "padNext" {
					out |= 1 << uint(sepEnc(v, head, last))
				} else {
					out |= 1 << uint(sepEnc(pad, v, last))
				}
			}
			return out
		})
	case ssa.CallInstruction:
		if _, isB := x.Common().Value.(*ssa.Builtin); isB {
			return cur
		}
		if x.Common().IsInvoke() {
			return cur
		}
		g := e.resolve(x)
		if g == nil {
			if _, isGo := ins.(*ssa.Go); !isGo {
				e.unresolved[e.p.FuncName(fn)+": "+e.p.Pos(ins.Pos())] = true
			}
			return cur
		}
		if !e.p.inModule(g) || e.p.PkgOf(g) == nil || !strings.HasSuffix(e.p.PkgOf(g).PkgPath, "/formatter") {
			return cur
		}
		cargs := sepCtx{nonEmpty: map[*ssa.Parameter]bool{}}
		np := len(g.Params)
		cas := x.Common().Args
		for i, prm := range g.Params {
			if i >= len(cas) || len(cas) != np {
				continue
			}
			if isStringType(prm.Type()) {
				cargs.strs = append(cargs.strs, e.classOf(cas[i], fn, args, 0))
			}
			if _, isSl := prm.Type().Underlying().(*types.Slice); isSl && e.nonEmptyAt(cas[i], ins, args) {
				cargs.nonEmpty[prm] = true
			}
		}
		if g == e.prim {
			cl := sepClass{'W', 'W', false}
			if len(cargs.strs) == 1 {
				cl = cargs.strs[0]
			}
			return each(func(s int) uint8 {
				var out uint8
				pad, head, last := sepDec(s)
				if cl.mayEmpty {
					out |= 1 << uint(s)
				}
				if last == 'W' && cl.first == 'W' {
					sum.viol = true
				}
				out |= 1 << uint(sepEnc(pad, head, cl.last))
				return out
			})
		}
		out := each(func(s int) uint8 {
			cs := e.analyse(g, s, cargs)
			if cs.viol {
				if e.isPrimitiveWriter(g) && !e.isPrimitiveWriter(fn) {
					k := e.p.FuncName(fn) + " | " + g.Name() + "(" + describeArgs(x) + ")"
					if _, dup := e.viols[k]; !dup {
						e.viols[k] = sepViol{fn, ins.Pos(), g.Name() + "(" + describeArgs(x) + ")"}
					}
				} else if e.isPrimitiveWriter(fn) {
					sum.viol = true
				}
			}
			return uint8(cs.out)
		})
		if e.isPrimitiveWriter(g) && !e.isPrimitiveWriter(fn) {
			e.sites[e.p.FuncName(fn)+" | "+e.p.Pos(ins.Pos())] = true
		}
		return out
	}
	return cur
}

func describeArgs(ci ssa.CallInstruction) string {
	var parts []string
	for i, a := range ci.Common().Args {
		if i == 0 && ci.Common().Signature().Recv() != nil {
			continue
		}
		if s, ok := constString(a); ok {
			parts = append(parts, fmt.Sprintf("%q", s))
		} else {
			parts = append(parts, operandDesc(a))
		}
	}
	return strings.Join(parts, ", ")
}

// isPrimitiveWriter: the write primitives of the formatter — the functions from which the lowest primitive is
// reachable through formatter flag logic only: named Write* / write*.
func (e *sepEngine) isPrimitiveWriter(fn *ssa.Function) bool {
	n := fn.Name()
	return strings.HasPrefix(n, "Write") || strings.HasPrefix(n, "write")
}

func tokenSeparationRule(c *Ctx, r *RuleResult, roots []string) {
	p := c.P
	fmtT := p.LookupType("formatter", "formatter")
	var prim *ssa.Function
	for _, fn := range p.FuncsIn("formatter") {
		// the lowest primitive: calls Write on the io.Writer field
		allInstrs(fn, func(in ssa.Instruction) {
			if ci, ok := in.(ssa.CallInstruction); ok && ci.Common().IsInvoke() && ci.Common().Method.Name() == "Write" {
				if _, f, ok := fieldLoadOf(ci.Common().Value); ok && f == "writer" {
					prim = fn
				}
			}
		})
	}
	if fmtT == nil || prim == nil {
		r.AnchorLost("formatter.formatter / the function that writes to formatter.writer")
		return
	}
	e := &sepEngine{p: p, prim: prim, fmtT: fmtT, memo: map[sepKey]*sepSummary{}, inProg: map[sepKey]bool{}, viols: map[string]sepViol{}, sites: map[string]bool{}, unresolved: map[string]bool{}}
	e.nonEmptyFields = parserNonEmptyLists(c, r)
	var rootFns []*ssa.Function
	for _, n := range roots {
		fn := p.Func("formatter.(*formatter)." + n)
		if fn == nil {
			r.AnchorLost("formatter.(*formatter)." + n)
			return
		}
		rootFns = append(rootFns, fn)
	}
	for round := 0; round < 40; round++ {
		e.changed = false
		e.inRound = map[sepKey]bool{}
		for _, fn := range rootFns {
			// a new formatter: nothing written, no padding owed, lineHead false
			e.analyse(fn, sepEnc(false, false, 'P'), sepCtx{})
		}
		if !e.changed {
			break
		}
	}
	var keys []string
	for k := range e.viols {
		keys = append(keys, k)
	}
	sort.Strings(keys)
	for _, k := range keys {
		v := e.viols[k]
		r.Fail(v.pos, p.FuncName(v.fn), "write that can touch the previous token: "+v.what, "on some path this text is written directly after a name, number or keyword with no space owed (padNext false) and none written: the two tokens fuse (`METERdigits`, `Int2`), the output no longer parses or parses differently")
	}
	var us []string
	for k := range e.unresolved {
		us = append(us, k)
	}
	sort.Strings(us)
	for _, u := range us {
		r.Undecided(token.NoPos, "formatter", "call through a function value at "+u, "the callee is not resolved; what it writes is not known")
	}
	n := 0
	for range e.sites {
		n++
	}
	for i := 0; i < n-len(keys); i++ {
		r.Instances++
		r.Discharged++
	}
	r.Samples = append(r.Samples, fmt.Sprintf("%d write sites reached from %v: no text that may start with a letter, digit or underscore is written directly after one (typestate over padNext, lineHead and the class of the last character; %d function summaries)", n, roots, len(e.memo)))
}

// parserNonEmptyLists: the slice-typed fields of AST nodes that the parser fills only from a repetition that cannot
// be empty: every store to the field in package parser takes the result of a parser function that gathers its
// elements in a callback handed to `some` (never to `many`).
func parserNonEmptyLists(c *Ctx, r *RuleResult) map[string]bool {
	p := c.P
	out := map[string]bool{}
	some, many := p.Func("parser.(*parser).some"), p.Func("parser.(*parser).many")
	errFn := p.Func("parser.(*parser).error")
	if some == nil || many == nil {
		return out
	}
	viaSome := func(g *ssa.Function) bool {
		if g == nil {
			return false
		}
		// the start token of the `some` repetition a function runs (and nothing through `many`), -1 if none
		someStart := func(h *ssa.Function) int64 {
			start, hasMany := int64(-1), false
			if h == nil {
				return -1
			}
			allInstrs(h, func(in ssa.Instruction) {
				if ci, ok := in.(ssa.CallInstruction); ok {
					switch ci.Common().StaticCallee() {
					case some:
						if len(ci.Common().Args) >= 2 {
							if k, ok := constNum(ci.Common().Args[1]); ok {
								start = k
							}
						}
					case many:
						hasMany = true
					}
				}
			})
			if hasMany {
				return -1
			}
			return start
		}
		hasSome := someStart(g) >= 0
		// or g delegates, on the side of its test where the opening token is next, to a function that runs the repetition
		var delegate ssa.CallInstruction
		delegStart := int64(-1)
		if !hasSome {
			allInstrs(g, func(in ssa.Instruction) {
				ci, ok := in.(ssa.CallInstruction)
				if !ok {
					return
				}
				h := ci.Common().StaticCallee()
				if h == nil || h == g || h.Pkg != g.Pkg {
					return
				}
				if k := someStart(h); k >= 0 {
					// its result is what g returns
					for _, ret := range returnsOf(g) {
						for _, rv := range ret.Results {
							if stripChange(rv) == ci.Value() {
								delegate, delegStart = ci, k
							}
						}
					}
				}
			})
		}
		if !hasSome && delegate == nil {
			return false
		}
		// `some` accepts an absent list; the list is required only when the function itself reports an error unless
		// the look-ahead is the opening token: the call of some lies on the equal side of a test of the look-ahead's
		// Kind against some's own start token, and the other side records an error
		required := false
		allInstrs(g, func(in ssa.Instruction) {
			ci, ok := in.(ssa.CallInstruction)
			if !ok {
				return
			}
			var start int64
			switch {
			case ci.Common().StaticCallee() == some && len(ci.Common().Args) >= 2:
				k, okS := constNum(ci.Common().Args[1])
				if !okS {
					return
				}
				start = k
			case delegate != nil && in == ssa.Instruction(delegate):
				start = delegStart
			default:
				return
			}
			for _, cd := range condsAt(in.Block()) {
				bo, ok := cd.V.(*ssa.BinOp)
				if !ok || (bo.Op != token.EQL && bo.Op != token.NEQ) {
					continue
				}
				k, okK := constNum(bo.Y)
				if !okK || k != start || (bo.Op == token.EQL) != cd.True {
					continue
				}
				if _, f, okF := fieldLoadOf(bo.X); !okF || f != "Kind" {
					continue
				}
				// the other side records an error
				other := cd.At.Succs[0]
				if cd.True {
					other = cd.At.Succs[1]
				}
				for _, x := range other.Instrs {
					if c2, ok := x.(ssa.CallInstruction); ok && errFn != nil && c2.Common().StaticCallee() == errFn {
						required = true
					}
				}
			}
		})
		return required
	}
	type fk struct{ st, f string }
	good, bad := map[fk]bool{}, map[fk]bool{}
	for _, fn := range p.FuncsIn("parser") {
		allInstrs(fn, func(in ssa.Instruction) {
			st, ok := in.(*ssa.Store)
			if !ok {
				return
			}
			fa, ok := st.Addr.(*ssa.FieldAddr)
			if !ok {
				return
			}
			n, f, _, ok := fieldOf(fa)
			if !ok || n == nil {
				return
			}
			if _, isSl := st.Val.Type().Underlying().(*types.Slice); !isSl {
				return
			}
			k := fk{n.Obj().Name(), f}
			if call, ok := stripChange(st.Val).(*ssa.Call); ok && viaSome(call.Call.StaticCallee()) {
				good[k] = true
			} else {
				bad[k] = true
			}
		})
	}
	for k := range good {
		if !bad[k] {
			out[k.st+"."+k.f] = true
		}
	}
	var names []string
	for k := range out {
		names = append(names, k)
	}
	sort.Strings(names)
	c.Extra["lists_never_empty_after_parsing"] = names
	return out
}

// wholeNodeDrop (C12.R3 / C13.R4, second half): whether a node is printed AT ALL may depend on the node being
// there, its kind, a built-in flag or an option — not on which of its parts are present. A presence test of N.F may
// guard the printing of F; when it guards the call that prints N itself (the node handed as an argument), the parts
// the test does not mention are lost with it (`extend type X implements Y` dropped because X has no fields).
func wholeNodeDrop(c *Ctx, r *RuleResult, side string) {
	p := c.P
	n := 0
	for _, fn := range p.FuncsIn("formatter") {
		allInstrs(fn, func(in ssa.Instruction) {
			ci, ok := in.(ssa.CallInstruction)
			if !ok {
				return
			}
			g := ci.Common().StaticCallee()
			if g == nil || p.PkgOf(g) == nil || !strings.HasSuffix(p.PkgOf(g).PkgPath, "/formatter") || !strings.HasPrefix(g.Name(), "Format") {
				return
			}
			for _, a := range ci.Common().Args {
				nt := namedOf(a.Type())
				if pt, ok := a.Type().(*types.Pointer); ok {
					nt = namedOf(pt.Elem())
				}
				if nt == nil || nt.Obj().Pkg() == nil || !strings.HasSuffix(nt.Obj().Pkg().Path(), "/ast") {
					continue
				}
				if _, isStruct := nt.Underlying().(*types.Struct); !isStruct {
					continue
				}
				inSchema, inQuery := false, false
				for _, sn := range schemaNodes {
					if sn == nt.Obj().Name() {
						inSchema = true
					}
				}
				for _, qn := range queryNodes {
					if qn == nt.Obj().Name() {
						inQuery = true
					}
				}
				if side == "schema" && !inSchema || side == "query" && !inQuery {
					continue
				}
				n++
				// can the call be skipped (next iteration of its loop, or return, reached around it) through a branch
				// that tests the node's parts?
				cb := in.Block()
				headers, bodies := loopsOf(fn)
				var inner *ssa.BasicBlock
				for _, h := range headers {
					if bodies[h][cb] && h != cb && (inner == nil || len(bodies[h]) < len(bodies[inner])) {
						inner = h
					}
				}
				var starts []*ssa.BasicBlock
				if inner != nil {
					for _, s := range inner.Succs {
						if bodies[inner][s] && s != inner {
							starts = append(starts, s)
						}
					}
				} else {
					starts = []*ssa.BasicBlock{fn.Blocks[0]}
				}
				for _, st := range starts {
					if st == cb {
						continue
					}
					rr := reachAvoiding(st, func(b *ssa.BasicBlock) bool { return b == cb }, nil)
					ends := false
					for b := range rr {
						if b == inner {
							ends = true
						}
						if _, isRet := b.Instrs[len(b.Instrs)-1].(*ssa.Return); isRet && inner == nil {
							ends = true
						}
					}
					if !ends {
						continue
					}
					for b := range rr {
						ifi, ok := b.Instrs[len(b.Instrs)-1].(*ssa.If)
						if !ok || (inner != nil && !bodies[inner][b]) {
							continue
						}
						// the branch must be able to lead to the call as well (it decides)
						toCall := false
						for _, s := range b.Succs {
							if s == cb || reachAvoiding(s, nil, nil)[cb] {
								toCall = true
							}
						}
						if !toCall {
							continue
						}
						if what := partsTest(p, ifi.Cond, a, 0); what != "" {
							r.Fail(in.Pos(), p.FuncName(fn), "a whole "+nt.Obj().Name()+" is printed only if "+what, "the call that prints the node can be bypassed through a test of which of the node's parts are present: a node whose tested parts are empty is dropped together with the parts the test does not mention")
							return
						}
					}
				}
			}
		})
	}
	r.Instances += n
	r.Discharged += n
	r.Samples = append(r.Samples, fmt.Sprintf("%d calls that print a whole node: none is guarded by a test of the node's own parts", n))
}

// partsTest: cond tests the presence of a field of node (directly, or through a helper predicate handed the node).
func partsTest(p *Program, cond ssa.Value, node ssa.Value, depth int) string {
	cd := normCond(Cond{V: cond, True: true})
	sameNode := func(v ssa.Value) bool {
		return stripChange(v) == stripChange(node) || accessPath(v) == accessPath(node)
	}
	switch x := cd.V.(type) {
	case *ssa.BinOp:
		for _, o := range []ssa.Value{x.X, x.Y} {
			o = stripChange(o)
			if call, ok := o.(*ssa.Call); ok {
				if b, isB := call.Call.Value.(*ssa.Builtin); isB && b.Name() == "len" {
					o = stripChange(call.Call.Args[0])
				}
			}
			if u, ok := o.(*ssa.UnOp); ok {
				if fa, ok := u.X.(*ssa.FieldAddr); ok && sameNode(fa.X) {
					nm, f, _, _ := fieldOf(fa)
					if f == "Kind" || f == "BuiltIn" || f == "Name" {
						continue
					}
					if nm != nil {
						return "its " + f + " is present"
					}
				}
			}
		}
	case *ssa.Call:
		g := x.Call.StaticCallee()
		if g == nil || !p.inModule(g) || len(g.Blocks) == 0 || depth > 1 {
			return ""
		}
		for i, a := range x.Call.Args {
			if !sameNode(a) || i >= len(g.Params) {
				continue
			}
			prm := g.Params[i]
			found := ""
			allInstrs(g, func(in ssa.Instruction) {
				if found != "" {
					return
				}
				if bo, ok := in.(*ssa.BinOp); ok {
					if w := partsTest(p, bo, prm, depth+1); w != "" {
						found = w
					}
				}
			})
			if found != "" {
				return p.FuncName(g) + "() says so (" + found + ")"
			}
		}
	case *ssa.Phi:
		for _, e := range x.Edges {
			if w := partsTest(p, e, node, depth+1); w != "" && depth < 3 {
				return w
			}
		}
	}
	return ""
}

// countingHeader: b is the header of `for i := k; i < len(X); i++` — its If compares a phi of b that steps by one with
// len of something.
func countingHeader(b *ssa.BasicBlock) bool {
	return countingVar(b) != nil
}

func countingVar(b *ssa.BasicBlock) *ssa.Phi {
	if len(b.Instrs) == 0 {
		return nil
	}
	ifi, ok := b.Instrs[len(b.Instrs)-1].(*ssa.If)
	if !ok {
		return nil
	}
	bo, ok := ifi.Cond.(*ssa.BinOp)
	if !ok || bo.Op != token.LSS {
		return nil
	}
	ph, ok := stripChange(bo.X).(*ssa.Phi)
	if !ok || ph.Block() != b {
		return nil
	}
	if lc, ok := stripChange(bo.Y).(*ssa.Call); ok {
		if bi, isB := lc.Call.Value.(*ssa.Builtin); !isB || bi.Name() != "len" {
			return nil
		}
	} else {
		return nil
	}
	// steps by one on the back edges
	okStep := false
	for _, e := range ph.Edges {
		if add, ok := stripChange(e).(*ssa.BinOp); ok && add.Op == token.ADD && stripChange(add.X) == ssa.Value(ph) {
			if k, okK := constNum(add.Y); okK && k == 1 {
				okStep = true
			}
		}
	}
	if !okStep {
		return nil
	}
	return ph
}

func countingBound(b *ssa.BasicBlock) ssa.Value {
	ifi := b.Instrs[len(b.Instrs)-1].(*ssa.If)
	bo := ifi.Cond.(*ssa.BinOp)
	return stripChange(bo.Y).(*ssa.Call).Call.Args[0]
}

// leadingCommentRule (C12.R6 / C13.R8): the parser attaches a comment group to the node whose first token follows it
// (fields Comment and BeforeDescriptionComment of every node below the documents). A printer that writes the group after
// any of the node's own text hands it to the *next* node when the output is parsed again. So in every formatter function
// the call that prints X.Comment / X.BeforeDescriptionComment is not preceded, on any path from the function's entry (or
// from the start of the iteration, inside a loop), by a call that writes text.
func leadingCommentRule(c *Ctx, r *RuleResult) {
	p := c.P
	fcg := p.Func("formatter.(*formatter).FormatCommentGroup")
	if fcg == nil {
		r.AnchorLost("formatter.(*formatter).FormatCommentGroup")
		return
	}
	fns := p.FuncsIn("formatter")
	// emits: functions that (transitively) write to the output
	emits := map[*ssa.Function]bool{}
	for _, fn := range fns {
		allInstrs(fn, func(in ssa.Instruction) {
			if ci, ok := in.(ssa.CallInstruction); ok && ci.Common().IsInvoke() && ci.Common().Method.Name() == "Write" {
				if _, f, ok := fieldLoadOf(ci.Common().Value); ok && f == "writer" {
					emits[fn] = true
				}
			}
		})
	}
	for changed := true; changed; {
		changed = false
		for _, fn := range fns {
			if emits[fn] {
				continue
			}
			allInstrs(fn, func(in ssa.Instruction) {
				if ci, ok := in.(ssa.CallInstruction); ok {
					if g := ci.Common().StaticCallee(); g != nil && emits[g] && !emits[fn] {
						emits[fn] = true
						changed = true
					}
				}
			})
		}
	}
	if !emits[fcg] {
		r.AnchorLost("the write primitive under FormatCommentGroup")
		return
	}
	n := 0
	for _, fn := range fns {
		for _, ci := range callsTo([]*ssa.Function{fn}, fcg) {
			args := ci.Common().Args
			arg := args[len(args)-1]
			st, fld, ok := fieldLoadOf(arg)
			if !ok || (fld != "Comment" && fld != "BeforeDescriptionComment") {
				continue
			}
			switch st {
			case "QueryDocument", "SchemaDocument", "Schema":
				continue // a document's own comment group is what follows its last definition
			}
			n++
			cb := ci.Block()
			// the region: the function, or the innermost loop body around the call with its back edges cut
			headers, bodies := loopsOf(fn)
			var inner *ssa.BasicBlock
			for _, h := range headers {
				if bodies[h][cb] && (inner == nil || len(bodies[h]) < len(bodies[inner])) {
					inner = h
				}
			}
			var bad ssa.Instruction
			for _, b := range fn.Blocks {
				if inner != nil && !bodies[inner][b] {
					continue
				}
				for _, in := range b.Instrs {
					e, isCall := in.(ssa.CallInstruction)
					if !isCall || in == ci.(ssa.Instruction) {
						continue
					}
					g := e.Common().StaticCallee()
					if g == nil || !emits[g] || g == fcg {
						continue
					}
					// can e run before ci in the same iteration?
					before := false
					if b == cb {
						before = instrIndex(in) < instrIndex(ci.(ssa.Instruction))
					} else {
						reach := reachAvoiding(b, nil, func(from, to *ssa.BasicBlock) bool {
							return to.Dominates(from) // no back edges
						})
						before = reach[cb] && b != cb
					}
					if before && bad == nil {
						bad = in
					}
				}
			}
			site := fmt.Sprintf("%s: FormatCommentGroup(%s.%s)", p.FuncName(fn), st, fld)
			if bad != nil {
				r.Fail(ci.Pos(), p.FuncName(fn), "leading comment of "+st+" written after text ("+fld+")", fmt.Sprintf("the call at %s can write text before the node's %s is printed: parsed again, the comment belongs to whatever token follows it, so the tree (and a second formatting) differs", p.Pos(bad.Pos()), fld))
			} else {
				r.OK(site, "no text is written before it in the function / iteration")
			}
		}
	}
	if n == 0 {
		r.AnchorLost("calls FormatCommentGroup(X.Comment)")
	}
}

// primitivesWriteTheirArgument (C12.R7 / C13.R9): a formatter function that takes a string and hands it (or something
// computed from it) to a writing function does so on every path — the hand-over can be bypassed only along edges taken
// because the string is empty or because of an option of the formatter (a bool field no method stores to). Layout state
// (lineHead, padNext) decides what is written around the text, never whether the text itself is written.
func primitivesWriteTheirArgument(c *Ctx, r *RuleResult) {
	p := c.P
	fmtT := p.LookupType("formatter", "formatter")
	if fmtT == nil {
		r.AnchorLost("formatter.formatter")
		return
	}
	fns := p.FuncsIn("formatter")
	emits := map[*ssa.Function]bool{}
	for _, fn := range fns {
		allInstrs(fn, func(in ssa.Instruction) {
			if ci, ok := in.(ssa.CallInstruction); ok && ci.Common().IsInvoke() && ci.Common().Method.Name() == "Write" {
				if _, f, ok := fieldLoadOf(ci.Common().Value); ok && f == "writer" {
					emits[fn] = true
				}
			}
		})
	}
	for changed := true; changed; {
		changed = false
		for _, fn := range fns {
			if emits[fn] {
				continue
			}
			allInstrs(fn, func(in ssa.Instruction) {
				if ci, ok := in.(ssa.CallInstruction); ok {
					if g := ci.Common().StaticCallee(); g != nil && emits[g] && !emits[fn] {
						emits[fn] = true
						changed = true
					}
				}
			})
		}
	}
	// layout state: bool fields of the formatter that some method stores to
	stateField := map[string]bool{}
	for _, fn := range fns {
		if fn.Signature.Recv() == nil {
			continue // options and the constructor configure the formatter before anything is written
		}
		allInstrs(fn, func(in ssa.Instruction) {
			if st, ok := in.(*ssa.Store); ok {
				if fa, ok := st.Addr.(*ssa.FieldAddr); ok {
					if n, f, _, _ := fieldOf(fa); n != nil && sameNamed(n, fmtT) && fn.Parent() == nil {
						stateField[f] = true
					}
				}
			}
		})
	}
	n := 0
	for _, fn := range fns {
		if fn.Signature.Recv() == nil || fn.Parent() != nil || !emits[fn] {
			continue
		}
		for _, prm := range fn.Params[1:] {
			if !isStringType(prm.Type()) {
				continue
			}
			var handovers []ssa.CallInstruction
			allInstrs(fn, func(in ssa.Instruction) {
				ci, ok := in.(ssa.CallInstruction)
				if !ok {
					return
				}
				g := ci.Common().StaticCallee()
				writes := g != nil && emits[g]
				if ci.Common().IsInvoke() && ci.Common().Method.Name() == "Write" {
					writes = true
				}
				if !writes {
					return
				}
				for _, a := range ci.Common().Args {
					if derivesFromAny(a, prm, 8) {
						handovers = append(handovers, ci)
						return
					}
				}
			})
			if len(handovers) == 0 {
				continue
			}
			exempt := func(from, to *ssa.BasicBlock) bool {
				ifi, ok := from.Instrs[len(from.Instrs)-1].(*ssa.If)
				if !ok || len(from.Succs) != 2 || from.Succs[0] == from.Succs[1] {
					return false
				}
				cd := normCond(Cond{V: ifi.Cond, True: to == from.Succs[0]})
				// the string is empty
				if bo, ok := cd.V.(*ssa.BinOp); ok {
					x, y := bo.X, bo.Y
					if s, isC := constString(y); isC && s == "" && x == ssa.Value(prm) {
						return (bo.Op == token.EQL) == cd.True
					}
					if call, isCall := x.(*ssa.Call); isCall {
						if b, isB := call.Call.Value.(*ssa.Builtin); isB && b.Name() == "len" && call.Call.Args[0] == ssa.Value(prm) {
							if k, isK := constInt(y); isK && k == 0 {
								return (bo.Op == token.EQL) == cd.True
							}
						}
					}
					return false
				}
				// an option of the formatter
				if _, f, ok := fieldLoadOf(cd.V); ok && !stateField[f] {
					if u, isU := unspill(stripChange(cd.V)).(*ssa.UnOp); isU {
						if fa, isFA := u.X.(*ssa.FieldAddr); isFA {
							if nn, _, _, _ := fieldOf(fa); nn != nil && sameNamed(nn, fmtT) {
								return true
							}
						}
					}
				}
				return false
			}
			// the text is handed over on every path: with all hand-over blocks removed, no return (or next iteration) is reachable
			n++
			okAll := true
			for _, h := range handovers {
				others := map[*ssa.BasicBlock]bool{}
				for _, o := range handovers {
					if o != h {
						others[o.Block()] = true
					}
				}
				if canSkip(h, func(from, to *ssa.BasicBlock) bool { return exempt(from, to) || others[to] }) {
					okAll = false
					r.Fail(h.Pos(), p.FuncName(fn), "the text handed to "+fn.Name()+" may not be written ("+prm.Name()+")", fmt.Sprintf("a path through %s returns without passing %s on to the writer, under a condition other than the string being empty or an option of the formatter: text the caller asked for silently disappears from the output (a whitespace-only description line, an empty-looking value), so what is parsed back differs", p.FuncName(fn), prm.Name()))
					break
				}
			}
			if okAll {
				r.OK(fmt.Sprintf("%s(%s): %d hand-over(s) to the writer", p.FuncName(fn), prm.Name(), len(handovers)), "not bypassable except on an empty string or an option")
			}
		}
	}
	if n == 0 {
		r.AnchorLost("formatter methods that take a string and write it")
	}
}
