package main

import (
	"fmt"
	"go/token"
	"go/types"
	"regexp"
	"sort"
	"strings"

	"golang.org/x/tools/go/ssa"
)

func init() {
	register("C12", "Query formatting: (R1) every syntactic field the parser writes on an executable node (operations, variable definitions, fields, spreads, inline fragments, fragment definitions, arguments, directives, values, types) is read by the formatter's code (positions, comments and validation links excepted); (R2) string values are written only through a quoting function whose escape alphabet is a subset of what the lexer decodes — the Go-syntax strconv.Quote family (\\a \\v \\x \\U) is not, and raw or block-string emission of a value is not escape-complete; (R3) every branch of the formatter that decides whether a parsed piece is printed tests only presence (nil / empty), formatter options, built-in flags, the node's own kind, or loop bounds — a test on the content of a child (its kind, its name) drops or changes pieces of some documents; (R4) FormatSelection and Value.String are exhaustive over their kinds. (R6) a leading comment group is printed before any of the node's text; (R7) a write primitive hands the text it is given to the writer on every path (empty string and options excepted). (R2 also) the lexer's hex decoder accepts exactly the hexadecimal digits with their weights.", runC12)
	register("C13", "Schema formatting: (R1) every syntactic field the parser writes on a type-system node, and every field ValidateSchemaDocument writes on ast.Schema, is read by the formatter (positions, comments, BuiltIn and derived relations excepted); (R2) the shared string writer of C12.R2 (default values, directive arguments); (R3) the text written between block-string delimiters passes a replacement of the delimiter by its escape; (R4) the guard discipline of C12.R3 over the schema printers (suppression only by BuiltIn flags, the introspection prefix, presence, options); (R5) the loader's inference of default roots is guarded by exactly 'no schema definition, root unset, type exists', the reader half of FormatSchema omitting the schema block; (R7) the writer half: FormatSchema's root writes are guarded only by the root being set and by conditions common to all three. (R8) leading comment groups first; (R9) write primitives write the text they are given. (R1 also) kind coverage: a Definition field the parser stores under kind K has a formatter read feasible under K. (R2 also) the hex decoder clause.", runC13)
}

// fieldReads: (struct, field) pairs read in the given functions.
func fieldReads(fns map[*ssa.Function]bool) map[annot]bool {
	reads := map[annot]bool{}
	for fn := range fns {
		allInstrs(fn, func(in ssa.Instruction) {
			switch x := in.(type) {
			case *ssa.FieldAddr:
				n, f, _, _ := fieldOf(x)
				if n == nil {
					return
				}
				rd := false
				for _, ref := range *x.Referrers() {
					if s, ok := ref.(*ssa.Store); ok && s.Addr == ssa.Value(x) {
						continue
					}
					rd = true
				}
				if rd {
					reads[annot{n.Obj().Name(), f}] = true
				}
			case *ssa.Field:
				n, f, _, _ := fieldOf(x)
				if n != nil {
					reads[annot{n.Obj().Name(), f}] = true
				}
			}
		})
	}
	return reads
}

func formatterScope(p *Program) map[*ssa.Function]bool {
	var roots []*ssa.Function
	roots = append(roots, p.FuncsIn("formatter")...)
	scope := p.reachableFrom(roots, nil)
	out := map[*ssa.Function]bool{}
	for f := range scope {
		if p.inModule(f) {
			out[f] = true
		}
	}
	return out
}

var queryNodes = []string{"QueryDocument", "OperationDefinition", "VariableDefinition", "Field", "FragmentSpread", "InlineFragment", "FragmentDefinition", "Argument", "Directive", "Value", "ChildValue", "Type"}
var schemaNodes = []string{"SchemaDocument", "SchemaDefinition", "OperationTypeDefinition", "Definition", "FieldDefinition", "ArgumentDefinition", "EnumValueDefinition", "DirectiveDefinition", "Directive", "Argument", "Value", "ChildValue", "Type"}

func isExemptField(f string) (string, bool) {
	switch {
	case f == "Position":
		return "position (not syntax)", true
	case f == "BuiltIn":
		return "built-in flag (suppression only)", true
	case strings.HasSuffix(f, "Comment"):
		return "comment (printed only with WithComments; not part of the property)", true
	}
	return "", false
}

func fieldCoverage(c *Ctx, r *RuleResult, nodes []string, writers []*ssa.Function, writerName string) {
	p := c.P
	reads := fieldReads(formatterScope(p))
	written := map[annot]fieldStoreSite{}
	for _, fn := range writers {
		allInstrs(fn, func(in ssa.Instruction) {
			s, ok := in.(*ssa.Store)
			if !ok {
				return
			}
			fa, ok := s.Addr.(*ssa.FieldAddr)
			if !ok {
				return
			}
			n, f, _, _ := fieldOf(fa)
			if n == nil || n.Obj().Pkg() == nil || !strings.HasSuffix(n.Obj().Pkg().Path(), "/ast") {
				return
			}
			a := annot{n.Obj().Name(), f}
			if _, ok := written[a]; !ok {
				written[a] = fieldStoreSite{fn, s, fa}
			}
		})
	}
	want := map[string]bool{}
	for _, n := range nodes {
		want[n] = true
	}
	var keys []annot
	for a := range written {
		keys = append(keys, a)
	}
	sort.Slice(keys, func(i, j int) bool { return keys[i].st+keys[i].fld < keys[j].st+keys[j].fld })
	for _, a := range keys {
		if !want[a.st] {
			continue
		}
		if why, ok := isExemptField(a.fld); ok {
			r.OK(a.st+"."+a.fld+" exempt", why)
			continue
		}
		if reads[a] {
			r.OK(a.st+"."+a.fld+" written by "+writerName+", read by the formatter", "")
		} else {
			s := written[a]
			r.Fail(s.store.Pos(), p.FuncName(s.fn), a.st+"."+a.fld+" is never printed", fmt.Sprintf("%s stores %s.%s but no formatter code reads it: that part of a document disappears when it is formatted", writerName, a.st, a.fld))
		}
	}
}

// ---------------------------------------------------------------------------
// guard discipline

var (
	reFieldRef  = regexp.MustCompile(`[A-Z]\w*\.[A-Z]\w*`)
	rePresence  = regexp.MustCompile(`^(len\()?([A-Za-z]\w*\.\w+->)*[A-Z]\w*\.\w+\)? (!=|==|>) (nil|0|"")$`)
	reOwnKind   = regexp.MustCompile(`^[A-Z]\w*\.Kind (==|!=) `)
	reBuiltIn   = regexp.MustCompile(`^!?([A-Z]\w*\.\w+->)*[A-Z]\w*\.BuiltIn$`)
	reSameNode  = regexp.MustCompile(`^([A-Z]\w*)\.\w+ (!=|==) ([A-Z]\w*)\.\w+$`)
	reRootName  = regexp.MustCompile(`^Schema\.(Query|Mutation|Subscription)->Definition\.Name (!=|==) "(Query|Mutation|Subscription)"$`)
	reFlag      = regexp.MustCompile(`^!?formatter\.\w+$`)
	reIndexLast = regexp.MustCompile(`^\? (!=|==) `)
	reOwnBool   = regexp.MustCompile(`^!?[A-Z]\w*\.[A-Z]\w*$`)
)

// formatterGuard classifies one branch condition of the formatter.
func formatterGuard(c *Ctx, cd Cond, depth int) (ok bool, desc string) {
	if structuralGuard(cd) {
		return true, "loop bound / type switch"
	}
	d := guardDesc(Cond{V: cd.V, True: true})
	switch {
	case reFlag.MatchString(d):
		return true, d
	case rePresence.MatchString(d):
		return true, d
	case reBuiltIn.MatchString(d):
		return true, d
	case reRootName.MatchString(d):
		m := reRootName.FindStringSubmatch(d)
		if m[1] == m[3] {
			return true, d
		}
		return false, d
	case reOwnKind.MatchString(d):
		return true, d
	case reOwnBool.MatchString(d):
		return true, d + " (the node's own flag)"
	case reSameNode.MatchString(d):
		m := reSameNode.FindStringSubmatch(d)
		if m[1] == m[3] {
			return true, d
		}
	}
	// a lookup in a read-only table keyed by the node's own kind (a kind switch written as a table)
	if tab, idx, isOK, _ := tableLookup(c.P, cd.V); tab != nil && isOK {
		if _, f, ok := fieldLoadOf(stripChange(idx)); ok && f == "Kind" {
			return true, "own kind, through the read-only table " + tab.g.Name()
		}
	}
	// calls
	if call, ok := cd.V.(*ssa.Call); ok {
		name := calleeName(call)
		if name == "strings.HasPrefix" && len(call.Call.Args) == 2 {
			if s, ok := constString(call.Call.Args[1]); ok && s == "__" {
				if _, f, ok := fieldLoadOf(call.Call.Args[0]); ok && f == "Name" {
					return true, `introspection prefix "__"`
				}
			}
		}
		// slices.ContainsFunc / IndexFunc / strings.IndexFunc with a predicate of the module: the predicate is the test
		if (strings.HasPrefix(name, "slices.ContainsFunc") || strings.HasPrefix(name, "slices.IndexFunc")) && len(call.Call.Args) == 2 && depth < 3 {
			var pred *ssa.Function
			switch x := call.Call.Args[1].(type) {
			case *ssa.Function:
				pred = x
			case *ssa.MakeClosure:
				pred, _ = x.Fn.(*ssa.Function)
			}
			if pred != nil && len(pred.Blocks) > 0 {
				for _, b := range pred.Blocks {
					if ifi, ok := b.Instrs[len(b.Instrs)-1].(*ssa.If); ok {
						if ok2, d2 := formatterGuard(c, normCond(Cond{V: ifi.Cond, True: true}), depth+1); !ok2 {
							return false, name + "(predicate): " + d2
						}
					}
				}
				for _, ret := range returnsOf(pred) {
					for _, rv := range ret.Results {
						if _, isC := rv.(*ssa.Const); isC {
							continue
						}
						if _, isPhi := rv.(*ssa.Phi); isPhi {
							continue
						}
						if ok2, d2 := formatterGuard(c, normCond(Cond{V: rv, True: true}), depth+1); !ok2 {
							return false, name + "(predicate) returns " + d2
						}
					}
				}
				return true, name + "() over a presence/flag predicate"
			}
		}
		if g := call.Call.StaticCallee(); g != nil && c.P.inModule(g) && len(g.Blocks) > 0 && depth < 3 {
			// a helper predicate: every branch inside it and every returned value must be allowed atoms
			for _, b := range g.Blocks {
				if ifi, ok := b.Instrs[len(b.Instrs)-1].(*ssa.If); ok {
					if ok2, d2 := formatterGuard(c, normCond(Cond{V: ifi.Cond, True: true}), depth+1); !ok2 {
						return false, c.P.FuncName(g) + "(): " + d2
					}
				}
			}
			for _, ret := range returnsOf(g) {
				for _, rv := range ret.Results {
					if _, isC := rv.(*ssa.Const); isC {
						continue
					}
					if _, isPhi := rv.(*ssa.Phi); isPhi {
						continue
					}
					if ok2, d2 := formatterGuard(c, normCond(Cond{V: rv, True: true}), depth+1); !ok2 {
						return false, c.P.FuncName(g) + "() returns " + d2
					}
				}
			}
			return true, c.P.FuncName(g) + "() (presence/flag predicate)"
		}
		return false, name + "()"
	}
	// conditions that mention no AST field are formatter-internal (options, indices, local state)
	if !reFieldRef.MatchString(strings.ReplaceAll(d, "formatter.", "formatter_")) {
		return true, "internal: " + d
	}
	return false, d
}

func guardDiscipline(c *Ctx, r *RuleResult, side string) {
	p := c.P
	for _, fn := range p.FuncsIn("formatter") {
		name := p.FuncName(fn)
		// split by side: query printers vs schema printers, by the node type of the first parameter after the receiver
		isSchema := false
		for _, prm := range fn.Params {
			if n := namedOf(prm.Type()); n != nil {
				switch n.Obj().Name() {
				case "Schema", "SchemaDocument", "SchemaDefinition", "SchemaDefinitionList", "OperationTypeDefinition", "OperationTypeDefinitionList", "Definition", "DefinitionList", "FieldDefinition", "FieldList", "ArgumentDefinition", "ArgumentDefinitionList", "EnumValueDefinition", "EnumValueList", "DirectiveDefinition", "DirectiveDefinitionList":
					isSchema = true
				}
			}
		}
		if r0 := rootFunc(fn); r0 != fn {
			for _, prm := range r0.Params {
				if n := namedOf(prm.Type()); n != nil && n.Obj().Name() == "Schema" {
					isSchema = true
				}
			}
		}
		// a method of a helper object that holds the schema being printed
		if recv := fn.Signature.Recv(); recv != nil {
			if n := namedOf(derefType(recv.Type())); n != nil {
				if st, ok := n.Underlying().(*types.Struct); ok {
					for i := 0; i < st.NumFields(); i++ {
						if fn2 := namedOf(derefType(st.Field(i).Type())); fn2 != nil && (fn2.Obj().Name() == "Schema" || fn2.Obj().Name() == "SchemaDocument") {
							isSchema = true
						}
					}
				}
			}
		}
		if (side == "schema") != isSchema {
			continue
		}
		n := 0
		bad := false
		for _, b := range fn.Blocks {
			ifi, ok := b.Instrs[len(b.Instrs)-1].(*ssa.If)
			if !ok {
				continue
			}
			n++
			if ok, d := formatterGuard(c, normCond(Cond{V: ifi.Cond, True: true}), 0); !ok {
				bad = true
				r.Fail(ifi.Pos(), name, "branch on "+d, fmt.Sprintf("the formatter decides what to print by testing %s — the content of a child, not its presence, an option or a built-in flag: some documents lose or change that piece when formatted", d))
			}
		}
		if !bad {
			r.OK(fmt.Sprintf("%s: %d branch(es)", name, n), "presence / option / built-in / own-kind / loop tests only")
		}
	}
}

// ---------------------------------------------------------------------------
// string writers

var goQuoters = map[string]bool{
	"strconv.Quote": true, "strconv.AppendQuote": true, "strconv.QuoteToASCII": true, "strconv.AppendQuoteToASCII": true,
	"strconv.QuoteToGraphic": true, "strconv.AppendQuoteToGraphic": true,
}

// graphqlEscapes: the escapes the lexer decodes (C03.R4/R5): \" \\ \/ \b \f \n \r \t \uXXXX.
var graphqlEscapes = map[string]bool{`\"`: true, `\\`: true, `\/`: true, `\b`: true, `\f`: true, `\n`: true, `\r`: true, `\t`: true, `\u`: true}

// writerAlphabet extracts the escape sequences an in-repo quoting function can emit: string constants
// beginning with a backslash (and byte constants following an emitted backslash are not modelled: undecided).
func writerAlphabet(p *Program, fn *ssa.Function) (escapes []string, goQuote string, verbs []string) {
	set := map[string]bool{}
	for f := range p.reachableFrom([]*ssa.Function{fn}, nil) {
		if !p.inModule(f) {
			continue // only what the module itself writes; fmt's own use of strconv for %q is irrelevant unless %q is used
		}
		allInstrs(f, func(in ssa.Instruction) {
			if ci, ok := in.(ssa.CallInstruction); ok {
				nm := calleeName(ci)
				if goQuoters[nm] {
					goQuote = nm
				}
			}
			for _, op := range in.Operands(nil) {
				if op == nil || *op == nil {
					continue
				}
				// escapes kept in a read-only table
				if tab, _, isOK, field := tableLookup(p, *op); tab != nil && !isOK && field == "" {
					for _, e := range tab.entries {
						if s, ok := constString(e.val); ok && strings.HasPrefix(s, `\`) && len(s) >= 2 {
							set[s[:2]] = true
						}
					}
				}
				if s, ok := constString(*op); ok && strings.HasPrefix(s, `\`) && len(s) >= 2 {
					e := s[:2]
					set[e] = true
					if e == `\u` {
						verbs = append(verbs, s)
					}
				}
				if strings.Contains(fmt.Sprint(*op), "%q") {
					if s, ok := constString(*op); ok && strings.Contains(s, "%q") {
						goQuote = "fmt %q"
					}
				}
			}
		})
	}
	for e := range set {
		escapes = append(escapes, e)
	}
	sort.Strings(escapes)
	return
}

func stringWriterRule(c *Ctx, r *RuleResult) {
	p := c.P
	vs := p.Func("ast.(*Value).String")
	if vs == nil {
		r.AnchorLost("ast.(*Value).String")
		return
	}
	// the returns under Kind in {StringValue, BlockValue}
	kindConst := func(name string) int64 {
		o := p.Pkgs["ast"].Types.Scope().Lookup(name)
		if cst, ok := o.(*types.Const); ok {
			v, _ := constantInt(cst)
			return v
		}
		return -1
	}
	sv, bv := kindConst("StringValue"), kindConst("BlockValue")
	if sv < 0 || bv < 0 {
		r.AnchorLost("ast.StringValue / ast.BlockValue")
		return
	}
	found := 0
	for _, ret := range returnsOf(vs) {
		ks := valueKindsAt(ret.Block())
		isStr := false
		for _, k := range ks {
			if k == sv || k == bv {
				isStr = true
			}
		}
		if !isStr {
			continue
		}
		found++
		v := ret.Results[0]
		call, ok := v.(*ssa.Call)
		if !ok || len(call.Call.Args) == 0 || !loadOfField(call.Call.Args[len(call.Call.Args)-1], "Value", "Raw") && !loadOfField(call.Call.Args[0], "Value", "Raw") {
			r.Fail(ret.Pos(), p.FuncName(vs), fmt.Sprintf("string value (kinds %v) not written through a quoting function", ks), "a string or block-string value is emitted by something other than quote(v.Raw): raw text between delimiters is not escape-complete, and block-string syntax re-interprets indentation and blank lines, so the value does not survive byte for byte")
			continue
		}
		nm := calleeName(call)
		if goQuoters[nm] {
			r.Fail(ret.Pos(), p.FuncName(vs), "string values written with "+nm, "strconv.Quote emits Go escapes (\\a \\v \\x.. \\U........) that the GraphQL lexer does not decode: a value containing such characters formats into text that does not parse (e.g. \"\\u0007\" prints as \"\\a\")")
			continue
		}
		g := call.Call.StaticCallee()
		if g == nil || !p.inModule(g) {
			r.Undecided(ret.Pos(), p.FuncName(vs), "string writer "+nm, "the quoting function is neither in the module nor a known Go-syntax quoter")
			continue
		}
		esc, gq, verbs := writerAlphabet(p, g)
		if gq != "" {
			r.Fail(g.Pos(), p.FuncName(g), "quoting function uses "+gq, "the in-repo quoting function delegates to a Go-syntax quoter")
			continue
		}
		var bad []string
		for _, e := range esc {
			if !graphqlEscapes[e] {
				bad = append(bad, e)
			}
		}
		for _, vb := range verbs {
			if strings.Contains(vb, "%") && !strings.Contains(vb, "%04x") && !strings.Contains(vb, "%04X") {
				bad = append(bad, vb+" (not four hex digits)")
			}
		}
		need := []string{`\"`, `\\`}
		var missing []string
		for _, nd := range need {
			has := false
			for _, e := range esc {
				if e == nd {
					has = true
				}
			}
			if !has {
				missing = append(missing, nd)
			}
		}
		switch {
		case len(bad) > 0:
			r.Fail(g.Pos(), p.FuncName(g), "escapes outside the lexer's alphabet: "+strings.Join(bad, " "), "the quoting function can emit escapes the lexer does not decode")
		case len(missing) > 0:
			r.Fail(g.Pos(), p.FuncName(g), "quoting function never emits "+strings.Join(missing, " "), "a quote or backslash inside a value would not be escaped")
		default:
			r.OK("string values written by "+p.FuncName(g), "escape alphabet "+strings.Join(esc, " ")+" ⊆ lexer's")
			quoterAgreement(c, r, g)
		}
	}
	if found == 0 {
		r.AnchorLost("a return of Value.String under Kind == StringValue/BlockValue")
	}
}

func constantInt(c *types.Const) (int64, bool) {
	v := c.Val()
	if v == nil {
		return 0, false
	}
	i, ok := constInt(ssa.NewConst(v, c.Type()))
	return i, ok
}

// valueKindsAt: ValueKind constants k such that b lies in the branch taken when <load Value.Kind> == k.
func valueKindsAt(b *ssa.BasicBlock) []int64 {
	fn := b.Parent()
	set := map[int64]bool{}
	for _, blk := range fn.Blocks {
		ifi, ok := blk.Instrs[len(blk.Instrs)-1].(*ssa.If)
		if !ok {
			continue
		}
		bo, ok := ifi.Cond.(*ssa.BinOp)
		if !ok || bo.Op != token.EQL {
			continue
		}
		var k int64
		if loadOfField(bo.X, "Value", "Kind") {
			k, ok = constInt(bo.Y)
		} else {
			continue
		}
		if !ok {
			continue
		}
		d := blk.Succs[0]
		if d.Dominates(b) && d != blk {
			set[k] = true
		}
	}
	var out []int64
	for k := range set {
		out = append(out, k)
	}
	sort.Slice(out, func(i, j int) bool { return out[i] < out[j] })
	return out
}

// exhaustiveness of switches with panicking defaults (§3.5), for the given functions
func exhaustiveSwitches(c *Ctx, r *RuleResult, fns []*ssa.Function) {
	p := c.P
	for _, fn := range fns {
		// type switches over an interface whose default panics
		asserted := map[string]bool{}
		var iface *types.Named
		hasPanic := false
		allInstrs(fn, func(in ssa.Instruction) {
			switch x := in.(type) {
			case *ssa.TypeAssert:
				if x.CommaOk {
					if n := namedOf(x.AssertedType); n != nil {
						asserted[n.Obj().Name()] = true
					}
					if n := namedOf(x.X.Type()); n != nil {
						if _, ok := n.Underlying().(*types.Interface); ok {
							iface = n
						}
					}
				}
			case *ssa.Panic:
				hasPanic = true
			}
		})
		if iface != nil && hasPanic && len(asserted) > 0 {
			// all implementers in package ast
			it := iface.Underlying().(*types.Interface)
			scope := iface.Obj().Pkg().Scope()
			var missing []string
			n := 0
			for _, nm := range scope.Names() {
				tn, ok := scope.Lookup(nm).(*types.TypeName)
				if !ok || tn.IsAlias() {
					continue
				}
				named, ok := tn.Type().(*types.Named)
				if !ok || named == iface {
					continue
				}
				if _, isI := named.Underlying().(*types.Interface); isI {
					continue
				}
				if types.Implements(named, it) || types.Implements(types.NewPointer(named), it) {
					n++
					if !asserted[nm] {
						missing = append(missing, nm)
					}
				}
			}
			if len(missing) > 0 {
				r.Fail(fn.Pos(), p.FuncName(fn), "type switch over "+iface.Obj().Name()+" misses "+strings.Join(missing, ","), "a value of that kind reaches the panicking default")
			} else {
				r.OK(fmt.Sprintf("%s: type switch covers all %d implementers of %s", p.FuncName(fn), n, iface.Obj().Name()), "")
			}
		}
	}
}

func runC12(c *Ctx) {
	p := c.P
	r1 := c.Rule("R1", "nothing the query parser stores is left unprinted", 25)
	var writers []*ssa.Function
	for _, fn := range p.FuncsIn("parser") {
		writers = append(writers, fn)
	}
	if len(writers) == 0 || p.Func("formatter.(*formatter).FormatQueryDocument") == nil {
		r1.AnchorLost("package parser / formatter.FormatQueryDocument")
		return
	}
	fieldCoverage(c, r1, queryNodes, writers, "the parser")

	r2 := c.Rule("R2", "string values are written with an escape alphabet the lexer decodes", 1)
	stringWriterRule(c, r2)
	lexerAcceptsHighCharacters(c, r2)
	// the \\uXXXX escapes the quoting function writes are read back by the lexer's hex decoder (C03.R5)
	if unhex := c.P.Func("lexer.unhex"); unhex != nil {
		c03Unhex(c, r2, unhex)
	}

	r3 := c.Rule("R3", "print decisions test presence, options or built-in flags only (query printers)", 10)
	guardDiscipline(c, r3, "query")
	wholeNodeDrop(c, r3, "query")
	// Value.String / Type.String are printers too
	for _, name := range []string{"ast.(*Value).String", "ast.(*Type).String"} {
		fn := p.Func(name)
		if fn == nil {
			r3.AnchorLost(name)
			continue
		}
		bad := false
		for _, b := range fn.Blocks {
			ifi, ok := b.Instrs[len(b.Instrs)-1].(*ssa.If)
			if !ok {
				continue
			}
			if ok, d := formatterGuard(c, normCond(Cond{V: ifi.Cond, True: true}), 0); !ok {
				// the receiver's own fields are its content: Value.Kind switch, Type.NonNull, Type.NamedType != ""
				if strings.HasPrefix(d, "Value.") || strings.HasPrefix(d, "Type.") || d == "param == nil" {
					continue
				}
				bad = true
				r3.Fail(ifi.Pos(), name, "branch on "+d, "the printer branches on the content of a child")
			}
		}
		if !bad {
			r3.OK(name+": branches on the node's own kind/flags only", "")
		}
	}

	r4 := c.Rule("R4", "selection and value printers are exhaustive", 1)
	var fns []*ssa.Function
	if f := p.Func("formatter.(*formatter).FormatSelection"); f != nil {
		fns = append(fns, f)
	} else {
		r4.AnchorLost("formatter.FormatSelection")
	}
	exhaustiveSwitches(c, r4, fns)
	valueKindExhaustive(c, r4, p.Func("ast.(*Value).String"))

	r5 := c.Rule("R5", "the query printers never write two name-like tokens without a separator", 40)
	tokenSeparationRule(c, r5, []string{"FormatQueryDocument"})

	r6 := c.Rule("R6", "a node's leading comment group is written before any of the node's text", 8)
	leadingCommentRule(c, r6)

	r7 := c.Rule("R7", "a write primitive writes the text it is given on every path", 3)
	primitivesWriteTheirArgument(c, r7)
}

// valueKindExhaustive: the kind switch of fn has a case for every declared ValueKind constant.
func valueKindExhaustive(c *Ctx, r *RuleResult, fn *ssa.Function) {
	p := c.P
	if fn == nil {
		return
	}
	have := map[int64]bool{}
	allInstrs(fn, func(in ssa.Instruction) {
		bo, ok := in.(*ssa.BinOp)
		if !ok || bo.Op != token.EQL {
			return
		}
		if loadOfField(bo.X, "Value", "Kind") {
			if k, ok := constInt(bo.Y); ok {
				have[k] = true
			}
		}
	})
	scope := p.Pkgs["ast"].Types.Scope()
	var missing []string
	n := 0
	for _, nm := range scope.Names() {
		cst, ok := scope.Lookup(nm).(*types.Const)
		if !ok {
			continue
		}
		if tn := namedOf(cst.Type()); tn == nil || tn.Obj().Name() != "ValueKind" {
			continue
		}
		n++
		k, _ := constantInt(cst)
		if !have[k] {
			missing = append(missing, nm)
		}
	}
	if len(missing) > 0 {
		r.Fail(fn.Pos(), p.FuncName(fn), "kind switch misses "+strings.Join(missing, ","), "a value of that kind reaches the panicking default")
	} else {
		r.OK(fmt.Sprintf("%s: kind switch covers all %d ValueKind constants", p.FuncName(fn), n), "")
	}
}

func runC13(c *Ctx) {
	p := c.P
	r1 := c.Rule("R1", "nothing the schema parser / loader stores is left unprinted", 40)
	var writers []*ssa.Function
	writers = append(writers, p.FuncsIn("parser")...)
	if len(writers) == 0 || p.Func("formatter.(*formatter).FormatSchemaDocument") == nil || p.Func("formatter.(*formatter).FormatSchema") == nil {
		r1.AnchorLost("package parser / formatter.FormatSchemaDocument / FormatSchema")
		return
	}
	fieldCoverage(c, r1, schemaNodes, writers, "the parser")
	kindCoverage(c, r1)
	// ast.Schema fields written by the loader must be read by FormatSchema (and what it calls)
	fs := p.Func("formatter.(*formatter).FormatSchema")
	scope := map[*ssa.Function]bool{}
	for f := range p.reachableFrom([]*ssa.Function{fs}, nil) {
		if p.inModule(f) {
			scope[f] = true
		}
	}
	reads := fieldReads(scope)
	vsd := p.Func("validator.ValidateSchemaDocument")
	if vsd == nil {
		r1.AnchorLost("validator.ValidateSchemaDocument")
	} else {
		schemaT := p.LookupType("ast", "Schema")
		st := schemaT.Underlying().(*types.Struct)
		for i := 0; i < st.NumFields(); i++ {
			f := st.Field(i).Name()
			sts := storesToField([]*ssa.Function{vsd}, schemaT, f)
			if len(sts) == 0 {
				continue
			}
			switch f {
			case "PossibleTypes", "Implements":
				r1.OK("Schema."+f+" exempt", "derived relation, rebuilt by loading")
				continue
			case "Comment":
				r1.OK("Schema.Comment exempt", "comment")
				continue
			}
			if reads[annot{"Schema", f}] {
				r1.OK("Schema."+f+" written by the loader, read by FormatSchema", "")
			} else {
				r1.Fail(sts[0].store.Pos(), p.FuncName(vsd), "Schema."+f+" is never printed by FormatSchema", "the loader stores Schema."+f+" but FormatSchema never reads it: formatting a loaded schema and loading the text loses it")
			}
		}
	}

	r2 := c.Rule("R2", "default values and directive arguments use the escape-safe string writer", 1)
	stringWriterRule(c, r2)
	lexerAcceptsHighCharacters(c, r2)
	// the \\uXXXX escapes the quoting function writes are read back by the lexer's hex decoder (C03.R5)
	if unhex := c.P.Func("lexer.unhex"); unhex != nil {
		c03Unhex(c, r2, unhex)
	}

	r3 := c.Rule("R3", "text between block-string delimiters has the delimiter escaped", 1)
	blockDelimiterRule(c, r3)

	r4 := c.Rule("R4", "print decisions test presence, options or built-in flags only (schema printers)", 15)
	guardDiscipline(c, r4, "schema")
	wholeNodeDrop(c, r4, "schema")

	r5 := c.Rule("R5", "the loader infers default roots exactly when the formatter may have omitted the schema block", 3)
	rootInferenceRule(c, r5)

	r7 := c.Rule("R7", "when FormatSchema writes the schema definition it writes every root that is set", 3)
	rootBlockRule(c, r7)

	r6 := c.Rule("R6", "the schema printers never write two name-like tokens without a separator", 40)
	tokenSeparationRule(c, r6, []string{"FormatSchema", "FormatSchemaDocument"})

	r8 := c.Rule("R8", "a node's leading comment group is written before any of the node's text", 8)
	leadingCommentRule(c, r8)

	r9 := c.Rule("R9", "a write primitive writes the text it is given on every path", 3)
	primitivesWriteTheirArgument(c, r9)
}

// blockDelimiterRule: in every function that writes the `"""` delimiter, every other string written between the
// first and the last delimiter write derives from a strings.ReplaceAll/Replacer of `"""` by `\"""`.
func blockDelimiterRule(c *Ctx, r *RuleResult) {
	p := c.P
	n := 0
	for _, fn := range p.FuncsIn("formatter") {
		var delim []ssa.Instruction
		allInstrs(fn, func(in ssa.Instruction) {
			if ci, ok := in.(ssa.CallInstruction); ok {
				for _, a := range ci.Common().Args {
					if s, ok := constString(a); ok && s == `"""` {
						delim = append(delim, in)
					}
				}
			}
		})
		if len(delim) < 2 {
			continue
		}
		n++
		// the text: a string parameter of the function; is there a replacement of `"""` applied to it?
		escaped := false
		allInstrs(fn, func(in ssa.Instruction) {
			ci, ok := in.(ssa.CallInstruction)
			if !ok {
				return
			}
			nm := calleeName(ci)
			if nm == "strings.ReplaceAll" || nm == "strings.Replace" {
				a := ci.Common().Args
				o, ok1 := constString(a[1])
				nw, ok2 := constString(a[2])
				if ok1 && ok2 && o == `"""` && nw == `\"""` {
					escaped = true
				}
			}
		})
		if escaped {
			// every write between the delimiters must use the escaped text, not the raw parameter
			raw := false
			for _, prm := range fn.Params {
				if b, ok := prm.Type().Underlying().(*types.Basic); ok && b.Kind() == types.String {
					for _, ref := range *prm.Referrers() {
						if ci, ok := ref.(ssa.CallInstruction); ok {
							nm := calleeName(ci)
							if strings.Contains(nm, "Write") {
								raw = true
							}
							if nm == "strings.Split" {
								raw = true
							}
						}
					}
				}
			}
			if raw {
				r.Fail(fn.Pos(), p.FuncName(fn), "raw text written between block-string delimiters", "the unescaped parameter is still written (or split) directly")
			} else {
				r.OK(p.FuncName(fn)+` escapes """ as \""" before writing the block string`, "")
			}
		} else {
			r.Fail(delim[0].Pos(), p.FuncName(fn), `block string written without escaping """`, "the text written between the block-string delimiters is not passed through a replacement of the delimiter by its escape: a description containing three double quotes formats into text that does not parse (or parses into a different document)")
		}
	}
	if n == 0 {
		r.AnchorLost("a formatter function that writes block-string delimiters")
	}
}
