package main

import (
	"fmt"
	"go/token"
	"go/types"
	"sort"
	"strings"

	"golang.org/x/tools/go/ssa"
)

// ---------------------------------------------------------------------------
// Parser control analyses shared by C01 (R3-R6) and C16 (R5).

type parserFlow struct {
	m *parserModel
	p *Program
	// callees of every call instruction in package parser (closure parameters resolved through call sites)
	calleesOf   map[ssa.CallInstruction][]*ssa.Function
	unresolved  []ssa.CallInstruction
	mayConsume  map[*ssa.Function]bool // may reach NEXT other than through PEEK
	errFuncs    map[*ssa.Function]bool // always record an error (or return immediately because one is recorded)
	consumer    map[*ssa.Function]bool // helper every return of which is dominated by a consumption (true entries are final; false marks in-progress)
	consumePred map[*ssa.Function]int  // function -> index of the bool result that is true only after a consumption
	errPred     map[*ssa.Function]int  // function -> index of the bool result that is true only after an error was recorded
	entryGuard  map[*ssa.Function]int  // function -> index of the bool result that is false when p.err != nil at entry
}

func newParserFlow(m *parserModel) *parserFlow {
	f := &parserFlow{m: m, p: m.p, calleesOf: map[ssa.CallInstruction][]*ssa.Function{}, mayConsume: map[*ssa.Function]bool{},
		errFuncs: map[*ssa.Function]bool{}, consumePred: map[*ssa.Function]int{}, errPred: map[*ssa.Function]int{}, consumer: map[*ssa.Function]bool{}, entryGuard: map[*ssa.Function]int{}}
	f.resolveCalls()
	f.computeMayConsume()
	f.computeErrFuncs()
	f.computePreds()
	return f
}

func inParserPkg(m *parserModel, fn *ssa.Function) bool {
	r := rootFunc(fn)
	return r.Pkg != nil && r.Pkg == m.p.SPkgs["parser"]
}

// resolveCalls fills calleesOf. A call through a func-typed parameter is resolved to the
// closures passed at every call site of the enclosing function; a call through a captured
// variable or anything else is unresolved.
func (f *parserFlow) resolveCalls() {
	for _, fn := range f.m.fns {
		allInstrs(fn, func(in ssa.Instruction) {
			ci, ok := in.(ssa.CallInstruction)
			if !ok {
				return
			}
			cc := ci.Common()
			if cc.IsInvoke() {
				return // interface calls: none into package parser (types there have no interfaces)
			}
			if _, ok := cc.Value.(*ssa.Builtin); ok {
				return
			}
			if sc := cc.StaticCallee(); sc != nil {
				f.calleesOf[ci] = []*ssa.Function{sc}
				return
			}
			if prm, ok := cc.Value.(*ssa.Parameter); ok {
				// the closures passed at every call site; a call site that hands on its own callback parameter
				// (many -> repeatUntil) is followed to its callers
				var resolve func(prm *ssa.Parameter, depth int) ([]*ssa.Function, bool)
				resolve = func(prm *ssa.Parameter, depth int) ([]*ssa.Function, bool) {
					pf := prm.Parent()
					idx := paramIndex(pf, prm)
					calls := callsTo(f.m.fns, pf)
					if idx < 0 || len(calls) == 0 || depth > 3 {
						return nil, false
					}
					var out []*ssa.Function
					for _, site := range calls {
						a := site.Common().Args[idx]
						switch v := a.(type) {
						case *ssa.MakeClosure:
							out = append(out, unwrapThunk(v.Fn.(*ssa.Function)))
						case *ssa.Function:
							out = append(out, unwrapThunk(v))
						case *ssa.Parameter:
							more, ok := resolve(v, depth+1)
							if !ok {
								return nil, false
							}
							out = append(out, more...)
						default:
							return nil, false
						}
					}
					return out, true
				}
				if out, okAll := resolve(prm, 0); okAll {
					f.calleesOf[ci] = out
					return
				}
			}
			// a choice among named functions or closures (`parse := A; if c { parse = B }; parse(x)`)
			if fs, ok := funcChoice(cc.Value, 0); ok && len(fs) > 0 {
				f.calleesOf[ci] = fs
				return
			}
			f.unresolved = append(f.unresolved, ci)
		})
	}
}

// funcChoice: v is a function, a closure, a phi / single-store local of such, or the result of looking a key up in a
// map all of whose values are such (a local map built in the same function, or a read-only package-level table).
// Method expressions and bound method values are unwrapped to the method they stand for.
func funcChoice(v ssa.Value, depth int) ([]*ssa.Function, bool) {
	if depth > 4 {
		return nil, false
	}
	switch x := unspill(stripChange(v)).(type) {
	case *ssa.Function:
		return []*ssa.Function{unwrapThunk(x)}, true
	case *ssa.MakeClosure:
		return []*ssa.Function{unwrapThunk(x.Fn.(*ssa.Function))}, true
	case *ssa.Phi:
		var out []*ssa.Function
		for _, e := range x.Edges {
			if isNilConst(e) {
				continue
			}
			fs, ok := funcChoice(e, depth+1)
			if !ok {
				return nil, false
			}
			out = append(out, fs...)
		}
		return out, len(out) > 0
	case *ssa.Extract:
		if lk, ok := x.Tuple.(*ssa.Lookup); ok && x.Index == 0 {
			return mapValueFuncs(lk.X, depth)
		}
	case *ssa.Lookup:
		return mapValueFuncs(x.X, depth)
	case *ssa.UnOp:
		// a function-typed local variable, possibly captured by closures: every store to it is a known function
		if x.Op != token.MUL {
			return nil, false
		}
		var cell *ssa.Alloc
		switch a := x.X.(type) {
		case *ssa.Alloc:
			cell = a
		case *ssa.FreeVar:
			cell = resolveFreeVar(a)
		case *ssa.FieldAddr:
			// a function kept in a struct field: whatever is stored into that field anywhere in the module
			n, fld, _, _ := fieldOf(a)
			if n == nil || curProgram == nil || !curProgram.inModulePkgPath(n) {
				return nil, false
			}
			var out []*ssa.Function
			sts := storesToField(curProgram.Funcs(), n, fld)
			if len(sts) == 0 {
				return nil, false
			}
			for _, st := range sts {
				if isNilConst(st.store.Val) {
					continue
				}
				fs, ok := funcChoice(st.store.Val, depth+1)
				if !ok {
					return nil, false
				}
				out = append(out, fs...)
			}
			return out, len(out) > 0
		}
		if cell == nil {
			return nil, false
		}
		var out []*ssa.Function
		okAll := true
		for _, f := range withClosures(rootFunc(cell.Parent())) {
			allInstrs(f, func(in ssa.Instruction) {
				st, isSt := in.(*ssa.Store)
				if !isSt {
					return
				}
				var tgt *ssa.Alloc
				switch a := st.Addr.(type) {
				case *ssa.Alloc:
					tgt = a
				case *ssa.FreeVar:
					tgt = resolveFreeVar(a)
				}
				if tgt != cell {
					return
				}
				if isNilConst(st.Val) {
					return
				}
				if fs, ok := funcChoice(st.Val, depth+1); ok {
					out = append(out, fs...)
				} else {
					okAll = false
				}
			})
		}
		return out, okAll && len(out) > 0
	}
	return nil, false
}

// mapValueFuncs: every value stored in the map m is a known function.
func mapValueFuncs(m ssa.Value, depth int) ([]*ssa.Function, bool) {
	m = unspill(stripChange(m))
	var out []*ssa.Function
	switch x := m.(type) {
	case *ssa.MakeMap:
		if x.Referrers() == nil {
			return nil, false
		}
		for _, ref := range *x.Referrers() {
			switch r := ref.(type) {
			case *ssa.MapUpdate:
				if r.Map != ssa.Value(x) {
					continue
				}
				fs, ok := funcChoice(r.Value, depth+1)
				if !ok {
					return nil, false
				}
				out = append(out, fs...)
			case *ssa.Lookup, *ssa.DebugRef, *ssa.Range:
			case *ssa.Store:
				// spilled into a local variable: fine when it is the stored value
				if r.Val != ssa.Value(x) {
					return nil, false
				}
			case *ssa.MakeClosure:
				// captured by a closure that might update it: give up
				return nil, false
			default:
				if _, isCall := ref.(ssa.CallInstruction); isCall {
					return nil, false // handed to a function that might update it
				}
			}
		}
		return out, len(out) > 0
	case *ssa.UnOp:
		if g, ok := x.X.(*ssa.Global); ok && x.Op == token.MUL && curProgram != nil {
			if t := constTable(curProgram, g); t != nil {
				for _, e := range t.entries {
					if e.val == nil {
						return nil, false
					}
					fs, ok := funcChoice(e.val, depth+1)
					if !ok {
						return nil, false
					}
					out = append(out, fs...)
				}
				return out, len(out) > 0
			}
		}
	}
	return nil, false
}

// unwrapThunk: a method expression ((*T).m) or a bound method value (x.m) is a synthetic wrapper around the method.
func unwrapThunk(f *ssa.Function) *ssa.Function {
	if f == nil || f.Synthetic == "" || len(f.Blocks) != 1 {
		return f
	}
	if !strings.HasSuffix(f.Name(), "$thunk") && !strings.HasSuffix(f.Name(), "$bound") {
		return f
	}
	var callee *ssa.Function
	n := 0
	for _, in := range f.Blocks[0].Instrs {
		if ci, ok := in.(ssa.CallInstruction); ok {
			n++
			callee = ci.Common().StaticCallee()
		}
	}
	if n == 1 && callee != nil {
		return callee
	}
	return f
}

// discardsLookahead: in stores false into parser.peeked — the look-ahead token is dropped, so the next peek reads on.
func (f *parserFlow) discardsLookahead(in ssa.Instruction) bool {
	st, ok := in.(*ssa.Store)
	if !ok || !f.m.fieldAddr(st.Addr, "peeked") {
		return false
	}
	cst, ok := st.Val.(*ssa.Const)
	return ok && cst.Value != nil && cst.Value.String() == "false"
}

func (f *parserFlow) computeMayConsume() {
	f.mayConsume[f.m.next] = true
	for _, fn := range f.m.fns {
		if fn == f.m.peek {
			continue
		}
		allInstrs(fn, func(in ssa.Instruction) {
			if f.discardsLookahead(in) {
				f.mayConsume[fn] = true
			}
		})
	}
	for changed := true; changed; {
		changed = false
		for _, fn := range f.m.fns {
			if f.mayConsume[fn] || fn == f.m.peek {
				continue
			}
			allInstrs(fn, func(in ssa.Instruction) {
				ci, ok := in.(ssa.CallInstruction)
				if !ok || f.mayConsume[fn] {
					return
				}
				for _, g := range f.calleesOf[ci] {
					if g != f.m.peek && f.mayConsume[g] {
						f.mayConsume[fn] = true
						changed = true
					}
				}
			})
		}
	}
}

func (f *parserFlow) isErrNilTest(v ssa.Value) (isNE bool, ok bool) {
	b, isB := v.(*ssa.BinOp)
	if !isB || (b.Op != token.NEQ && b.Op != token.EQL) {
		return false, false
	}
	if (f.m.load(b.X, "err") && isNilConst(b.Y)) || (f.m.load(b.Y, "err") && isNilConst(b.X)) {
		return b.Op == token.NEQ, true
	}
	return false, false
}

// errEdge reports whether the edge from->to is taken exactly when p.err != nil.
func (f *parserFlow) errEdge(from, to *ssa.BasicBlock) bool {
	if len(from.Instrs) == 0 {
		return false
	}
	ifi, ok := from.Instrs[len(from.Instrs)-1].(*ssa.If)
	if !ok || from.Succs[0] == from.Succs[1] {
		return false
	}
	c := normCond(Cond{V: ifi.Cond, True: true})
	ne, ok := f.isErrNilTest(c.V)
	if !ok {
		return false
	}
	trueMeansErr := ne == c.True
	if trueMeansErr {
		return to == from.Succs[0]
	}
	return to == from.Succs[1]
}

// computeErrFuncs: functions on whose every path from entry to return an error is recorded
// (a store to parser.err), unless the path leaves through the `p.err != nil` edge.
func (f *parserFlow) computeErrFuncs() {
	for changed := true; changed; {
		changed = false
		for _, fn := range f.m.fns {
			if f.errFuncs[fn] || len(fn.Blocks) == 0 {
				continue
			}
			records := func(in ssa.Instruction) bool {
				if s, ok := in.(*ssa.Store); ok && f.m.fieldAddr(s.Addr, "err") {
					return true
				}
				if ci, ok := in.(ssa.CallInstruction); ok {
					cs := f.calleesOf[ci]
					if len(cs) == 0 {
						return false
					}
					for _, g := range cs {
						if !f.errFuncs[g] {
							return false
						}
					}
					return true
				}
				return false
			}
			blocked := func(b *ssa.BasicBlock) bool {
				for _, in := range b.Instrs {
					if records(in) {
						return true
					}
				}
				return false
			}
			r := reachAvoiding(fn.Blocks[0], blocked, f.errEdge)
			all := true
			n := 0
			for _, ret := range returnsOf(fn) {
				n++
				if r[ret.Block()] {
					all = false
				}
			}
			if all && n > 0 && !blocked(fn.Blocks[0]) || (n > 0 && all) {
				f.errFuncs[fn] = true
				changed = true
			}
		}
	}
	// NEXT is not an error function (it usually consumes); remove if it slipped in
	delete(f.errFuncs, f.m.next)
}

// computePreds finds consuming predicates and entry-guarded predicates.
func (f *parserFlow) computePreds() {
	for _, fn := range f.m.fns {
		res := fn.Signature.Results()
		bi := -1
		for i := 0; i < res.Len(); i++ {
			if b, ok := res.At(i).Type().Underlying().(*types.Basic); ok && b.Kind() == types.Bool {
				bi = i
			}
		}
		if bi < 0 || len(fn.Blocks) == 0 {
			continue
		}
		// entry guard: first block tests p.err; the err edge leads to a return of constant false
		if ifi, ok := fn.Blocks[0].Instrs[len(fn.Blocks[0].Instrs)-1].(*ssa.If); ok {
			_ = ifi
			for _, s := range fn.Blocks[0].Succs {
				if f.errEdge(fn.Blocks[0], s) {
					if ret, ok := s.Instrs[len(s.Instrs)-1].(*ssa.Return); ok && len(s.Instrs) <= 2 {
						if cst, ok := ret.Results[bi].(*ssa.Const); ok && cst.Value != nil && cst.Value.String() == "false" {
							f.entryGuard[fn] = bi
						}
					}
				}
			}
		}
	}
	// consuming predicates: every return whose bool result may be true is dominated by a NEXT call
	// (or by the true edge of another consuming predicate)
	for changed := true; changed; {
		changed = false
		for _, fn := range f.m.fns {
			if _, done := f.consumePred[fn]; done {
				continue
			}
			res := fn.Signature.Results()
			bi := -1
			for i := 0; i < res.Len(); i++ {
				if b, ok := res.At(i).Type().Underlying().(*types.Basic); ok && b.Kind() == types.Bool {
					bi = i
				}
			}
			if bi < 0 || len(fn.Blocks) == 0 || fn == f.m.next {
				continue
			}
			ok := true
			sawTrue := false
			for _, ret := range returnsOf(fn) {
				if cst, isC := ret.Results[bi].(*ssa.Const); isC && cst.Value != nil && cst.Value.String() == "false" {
					continue
				}
				sawTrue = true
				if !f.dominatedByConsumption(ret) {
					ok = false
				}
			}
			if ok && sawTrue {
				f.consumePred[fn] = bi
				changed = true
			}
		}
	}
	// error predicates: every return whose bool result may be true is dominated by a store to the sticky error or by a
	// call of a function that records one on every path (`if !p.reportLexerError(tok) { p.error(...) }`)
	for _, fn := range f.m.fns {
		res := fn.Signature.Results()
		if res.Len() != 1 || len(fn.Blocks) == 0 {
			continue
		}
		if b, ok := res.At(0).Type().Underlying().(*types.Basic); !ok || b.Kind() != types.Bool {
			continue
		}
		if _, isC := f.consumePred[fn]; isC {
			continue
		}
		var recs []ssa.Instruction
		allInstrs(fn, func(in ssa.Instruction) {
			switch x := in.(type) {
			case *ssa.Store:
				if f.m.fieldAddr(x.Addr, "err") && !isNilConst(x.Val) {
					recs = append(recs, in)
				}
			case ssa.CallInstruction:
				if g := x.Common().StaticCallee(); g != nil && f.errFuncs[g] {
					recs = append(recs, in)
				}
			}
		})
		if len(recs) == 0 {
			continue
		}
		ok, sawTrue := true, false
		for _, ret := range returnsOf(fn) {
			if cst, isC := ret.Results[0].(*ssa.Const); isC && cst.Value != nil && cst.Value.String() == "false" {
				continue
			}
			sawTrue = true
			dom := false
			for _, rc := range recs {
				if dominatesInstr(rc, ret) {
					dom = true
				}
			}
			if !dom {
				ok = false
			}
		}
		if ok && sawTrue {
			f.errPred[fn] = 0
		}
	}
}

// isErrPredResult: v is the bool result of a call to an error predicate.
func (f *parserFlow) isErrPredResult(v ssa.Value) bool {
	if call, ok := unspill(v).(*ssa.Call); ok {
		if g := call.Common().StaticCallee(); g != nil {
			_, is := f.errPred[g]
			return is
		}
	}
	return false
}

// dominatedByConsumption: a call to NEXT dominates in, or in lies under the true edge of a consuming predicate.
func (f *parserFlow) dominatedByConsumption(in ssa.Instruction) bool {
	fn := in.Parent()
	found := false
	allInstrs(fn, func(x ssa.Instruction) {
		if found {
			return
		}
		if ci, ok := x.(ssa.CallInstruction); ok && f.alwaysConsumes(ci.Common().StaticCallee()) && dominatesInstr(x, in) {
			found = true
		}
		if f.discardsLookahead(x) && dominatesInstr(x, in) {
			found = true
		}
	})
	if found {
		return true
	}
	for _, cd := range condsAt(in.Block()) {
		if cd.True && f.isConsumePredResult(cd.V) {
			return true
		}
	}
	return false
}

// alwaysConsumes: g is the advance function, or a helper every return of which is dominated by a consumption.
func (f *parserFlow) alwaysConsumes(g *ssa.Function) bool {
	if g == nil {
		return false
	}
	if g == f.m.next {
		return true
	}
	if v, ok := f.consumer[g]; ok {
		return v
	}
	f.consumer[g] = false // recursion: assume not
	if !inParserPkg(f.m, g) || len(g.Blocks) == 0 || g == f.m.peek {
		return false
	}
	rets := returnsOf(g)
	all := len(rets) > 0
	for _, ret := range rets {
		if !f.dominatedByConsumption(ret) {
			all = false
		}
	}
	if all {
		f.consumer[g] = true
	} else {
		delete(f.consumer, g)
	}
	return all
}

// isConsumePredResult: v is the bool result of a call to a consuming predicate.
func (f *parserFlow) isConsumePredResult(v ssa.Value) bool {
	v = unspill(v)
	switch x := v.(type) {
	case *ssa.Phi:
		// `for x, ok := pred(); ok; x, ok = pred()`: the flag of a three-clause loop is a phi of results
		if len(x.Edges) == 0 {
			return false
		}
		for _, e := range x.Edges {
			if e == v || !f.isConsumePredResult(e) {
				return false
			}
		}
		return true
	case *ssa.Call:
		if g := x.Common().StaticCallee(); g != nil {
			if bi, ok := f.consumePred[g]; ok && g.Signature.Results().Len() == 1 && bi == 0 {
				return true
			}
		}
	case *ssa.Extract:
		if c, ok := x.Tuple.(*ssa.Call); ok {
			if g := c.Common().StaticCallee(); g != nil {
				if bi, ok := f.consumePred[g]; ok && bi == x.Index {
					return true
				}
			}
		}
	}
	return false
}

func (f *parserFlow) isGuardPredResult(v ssa.Value) bool {
	v = unspill(v)
	switch x := v.(type) {
	case *ssa.Phi:
		if len(x.Edges) == 0 {
			return false
		}
		for _, e := range x.Edges {
			if e == v || !f.isGuardPredResult(e) {
				return false
			}
		}
		return true
	case *ssa.Call:
		if g := x.Common().StaticCallee(); g != nil {
			if bi, ok := f.entryGuard[g]; ok && g.Signature.Results().Len() == 1 && bi == 0 {
				return true
			}
		}
	case *ssa.Extract:
		if c, ok := x.Tuple.(*ssa.Call); ok {
			if g := c.Common().StaticCallee(); g != nil {
				if bi, ok := f.entryGuard[g]; ok && bi == x.Index {
					return true
				}
			}
		}
	}
	return false
}

// latch recognises a re-entrancy latch: the function returns at once when a bool field of the
// parser is set, sets it before any call, and the field is cleared only in this function after
// it was set. Returns the field name.
func (f *parserFlow) latch(fn *ssa.Function) (string, bool) {
	st, _ := f.m.T.Underlying().(*types.Struct)
	for i := 0; i < st.NumFields(); i++ {
		fld := st.Field(i)
		if b, ok := fld.Type().Underlying().(*types.Basic); !ok || b.Kind() != types.Bool {
			continue
		}
		name := fld.Name()
		var setTrue []*ssa.Store
		okStores := true
		for _, s := range storesToField(f.m.fns, f.m.T, name) {
			if s.fn != fn {
				okStores = false
				break
			}
			if cst, ok := s.store.Val.(*ssa.Const); ok && cst.Value != nil && cst.Value.String() == "true" {
				setTrue = append(setTrue, s.store)
			}
		}
		if !okStores || len(setTrue) != 1 {
			continue
		}
		set := setTrue[0]
		// the set is dominated by the false edge of a test of the flag whose true edge returns without calls
		guarded := false
		for _, cd := range condsAt(set.Block()) {
			if f.m.load(cd.V, name) && !cd.True {
				guarded = true
			}
		}
		if !guarded {
			continue
		}
		// every call into the parser package in fn is dominated by the set; every clear is dominated by the set
		all := true
		allInstrs(fn, func(in ssa.Instruction) {
			switch v := in.(type) {
			case ssa.CallInstruction:
				for _, g := range f.calleesOf[v] {
					if inParserPkg(f.m, g) && !dominatesInstr(set, in) {
						all = false
					}
				}
			case *ssa.Store:
				if f.m.fieldAddr(v.Addr, name) && v != set && !dominatesInstr(set, in) {
					all = false
				}
			}
		})
		if all {
			return name, true
		}
	}
	return "", false
}

// progressEdge: the call site lies under the true edge of a consuming predicate in its function.
func (f *parserFlow) progressEdge(ci ssa.CallInstruction) bool {
	for _, cd := range condsAt(ci.Block()) {
		if cd.True && f.isConsumePredResult(cd.V) {
			return true
		}
	}
	return false
}

// parserRecursion is C01.R6 / C16.R5.
func parserRecursion(c *Ctx, r *RuleResult, m *parserModel) {
	p := c.P
	f := newParserFlow(m)
	for _, ci := range f.unresolved {
		r.Undecided(ci.Pos(), p.FuncName(ci.Parent()), "dynamic call", "a call in package parser goes through a function value that is not a parameter bound to closures at every call site; the call graph is incomplete")
	}
	type edgeT struct {
		from, to *ssa.Function
		site     ssa.CallInstruction
	}
	var edges []edgeT
	inPkg := map[*ssa.Function]bool{}
	for _, fn := range m.fns {
		inPkg[fn] = true
	}
	latched := map[*ssa.Function]string{}
	for _, fn := range m.fns {
		if name, ok := f.latch(fn); ok {
			latched[fn] = name
		}
	}
	nProg := 0
	for _, fn := range m.fns {
		allInstrs(fn, func(in ssa.Instruction) {
			ci, ok := in.(ssa.CallInstruction)
			if !ok {
				return
			}
			for _, g := range f.calleesOf[ci] {
				if !inPkg[g] {
					continue
				}
				if f.progressEdge(ci) {
					nProg++
					continue
				}
				if _, isL := latched[g]; isL {
					continue
				}
				if _, isL := latched[fn]; isL {
					continue
				}
				edges = append(edges, edgeT{fn, g, ci})
			}
		})
	}
	// also: creating a closure is not a call; closures are reached through their invocation sites (cb()).
	adj := map[*ssa.Function][]*ssa.Function{}
	for _, e := range edges {
		adj[e.from] = append(adj[e.from], e.to)
	}
	// find cycles: Tarjan SCC
	sccs := sccOf(m.fns, adj)
	cyc := 0
	for _, comp := range sccs {
		self := false
		if len(comp) == 1 {
			for _, t := range adj[comp[0]] {
				if t == comp[0] {
					self = true
				}
			}
			if !self {
				continue
			}
		}
		cyc++
		var names []string
		for _, fn := range comp {
			names = append(names, p.FuncName(fn))
		}
		sort.Strings(names)
		r.Fail(comp[0].Pos(), names[0], "recursion cycle without a consumed token: "+strings.Join(names, " -> "), "these parser functions can call each other again without a token having been consumed in between (no call on the cycle lies under the true result of a consuming predicate such as skip, and no re-entrancy latch cuts it): recursion depth is not bounded by the number of tokens")
	}
	var ln []string
	for fn, n := range latched {
		ln = append(ln, p.FuncName(fn)+"/"+n)
	}
	sort.Strings(ln)
	var cp []string
	for fn := range f.consumePred {
		cp = append(cp, p.FuncName(fn))
	}
	sort.Strings(cp)
	if cyc == 0 {
		r.OK(fmt.Sprintf("parser call graph: %d functions, %d progress edges removed, latches %v", len(m.fns), nProg, ln), "acyclic after removing progress edges and latched functions")
	}
	for _, n := range cp {
		r.OK("consuming predicate "+n, "true only after the advance function was called")
	}
	for _, n := range ln {
		r.OK("re-entrancy latch "+n, "returns at once when set; set before any call; cleared only afterwards")
	}
	c.Extra["parser_consuming_predicates"] = cp
	c.Extra["parser_latches"] = ln
}

func sccOf(nodes []*ssa.Function, adj map[*ssa.Function][]*ssa.Function) [][]*ssa.Function {
	index := map[*ssa.Function]int{}
	low := map[*ssa.Function]int{}
	on := map[*ssa.Function]bool{}
	var stack []*ssa.Function
	var out [][]*ssa.Function
	n := 0
	var strong func(v *ssa.Function)
	strong = func(v *ssa.Function) {
		n++
		index[v] = n
		low[v] = n
		stack = append(stack, v)
		on[v] = true
		for _, w := range adj[v] {
			if index[w] == 0 {
				strong(w)
				if low[w] < low[v] {
					low[v] = low[w]
				}
			} else if on[w] && index[w] < low[v] {
				low[v] = index[w]
			}
		}
		if low[v] == index[v] {
			var comp []*ssa.Function
			for {
				w := stack[len(stack)-1]
				stack = stack[:len(stack)-1]
				on[w] = false
				comp = append(comp, w)
				if w == v {
					break
				}
			}
			out = append(out, comp)
		}
	}
	for _, v := range nodes {
		if index[v] == 0 {
			strong(v)
		}
	}
	return out
}
