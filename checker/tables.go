package main

import (
	"go/constant"
	"go/token"
	"go/types"
	"strings"

	"golang.org/x/tools/go/ssa"
)

// Read-only lookup tables: a package-level variable of map, array or slice type that is given its content once, by
// its initialiser (the package's init function), and never written afterwards. A switch over constants rewritten as a
// lookup in such a table decides the same thing; rules that understand the switch understand the table through
// constTable / tableLookup.
type tableEntry struct {
	key    constant.Value       // map key or array index
	val    ssa.Value            // the stored value when it is a scalar constant or function
	fields map[string]ssa.Value // for struct-valued entries: field name -> stored value
}

type constTab struct {
	g       *ssa.Global
	entries []tableEntry
}

var tableMemo = map[*ssa.Global]*constTab{}

// constTable returns the content of g when g is a read-only table, else nil.
func constTable(p *Program, g *ssa.Global) *constTab {
	if t, ok := tableMemo[g]; ok {
		return t
	}
	tableMemo[g] = nil
	if g.Pkg == nil {
		return nil
	}
	initFn := g.Pkg.Func("init")
	if initFn == nil {
		return nil
	}
	// the package initialiser and the init() functions it calls
	isInit := map[*ssa.Function]bool{initFn: true}
	var initFns []*ssa.Function
	initFns = append(initFns, initFn)
	allInstrs(initFn, func(in ssa.Instruction) {
		if ci, ok := in.(ssa.CallInstruction); ok {
			if h := ci.Common().StaticCallee(); h != nil && h.Pkg == g.Pkg && strings.HasPrefix(h.Name(), "init#") && !isInit[h] {
				isInit[h] = true
				initFns = append(initFns, h)
			}
		}
	})
	eachInit := func(f func(in ssa.Instruction)) {
		for _, fn := range initFns {
			allInstrs(fn, f)
		}
	}
	// no writes outside init: no Store to g, no MapUpdate / IndexAddr-store through a load of g
	for _, fn := range p.Funcs() {
		if isInit[rootFunc(fn)] {
			continue
		}
		bad := false
		allInstrs(fn, func(in ssa.Instruction) {
			switch x := in.(type) {
			case *ssa.Store:
				if x.Addr == ssa.Value(g) || derivesFromGlobalAddr(x.Addr, g, 0) {
					bad = true
				}
			case *ssa.MapUpdate:
				if loadsGlobal(x.Map, g) {
					bad = true
				}
			}
		})
		if bad {
			return nil
		}
	}
	tab := &constTab{g: g}
	elemT := g.Type().(*types.Pointer).Elem().Underlying()
	switch elemT.(type) {
	case *types.Map:
		// *g = m where m = make(map); m[k] = v ...
		var m ssa.Value
		nst := 0
		eachInit(func(in ssa.Instruction) {
			if st, ok := in.(*ssa.Store); ok && st.Addr == ssa.Value(g) {
				m = st.Val
				nst++
			}
		})
		if nst != 1 {
			return nil
		}
		mm, ok := m.(*ssa.MakeMap)
		if !ok {
			return nil
		}
		for _, ref := range *mm.Referrers() {
			mu, ok := ref.(*ssa.MapUpdate)
			if !ok {
				continue
			}
			kc, ok := stripChange(mu.Key).(*ssa.Const)
			if !ok || kc.Value == nil {
				return nil
			}
			tab.entries = append(tab.entries, entryOf(kc.Value, mu.Value))
		}
	case *types.Array:
		// stores through &g[i]
		bad := false
		eachInit(func(in ssa.Instruction) {
			ia, ok := in.(*ssa.IndexAddr)
			if !ok || ia.X != ssa.Value(g) {
				return
			}
			kc, ok := ia.Index.(*ssa.Const)
			if !ok || kc.Value == nil {
				bad = true
				return
			}
			for _, r2 := range *ia.Referrers() {
				if st, ok := r2.(*ssa.Store); ok && st.Addr == ssa.Value(ia) {
					tab.entries = append(tab.entries, entryOf(kc.Value, st.Val))
				}
			}
		})
		if bad {
			return nil
		}
	default:
		return nil
	}
	if len(tab.entries) == 0 {
		return nil
	}
	tableMemo[g] = tab
	return tab
}

func entryOf(key constant.Value, v ssa.Value) tableEntry {
	e := tableEntry{key: key, val: v}
	// struct literal: value is a load of an Alloc whose fields were stored, or a composite built in place
	if u, ok := v.(*ssa.UnOp); ok && u.Op == token.MUL {
		if al, ok := u.X.(*ssa.Alloc); ok {
			e.fields = map[string]ssa.Value{}
			for _, ref := range *al.Referrers() {
				if fa, ok := ref.(*ssa.FieldAddr); ok {
					_, f, _, _ := fieldOf(fa)
					for _, r2 := range *fa.Referrers() {
						if st, ok := r2.(*ssa.Store); ok && st.Addr == ssa.Value(fa) {
							e.fields[f] = st.Val
						}
					}
				}
			}
		}
	}
	return e
}

func derivesFromGlobalAddr(v ssa.Value, g *ssa.Global, d int) bool {
	if d > 4 {
		return false
	}
	switch x := v.(type) {
	case *ssa.IndexAddr:
		return x.X == ssa.Value(g) || derivesFromGlobalAddr(x.X, g, d+1)
	case *ssa.FieldAddr:
		return x.X == ssa.Value(g) || derivesFromGlobalAddr(x.X, g, d+1)
	}
	return false
}

func loadsGlobal(v ssa.Value, g *ssa.Global) bool {
	u, ok := stripChange(v).(*ssa.UnOp)
	return ok && u.Op == token.MUL && u.X == ssa.Value(g)
}

// tableLookup: v reads a read-only table at some index: returns the table, the index value, and whether v is the
// comma-ok flag (for maps).
func tableLookup(p *Program, v ssa.Value) (tab *constTab, index ssa.Value, isOK bool, field string) {
	v = stripChange(v)
	switch x := v.(type) {
	case *ssa.Extract:
		if lk, ok := x.Tuple.(*ssa.Lookup); ok {
			if u, ok := stripChange(lk.X).(*ssa.UnOp); ok {
				if g, ok := u.X.(*ssa.Global); ok {
					if t := constTable(p, g); t != nil {
						return t, lk.Index, x.Index == 1, ""
					}
				}
			}
		}
	case *ssa.Lookup:
		if u, ok := stripChange(x.X).(*ssa.UnOp); ok {
			if g, ok := u.X.(*ssa.Global); ok {
				if t := constTable(p, g); t != nil {
					return t, x.Index, false, ""
				}
			}
		}
	case *ssa.UnOp:
		if x.Op != token.MUL {
			return nil, nil, false, ""
		}
		if ia, ok := x.X.(*ssa.IndexAddr); ok {
			if g, ok := ia.X.(*ssa.Global); ok {
				if t := constTable(p, g); t != nil {
					return t, ia.Index, false, ""
				}
			}
		}
		// a field of an entry that was copied into a local: root := table[k]; root.f
		if fa, ok := x.X.(*ssa.FieldAddr); ok {
			if al, ok := fa.X.(*ssa.Alloc); ok {
				if sts := storesTo(al); len(sts) == 1 {
					if t, idx, ok2, _ := tableLookup(p, sts[0]); t != nil && !ok2 {
						_, f, _, _ := fieldOf(fa)
						return t, idx, false, f
					}
				}
			}
		}
	case *ssa.Field:
		if t, idx, ok2, _ := tableLookup(p, x.X); t != nil && !ok2 {
			_, f, _, _ := fieldOf(x)
			return t, idx, false, f
		}
	}
	return nil, nil, false, ""
}

// keysWhere: the integer keys of the table whose (scalar) value satisfies pred.
func (t *constTab) keysWhere(pred func(e tableEntry) bool) []int64 {
	var out []int64
	for _, e := range t.entries {
		if e.key.Kind() != constant.Int {
			continue
		}
		if pred(e) {
			k, _ := constant.Int64Val(e.key)
			out = append(out, k)
		}
	}
	return out
}
