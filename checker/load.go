package main

import (
	"fmt"
	"go/ast"
	"go/token"
	"go/types"
	"os"
	"path/filepath"
	"sort"
	"strings"

	"golang.org/x/tools/go/callgraph"
	"golang.org/x/tools/go/callgraph/cha"
	"golang.org/x/tools/go/callgraph/vta"
	"golang.org/x/tools/go/packages"
	"golang.org/x/tools/go/ssa"
	"golang.org/x/tools/go/ssa/ssautil"
)

const modPath = "github.com/vektah/gqlparser/v2"

// Program is the resolved program every rule analyses: the type-checked syntax of
// /repo's current working tree, its SSA form and (lazily) its call graphs.
type Program struct {
	Dir   string
	Fset  *token.FileSet
	Pkgs  map[string]*packages.Package // by path relative to the module ("" for root, "lexer", "validator/rules", ...)
	All   []*packages.Package
	SSA   *ssa.Program
	SPkgs map[string]*ssa.Package

	funcs   []*ssa.Function // every function (incl. anonymous) whose source is in the module
	byName  map[string]*ssa.Function
	chaG    *callgraph.Graph
	vtaG    *callgraph.Graph
	GOARCH  string
	fileSrc map[string][]byte
}

// curProgram: the program most recently loaded (helpers without a *Program parameter resolve read-only tables through it).
var curProgram *Program

func repoDir() string {
	if d := os.Getenv("GQLVET_REPO"); d != "" {
		return d
	}
	return "/repo"
}

// Load type-checks and builds SSA for every non-test package of the module in dir.
func Load(dir string, goarch string) (*Program, error) {
	env := append(os.Environ(),
		"GOFLAGS=-mod=mod", "GOPROXY=off", "GOSUMDB=off", "GOWORK=off", "GOTOOLCHAIN=local", "CGO_ENABLED=0")
	if goarch != "" {
		env = append(env, "GOARCH="+goarch)
	}
	cfg := &packages.Config{
		Mode:       packages.LoadAllSyntax,
		Dir:        dir,
		Env:        env,
		Tests:      false,
		BuildFlags: []string{"-tags=verif"},
	}
	pkgs, err := packages.Load(cfg, "./...")
	if err != nil {
		return nil, fmt.Errorf("packages.Load: %w", err)
	}
	p := &Program{Dir: dir, Pkgs: map[string]*packages.Package{}, SPkgs: map[string]*ssa.Package{}, byName: map[string]*ssa.Function{}, GOARCH: goarch, fileSrc: map[string][]byte{}}
	var errs []string
	for _, pk := range pkgs {
		for _, e := range pk.Errors {
			errs = append(errs, e.Error())
		}
		if !strings.HasPrefix(pk.PkgPath, modPath) {
			continue
		}
		rel := strings.TrimPrefix(strings.TrimPrefix(pk.PkgPath, modPath), "/")
		p.Pkgs[rel] = pk
		p.All = append(p.All, pk)
		p.Fset = pk.Fset
	}
	if len(errs) > 0 {
		return nil, fmt.Errorf("type-check/load errors: %s", strings.Join(errs, "; "))
	}
	if len(p.All) == 0 {
		return nil, fmt.Errorf("no packages of %s loaded from %s", modPath, dir)
	}
	sort.Slice(p.All, func(i, j int) bool { return p.All[i].PkgPath < p.All[j].PkgPath })
	prog, _ := ssautil.AllPackages(pkgs, ssa.InstantiateGenerics)
	prog.Build()
	p.SSA = prog
	for rel, pk := range p.Pkgs {
		sp := prog.Package(pk.Types)
		if sp == nil {
			return nil, fmt.Errorf("no SSA package for %s", pk.PkgPath)
		}
		p.SPkgs[rel] = sp
	}
	for fn := range ssautil.AllFunctions(prog) {
		if fn.Pkg == nil && fn.Parent() == nil {
			continue
		}
		root := fn
		for root.Parent() != nil {
			root = root.Parent()
		}
		if root.Pkg == nil || !strings.HasPrefix(root.Pkg.Pkg.Path(), modPath) {
			continue
		}
		if fn.Synthetic != "" && fn.Syntax() == nil {
			// wrappers, thunks, bound methods: bodies are trivial forwards; keep init
			if fn.Name() != "init" {
				continue
			}
		}
		p.funcs = append(p.funcs, fn)
	}
	sort.Slice(p.funcs, func(i, j int) bool { return p.FuncName(p.funcs[i]) < p.FuncName(p.funcs[j]) })
	for _, fn := range p.funcs {
		p.byName[p.FuncName(fn)] = fn
	}
	curProgram = p
	return p, nil
}

// FuncName is a stable short name: "lexer.(*Lexer).ReadToken", "parser.ParseQuery",
// "rules.init#3$1" for anonymous functions (ssa's own numbering).
func (p *Program) FuncName(fn *ssa.Function) string {
	s := fn.String() // e.g. (*github.com/vektah/gqlparser/v2/lexer.Lexer).ReadToken
	s = strings.ReplaceAll(s, modPath+"/", "")
	s = strings.ReplaceAll(s, modPath, "gqlparser")
	// (*lexer.Lexer).ReadToken -> lexer.(*Lexer).ReadToken
	if strings.HasPrefix(s, "(") {
		if i := strings.Index(s, ")"); i > 0 {
			recv := s[1:i]
			rest := s[i+1:]
			star := ""
			if strings.HasPrefix(recv, "*") {
				star = "*"
				recv = recv[1:]
			}
			if j := strings.LastIndex(recv, "."); j >= 0 {
				s = recv[:j] + ".(" + star + recv[j+1:] + ")" + rest
			}
		}
	}
	// validator/rules.X -> rules.X
	if i := strings.Index(s, "/"); i >= 0 {
		if j := strings.Index(s, "."); j > i {
			s = s[strings.LastIndex(s[:j], "/")+1:]
		}
	}
	return s
}

// Func returns the function with the given short name or nil.
func (p *Program) Func(name string) *ssa.Function { return p.byName[name] }

// Funcs returns all module functions (including closures), sorted by name.
func (p *Program) Funcs() []*ssa.Function { return p.funcs }

// FuncsIn returns the functions (including closures) declared in the package with the given relative path.
func (p *Program) FuncsIn(rel string) []*ssa.Function {
	sp := p.SPkgs[rel]
	var out []*ssa.Function
	for _, fn := range p.funcs {
		root := fn
		for root.Parent() != nil {
			root = root.Parent()
		}
		if root.Pkg == sp {
			out = append(out, fn)
		}
	}
	return out
}

func (p *Program) PkgOf(fn *ssa.Function) *packages.Package {
	root := fn
	for root.Parent() != nil {
		root = root.Parent()
	}
	if root.Pkg == nil {
		return nil
	}
	rel := strings.TrimPrefix(strings.TrimPrefix(root.Pkg.Pkg.Path(), modPath), "/")
	return p.Pkgs[rel]
}

func (p *Program) CHA() *callgraph.Graph {
	if p.chaG == nil {
		p.chaG = cha.CallGraph(p.SSA)
	}
	return p.chaG
}

func (p *Program) VTA() *callgraph.Graph {
	if p.vtaG == nil {
		p.vtaG = vta.CallGraph(ssautil.AllFunctions(p.SSA), p.CHA())
	}
	return p.vtaG
}

// Pos renders a position relative to the repository root.
func (p *Program) Pos(pos token.Pos) string {
	if !pos.IsValid() {
		return "?"
	}
	ps := p.Fset.Position(pos)
	rel, err := filepath.Rel(p.Dir, ps.Filename)
	if err != nil {
		rel = ps.Filename
	}
	return fmt.Sprintf("%s:%d", rel, ps.Line)
}

func (p *Program) PosCol(pos token.Pos) string {
	if !pos.IsValid() {
		return "?"
	}
	ps := p.Fset.Position(pos)
	rel, err := filepath.Rel(p.Dir, ps.Filename)
	if err != nil {
		rel = ps.Filename
	}
	return fmt.Sprintf("%s:%d:%d", rel, ps.Line, ps.Column)
}

// LookupType returns the named type rel.Name (e.g. "ast","Schema").
func (p *Program) LookupType(rel, name string) *types.Named {
	pk := p.Pkgs[rel]
	if pk == nil {
		return nil
	}
	o := pk.Types.Scope().Lookup(name)
	if o == nil {
		return nil
	}
	n, _ := o.Type().(*types.Named)
	return n
}

// FuncDecl returns the syntax of a declared function/method by package and name
// ("Lexer.ReadToken" for methods).
func (p *Program) FuncDecl(rel, name string) *ast.FuncDecl {
	pk := p.Pkgs[rel]
	if pk == nil {
		return nil
	}
	for _, f := range pk.Syntax {
		for _, d := range f.Decls {
			fd, ok := d.(*ast.FuncDecl)
			if !ok {
				continue
			}
			n := fd.Name.Name
			if fd.Recv != nil && len(fd.Recv.List) == 1 {
				t := fd.Recv.List[0].Type
				if s, ok := t.(*ast.StarExpr); ok {
					t = s.X
				}
				if id, ok := t.(*ast.Ident); ok {
					n = id.Name + "." + n
				}
			}
			if n == name {
				return fd
			}
		}
	}
	return nil
}

// FuncDecls returns every function declaration of a package with its qualified name.
func (p *Program) FuncDecls(rel string) map[string]*ast.FuncDecl {
	out := map[string]*ast.FuncDecl{}
	pk := p.Pkgs[rel]
	if pk == nil {
		return out
	}
	for _, f := range pk.Syntax {
		for _, d := range f.Decls {
			fd, ok := d.(*ast.FuncDecl)
			if !ok {
				continue
			}
			n := fd.Name.Name
			if fd.Recv != nil && len(fd.Recv.List) == 1 {
				t := fd.Recv.List[0].Type
				if s, ok := t.(*ast.StarExpr); ok {
					t = s.X
				}
				if id, ok := t.(*ast.Ident); ok {
					n = id.Name + "." + n
				}
			}
			if n == "init" {
				n = fmt.Sprintf("init@%s", filepath.Base(p.Fset.Position(fd.Pos()).Filename))
			}
			out[n] = fd
		}
	}
	return out
}
