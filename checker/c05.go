package main

import (
	"fmt"
	"go/token"
	"go/types"
	"sort"
	"strings"

	"golang.org/x/tools/go/ssa"
)

func init() {
	register("C05", "Executable grammar (structural lints): (R1) constant contexts — every call made while parsing a variable definition passes isConst=true, and the construction of a Variable value is guarded by the constant flag; (R2) keywords are names — every comparison of a token's text with a keyword that can lead to accepting the token is justified by a Kind==Name test on the same look-ahead (no consumption in between), by expect(Name), or by an expectKeyword of the same word before anything else is consumed; (R3) only list and object values may be empty: `many` is called only by the functions that build ListValue/ObjectValue, every other delimited repetition uses `some`, and `some` decides emptiness from a local flag set in its loop; (R5) no parsed piece is dropped: the result of every node-returning parse call is stored, appended or returned, and no branch tests the content of such a result; (R7) grammar decisions depend only on the look-ahead token, the sticky error and local flags — never on the previously consumed token, token positions or comments (so ignored tokens cannot change the outcome); (R8) no pointer into the backing array of a growable buffer held in a struct field of the parser is used after a store or call that may append to that buffer (the write would land in an abandoned copy and the published node would miss it) — zero instances today, kept honest by a built-in positive example; (R9) next() is called only on a token peeked since the last consumption, because with an empty look-ahead next() returns comment tokens as they come. (R10) a list gathered in a buffer of the parser struct leaves it only capacity-clipped or copied.", runC05)
	register("C06", "Type-system grammar (structural lints): (R1) constant contexts — from parseSchemaDocument no call chain reaches the construction of a Variable value (context-sensitive propagation of the isConst argument through the parser call graph, closures included); (R2) keywords are names (as C05.R2, over the schema parser); (R3) non-empty lists (as C05.R3); (R4) definition/extension agreement — the function parsing `extend K` calls the same optional sub-parsers as the one parsing `K`, and its nothing-was-extended test mentions exactly the lists it fills; twin productions (argument definitions / input value definitions) make the same calls; (R5) no parsed piece is dropped or stored conditionally on its content; (R6) every success path of the schema entry points marks every definition and extension with the source's BuiltIn flag (paths skipping the marking only when the flag is false); (R7) decisions never depend on the previous token, positions or comments; (R8) next() only on a peeked token (as C05.R9); (R9) no stale interior pointers (as C05.R8). (R10) lists gathered in a buffer of the parser struct leave it only capacity-clipped or copied.", runC06)
}

type grammarCtx struct {
	c  *Ctx
	p  *Program
	m  *parserModel
	f  *parserFlow
	tk *types.Named // lexer.Token
	endsPeeked map[*ssa.Function]int // 0 unknown, 1 in progress, 2 every return leaves a peeked token, 3 not
}

func newGrammarCtx(c *Ctx, r *RuleResult) *grammarCtx {
	p := c.P
	m := newParserModel(p)
	for _, l := range m.lost {
		r.AnchorLost(l)
	}
	if len(m.lost) > 0 {
		return nil
	}
	g := &grammarCtx{c: c, p: p, m: m, f: newParserFlow(m), tk: p.LookupType("lexer", "Token")}
	if g.tk == nil {
		r.AnchorLost("lexer.Token")
		return nil
	}
	return g
}

// which side of the grammar a parser function belongs to (by source file)
func (g *grammarCtx) side(fn *ssa.Function) string {
	file := g.p.Fset.Position(rootFunc(fn).Pos()).Filename
	switch {
	case strings.HasSuffix(file, "parser/query.go"):
		return "query"
	case strings.HasSuffix(file, "parser/schema.go"):
		return "schema"
	}
	return "core"
}

// tokenOf: v is <token>.<field> for a lexer.Token; returns the token value (call result / extract / alloc contents).
func (g *grammarCtx) tokenField(v ssa.Value) (tok ssa.Value, field string, ok bool) {
	v = stripChange(v)
	switch x := v.(type) {
	case *ssa.Field:
		n, f, base, _ := fieldOf(x)
		if n != nil && sameNamed(n, g.tk) {
			return g.tokenValue(base), f, true
		}
	case *ssa.UnOp:
		if x.Op == token.MUL {
			if fa, ok := x.X.(*ssa.FieldAddr); ok {
				n, f, base, _ := fieldOf(fa)
				if n != nil && sameNamed(n, g.tk) {
					return g.tokenValue(base), f, true
				}
			}
		}
	}
	return nil, "", false
}

// tokenValue canonicalises where a token came from: the call (peek/next) or the Extract of expect.
func (g *grammarCtx) tokenValue(v ssa.Value) ssa.Value {
	for i := 0; i < 6; i++ {
		switch x := v.(type) {
		case *ssa.Alloc:
			sts := storesTo(x)
			if len(sts) == 1 {
				v = sts[0]
				continue
			}
			return v
		case *ssa.UnOp:
			if x.Op == token.MUL {
				v = x.X
				continue
			}
		}
		break
	}
	return v
}

// tokenSource: "peek", "next", "expect:<kindconst>", "field:prev", "other".
func (g *grammarCtx) tokenSource(tok ssa.Value) (string, ssa.Instruction) {
	switch x := tok.(type) {
	case *ssa.Call:
		callee := x.Call.StaticCallee()
		switch {
		case callee == g.m.peek:
			return "peek", x
		case callee == g.m.next:
			return "next", x
		}
	case *ssa.Extract:
		if call, ok := x.Tuple.(*ssa.Call); ok && x.Index == 0 {
			if callee := call.Call.StaticCallee(); callee != nil && callee.Name() == "expect" && len(call.Call.Args) == 2 {
				if k, ok := constInt(call.Call.Args[1]); ok {
					return fmt.Sprintf("expect:%d", k), call
				}
			}
		}
	case *ssa.FieldAddr:
		n, f, _, _ := fieldOf(x)
		if n != nil && sameNamed(n, g.m.T) {
			return "field:" + f, nil
		}
	case *ssa.Parameter:
		return "param", nil
	}
	return "other", nil
}

func (g *grammarCtx) nameKind() int64 {
	o := g.p.Pkgs["lexer"].Types.Scope().Lookup("Name")
	if cst, ok := o.(*types.Const); ok {
		k, _ := constantInt(cst)
		return k
	}
	return -1
}

// consumptionBetween: can a may-consume call execute after instruction a and before instruction b (without passing a again)?
func (g *grammarCtx) consumptionBetween(a, b ssa.Instruction) bool {
	fn := a.Parent()
	isConsume := func(in ssa.Instruction) bool {
		ci, ok := in.(ssa.CallInstruction)
		if !ok {
			return false
		}
		for _, callee := range g.f.calleesOf[ci] {
			if callee != g.m.peek && g.f.mayConsume[callee] {
				return true
			}
		}
		return false
	}
	bad := false
	allInstrs(fn, func(x ssa.Instruction) {
		if bad || !isConsume(x) {
			return
		}
		// a -> x -> b
		if _, ok := reachesWithout(a, func(in ssa.Instruction) bool { return in == x }, func(in ssa.Instruction) bool { return in == b }); !ok {
			return
		}
		if _, ok := reachesWithout(x, func(in ssa.Instruction) bool { return in == b }, func(in ssa.Instruction) bool { return in == a }); ok {
			bad = true
		}
	})
	return bad
}

// firstConsume follows the code from the start of block b: the first may-consume call on the (unique) path.
// Returns the keyword if it is expectKeyword(<const>), "" otherwise; rejects=true if an error function comes first.
func (g *grammarCtx) firstConsume(b *ssa.BasicBlock, from int, depth int) (kw string, rejects bool, ok bool) {
	if depth > 4 {
		return "", false, false
	}
	for hops := 0; hops < 6; hops++ {
		for i := from; i < len(b.Instrs); i++ {
			ci, isCall := b.Instrs[i].(ssa.CallInstruction)
			if !isCall {
				continue
			}
			callees := g.f.calleesOf[ci]
			if len(callees) != 1 {
				continue
			}
			callee := callees[0]
			if g.f.errFuncs[callee] {
				return "", true, true
			}
			if callee.Name() == "expectKeyword" && inParserPkg(g.m, callee) {
				if s, ok := constString(ci.Common().Args[1]); ok {
					return s, false, true
				}
				return "", false, false
			}
			if callee == g.m.peek || !g.f.mayConsume[callee] {
				continue
			}
			if !inParserPkg(g.m, callee) || len(callee.Blocks) == 0 {
				return "", false, false
			}
			return g.firstConsume(callee.Blocks[0], 0, depth+1)
		}
		if len(b.Succs) != 1 {
			return "", false, false
		}
		b = b.Succs[0]
		from = 0
	}
	return "", false, false
}

// keywordRule is R2.
func (g *grammarCtx) keywordRule(r *RuleResult, side string) {
	p := g.p
	nameK := g.nameKind()
	for _, fn := range g.m.fns {
		if s := g.side(fn); s != side && s != "core" {
			continue
		}
		allInstrs(fn, func(in ssa.Instruction) {
			bo, ok := in.(*ssa.BinOp)
			if !ok || (bo.Op != token.EQL && bo.Op != token.NEQ) {
				return
			}
			var kw string
			var tv ssa.Value
			if s, ok := constString(bo.Y); ok {
				kw, tv = s, bo.X
			} else if s, ok := constString(bo.X); ok {
				kw, tv = s, bo.Y
			} else if prm, ok := bo.Y.(*ssa.Parameter); ok && isStringType(prm.Type()) {
				// the keyword handed in by the caller (expectKeyword)
				kw, tv = "<"+prm.Name()+">", bo.X
			} else if prm, ok := bo.X.(*ssa.Parameter); ok && isStringType(prm.Type()) {
				kw, tv = "<"+prm.Name()+">", bo.Y
			} else {
				return
			}
			tok, fld, ok := g.tokenField(tv)
			if !ok || fld != "Value" {
				return
			}
			site := fmt.Sprintf("%s: token.Value %s %q", p.FuncName(fn), bo.Op, kw)
			src, srcCall := g.tokenSource(tok)
			// (a) expect(Name)
			if src == fmt.Sprintf("expect:%d", nameK) {
				r.OK(site, "token obtained by expect(Name)")
				return
			}
			// the branch taken on a match
			blk := in.Block()
			ifi, isIf := blk.Instrs[len(blk.Instrs)-1].(*ssa.If)
			var matchBlk *ssa.BasicBlock
			if isIf && ifi.Cond == ssa.Value(bo) {
				if bo.Op == token.EQL {
					matchBlk = blk.Succs[0]
				} else {
					matchBlk = blk.Succs[1]
				}
			}
			// (b) Kind == Name on the same look-ahead, established before
			conds := condsAt(blk)
			if matchBlk != nil {
				conds = append(conds, condsAt(matchBlk)...)
			}
			for _, cd := range conds {
				kb, ok := cd.V.(*ssa.BinOp)
				if !ok || !((kb.Op == token.EQL && cd.True) || (kb.Op == token.NEQ && !cd.True)) {
					continue
				}
				ktok, kf, ok := g.tokenField(kb.X)
				if !ok || kf != "Kind" {
					continue
				}
				if k, ok := constInt(kb.Y); !ok || k != nameK {
					continue
				}
				ksrc, kcall := g.tokenSource(ktok)
				if ktok == tok {
					r.OK(site, "Kind == Name tested on the same token")
					return
				}
				if ksrc == "peek" && src == "peek" && kcall != nil && srcCall != nil && !g.consumptionBetween(kcall, srcCall) {
					r.OK(site, "Kind == Name tested on the look-ahead, nothing consumed in between")
					return
				}
			}
			// (c) match branch re-validates with expectKeyword(kw) first, or rejects
			if matchBlk != nil {
				if w, rejects, ok := g.firstConsume(matchBlk, 0, 0); ok {
					if rejects {
						r.OK(site, "the match is rejected (error) before anything is consumed")
						return
					}
					if w == kw {
						r.OK(site, "the match branch starts with expectKeyword("+kw+")")
						return
					}
				}
			}
			// (d) the Name check sits in the callers: the token is the look-ahead, nothing is consumed in this function
			// before the comparison, and every call of this function lies under Kind == Name of the look-ahead with
			// nothing consumed between that test and the call
			if src == "peek" && srcCall != nil && fn.Parent() == nil && !g.consumedBefore(fn, srcCall) {
				calls := callsTo(g.m.fns, fn)
				okAll := len(calls) > 0
				for _, site2 := range calls {
					okSite := false
					for _, cd := range condsAt(site2.Block()) {
						kb, ok := cd.V.(*ssa.BinOp)
						if !ok || !((kb.Op == token.EQL && cd.True) || (kb.Op == token.NEQ && !cd.True)) {
							continue
						}
						ktok, kf, ok := g.tokenField(kb.X)
						if !ok || kf != "Kind" {
							continue
						}
						if k, ok := constInt(kb.Y); !ok || k != nameK {
							continue
						}
						ksrc, kcall := g.tokenSource(ktok)
						if ksrc == "peek" && kcall != nil && !g.consumptionBetween(kcall, site2) {
							okSite = true
						}
					}
					if !okSite {
						okAll = false
					}
				}
				if okAll {
					r.OK(site, "Kind == Name is tested on the look-ahead by every caller, nothing consumed in between")
					return
				}
			}
			// a value computed from the comparison but not branched on here (e.g. a && chain): look at phi users — treat as unjustified
			r.Fail(in.Pos(), p.FuncName(fn), fmt.Sprintf("token text compared with %q without a Name check", kw), fmt.Sprintf("a token whose text is %q is accepted as the keyword whatever its kind: a quoted string \"%s\" (or block string) in this position parses as the keyword, which the grammar does not allow", kw, kw))
		})
	}
}

// consumedBefore: some path from fn's entry to instruction `to` passes a call that may consume a token.
func (g *grammarCtx) consumedBefore(fn *ssa.Function, to ssa.Instruction) bool {
	found := false
	allInstrs(fn, func(in ssa.Instruction) {
		if found || in == to {
			return
		}
		ci, ok := in.(ssa.CallInstruction)
		if !ok {
			return
		}
		consumes := false
		for _, cal := range g.f.calleesOf[ci] {
			if g.f.mayConsume[cal] {
				consumes = true
			}
		}
		if !consumes {
			return
		}
		if _, ok := reachesWithout(in, func(x ssa.Instruction) bool { return x == to }, func(x ssa.Instruction) bool { return false }); ok {
			found = true
		}
	})
	return found
}

// decisionRule is R7: no branch in the parser depends on prev, positions or comments.
func (g *grammarCtx) decisionRule(r *RuleResult, side string) {
	p := g.p
	for _, fn := range g.m.fns {
		if s := g.side(fn); s != side && !(s == "core" && side == "query") {
			continue
		}
		if fn == g.m.peek || fn == g.m.next {
			continue
		}
		n := 0
		bad := false
		for _, b := range fn.Blocks {
			ifi, ok := b.Instrs[len(b.Instrs)-1].(*ssa.If)
			if !ok {
				continue
			}
			n++
			if why := g.taintedDecision(ifi.Cond, 0); why != "" {
				bad = true
				r.Fail(ifi.Pos(), p.FuncName(fn), "branch depends on "+why, fmt.Sprintf("a grammar decision depends on %s: comments, whitespace and commas between tokens change it, so whether a document parses (or what tree it gives) depends on ignored tokens", why))
			}
		}
		if !bad && n > 0 {
			r.OK(fmt.Sprintf("%s: %d branch(es)", p.FuncName(fn), n), "depend on the look-ahead, the sticky error and locals only")
		}
	}
}

func (g *grammarCtx) taintedDecision(v ssa.Value, depth int) string {
	if depth > 6 || v == nil {
		return ""
	}
	switch x := v.(type) {
	case *ssa.BinOp:
		if w := g.taintedDecision(x.X, depth+1); w != "" {
			return w
		}
		return g.taintedDecision(x.Y, depth+1)
	case *ssa.UnOp:
		if x.Op == token.MUL {
			if fa, ok := x.X.(*ssa.FieldAddr); ok {
				n, f, base, _ := fieldOf(fa)
				if n != nil && sameNamed(n, g.m.T) && f == "prev" {
					return "the previously consumed token (parser.prev)"
				}
				if n != nil && n.Obj().Name() == "Position" {
					return "a token position (Position." + f + ")"
				}
				if n != nil && sameNamed(n, g.m.T) && f == "comment" {
					return "the pending comment group (parser.comment)"
				}
				return g.taintedDecision(base, depth+1)
			}
			if a, ok := x.X.(*ssa.Alloc); ok {
				for _, s := range storesTo(a) {
					if w := g.taintedDecision(s, depth+1); w != "" {
						return w
					}
				}
			}
			return ""
		}
		return g.taintedDecision(x.X, depth+1)
	case *ssa.FieldAddr:
		n, f, base, _ := fieldOf(x)
		if n != nil && sameNamed(n, g.m.T) && f == "prev" {
			return "the previously consumed token (parser.prev)"
		}
		if n != nil && n.Obj().Name() == "Position" {
			return "a token position (Position." + f + ")"
		}
		return g.taintedDecision(base, depth+1)
	case *ssa.Field:
		n, f, base, _ := fieldOf(x)
		if n != nil && n.Obj().Name() == "Position" {
			return "a token position (Position." + f + ")"
		}
		if n != nil && sameNamed(n, g.tk) && f == "Pos" {
			return "a token position (Token.Pos)"
		}
		return g.taintedDecision(base, depth+1)
	case *ssa.Phi:
		for _, e := range x.Edges {
			if w := g.taintedDecision(e, depth+1); w != "" {
				return w
			}
		}
	case *ssa.Convert:
		return g.taintedDecision(x.X, depth+1)
	case *ssa.Call:
		if b, ok := x.Call.Value.(*ssa.Builtin); ok && b.Name() == "len" {
			return g.taintedDecision(x.Call.Args[0], depth+1)
		}
	}
	return ""
}

// constContexts: R1. Reachability over (function, value of its bool parameter) from the given roots.
func (g *grammarCtx) constContexts(r *RuleResult, roots []*ssa.Function, what string) {
	p := g.p
	// the target: construction of Value{Kind: Variable}
	varKind := int64(-1)
	if cst, ok := p.Pkgs["ast"].Types.Scope().Lookup("Variable").(*types.Const); ok {
		varKind, _ = constantInt(cst)
	}
	type target struct {
		fn    *ssa.Function
		alloc *ssa.Alloc
	}
	var targets []target
	for _, fn := range g.m.fns {
		allInstrs(fn, func(in ssa.Instruction) {
			a, ok := in.(*ssa.Alloc)
			if !ok || namedOf(a.Type()) == nil || namedOf(a.Type()).Obj().Name() != "Value" {
				return
			}
			for _, k := range fieldStores(a, "Kind") {
				if kv, ok := constInt(k); ok && kv == varKind {
					targets = append(targets, target{fn, a})
				}
			}
		})
	}
	if len(targets) == 0 {
		r.AnchorLost("the construction of ast.Value{Kind: Variable} in package parser")
		return
	}
	boolParam := func(fn *ssa.Function) int {
		for i, prm := range fn.Params {
			if b, ok := prm.Type().Underlying().(*types.Basic); ok && b.Kind() == types.Bool {
				return i
			}
		}
		return -1
	}
	// the target must be guarded by !isConst
	for _, t := range targets {
		bp := boolParam(rootFunc(t.fn))
		guarded := false
		if bp >= 0 {
			for _, cd := range condsAt(t.alloc.Block()) {
				if cd.V == ssa.Value(rootFunc(t.fn).Params[bp]) && !cd.True {
					guarded = true
				}
			}
		}
		if guarded {
			r.OK("Variable construction in "+p.FuncName(t.fn)+" is reached only with isConst=false", "")
		} else {
			r.Fail(t.alloc.Pos(), p.FuncName(t.fn), "Variable constructed regardless of the constant flag", "a variable reference is accepted in constant contexts (default values, type-system directives)")
		}
	}
	type ctxT struct {
		fn *ssa.Function
		bv int // 0 false, 1 true, 2 unknown
	}
	seen := map[ctxT][]string{}
	var work []ctxT
	for _, rt := range roots {
		cx := ctxT{rt, 2}
		seen[cx] = []string{p.FuncName(rt)}
		work = append(work, cx)
	}
	isTargetFn := map[*ssa.Function]bool{}
	for _, t := range targets {
		isTargetFn[rootFunc(t.fn)] = true
	}
	// methods used as callbacks through a bound method value (`p.many(l, r, c.addItem)` with c a local collector): like
	// a closure, such a method runs in the context of the function that created the value; its reads of the receiver's
	// fields stand for the creator's variables
	boundIn := map[*ssa.Function][]*ssa.Function{} // creator -> methods
	isBound := map[*ssa.Function]bool{}
	for _, fn := range g.m.fns {
		allInstrs(fn, func(in ssa.Instruction) {
			mc, ok := in.(*ssa.MakeClosure)
			if !ok {
				return
			}
			w := mc.Fn.(*ssa.Function)
			if m := unwrapThunk(w); m != w && inParserPkg(g.m, m) {
				boundIn[rootFunc(fn)] = append(boundIn[rootFunc(fn)], m)
				isBound[m] = true
			}
		})
	}
	// a method is treated so only when it is never called directly
	for m := range isBound {
		if len(callsTo(g.m.fns, m)) > 0 {
			// direct calls come from the $bound wrapper only when nothing else names the method
			direct := 0
			for _, ci := range callsTo(g.m.fns, m) {
				if ci.Parent().Synthetic == "" {
					direct++
				}
			}
			if direct > 0 {
				delete(isBound, m)
			}
		}
	}
	for len(work) > 0 {
		cx := work[len(work)-1]
		work = work[:len(work)-1]
		path := seen[cx]
		if isTargetFn[cx.fn] && cx.bv != 1 {
			r.Fail(cx.fn.Pos(), path[0], "non-constant context reaches Variable values: "+strings.Join(path, " -> "), fmt.Sprintf("%s: the call chain %s reaches the value parser with isConst=%s, so a `$variable` is accepted where the grammar requires a constant", what, strings.Join(path, " -> "), map[int]string{0: "false", 2: "unknown"}[cx.bv]))
			continue
		}
		// calls in fn and in its closures (closures inherit the binding)
		scopeFns := withClosures(cx.fn)
		for _, m := range boundIn[cx.fn] {
			if isBound[m] {
				scopeFns = append(scopeFns, withClosures(m)...)
			}
		}
		for _, f := range scopeFns {
			allInstrs(f, func(in ssa.Instruction) {
				ci, ok := in.(ssa.CallInstruction)
				if !ok {
					return
				}
				for _, callee := range g.f.calleesOf[ci] {
					if !inParserPkg(g.m, callee) || callee.Parent() != nil || isBound[callee] {
						continue
					}
					nb := 2
					if bi := boolParam(callee); bi >= 0 {
						a := ci.Common().Args[bi]
						switch x := a.(type) {
						case *ssa.Const:
							if x.Value != nil && x.Value.String() == "true" {
								nb = 1
							} else {
								nb = 0
							}
						case *ssa.Parameter:
							nb = cx.bv
						case *ssa.FreeVar:
							nb = cx.bv
						case *ssa.UnOp:
							// load of a captured variable
							nb = cx.bv
						}
					}
					nc := ctxT{callee, nb}
					if _, ok := seen[nc]; !ok {
						seen[nc] = append(append([]string{}, path...), fmt.Sprintf("%s(%s)", p.FuncName(callee), map[int]string{0: "false", 1: "true", 2: "-"}[nb]))
						work = append(work, nc)
					}
				}
			})
		}
	}
	r.OK(fmt.Sprintf("%s: %d (function, isConst) contexts explored", what, len(seen)), "none reaches the value parser with isConst != true")
}

// listRule is R3.
func (g *grammarCtx) listRule(r *RuleResult) {
	p := g.p
	many, some := p.Func("parser.(*parser).many"), p.Func("parser.(*parser).some")
	if many == nil || some == nil {
		r.AnchorLost("parser.many / parser.some")
		return
	}
	lk, ok1 := p.Pkgs["ast"].Types.Scope().Lookup("ListValue").(*types.Const)
	ov, ok2 := p.Pkgs["ast"].Types.Scope().Lookup("ObjectValue").(*types.Const)
	if !ok1 || !ok2 {
		r.AnchorLost("ast.ListValue / ast.ObjectValue")
		return
	}
	lkv, _ := constantInt(lk)
	okv, _ := constantInt(ov)
	for _, ci := range callsTo(g.m.fns, many) {
		fn := ci.Parent()
		builds := false
		allInstrs(fn, func(in ssa.Instruction) {
			if a, ok := in.(*ssa.Alloc); ok && namedOf(a.Type()) != nil && namedOf(a.Type()).Obj().Name() == "Value" {
				for _, k := range fieldStores(a, "Kind") {
					if kv, ok := constInt(k); ok && (kv == lkv || kv == okv) {
						builds = true
					}
				}
			}
		})
		if builds {
			r.OK("many(...) in "+p.FuncName(fn), "builds a list or object value (may be empty)")
		} else {
			r.Fail(ci.Pos(), p.FuncName(fn), "possibly-empty repetition outside list/object values", "`many` accepts an empty delimited list; the grammar allows that only for list and object values — every other (...) or {...} needs at least one member")
		}
	}
	n := len(callsTo(g.m.fns, some))
	if n < 6 {
		r.Fail(some.Pos(), p.FuncName(some), "few uses of some", fmt.Sprintf("only %d delimited repetitions use the non-empty helper (10 confirmed by hand; the floor is half of that plus one)", n))
	} else {
		r.OK(fmt.Sprintf("%d delimited repetitions use the non-empty helper", n), "")
	}
	// some: the emptiness error is decided by a local flag set in the loop
	var errCalls []ssa.CallInstruction
	allInstrs(some, func(in ssa.Instruction) {
		if ci, ok := in.(ssa.CallInstruction); ok {
			for _, callee := range g.f.calleesOf[ci] {
				if g.f.errFuncs[callee] {
					errCalls = append(errCalls, ci)
				}
			}
		}
	})
	if len(errCalls) == 0 {
		r.Fail(some.Pos(), p.FuncName(some), "no emptiness error", "`some` no longer rejects an empty list")
		return
	}
	okFlag := false
	for _, ec := range errCalls {
		for _, cd := range condsAt(ec.Block()) {
			var ph ssa.Value
			switch x := cd.V.(type) {
			case *ssa.BinOp:
				// the counter form: `n == 0` where n is 0 before the loop and is incremented after each call of the callback
				cnt, isPhi := x.X.(*ssa.Phi)
				zero, isZero := constInt(x.Y)
				empty := (x.Op == token.EQL && cd.True) || ((x.Op == token.NEQ || x.Op == token.GTR) && !cd.True)
				if isPhi && isZero && zero == 0 && empty {
					startsAtZero, countsCalls := false, false
					for _, e := range cnt.Edges {
						if k, ok := constInt(e); ok && k == 0 {
							startsAtZero = true
						}
						if add, ok := e.(*ssa.BinOp); ok && add.Op == token.ADD && add.X == ssa.Value(cnt) {
							if k, ok := constInt(add.Y); ok && k >= 1 {
								allInstrs(some, func(in ssa.Instruction) {
									if ci, ok := in.(ssa.CallInstruction); ok {
										if _, isPrm := ci.Common().Value.(*ssa.Parameter); isPrm && in.Block().Dominates(add.Block()) {
											countsCalls = true
										}
									}
								})
							}
						}
					}
					if startsAtZero && countsCalls && len(cnt.Edges) == 2 {
						okFlag = true
					}
				}
			case *ssa.Phi:
				ph = x
			case *ssa.Call:
				// the flag comes back from the helper that runs the loop (`called := p.repeatUntil(end, cb)`)
				if h := x.Call.StaticCallee(); h != nil && inParserPkg(g.m, h) && len(h.Blocks) > 0 && h.Signature.Results().Len() == 1 {
					ph = x
				}
			}
			if ph == nil {
				continue
			}
			// phi(false from before the loop, true from the loop body)
			hasFalse, hasTrue := false, false
			var walk func(v ssa.Value, d int)
			walk = func(v ssa.Value, d int) {
				if d > 3 {
					return
				}
				switch x := v.(type) {
				case *ssa.Const:
					if x.Value != nil && x.Value.String() == "true" {
						hasTrue = true
					} else {
						hasFalse = true
					}
				case *ssa.Phi:
					for _, e := range x.Edges {
						if e != v {
							walk(e, d+1)
						}
					}
				case *ssa.Call:
					if h := x.Call.StaticCallee(); h != nil {
						for _, ret := range returnsOf(h) {
							if len(ret.Results) == 1 {
								walk(ret.Results[0], d+1)
							}
						}
					}
				}
			}
			walk(ph, 0)
			if hasFalse && hasTrue && !cd.True {
				okFlag = true
			}
		}
	}
	if !okFlag {
		// the other sound shape: the error is decided from the look-ahead before any member is parsed, and no other
		// return is reached without a member having been parsed (except when the opening token was absent)
		var cbBlocks = map[*ssa.BasicBlock]bool{}
		allInstrs(some, func(in ssa.Instruction) {
			if ci, ok := in.(ssa.CallInstruction); ok {
				if _, isPrm := ci.Common().Value.(*ssa.Parameter); isPrm {
					cbBlocks[in.Block()] = true
				}
			}
		})
		okShape := len(cbBlocks) > 0
		errBlocks := map[*ssa.BasicBlock]bool{}
		// the calls that record the emptiness error themselves (not helpers that may fail for other reasons)
		var direct []ssa.CallInstruction
		for _, ec := range errCalls {
			for _, callee := range g.f.calleesOf[ec] {
				if callee == g.m.next {
					continue
				}
				stores := false
				allInstrs(callee, func(in ssa.Instruction) {
					if st, ok := in.(*ssa.Store); ok && g.m.fieldAddr(st.Addr, "err") {
						stores = true
					}
				})
				if stores {
					direct = append(direct, ec)
				}
			}
		}
		if len(direct) == 0 {
			okShape = false
		}
		for _, ec := range direct {
			errBlocks[ec.Block()] = true
			for cb := range cbBlocks {
				if reachAvoiding(cb, nil, nil)[ec.Block()] {
					okShape = false // a member was parsed and the list is still called empty
				}
			}
		}
		noMember := reachAvoiding(some.Blocks[0], func(b *ssa.BasicBlock) bool { return cbBlocks[b] }, nil)
		for b := range noMember {
			if _, isRet := b.Instrs[len(b.Instrs)-1].(*ssa.Return); !isRet {
				continue
			}
			viaErr := false
			for eb := range errBlocks {
				if eb.Dominates(b) {
					viaErr = true
				}
			}
			absent := false
			for _, cd := range condsAt(b) {
				if !cd.True && g.f.isConsumePredResult(cd.V) {
					absent = true // the opening token was not there
				}
			}
			if !viaErr && !absent {
				okShape = false
			}
		}
		if okShape {
			okFlag = true
		}
	}
	if okFlag {
		r.OK("some: the empty-list error is decided before a member is parsed or by a local flag set in the loop body", "")
	} else {
		r.Fail(errCalls[0].Pos(), p.FuncName(some), "emptiness not decided by a loop-local flag", "whether the list was empty is not decided by a flag that the loop body sets: deciding it from parser state (e.g. the last consumed token) lets a comment between the delimiters count as a member")
	}
}

// droppedRule is R5.
func (g *grammarCtx) droppedRule(r *RuleResult, side string) {
	p := g.p
	isNodePtr := func(t types.Type) bool {
		if pt, ok := t.Underlying().(*types.Pointer); ok {
			if n := namedOf(pt.Elem()); n != nil && n.Obj().Pkg() != nil && strings.HasSuffix(n.Obj().Pkg().Path(), "/ast") {
				_, isS := n.Underlying().(*types.Struct)
				return isS
			}
		}
		if n := namedOf(t); n != nil && n.Obj().Pkg() != nil && strings.HasSuffix(n.Obj().Pkg().Path(), "/ast") {
			switch n.Underlying().(type) {
			case *types.Slice, *types.Interface:
				return true
			}
		}
		return false
	}
	for _, fn := range g.m.fns {
		if s := g.side(fn); s != side {
			continue
		}
		allInstrs(fn, func(in ssa.Instruction) {
			call, ok := in.(*ssa.Call)
			if !ok {
				return
			}
			callee := call.Call.StaticCallee()
			if callee == nil || !inParserPkg(g.m, callee) || callee.Signature.Results().Len() == 0 {
				return
			}
			if !strings.HasPrefix(callee.Name(), "parse") {
				return
			}
			res := callee.Signature.Results()
			var vals []ssa.Value
			if res.Len() == 1 {
				if !isNodePtr(res.At(0).Type()) {
					return
				}
				vals = []ssa.Value{call}
			} else {
				for _, ref := range *call.Referrers() {
					if ex, ok := ref.(*ssa.Extract); ok && isNodePtr(res.At(ex.Index).Type()) {
						vals = append(vals, ex)
					}
				}
				if len(vals) == 0 && isNodePtr(res.At(0).Type()) {
					r.Fail(in.Pos(), p.FuncName(fn), "result of "+p.FuncName(callee)+" dropped", "a parsed piece is thrown away")
					return
				}
			}
			for _, v := range vals {
				used := false
				contentTest := ""
				for _, ref := range *v.Referrers() {
					switch x := ref.(type) {
					case *ssa.Store:
						if x.Val == v {
							used = true
						}
					case *ssa.Return, *ssa.Phi, *ssa.MakeInterface, *ssa.ChangeType:
						used = true
					case ssa.CallInstruction:
						used = true
					case *ssa.FieldAddr:
						// reading a field of the fresh result: is it in a branch condition?
						for _, r2 := range *x.Referrers() {
							if u, ok := r2.(*ssa.UnOp); ok {
								for _, r3 := range *u.Referrers() {
									if bo, ok := r3.(*ssa.BinOp); ok {
										_, f, _, _ := fieldOf(x)
										contentTest = f + " " + bo.Op.String()
									}
								}
							}
						}
					}
				}
				site := "result of " + p.FuncName(callee) + " in " + p.FuncName(fn)
				switch {
				case contentTest != "":
					r.Fail(in.Pos(), p.FuncName(fn), "content test on the result of "+p.FuncName(callee)+" ("+contentTest+")", "what the parser keeps of a parsed piece depends on the piece's content: some written values (e.g. an explicit null) are dropped from the tree")
				case !used:
					r.Fail(in.Pos(), p.FuncName(fn), "result of "+p.FuncName(callee)+" dropped", "a parsed piece is neither stored, appended nor returned")
				default:
					r.OK(site, "stored / appended / returned")
				}
			}
		})
	}
}

func runC05(c *Ctx) {
	r1 := c.Rule("R1", "variable definitions are constant contexts; Variable values only outside constant contexts", 3)
	g := newGrammarCtx(c, r1)
	if g == nil {
		return
	}
	p := c.P
	// the function that builds VariableDefinition
	var vdFn *ssa.Function
	for _, fn := range g.m.fns {
		allInstrs(fn, func(in ssa.Instruction) {
			if a, ok := in.(*ssa.Alloc); ok && namedOf(a.Type()) != nil && namedOf(a.Type()).Obj().Name() == "VariableDefinition" {
				if _, isS := a.Type().Underlying().(*types.Pointer).Elem().Underlying().(*types.Struct); isS {
					vdFn = fn
				}
			}
		})
	}
	if vdFn == nil {
		r1.AnchorLost("the function constructing ast.VariableDefinition")
	} else {
		allInstrs(vdFn, func(in ssa.Instruction) {
			ci, ok := in.(ssa.CallInstruction)
			if !ok {
				return
			}
			callee := ci.Common().StaticCallee()
			if callee == nil || !inParserPkg(g.m, callee) {
				return
			}
			for i, prm := range callee.Params {
				if b, ok := prm.Type().Underlying().(*types.Basic); ok && b.Kind() == types.Bool {
					if cst, ok := ci.Common().Args[i].(*ssa.Const); ok && cst.Value != nil && cst.Value.String() == "true" {
						r1.OK(p.FuncName(vdFn)+": "+p.FuncName(callee)+"(isConst=true)", "")
					} else {
						r1.Fail(ci.Pos(), p.FuncName(vdFn), p.FuncName(callee)+" called with isConst != true", "inside a variable definition (default value, directives) the grammar requires constants: `query($a: Int @d(x: $b))` would be accepted")
					}
				}
			}
		})
	}
	g.constContexts(r1, nil, "query grammar")

	r2 := c.Rule("R2", "keywords are names (query parser)", 8)
	g.keywordRule(r2, "query")
	r3 := c.Rule("R3", "only list and object values may be empty", 3)
	g.listRule(r3)
	r5 := c.Rule("R5", "no parsed piece is dropped (query parser)", 20)
	g.droppedRule(r5, "query")
	r7 := c.Rule("R7", "decisions do not depend on ignored tokens (query parser and parser core)", 15)
	g.decisionRule(r7, "query")
	r8 := c.Rule("R8", "no write through a pointer into a parser buffer that may have moved", 2)
	staleInteriorRule(g, r8)
	r9 := c.Rule("R9", "next() is called only on a peeked token (query parser and parser core)", 1)
	g.peekedBeforeNext(r9, map[string]bool{"query": true, "core": true})
	r10 := c.Rule("R10", "a list built in a buffer of the parser struct leaves it only as a capacity-clipped window or a copy", 1)
	g.sharedBufferWindows(r10)
}

func runC06(c *Ctx) {
	r1 := c.Rule("R1", "the type-system grammar is a constant context", 2)
	g := newGrammarCtx(c, r1)
	if g == nil {
		return
	}
	p := c.P
	psd := p.Func("parser.(*parser).parseSchemaDocument")
	if psd == nil {
		r1.AnchorLost("parser.parseSchemaDocument")
		return
	}
	g.constContexts(r1, []*ssa.Function{psd}, "type-system grammar")

	r2 := c.Rule("R2", "keywords are names (schema parser)", 30)
	g.keywordRule(r2, "schema")
	r3 := c.Rule("R3", "only list and object values may be empty", 3)
	g.listRule(r3)

	r4 := c.Rule("R4", "definition / extension / twin agreement", 8)
	g.siblingRule(r4)

	r5 := c.Rule("R5", "no parsed piece is dropped (schema parser)", 40)
	g.droppedRule(r5, "schema")

	r6 := c.Rule("R6", "BuiltIn is copied to every definition and extension on every success path", 2)
	g.builtInRule(r6)

	r7 := c.Rule("R7", "decisions do not depend on ignored tokens (schema parser)", 20)
	g.decisionRule(r7, "schema")
	r8 := c.Rule("R8", "next() is called only on a peeked token (schema parser)", 1)
	g.peekedBeforeNext(r8, map[string]bool{"schema": true})
	r9 := c.Rule("R9", "no write through a pointer into a parser buffer that may have moved", 2)
	staleInteriorRule(g, r9)
	r10 := c.Rule("R10", "a list built in a buffer of the parser struct leaves it only as a capacity-clipped window or a copy", 1)
	g.sharedBufferWindows(r10)
}

// subParsers: the parse*/some-closure calls a production makes, as names (order-insensitive).
func (g *grammarCtx) subParsers(fn *ssa.Function) map[string]bool {
	out := map[string]bool{}
	allInstrs(fn, func(in ssa.Instruction) {
		ci, ok := in.(ssa.CallInstruction)
		if !ok {
			return
		}
		callee := ci.Common().StaticCallee()
		if callee == nil || !inParserPkg(g.m, callee) {
			return
		}
		nm := callee.Name()
		if strings.HasPrefix(nm, "parse") {
			s := nm
			for i, prm := range callee.Params {
				if b, ok := prm.Type().Underlying().(*types.Basic); ok && b.Kind() == types.Bool {
					if cst, ok := ci.Common().Args[i].(*ssa.Const); ok {
						s += "(" + cst.Value.String() + ")"
					}
				}
			}
			out[s] = true
		}
		if nm == "some" || nm == "many" {
			// the closure's own sub-parsers
			if mc, ok := ci.Common().Args[3].(*ssa.MakeClosure); ok {
				for k := range g.subParsers(unwrapThunk(mc.Fn.(*ssa.Function))) {
					out[nm+"{"+k+"}"] = true
				}
			}
		}
	})
	return out
}

func (g *grammarCtx) siblingRule(r *RuleResult) {
	p := g.p
	// group schema productions by the Kind constant they store into a Definition, or by building a SchemaDefinition
	type prod struct {
		fn    *ssa.Function
		isExt bool
	}
	groups := map[string][]prod{}
	for _, fn := range g.m.fns {
		if fn.Parent() != nil || g.side(fn) != "schema" {
			continue
		}
		key := ""
		allInstrs(fn, func(in ssa.Instruction) {
			a, ok := in.(*ssa.Alloc)
			if !ok || namedOf(a.Type()) == nil {
				return
			}
			switch namedOf(a.Type()).Obj().Name() {
			case "Definition":
				for _, k := range fieldStores(a, "Kind") {
					if s, ok := constString(k); ok {
						key = "Definition:" + s
					}
				}
			case "SchemaDefinition":
				key = "SchemaDefinition"
			}
		})
		if key == "" {
			continue
		}
		// extension: takes a *CommentGroup parameter instead of a description
		isExt := true
		for _, prm := range fn.Params {
			if n := namedOf(prm.Type()); n != nil && n.Obj().Name() == "descriptionWithComment" {
				isExt = false
			}
		}
		groups[key] = append(groups[key], prod{fn, isExt})
	}
	var keys []string
	for k := range groups {
		keys = append(keys, k)
	}
	sort.Strings(keys)
	for _, k := range keys {
		var def, ext *ssa.Function
		for _, pr := range groups[k] {
			if pr.isExt {
				ext = pr.fn
			} else {
				def = pr.fn
			}
		}
		if def == nil || ext == nil {
			r.Fail(token.NoPos, "parser", "no definition/extension pair for "+k, "a type-system construct has a definition parser without an extension parser (or the reverse)")
			continue
		}
		sd, se := g.subParsers(def), g.subParsers(ext)
		var diff []string
		for s := range sd {
			if !se[s] {
				diff = append(diff, "definition only: "+s)
			}
		}
		for s := range se {
			if !sd[s] {
				diff = append(diff, "extension only: "+s)
			}
		}
		sort.Strings(diff)
		if len(diff) > 0 {
			r.Fail(ext.Pos(), p.FuncName(ext), "extension differs from "+p.FuncName(def)+": "+strings.Join(diff, "; "), fmt.Sprintf("`extend` of this kind does not parse the same optional parts as the definition (%s): a valid extension is rejected or a part is parsed under the wrong rules", strings.Join(diff, "; ")))
			continue
		}
		// the emptiness test mentions exactly the list fields the extension fills
		filled := map[string]bool{}
		tested := map[string]bool{}
		allInstrs(ext, func(in ssa.Instruction) {
			switch x := in.(type) {
			case *ssa.Store:
				if fa, ok := x.Addr.(*ssa.FieldAddr); ok {
					_, f, _, _ := fieldOf(fa)
					if _, isSlice := fa.Type().(*types.Pointer).Elem().Underlying().(*types.Slice); isSlice {
						filled[f] = true
					}
				}
			case *ssa.BinOp:
				if call, ok := x.X.(*ssa.Call); ok {
					if b, ok := call.Call.Value.(*ssa.Builtin); ok && b.Name() == "len" {
						if _, f, ok := fieldLoadOf(call.Call.Args[0]); ok {
							tested[f] = true
						}
					}
				}
			}
		})
		// helpers that are handed the node and fill its lists themselves (`p.parseFieldsDefinition(&def)`)
		{
			seenH := map[*ssa.Function]bool{}
			var viaHelper func(fn *ssa.Function, depth int)
			viaHelper = func(fn *ssa.Function, depth int) {
				allInstrs(fn, func(in ssa.Instruction) {
					ci, ok := in.(ssa.CallInstruction)
					if !ok {
						return
					}
					h := ci.Common().StaticCallee()
					if h == nil || seenH[h] || !inParserPkg(g.m, h) || len(h.Blocks) == 0 || depth > 2 {
						return
					}
					for i, a := range ci.Common().Args {
						pt, isPtr := a.Type().Underlying().(*types.Pointer)
						if !isPtr {
							continue
						}
						if _, isStruct := pt.Elem().Underlying().(*types.Struct); !isStruct || namedOf(pt.Elem()) == nil || namedOf(pt.Elem()).Obj().Name() == "parser" {
							continue
						}
						if i >= len(h.Params) {
							continue
						}
						prm := h.Params[i]
						seenH[h] = true
						allInstrs(h, func(in2 ssa.Instruction) {
							if x, ok := in2.(*ssa.Store); ok {
								if fa, ok := x.Addr.(*ssa.FieldAddr); ok && stripChange(fa.X) == ssa.Value(prm) {
									_, f, _, _ := fieldOf(fa)
									if _, isSlice := fa.Type().(*types.Pointer).Elem().Underlying().(*types.Slice); isSlice {
										filled[f] = true
									}
								}
							}
						})
						viaHelper(h, depth+1)
					}
				})
			}
			viaHelper(ext, 0)
		}
		// closures append to def.OperationTypes etc.
		for _, cl := range ext.AnonFuncs {
			allInstrs(cl, func(in ssa.Instruction) {
				if x, ok := in.(*ssa.Store); ok {
					if fa, ok := x.Addr.(*ssa.FieldAddr); ok {
						_, f, _, _ := fieldOf(fa)
						if _, isSlice := fa.Type().(*types.Pointer).Elem().Underlying().(*types.Slice); isSlice {
							filled[f] = true
						}
					}
				}
			})
		}
		var d2 []string
		for f := range filled {
			if !tested[f] {
				d2 = append(d2, "filled but not tested: "+f)
			}
		}
		for f := range tested {
			if !filled[f] {
				d2 = append(d2, "tested but not filled: "+f)
			}
		}
		sort.Strings(d2)
		if len(d2) > 0 {
			r.Fail(ext.Pos(), p.FuncName(ext), "nothing-extended test: "+strings.Join(d2, "; "), "the test that an extension extends something does not mention exactly the parts the extension can carry")
			continue
		}
		r.OK(p.FuncName(def)+" ~ "+p.FuncName(ext), fmt.Sprintf("%d sub-parsers agree; emptiness test covers %d lists", len(sd), len(filled)))
	}
	// twins: argument definitions and input value definitions are the same production (InputValueDefinition)
	a, b := p.Func("parser.(*parser).parseArgumentDef"), p.Func("parser.(*parser).parseInputValueDef")
	if a == nil || b == nil {
		r.AnchorLost("parser.parseArgumentDef / parseInputValueDef")
	} else {
		sa, sb := g.productionShape(a), g.productionShape(b)
		if sa == sb {
			r.OK("parseArgumentDef ~ parseInputValueDef", "same calls, same stored fields, same branch structure")
		} else {
			r.Fail(a.Pos(), p.FuncName(a), "twin productions differ", fmt.Sprintf("argument definitions and input fields are the same grammar production (InputValueDefinition) but are parsed differently:\n  %s\n  %s", sa, sb))
		}
	}
}

// productionShape: a canonical rendering of calls, stores and branch count of a production.
func (g *grammarCtx) productionShape(fn *ssa.Function) string {
	var parts []string
	nIf := 0
	allInstrs(fn, func(in ssa.Instruction) {
		switch x := in.(type) {
		case ssa.CallInstruction:
			if callee := x.Common().StaticCallee(); callee != nil && inParserPkg(g.m, callee) {
				s := "call " + callee.Name()
				for _, a := range x.Common().Args {
					if cst, ok := a.(*ssa.Const); ok && cst.Value != nil {
						s += " " + cst.Value.String()
					}
				}
				parts = append(parts, s)
			}
		case *ssa.Store:
			if fa, ok := x.Addr.(*ssa.FieldAddr); ok {
				_, f, _, _ := fieldOf(fa)
				parts = append(parts, "store "+f)
			}
		case *ssa.If:
			nIf++
			parts = append(parts, "if "+guardDesc(normCond(Cond{V: x.Cond, True: true})))
		}
	})
	return strings.Join(parts, "; ")
}

// builtInRule is R6.
func (g *grammarCtx) builtInRule(r *RuleResult) {
	p := g.p
	defT := p.LookupType("ast", "Definition")
	// marking functions: functions of package parser that store Definition.BuiltIn
	marking := map[*ssa.Function]bool{}
	for _, s := range storesToField(g.m.fns, defT, "BuiltIn") {
		marking[rootFunc(s.fn)] = true
	}
	if len(marking) == 0 {
		r.AnchorLost("a function of package parser that stores Definition.BuiltIn")
		return
	}
	isEP := map[*ssa.Function]bool{}
	for _, e := range g.m.eps {
		isEP[e] = true
	}
	// every schema entry point marks, calls a marking function, or delegates to another entry point
	var reaches func(fn *ssa.Function, seen map[*ssa.Function]bool) bool
	reaches = func(fn *ssa.Function, seen map[*ssa.Function]bool) bool {
		if marking[fn] {
			return true
		}
		if seen[fn] {
			return false
		}
		seen[fn] = true
		ok := false
		allInstrs(fn, func(in ssa.Instruction) {
			if ci, isC := in.(ssa.CallInstruction); isC {
				callees := []*ssa.Function{ci.Common().StaticCallee()}
				if callees[0] == nil && !ci.Common().IsInvoke() {
					// a choice among functions: every one of them must do
					callees, _ = funcChoice(ci.Common().Value, 0)
				}
				all := len(callees) > 0
				for _, callee := range callees {
					if callee == nil || !inParserPkg(g.m, callee) || !((isEP[callee] && callee != fn) || reaches(callee, seen)) {
						all = false
					}
				}
				if all {
					ok = true
				}
			}
		})
		return ok
	}
	for _, fn := range g.m.eps {
		res := namedOf(fn.Signature.Results().At(0).Type())
		if res == nil || res.Obj().Name() != "SchemaDocument" {
			continue
		}
		if reaches(fn, map[*ssa.Function]bool{}) {
			r.OK(p.FuncName(fn)+" marks built-in definitions (itself, through a helper, or by delegation)", "")
		} else {
			r.Fail(fn.Pos(), p.FuncName(fn), "BuiltIn never copied", "definitions parsed from a built-in source are not marked built-in")
		}
	}
	for fn := range marking {
		sts := storesToField([]*ssa.Function{fn}, defT, "BuiltIn")
		loops := map[string]*ssa.BasicBlock{}
		for _, s := range sts {
			if !loadOfField(s.store.Val, "Source", "BuiltIn") {
				r.Fail(s.store.Pos(), p.FuncName(fn), "BuiltIn not copied from the source", "the built-in flag stored on a definition is not the source's")
				continue
			}
			base := unspill(s.addr.X)
			which := ""
			if u, ok := base.(*ssa.UnOp); ok {
				if ia, ok := u.X.(*ssa.IndexAddr); ok {
					if _, f, ok := fieldLoadOf(ia.X); ok {
						which = f
					}
				}
			}
			if which != "" {
				loops[which] = s.store.Block()
			}
		}
		for _, lst := range []string{"Definitions", "Extensions"} {
			blk, ok := loops[lst]
			if !ok {
				r.Fail(fn.Pos(), p.FuncName(fn), "no BuiltIn marking loop over "+lst, "entries of SchemaDocument."+lst+" from a built-in source are not marked built-in")
				continue
			}
			_, bodies := loopsOf(fn)
			var hdr *ssa.BasicBlock
			for h, body := range bodies {
				if body[blk] && (hdr == nil || len(body) < len(bodies[hdr])) {
					hdr = h
				}
			}
			if hdr == nil {
				r.Fail(fn.Pos(), p.FuncName(fn), "BuiltIn marking of "+lst+" is not in a loop", "only one entry is marked")
				continue
			}
			exempt := func(from, to *ssa.BasicBlock) bool {
				ifi, ok := from.Instrs[len(from.Instrs)-1].(*ssa.If)
				if !ok {
					return false
				}
				cd := normCond(Cond{V: ifi.Cond, True: true})
				if !loadOfField(cd.V, "Source", "BuiltIn") {
					return false
				}
				if cd.True {
					return to == from.Succs[1]
				}
				return to == from.Succs[0]
			}
			rr := reachAvoiding(fn.Blocks[0], func(b *ssa.BasicBlock) bool { return b == hdr }, exempt)
			skipped := false
			for b := range rr {
				if ret, ok := b.Instrs[len(b.Instrs)-1].(*ssa.Return); ok && len(ret.Results) > 0 && !isNilConst(ret.Results[0]) {
					skipped = true
				}
			}
			if !skipped {
				for _, s := range sts {
					if s.store.Block() == blk && canSkip(s.store, nil) {
						skipped = true
					}
				}
			}
			if skipped {
				r.Fail(blk.Instrs[0].Pos(), p.FuncName(fn), "BuiltIn marking of "+lst+" can be skipped", "a document parsed from a built-in source can be returned without its "+lst+" being marked built-in (a path avoids the marking loop although the source's flag may be true)")
			} else {
				r.OK(p.FuncName(fn)+": every entry of "+lst+" gets source.BuiltIn on every success path", "")
			}
		}
	}
}
