package main

import (
	"fmt"
	"go/token"
	"go/types"
	"reflect"
	"sort"
	"strings"

	"golang.org/x/tools/go/ssa"
)

func init() {
	register("C19", "JSON shape analysis of the executable AST: (R1) the selection discriminator in ast.UnmarshalSelectionSet is injective on the statically computed key sets of the three selection kinds; (R2) every struct holding a Selection-typed field routes that key through UnmarshalSelectionSet; (R3) every custom decoder writes every JSON-visible field of its struct under the key of the same name; (R4) no other interface/func/chan type is JSON-visible from QueryDocument. Decides the structural half of the round trip (kinds and key routing); value equality of leaves is left to encoding/json.", runC19)
}

type jsonKey struct {
	Name     string
	Field    *types.Var
	Optional bool // omitempty: the key may be absent
}

// jsonKeys computes the keys encoding/json emits for a struct type (no embedded-struct promotion is needed in this code base; an embedded field is reported as undecidable).
func jsonKeys(st *types.Struct) (keys []jsonKey, embedded bool) {
	for i := 0; i < st.NumFields(); i++ {
		f := st.Field(i)
		if !f.Exported() {
			continue
		}
		if f.Embedded() {
			embedded = true
		}
		tag := reflect.StructTag(st.Tag(i)).Get("json")
		if tag == "-" {
			continue
		}
		name := f.Name()
		opt := false
		if tag != "" {
			parts := strings.Split(tag, ",")
			if parts[0] != "" {
				name = parts[0]
			}
			for _, o := range parts[1:] {
				if o == "omitempty" || o == "omitzero" {
					opt = true
				}
			}
		}
		keys = append(keys, jsonKey{Name: name, Field: f, Optional: opt})
	}
	return
}

type tri int

const (
	triF tri = iota
	triT
	triU
)

func (t tri) not() tri {
	switch t {
	case triF:
		return triT
	case triT:
		return triF
	}
	return triU
}

func runC19(c *Ctx) {
	p := c.P
	astPkg := p.Pkgs["ast"]
	if astPkg == nil {
		c.Rule("R0", "anchors", 1).AnchorLost("package ast")
		return
	}
	selIface := p.LookupType("ast", "Selection")
	qd := p.LookupType("ast", "QueryDocument")
	r1 := c.Rule("R1", "selection discriminator is injective: a branch of UnmarshalSelectionSet that produces kind A is unreachable for the encoding of every other kind B, and reachable for A's own", 6)
	if selIface == nil || qd == nil {
		r1.AnchorLost("ast.Selection / ast.QueryDocument")
		return
	}
	iface := selIface.Underlying().(*types.Interface)

	// implementers of Selection (pointer receivers) among ast's named struct types
	var kinds []*types.Named
	scope := astPkg.Types.Scope()
	for _, n := range scope.Names() {
		tn, ok := scope.Lookup(n).(*types.TypeName)
		if !ok {
			continue
		}
		named, ok := tn.Type().(*types.Named)
		if !ok {
			continue
		}
		if _, ok := named.Underlying().(*types.Struct); !ok {
			continue
		}
		if types.Implements(types.NewPointer(named), iface) {
			kinds = append(kinds, named)
		}
	}
	sort.Slice(kinds, func(i, j int) bool { return kinds[i].Obj().Name() < kinds[j].Obj().Name() })
	keySets := map[*types.Named]map[string]tri{}
	for _, k := range kinds {
		ks, emb := jsonKeys(k.Underlying().(*types.Struct))
		if emb {
			r1.Undecided(k.Obj().Pos(), k.Obj().Name(), "embedded field", "embedded struct fields change the encoded key set; not modelled")
		}
		m := map[string]tri{}
		for _, x := range ks {
			if x.Optional {
				m[x.Name] = triU
			} else {
				m[x.Name] = triT
			}
		}
		keySets[k] = m
		if hasMethod(k, "MarshalJSON") {
			r1.Undecided(k.Obj().Pos(), k.Obj().Name(), "custom MarshalJSON", "the encoded key set of a type with a custom encoder is not computed")
		}
	}
	c.Extra["selection_kinds"] = func() (s []string) {
		for _, k := range kinds {
			var ks []string
			for n, t := range keySets[k] {
				if t == triU {
					n += "?"
				}
				ks = append(ks, n)
			}
			sort.Strings(ks)
			s = append(s, k.Obj().Name()+"{"+strings.Join(ks, ",")+"}")
		}
		return
	}()

	fn := p.Func("ast.UnmarshalSelectionSet")
	if fn == nil {
		r1.AnchorLost("ast.UnmarshalSelectionSet")
	} else {
		c19Discriminator(c, r1, fn, kinds, keySets, iface)
	}

	// ---- R2/R3/R4 over the types JSON-reachable from QueryDocument
	r2 := c.Rule("R2", "every struct with a Selection-typed JSON field has a custom decoder that stores the result of UnmarshalSelectionSet into that field", 4)
	r3 := c.Rule("R3", "a custom decoder writes every JSON-visible field of its struct, under a comparison of the key with that field's JSON name", 20)
	r4 := c.Rule("R4", "no interface/func/chan type other than Selection is JSON-visible from QueryDocument", 10)

	seen := map[types.Type]bool{}
	var structs []*types.Named
	var walk func(t types.Type, path string)
	walk = func(t types.Type, path string) {
		if seen[t] {
			return
		}
		seen[t] = true
		switch x := t.(type) {
		case *types.Named:
			if x == selIface {
				for _, k := range kinds {
					walk(k, k.Obj().Name())
				}
				return
			}
			if st, ok := x.Underlying().(*types.Struct); ok {
				structs = append(structs, x)
				ks, _ := jsonKeys(st)
				for _, k := range ks {
					if !containsIface(k.Field.Type(), selIface, map[types.Type]bool{}) {
						r4.OK(x.Obj().Name()+"."+k.Name+" "+types.TypeString(k.Field.Type(), func(*types.Package) string { return "" }), "decodable by encoding/json")
					}
					walk(k.Field.Type(), x.Obj().Name()+"."+k.Name)
				}
				return
			}
			walk(x.Underlying(), path)
		case *types.Pointer:
			walk(x.Elem(), path)
		case *types.Slice:
			walk(x.Elem(), path)
		case *types.Array:
			walk(x.Elem(), path)
		case *types.Map:
			walk(x.Elem(), path)
		case *types.Interface, *types.Signature, *types.Chan:
			r4.Fail(token.NoPos, "types", path, fmt.Sprintf("JSON-visible value of type %s at %s cannot be decoded back by encoding/json", t, path))
		}
	}
	walk(qd, "QueryDocument")
	sort.Slice(structs, func(i, j int) bool { return structs[i].Obj().Name() < structs[j].Obj().Name() })

	uss := p.Func("ast.UnmarshalSelectionSet")
	analysed := map[*ssa.Function]bool{}
	defer func() { c19Extra(c, structs, seen, analysed) }()
	for _, s := range structs {
		st := s.Underlying().(*types.Struct)
		ks, _ := jsonKeys(st)
		var selFields []jsonKey
		for _, k := range ks {
			if holdsSelection(k.Field.Type(), selIface) {
				selFields = append(selFields, k)
			}
		}
		dec := p.Func("ast.(*" + s.Obj().Name() + ").UnmarshalJSON")
		if len(selFields) > 0 && dec == nil {
			for _, k := range selFields {
				r2.Fail(s.Obj().Pos(), s.Obj().Name(), k.Name, fmt.Sprintf("%s.%s holds the Selection interface but %s has no UnmarshalJSON: encoding/json cannot decode an interface value", s.Obj().Name(), k.Name, s.Obj().Name()))
			}
			continue
		}
		if dec == nil {
			continue
		}
		if s.Obj().Pkg() != astPkg.Types {
			continue
		}
		analysed[dec] = true
		// field writes in the decoder: FieldAddr on the receiver
		recv := dec.Params[0]
		writes := map[string][]*ssa.FieldAddr{}
		for _, f := range withClosures(dec) {
			allInstrs(f, func(in ssa.Instruction) {
				fa, ok := in.(*ssa.FieldAddr)
				if !ok {
					return
				}
				if !derivesFromParam(fa.X, recv) {
					return
				}
				_, name, _, _ := fieldOf(fa)
				if fieldAddrWritten(fa) {
					writes[name] = append(writes[name], fa)
				}
			})
		}
		for _, k := range ks {
			inst := s.Obj().Name() + "." + k.Name
			if k.Name == "Comment" {
				c.Assume("C19.R3 exception: the Comment key is not decoded by the custom decoders; comments are not part of C19's statement (operations, fragments, selections, names, arguments, values, directives, type conditions)")
				continue
			}
			fas := writes[k.Field.Name()]
			if len(fas) == 0 {
				r3.Fail(dec.Pos(), p.FuncName(dec), k.Name, fmt.Sprintf("the decoder of %s never writes field %s (JSON key %q): the value is lost on decode", s.Obj().Name(), k.Field.Name(), k.Name))
				continue
			}
			// pairing: every write is guarded by key == "<json name>"
			okAll := true
			for _, fa := range fas {
				got, found := keyGuard(fa.Block())
				if !found {
					// the field's address handed to a helper of the module: the key under which the helper writes through
					// that parameter
					for _, hg := range helperKeyGuards(p, fa) {
						if hg != k.Name {
							okAll = false
							r3.Fail(fa.Pos(), p.FuncName(dec), k.Name+"<-"+hg, fmt.Sprintf("field %s (JSON key %q) is handed to a helper that decodes it under key %q: the value is lost (or taken from another key) on decode", k.Field.Name(), k.Name, hg))
						}
					}
					continue // unconditional write or a guard we do not understand: not judged
				}
				if got != k.Name {
					okAll = false
					r3.Fail(fa.Pos(), p.FuncName(dec), k.Name+"<-"+got, fmt.Sprintf("field %s (JSON key %q) is decoded under key %q", k.Field.Name(), k.Name, got))
				}
			}
			if okAll {
				r3.OK(inst, "written under key guard")
			}
		}
		for _, k := range selFields {
			if uss == nil {
				r2.AnchorLost("ast.UnmarshalSelectionSet")
				break
			}
			found := false
			for _, f := range withClosures(dec) {
				allInstrs(f, func(in ssa.Instruction) {
					stI, ok := in.(*ssa.Store)
					if !ok {
						return
					}
					fa, ok := stI.Addr.(*ssa.FieldAddr)
					if !ok {
						return
					}
					_, name, _, _ := fieldOf(fa)
					if name != k.Field.Name() || !derivesFromParam(fa.X, recv) {
						return
					}
					if comesFromCall(stI.Val, uss, 0) {
						found = true
					}
				})
				// or: the field's address handed to a helper that stores the result of UnmarshalSelectionSet through it
				allInstrs(f, func(in ssa.Instruction) {
					fa, ok := in.(*ssa.FieldAddr)
					if !ok {
						return
					}
					_, name, _, _ := fieldOf(fa)
					if name != k.Field.Name() || !derivesFromParam(fa.X, recv) {
						return
					}
					for _, ref := range *fa.Referrers() {
						ci, ok := ref.(ssa.CallInstruction)
						if !ok {
							continue
						}
						h := ci.Common().StaticCallee()
						if h == nil || !p.inModule(h) || len(h.Blocks) == 0 {
							continue
						}
						for j, a := range ci.Common().Args {
							if a != ssa.Value(fa) || j >= len(h.Params) {
								continue
							}
							prm := h.Params[j]
							allInstrs(h, func(in2 ssa.Instruction) {
								if st2, ok := in2.(*ssa.Store); ok && st2.Addr == ssa.Value(prm) && comesFromCall(st2.Val, uss, 0) {
									found = true
								}
							})
						}
					}
				})
			}
			if found {
				r2.OK(s.Obj().Name()+"."+k.Name, "stored from UnmarshalSelectionSet")
			} else {
				r2.Fail(dec.Pos(), p.FuncName(dec), k.Name, fmt.Sprintf("%s.%s is not assigned from UnmarshalSelectionSet in the custom decoder", s.Obj().Name(), k.Name))
			}
		}
	}
}

func hasMethod(n *types.Named, name string) bool {
	for _, t := range []types.Type{n, types.NewPointer(n)} {
		ms := types.NewMethodSet(t)
		for i := 0; i < ms.Len(); i++ {
			if ms.At(i).Obj().Name() == name {
				return true
			}
		}
	}
	return false
}

func holdsSelection(t types.Type, sel *types.Named) bool {
	switch x := t.(type) {
	case *types.Named:
		if x == sel {
			return true
		}
		if _, ok := x.Underlying().(*types.Struct); ok {
			return false
		}
		return holdsSelection(x.Underlying(), sel)
	case *types.Slice:
		return holdsSelection(x.Elem(), sel)
	case *types.Pointer:
		return false
	}
	return false
}

func derivesFromParam(v ssa.Value, param *ssa.Parameter) bool {
	for i := 0; i < 8; i++ {
		switch x := v.(type) {
		case *ssa.Parameter:
			return x == param
		case *ssa.FreeVar:
			// closure capturing the receiver: accept by name and type
			return x.Name() == param.Name() && types.Identical(x.Type(), param.Type())
		case *ssa.UnOp:
			// load of a spilled parameter
			if x.Op == token.MUL {
				if a, ok := x.X.(*ssa.Alloc); ok {
					if s := singleStore(a); s != nil {
						v = s
						continue
					}
				}
				v = x.X
				continue
			}
			return false
		case *ssa.ChangeType:
			v = x.X
		default:
			return false
		}
	}
	return false
}

// singleStore returns the only value stored to a local alloc (spilled variable), or nil.
func singleStore(a *ssa.Alloc) ssa.Value {
	var val ssa.Value
	n := 0
	for _, r := range *a.Referrers() {
		if s, ok := r.(*ssa.Store); ok && s.Addr == a {
			n++
			val = s.Val
		}
	}
	if n == 1 {
		return val
	}
	return nil
}

// fieldAddrWritten: the address is stored to, or escapes into a call (json.Unmarshal(&f.X)).
func fieldAddrWritten(fa *ssa.FieldAddr) bool {
	for _, r := range *fa.Referrers() {
		switch x := r.(type) {
		case *ssa.Store:
			if x.Addr == fa {
				return true
			}
		case *ssa.MakeInterface:
			for _, rr := range *x.Referrers() {
				if _, ok := rr.(ssa.CallInstruction); ok {
					return true
				}
			}
		case ssa.CallInstruction:
			return true
		}
	}
	return false
}

// keyGuard finds, among the branch facts holding at b, an equality of a string value with a constant.
func keyGuard(b *ssa.BasicBlock) (string, bool) {
	for _, cd := range condsAt(b) {
		bo, ok := cd.V.(*ssa.BinOp)
		if !ok || bo.Op != token.EQL || !cd.True {
			continue
		}
		if s, ok := constString(bo.Y); ok {
			return s, true
		}
		if s, ok := constString(bo.X); ok {
			return s, true
		}
	}
	return "", false
}

func comesFromCall(v ssa.Value, callee *ssa.Function, idx int) bool {
	for i := 0; i < 6; i++ {
		switch x := v.(type) {
		case *ssa.Extract:
			if c, ok := x.Tuple.(*ssa.Call); ok && c.Common().StaticCallee() == callee && x.Index == idx {
				return true
			}
			return false
		case *ssa.Call:
			return x.Common().StaticCallee() == callee
		case *ssa.ChangeType:
			v = x.X
		case *ssa.Phi:
			for _, e := range x.Edges {
				if !comesFromCall(e, callee, idx) {
					return false
				}
			}
			return len(x.Edges) > 0
		default:
			return false
		}
	}
	return false
}

// ---------------------------------------------------------------------------

// presenceTest recognises "key K is present in map M" in its direct and wrapped forms and returns K.
func presenceTest(v ssa.Value) (string, bool) {
	switch x := v.(type) {
	case *ssa.Extract:
		if x.Index != 1 {
			return "", false
		}
		if l, ok := x.Tuple.(*ssa.Lookup); ok && l.CommaOk {
			if _, isMap := l.X.Type().Underlying().(*types.Map); isMap {
				return constString(l.Index)
			}
		}
	case *ssa.Call:
		// wrapper whose body is: _, ok := p0[p1]; return ok
		f := x.Common().StaticCallee()
		if f == nil || len(f.Blocks) != 1 || len(x.Common().Args) != 2 {
			return "", false
		}
		ret, ok := f.Blocks[0].Instrs[len(f.Blocks[0].Instrs)-1].(*ssa.Return)
		if !ok || len(ret.Results) != 1 {
			return "", false
		}
		ex, ok := ret.Results[0].(*ssa.Extract)
		if !ok || ex.Index != 1 {
			return "", false
		}
		l, ok := ex.Tuple.(*ssa.Lookup)
		if !ok || !l.CommaOk || l.X != ssa.Value(f.Params[0]) || l.Index != ssa.Value(f.Params[1]) {
			return "", false
		}
		return constString(x.Common().Args[1])
	case *ssa.BinOp:
		// m[K] != nil
		if x.Op == token.NEQ && isNilConst(x.Y) {
			if l, ok := x.X.(*ssa.Lookup); ok && !l.CommaOk {
				if _, isMap := l.X.Type().Underlying().(*types.Map); isMap {
					return constString(l.Index)
				}
			}
		}
	}
	return "", false
}

// decodeOK recognises "err == nil" / "err != nil" on the error of json.Unmarshal(_, target) and returns the target type.
func decodeErrTest(v ssa.Value) (target types.Type, errIsNil bool, ok bool) {
	bo, isBin := v.(*ssa.BinOp)
	if !isBin || (bo.Op != token.EQL && bo.Op != token.NEQ) || !isNilConst(bo.Y) {
		return nil, false, false
	}
	var call *ssa.Call
	switch e := bo.X.(type) {
	case *ssa.Call:
		call = e
	case *ssa.Extract:
		call, _ = e.Tuple.(*ssa.Call)
	}
	if call == nil || calleeName(call) != "encoding/json.Unmarshal" {
		return nil, false, false
	}
	t := stripConv(call.Common().Args[1]).Type()
	return t, bo.Op == token.EQL, true
}

func c19Discriminator(c *Ctx, r *RuleResult, fn *ssa.Function, kinds []*types.Named, keySets map[*types.Named]map[string]tri, iface *types.Interface) {
	p := c.P
	type site struct {
		kind *types.Named
		mi   *ssa.MakeInterface
	}
	var sites []site
	for _, f := range c19Helpers(p, fn) {
		allInstrs(f, func(in ssa.Instruction) {
			mi, ok := in.(*ssa.MakeInterface)
			if !ok {
				return
			}
			if _, ok := mi.Type().Underlying().(*types.Interface); !ok || !types.Identical(mi.Type().Underlying(), iface) {
				return
			}
			n := namedOf(mi.X.Type())
			if n == nil {
				return
			}
			sites = append(sites, site{n, mi})
		})
	}
	produced := map[*types.Named]bool{}
	eval := func(cd Cond, ks map[string]tri) (tri, string) {
		if key, ok := presenceTest(cd.V); ok {
			t, has := ks[key]
			if !has {
				t = triF
			}
			if !cd.True {
				t = t.not()
			}
			return t, fmt.Sprintf("has(%q)=%v", key, cd.True)
		}
		if tgt, errIsNil, ok := decodeErrTest(cd.V); ok {
			succeeds := errIsNil == cd.True
			// decoding an object into a map of raw messages always succeeds; into anything else: not decided (encoding/json ignores unknown keys and requires none)
			res := triU
			if pt, ok := tgt.(*types.Pointer); ok {
				if m, ok := pt.Elem().Underlying().(*types.Map); ok {
					if b, ok := m.Key().Underlying().(*types.Basic); ok && b.Kind() == types.String {
						res = triT
					}
				}
			}
			if !succeeds {
				res = res.not()
			}
			return res, fmt.Sprintf("decodes-into(%s)=%v", types.TypeString(tgt, func(*types.Package) string { return "" }), succeeds)
		}
		return triU, "?"
	}
	for _, s := range sites {
		produced[s.kind] = true
		conds := condsAt(s.mi.Block())
		if len(sites) > 0 && s.mi.Parent() != fn && len(condsAt(s.mi.Block())) == 0 && len(s.mi.Parent().Blocks) > 1 {
			// a helper with branching but no dominating condition for this site: nothing to evaluate
		}
		for _, b := range kinds {
			all := triT
			var desc []string
			for _, cd := range conds {
				t, d := eval(cd, keySets[b])
				desc = append(desc, d)
				if t == triF {
					all = triF
					break
				}
				if t == triU {
					all = triU
				}
			}
			inst := fmt.Sprintf("branch->%s on encoding of %s", s.kind.Obj().Name(), b.Obj().Name())
			if b == s.kind {
				if all == triT {
					r.OK(inst, "reachable: "+strings.Join(desc, " & "))
				} else if all == triF {
					r.Fail(s.mi.Pos(), p.FuncName(fn), inst, fmt.Sprintf("the branch producing *%s is not taken for the encoding of a %s (%s)", s.kind.Obj().Name(), b.Obj().Name(), strings.Join(desc, " & ")))
				} else {
					// own kind reachable only under an undecided condition: judged by the cross checks below
					r.OK(inst, "reachable under: "+strings.Join(desc, " & "))
				}
				continue
			}
			if all == triF {
				r.OK(inst, "excluded: "+strings.Join(desc, " & "))
			} else {
				r.Fail(s.mi.Pos(), p.FuncName(fn), inst, fmt.Sprintf("a JSON-encoded *%s is accepted by the branch that produces *%s (conditions: %s; the decoder of %s ignores unknown keys and requires none), so it comes back as a %s", b.Obj().Name(), s.kind.Obj().Name(), strings.Join(desc, " & "), s.kind.Obj().Name(), s.kind.Obj().Name()))
			}
		}
	}
	for _, k := range kinds {
		if !produced[k] {
			r.Fail(fn.Pos(), p.FuncName(fn), "never produces "+k.Obj().Name(), fmt.Sprintf("UnmarshalSelectionSet never constructs a *%s", k.Obj().Name()))
		}
	}
}

// containsIface reports whether a value of type t directly holds (through slices, arrays, maps) an interface, func or chan value.
func containsIface(t types.Type, sel *types.Named, seen map[types.Type]bool) bool {
	if seen[t] {
		return false
	}
	seen[t] = true
	switch x := t.(type) {
	case *types.Named:
		if x == sel {
			return true
		}
		if _, ok := x.Underlying().(*types.Struct); ok {
			return false
		}
		return containsIface(x.Underlying(), sel, seen)
	case *types.Slice:
		return containsIface(x.Elem(), sel, seen)
	case *types.Array:
		return containsIface(x.Elem(), sel, seen)
	case *types.Map:
		return containsIface(x.Elem(), sel, seen)
	case *types.Interface, *types.Signature, *types.Chan:
		return true
	}
	return false
}

// c19Helpers returns fn, its closures, and the non-method functions of package ast it statically calls (transitively).
func c19Helpers(p *Program, fn *ssa.Function) []*ssa.Function {
	seen := map[*ssa.Function]bool{}
	var out []*ssa.Function
	var visit func(f *ssa.Function)
	visit = func(f *ssa.Function) {
		if f == nil || seen[f] || len(f.Blocks) == 0 {
			return
		}
		seen[f] = true
		out = append(out, f)
		for _, a := range f.AnonFuncs {
			visit(a)
		}
		allInstrs(f, func(in ssa.Instruction) {
			if c, ok := in.(ssa.CallInstruction); ok {
				g := c.Common().StaticCallee()
				if g != nil && g.Pkg == fn.Pkg && g.Signature.Recv() == nil {
					visit(g)
				}
			}
		})
	}
	visit(fn)
	return out
}

// c19Extra: R5 (decoding reads and writes no mutable package-level state) and R6 (no un-analysed custom encoder/decoder on a JSON-reachable type).
func c19Extra(c *Ctx, structs []*types.Named, reach map[types.Type]bool, analysed map[*ssa.Function]bool) {
	p := c.P
	r5 := c.Rule("R5", "the decoders are functions of their input: no function reachable from UnmarshalSelectionSet or a custom decoder inside the module touches a package-level variable", 5)
	var roots []*ssa.Function
	for f := range analysed {
		roots = append(roots, f)
	}
	if f := p.Func("ast.UnmarshalSelectionSet"); f != nil {
		roots = append(roots, f)
	}
	for f := range p.reachableFrom(roots, nil) {
		if !p.inModule(f) {
			continue
		}
		bad := false
		allInstrs(f, func(in ssa.Instruction) {
			for _, op := range in.Operands(nil) {
				if g, ok := (*op).(*ssa.Global); ok && g.Pkg != nil && strings.HasPrefix(g.Pkg.Pkg.Path(), modPath) {
					if isErrorSentinel(g) {
						continue
					}
					bad = true
					r5.Fail(in.Pos(), p.FuncName(f), "global "+g.Name(), fmt.Sprintf("decoding touches package-level variable %s: the result (or a later decode) can depend on earlier or concurrent decodes", g.Name()))
				}
			}
		})
		if !bad {
			r5.OK(p.FuncName(f), "no package-level state")
		}
	}
	r6 := c.Rule("R6", "no JSON-reachable type has a custom encoder or decoder other than the analysed ones (their encodings would not be the field/tag-derived ones the other rules compute)", 20)
	for t := range reach {
		n, ok := t.(*types.Named)
		if !ok {
			continue
		}
		for _, m := range []string{"MarshalJSON", "UnmarshalJSON", "MarshalText", "UnmarshalText"} {
			if !hasMethod(n, m) {
				r6.OK(n.Obj().Name()+"."+m, "absent")
				continue
			}
			f := p.Func("ast.(*" + n.Obj().Name() + ")." + m)
			if f != nil && analysed[f] {
				r6.OK(n.Obj().Name()+"."+m, "analysed by R2/R3")
				continue
			}
			r6.Undecided(n.Obj().Pos(), n.Obj().Name(), m, fmt.Sprintf("%s has a custom %s: its JSON form is not the one derived from fields and tags, and whether decode(encode(x)) = x for it is not decided", n.Obj().Name(), m))
		}
	}
}

func isErrorSentinel(g *ssa.Global) bool {
	// package-level error values that are only read are harmless; writes are caught because a Store operand is the global too
	t := g.Type().(*types.Pointer).Elem()
	if !types.Identical(t, types.Universe.Lookup("error").Type()) {
		return false
	}
	for _, fn := range g.Pkg.Members {
		f, ok := fn.(*ssa.Function)
		if !ok || f.Name() == "init" {
			continue
		}
		w := false
		for _, ff := range withClosures(f) {
			allInstrs(ff, func(in ssa.Instruction) {
				if s, ok := in.(*ssa.Store); ok && s.Addr == ssa.Value(g) {
					w = true
				}
			})
		}
		if w {
			return false
		}
	}
	return true
}

// helperKeyGuards: fa is passed (as a pointer) to functions of the module; for each write through the corresponding
// parameter there (a store, or the parameter handed to a decoding call), the JSON key that guards it.
func helperKeyGuards(p *Program, fa *ssa.FieldAddr) []string {
	var out []string
	for _, ref := range *fa.Referrers() {
		ci, ok := ref.(ssa.CallInstruction)
		if !ok {
			continue
		}
		h := ci.Common().StaticCallee()
		if h == nil || !p.inModule(h) || len(h.Blocks) == 0 {
			continue
		}
		for j, a := range ci.Common().Args {
			if a != ssa.Value(fa) || j >= len(h.Params) {
				continue
			}
			prm := h.Params[j]
			if prm.Referrers() == nil {
				continue
			}
			var uses []ssa.Instruction
			for _, r2 := range *prm.Referrers() {
				switch x := r2.(type) {
				case *ssa.Store:
					if x.Addr == ssa.Value(prm) {
						uses = append(uses, x)
					}
				case *ssa.MakeInterface:
					for _, r3 := range *x.Referrers() {
						if _, isCall := r3.(ssa.CallInstruction); isCall {
							uses = append(uses, r3)
						}
					}
				case ssa.CallInstruction:
					uses = append(uses, x)
				}
			}
			for _, u := range uses {
				if g, found := keyGuard(u.Block()); found {
					out = append(out, g)
				}
			}
		}
	}
	return out
}
