package main

import (
	"encoding/json"
	"fmt"
	"go/token"
	"os"
	"path/filepath"
	"sort"
	"strconv"
	"strings"
	"time"
)

// Finding is a violated obligation: a specific construct of /repo's current source.
type Finding struct {
	Rule      string `json:"rule"`
	Key       string `json:"key"` // rule | function | construct — never a line number
	Pos       string `json:"pos"`
	Func      string `json:"function"`
	Construct string `json:"construct"`
	Msg       string `json:"message"`
	Kind      string `json:"kind"` // violation | undecided | anchor-lost | floor
}

type RuleResult struct {
	ID          string    `json:"id"`
	Desc        string    `json:"rule"`
	Floor       int       `json:"floor"`
	Instances   int       `json:"instances"`
	Discharged  int       `json:"discharged"`
	Findings    []Finding `json:"findings,omitempty"`
	Samples     []string  `json:"samples,omitempty"`
	NotDecided  string    `json:"not_decided,omitempty"`
	ctx         *Ctx
	seenSamples map[string]bool
}

type Ctx struct {
	Prop        string
	Tier        string
	P           *Program
	Rules       []*RuleResult
	Assumptions []string
	Trusted     []string
	Explanation string
	Extra       map[string]interface{}
	start       time.Time
}

func (c *Ctx) Rule(id, desc string, floor int) *RuleResult {
	// the floor guards against a rule that silently matches nothing; it is set to half of the number of instances
	// confirmed by hand so that an ordinary refactoring (folding three call sites into a helper) does not trip it
	if floor > 1 {
		floor = (floor + 1) / 2
	}
	r := &RuleResult{ID: c.Prop + "." + id, Desc: desc, Floor: floor, ctx: c, seenSamples: map[string]bool{}}
	c.Rules = append(c.Rules, r)
	return r
}

func (c *Ctx) Assume(s string) {
	for _, a := range c.Assumptions {
		if a == s {
			return
		}
	}
	c.Assumptions = append(c.Assumptions, s)
}

// OK records a discharged obligation; the first few are kept as samples.
func (r *RuleResult) OK(instance string, why string) {
	r.Instances++
	r.Discharged++
	if len(r.Samples) < 6 {
		s := instance
		if why != "" {
			s += " :: " + why
		}
		if !r.seenSamples[s] {
			r.seenSamples[s] = true
			r.Samples = append(r.Samples, s)
		}
	}
}

// Fail records a violated obligation.
func (r *RuleResult) Fail(pos token.Pos, fn, construct, msg string) {
	r.fail("violation", pos, fn, construct, msg)
}

// Undecided records an obligation the analysis could not decide; it fails the check.
func (r *RuleResult) Undecided(pos token.Pos, fn, construct, msg string) {
	r.fail("undecided", pos, fn, construct, msg)
}

// AnchorLost records that a construct the rule is keyed on no longer exists.
func (r *RuleResult) AnchorLost(what string) {
	r.fail("anchor-lost", token.NoPos, "-", what, "the construct this rule is anchored on was not found: "+what)
}

func (r *RuleResult) fail(kind string, pos token.Pos, fn, construct, msg string) {
	r.Instances++
	f := Finding{Rule: r.ID, Key: r.ID + " | " + fn + " | " + construct, Pos: r.ctx.P.Pos(pos), Func: fn, Construct: construct, Msg: msg, Kind: kind}
	for _, g := range r.Findings {
		if g.Key == f.Key {
			return
		}
	}
	r.Findings = append(r.Findings, f)
}

// ---------------------------------------------------------------------------

type KnownFinding struct {
	Property string `json:"property"`
	Key      string `json:"key"`
	What     string `json:"what"`
	Input    string `json:"failing_input,omitempty"`
}

type FixedFinding struct {
	Property string `json:"property"`
	Commit   string `json:"commit"`
	What     string `json:"what"`
	Key      string `json:"key,omitempty"`
}

type KnownFile struct {
	Known []KnownFinding `json:"known"`
	Fixed []FixedFinding `json:"fixed"`
}

func verifDir() string {
	if d := os.Getenv("GQLVET_VERIF"); d != "" {
		return d
	}
	return "/verif"
}

func loadKnown() (*KnownFile, error) {
	b, err := os.ReadFile(filepath.Join(verifDir(), "known_findings.json"))
	if err != nil {
		if os.IsNotExist(err) {
			return &KnownFile{}, nil
		}
		return nil, err
	}
	var k KnownFile
	if err := json.Unmarshal(b, &k); err != nil {
		return nil, fmt.Errorf("known_findings.json: %w", err)
	}
	return &k, nil
}

// Finish prints the verdict lines, writes evidence and replay files, and returns the exit code.
func (c *Ctx) Finish() int {
	known, err := loadKnown()
	if err != nil {
		fmt.Fprintln(os.Stderr, "gqlvet:", err)
		return 2
	}
	evDir := filepath.Join(verifDir(), "evidence")
	if d := os.Getenv("GQLVET_EVIDENCE"); d != "" {
		evDir = d
	}
	_ = os.MkdirAll(filepath.Join(evDir, "replay"), 0o755)
	// stale replay files of this property
	if old, _ := filepath.Glob(filepath.Join(evDir, "replay", c.Prop+"-*.json")); old != nil {
		for _, f := range old {
			_ = os.Remove(f)
		}
	}

	obligations, discharged, violations := 0, 0, 0
	var knownLines []string
	var samples []interface{}
	nviol := 0
	for _, r := range c.Rules {
		if r.Instances < r.Floor {
			r.fail("floor", token.NoPos, "-", "instances<"+strconv.Itoa(r.Floor),
				fmt.Sprintf("rule matched %d instance(s), fewer than the %d confirmed by hand: the rule has lost its anchors", r.Instances-0, r.Floor))
		}
		obligations += r.Instances
		discharged += r.Discharged
		for _, s := range r.Samples {
			if len(samples) < 40 {
				samples = append(samples, map[string]string{"rule": r.ID, "obligation": s, "status": "discharged"})
			}
		}
		for _, f := range r.Findings {
			isKnown := false
			if f.Kind == "violation" {
				for _, k := range known.Known {
					if k.Property == c.Prop && k.Key == f.Key {
						isKnown = true
						knownLines = append(knownLines, fmt.Sprintf("KNOWN-FINDING: property=%s %s [%s at %s]", c.Prop, k.What, f.Key, f.Pos))
					}
				}
			}
			samples = append(samples, map[string]string{"rule": r.ID, "obligation": f.Key, "status": map[bool]string{true: "known-finding", false: f.Kind}[isKnown], "at": f.Pos, "message": f.Msg})
			if isKnown {
				continue
			}
			nviol++
			violations++
			replay := filepath.Join(evDir, "replay", fmt.Sprintf("%s-%d.json", c.Prop, nviol))
			b, _ := json.MarshalIndent(map[string]interface{}{
				"property": c.Prop, "finding": f, "repo": c.P.Dir,
				"how_to_replay": fmt.Sprintf("cd /verif && ./check %s %s   # re-analyses /repo's working tree; the finding is reported while the construct at %s is unchanged", c.Prop, c.Tier, f.Pos),
			}, "", " ")
			_ = os.WriteFile(replay, b, 0o644)
			fmt.Fprintf(os.Stderr, "%s: [%s] %s: %s\n    in %s — %s\n", f.Pos, f.Kind, f.Rule, f.Msg, f.Func, f.Construct)
			fmt.Printf("VIOLATION property=%s replay=%s\n", c.Prop, replay)
		}
	}
	sort.Strings(knownLines)
	for _, l := range knownLines {
		fmt.Println(l)
	}

	if len(samples) == 0 {
		samples = append(samples, "no obligations")
	}
	seed := 0
	if s := os.Getenv("VERIF_SEED"); s != "" {
		seed, _ = strconv.Atoi(s)
	}
	var ruleIDs []string
	for _, r := range c.Rules {
		ruleIDs = append(ruleIDs, r.ID)
	}
	cov := map[string]interface{}{
		"explanation":        c.Explanation,
		"obligations":        obligations,
		"discharged":         discharged,
		"known_findings":     len(knownLines),
		"checker_cmd":        "cd /verif && ./check " + c.Prop + " " + c.Tier,
		"trusted_base":       append([]string{"go/types, go/ssa, go/packages and the CHA/VTA call graphs of golang.org/x/tools v0.29.0", "the Go specification for what panics"}, c.Trusted...),
		"samples":            samples,
		"rules":              c.Rules,
		"packages":           len(c.P.All),
		"functions_analysed": len(c.P.Funcs()),
		"repo":               c.P.Dir,
		"technique":          "static analysis of the type-checked syntax / SSA form / call graph; nothing under /repo is executed",
	}
	for k, v := range c.Extra {
		cov[k] = v
	}
	ev := map[string]interface{}{
		"property_id": c.Prop,
		"tier":        c.Tier,
		"seed":        seed,
		"level":       "other",
		"coverage":    cov,
		"assumptions": append([]string{}, c.Assumptions...),
		"wall_s":      time.Since(c.start).Seconds(),
		"violations":  violations,
	}
	b, _ := json.MarshalIndent(ev, "", " ")
	if err := os.WriteFile(filepath.Join(evDir, c.Prop+".json"), b, 0o644); err != nil {
		fmt.Fprintln(os.Stderr, "gqlvet: cannot write evidence:", err)
		return 2
	}
	fmt.Fprintf(os.Stderr, "gqlvet %s %s: %d rules [%s], %d obligations, %d discharged, %d known finding(s), %d violation(s), %.1fs\n",
		c.Prop, c.Tier, len(c.Rules), strings.Join(ruleIDs, " "), obligations, discharged, len(knownLines), violations, time.Since(c.start).Seconds())
	if violations > 0 {
		return 1
	}
	return 0
}
