package main

import (
	"fmt"
	"go/constant"
	"go/token"
	"go/types"
	"sort"
	"strings"

	"golang.org/x/tools/go/ssa"
)

// kindCoverage (C13.R1): the schema parser stores a Definition field under certain kinds (the Kind constant stored on the
// same node in the same parse function). The formatter must read that field on a path that is feasible for every one of
// those kinds: a read that sits inside `case Object:` does not print what the parser stored on an INTERFACE.
// Decided: the kind tests that dominate each formatter read (through the call sites of unexported helpers, three levels).
// Not decided: that the read value is then written — R1's field coverage and R4's guard discipline look at that.
func kindCoverage(c *Ctx, r *RuleResult) {
	p := c.P
	defT := p.LookupType("ast", "Definition")
	if defT == nil {
		r.AnchorLost("ast.Definition")
		return
	}
	st := defT.Underlying().(*types.Struct)
	type at struct {
		fn  *ssa.Function
		pos token.Pos
	}
	stored := map[string]map[string]at{}
	for _, fn := range p.FuncsIn("parser") {
		kinds := map[ssa.Value]string{}
		for _, s := range storesToField([]*ssa.Function{fn}, defT, "Kind") {
			if k, ok := constString(s.store.Val); ok {
				if old, had := kinds[s.addr.X]; had && old != k {
					kinds[s.addr.X] = "?"
				} else {
					kinds[s.addr.X] = k
				}
			} else {
				kinds[s.addr.X] = "?"
			}
		}
		if len(kinds) == 0 {
			continue
		}
		for i := 0; i < st.NumFields(); i++ {
			f := st.Field(i).Name()
			if f == "Kind" {
				continue
			}
			for _, s := range storesToField([]*ssa.Function{fn}, defT, f) {
				k := kinds[s.addr.X]
				if k == "" || k == "?" {
					continue
				}
				if stored[f] == nil {
					stored[f] = map[string]at{}
				}
				if _, had := stored[f][k]; !had {
					stored[f][k] = at{fn, s.store.Pos()}
				}
			}
		}
	}
	if len(stored) == 0 {
		r.AnchorLost("parse functions that store Definition.Kind as a constant beside the other fields")
		return
	}
	scope := formatterScope(p)
	feasible := func(b *ssa.BasicBlock, depth int) map[string]bool { return kindsFeasibleAt(p, defT, b, depth) }
	type rd struct {
		in ssa.Instruction
		fe map[string]bool
	}
	reads := map[string][]rd{}
	var fns []*ssa.Function
	for fn := range scope {
		fns = append(fns, fn)
	}
	sort.Slice(fns, func(i, j int) bool { return p.FuncName(fns[i]) < p.FuncName(fns[j]) })
	for _, fn := range fns {
		if fn.Pkg == nil || !strings.HasSuffix(fn.Pkg.Pkg.Path(), "/formatter") {
			continue
		}
		allInstrs(fn, func(in ssa.Instruction) {
			var f string
			switch x := in.(type) {
			case *ssa.FieldAddr:
				n, name, _, _ := fieldOf(x)
				if n != defT {
					return
				}
				isRead := false
				for _, ref := range *x.Referrers() {
					if s, ok := ref.(*ssa.Store); ok && s.Addr == ssa.Value(x) {
						continue
					}
					isRead = true
				}
				if !isRead {
					return
				}
				f = name
			case *ssa.Field:
				n, name, _, _ := fieldOf(x)
				if n != defT {
					return
				}
				f = name
			default:
				return
			}
			if stored[f] == nil {
				return
			}
			reads[f] = append(reads[f], rd{in, feasible(in.Block(), 0)})
		})
	}
	var fields []string
	for f := range stored {
		fields = append(fields, f)
	}
	sort.Strings(fields)
	for _, f := range fields {
		if len(reads[f]) == 0 {
			continue // never read at all: field coverage reports it or exempts it
		}
		var ks []string
		for k := range stored[f] {
			ks = append(ks, k)
		}
		sort.Strings(ks)
		for _, k := range ks {
			ok := false
			for _, x := range reads[f] {
				if x.fe == nil || x.fe[k] {
					ok = true
				}
			}
			if ok {
				r.OK(fmt.Sprintf("Definition.%s stored for %s: a formatter read is feasible under that kind", f, k), "")
				continue
			}
			var where []string
			for _, x := range reads[f] {
				var fk []string
				for kk := range x.fe {
					fk = append(fk, kk)
				}
				sort.Strings(fk)
				where = append(where, fmt.Sprintf("%s (only under %s)", p.Pos(x.in.Pos()), strings.Join(fk, ",")))
			}
			x := reads[f][0]
			r.Fail(x.in.Pos(), p.FuncName(x.in.Parent()), fmt.Sprintf("Definition.%s is not printed for kind %s", f, k), fmt.Sprintf("%s stores Definition.%s on a %s definition (%s), but every read of that field in the formatter lies under a kind test that excludes %s: %s — formatting and parsing back loses it", p.FuncName(stored[f][k].fn), f, k, p.Pos(stored[f][k].pos), k, strings.Join(where, "; ")))
		}
	}
}

var defKindMemo = map[*Program][]string{}

// definitionKinds: the constants of type ast.DefinitionKind.
func definitionKinds(p *Program) []string {
	if ks, ok := defKindMemo[p]; ok {
		return ks
	}
	var out []string
	if dk := p.LookupType("ast", "DefinitionKind"); dk != nil {
		sc := dk.Obj().Pkg().Scope()
		for _, nm := range sc.Names() {
			if cst, ok := sc.Lookup(nm).(*types.Const); ok && types.Identical(cst.Type(), dk) {
				if cst.Val().Kind() == constant.String {
					out = append(out, constant.StringVal(cst.Val()))
				}
			}
		}
	}
	sort.Strings(out)
	defKindMemo[p] = out
	return out
}

// kindCond: cd is a test of a Definition's kind — `def.Kind == K` / `!=`, or a call of a predicate method of Definition
// whose result is a fixed function of the kind (IsCompositeType ...). Returns the kinds for which the condition holds.
func kindCond(p *Program, cd Cond) (holds map[string]bool, ok bool) {
	all := definitionKinds(p)
	if bo, isB := cd.V.(*ssa.BinOp); isB && (bo.Op == token.EQL || bo.Op == token.NEQ) {
		var k string
		var okk bool
		if loadOfField(bo.X, "Definition", "Kind") {
			k, okk = constString(bo.Y)
		} else if loadOfField(bo.Y, "Definition", "Kind") {
			k, okk = constString(bo.X)
		}
		if !okk {
			return nil, false
		}
		eq := (bo.Op == token.EQL) == cd.True
		holds = map[string]bool{}
		for _, x := range all {
			if (x == k) == eq {
				holds[x] = true
			}
		}
		return holds, true
	}
	if call, isC := cd.V.(*ssa.Call); isC {
		if g := call.Call.StaticCallee(); g != nil {
			if set, okp := kindPredicate(p, g); okp {
				holds = map[string]bool{}
				for _, x := range all {
					if set[x] == cd.True {
						holds[x] = true
					}
				}
				return holds, true
			}
		}
	}
	return nil, false
}

var kindPredMemo = map[*ssa.Function]map[string]bool{}
var kindPredBad = map[*ssa.Function]bool{}

// kindPredicate: g is a method of *Definition with one bool result whose value is decided by comparisons of the
// receiver's Kind with constants only; evaluated for each kind constant by walking the control-flow graph.
func kindPredicate(p *Program, g *ssa.Function) (map[string]bool, bool) {
	if m, ok := kindPredMemo[g]; ok {
		return m, true
	}
	if kindPredBad[g] {
		return nil, false
	}
	fail := func() (map[string]bool, bool) { kindPredBad[g] = true; return nil, false }
	if g.Signature.Recv() == nil || len(g.Params) != 1 || g.Signature.Results().Len() != 1 || len(g.Blocks) == 0 {
		return fail()
	}
	if n := namedOf(derefType(g.Params[0].Type())); n == nil || n.Obj().Name() != "Definition" {
		return fail()
	}
	if b, ok := g.Signature.Results().At(0).Type().Underlying().(*types.Basic); !ok || b.Kind() != types.Bool {
		return fail()
	}
	out := map[string]bool{}
	for _, k := range definitionKinds(p) {
		var evalBool func(v ssa.Value, from *ssa.BasicBlock, at *ssa.BasicBlock) (bool, bool)
		evalBool = func(v ssa.Value, from, at *ssa.BasicBlock) (bool, bool) {
			switch x := v.(type) {
			case *ssa.Const:
				if x.Value == nil || x.Value.Kind() != constant.Bool {
					return false, false
				}
				return constant.BoolVal(x.Value), true
			case *ssa.BinOp:
				if x.Op != token.EQL && x.Op != token.NEQ {
					return false, false
				}
				var c string
				var ok bool
				if loadOfField(x.X, "Definition", "Kind") {
					c, ok = constString(x.Y)
				} else if loadOfField(x.Y, "Definition", "Kind") {
					c, ok = constString(x.X)
				}
				if !ok {
					return false, false
				}
				return (c == k) == (x.Op == token.EQL), true
			case *ssa.UnOp:
				if x.Op == token.NOT {
					r, ok := evalBool(x.X, from, at)
					return !r, ok
				}
			case *ssa.Phi:
				if from == nil || x.Block() != at {
					return false, false
				}
				for i, pr := range at.Preds {
					if pr == from {
						return evalBool(x.Edges[i], nil, nil)
					}
				}
			}
			return false, false
		}
		b := g.Blocks[0]
		var from *ssa.BasicBlock
		steps := 0
		for {
			steps++
			if steps > 200 {
				return fail()
			}
			// only loads of the receiver's Kind, comparisons, phis and control flow are allowed
			for _, in := range b.Instrs {
				switch x := in.(type) {
				case *ssa.FieldAddr, *ssa.UnOp, *ssa.BinOp, *ssa.Phi, *ssa.If, *ssa.Jump, *ssa.Return, *ssa.DebugRef:
					_ = x
				default:
					return fail()
				}
			}
			switch t := b.Instrs[len(b.Instrs)-1].(type) {
			case *ssa.Return:
				r, ok := evalBool(t.Results[0], from, b)
				if !ok {
					return fail()
				}
				out[k] = r
			case *ssa.Jump:
				from, b = b, b.Succs[0]
				continue
			case *ssa.If:
				r, ok := evalBool(t.Cond, from, b)
				if !ok {
					return fail()
				}
				if r {
					from, b = b, b.Succs[0]
				} else {
					from, b = b, b.Succs[1]
				}
				continue
			default:
				return fail()
			}
			break
		}
	}
	kindPredMemo[g] = out
	return out, true
}

func derefType(t types.Type) types.Type {
	if pt, ok := t.Underlying().(*types.Pointer); ok {
		return pt.Elem()
	}
	return t
}

// kindsFeasibleAt: the Definition kinds under which block b can be reached, as far as kind tests that dominate it (and
// the call sites of the unexported function it lies in, three levels up) say; nil = every kind.
func kindsFeasibleAt(p *Program, defT *types.Named, b *ssa.BasicBlock, depth int) map[string]bool {
	var only map[string]bool
	restrict := func(set map[string]bool) {
		if only == nil {
			only = map[string]bool{}
			for k := range set {
				only[k] = true
			}
			return
		}
		for k := range only {
			if !set[k] {
				delete(only, k)
			}
		}
	}
	if ks := kindsAt(b); len(ks) > 0 {
		set := map[string]bool{}
		for _, k := range ks {
			set[k] = true
		}
		restrict(set)
	}
	for _, cd := range condsAt(b) {
		if holds, ok := kindCond(p, cd); ok {
			// a positive equality test is already in kindsAt (which also knows the shared bodies of multi-value cases)
			if bo, isB := cd.V.(*ssa.BinOp); isB && (bo.Op == token.EQL) == cd.True && len(kindsAt(b)) > 0 {
				continue
			}
			restrict(holds)
		}
	}
	fn := b.Parent()
	var entry map[string]bool // nil = all
	if depth < 3 {
		hasDef := false
		for _, prm := range fn.Params {
			if pt, ok := prm.Type().(*types.Pointer); ok && namedOf(pt.Elem()) == defT {
				hasDef = true
			}
		}
		sites := callSitesOf(p, fn)
		if hasDef && len(sites) > 0 && !(fn.Object() != nil && fn.Object().Exported() && fn.Signature.Recv() == nil) {
			entry = map[string]bool{}
			for _, cs := range sites {
				if cs.Parent() == fn {
					continue
				}
				fe := kindsFeasibleAt(p, defT, cs.Block(), depth+1)
				if fe == nil {
					entry = nil
					break
				}
				for k := range fe {
					entry[k] = true
				}
			}
		}
	}
	if only == nil {
		return entry
	}
	if entry != nil {
		for k := range only {
			if !entry[k] {
				delete(only, k)
			}
		}
	}
	return only
}

// extensionMergeCoverage (C17.R7 / C07.R12): the loader folds an extension into its definition list by list
// (`def.F = append(def.F, ext.F...)`). For every list field F of Definition and every kind under which a parse function
// stores F, some such merge of F is feasible under that kind: a merge made only `if def.IsCompositeType()` drops the
// fields of every `extend input`.
func extensionMergeCoverage(c *Ctx, r *RuleResult) {
	p := c.P
	defT := p.LookupType("ast", "Definition")
	if defT == nil {
		r.AnchorLost("ast.Definition")
		return
	}
	stored := parserStoredKinds(p, defT)
	type mg struct {
		in ssa.Instruction
		fe map[string]bool
	}
	merges := map[string][]mg{}
	for _, fn := range p.FuncsIn("validator") {
		allInstrs(fn, func(in ssa.Instruction) {
			st, ok := in.(*ssa.Store)
			if !ok {
				return
			}
			fa, ok := st.Addr.(*ssa.FieldAddr)
			if !ok {
				return
			}
			n, f, _, _ := fieldOf(fa)
			if n != defT {
				return
			}
			call, ok := st.Val.(*ssa.Call)
			if !ok {
				return
			}
			if b, ok := call.Call.Value.(*ssa.Builtin); !ok || b.Name() != "append" || len(call.Call.Args) != 2 {
				return
			}
			if !loadOfField(call.Call.Args[0], "Definition", f) || !loadOfField(call.Call.Args[1], "Definition", f) {
				return
			}
			merges[f] = append(merges[f], mg{in, kindsFeasibleAt(p, defT, in.Block(), 0)})
		})
	}
	if len(merges) == 0 {
		r.AnchorLost("the loader's `def.F = append(def.F, ext.F...)` merges")
		return
	}
	var fields []string
	for f := range merges {
		fields = append(fields, f)
	}
	sort.Strings(fields)
	for _, f := range fields {
		var ks []string
		for k := range stored[f] {
			ks = append(ks, k)
		}
		sort.Strings(ks)
		for _, k := range ks {
			ok := false
			for _, m := range merges[f] {
				if m.fe == nil || m.fe[k] {
					ok = true
				}
			}
			if ok {
				r.OK(fmt.Sprintf("Definition.%s of a %s extension is merged", f, k), "")
				continue
			}
			m := merges[f][0]
			var fk []string
			for kk := range m.fe {
				fk = append(fk, kk)
			}
			sort.Strings(fk)
			r.Fail(m.in.Pos(), p.FuncName(m.in.Parent()), fmt.Sprintf("Definition.%s of a %s extension is not merged", f, k), fmt.Sprintf("the parser stores Definition.%s on %s nodes (%s), but the loader appends the extension's %s to the definition only under kinds {%s}: what an `extend` of a %s declares there is silently dropped from the loaded schema", f, k, p.Pos(stored[f][k]), f, strings.Join(fk, ","), k))
		}
	}
}

// parserStoredKinds: field of Definition -> kind constant -> a place where a parse function stores that field on a
// node whose Kind it sets to that constant.
func parserStoredKinds(p *Program, defT *types.Named) map[string]map[string]token.Pos {
	st := defT.Underlying().(*types.Struct)
	stored := map[string]map[string]token.Pos{}
	for _, fn := range p.FuncsIn("parser") {
		kinds := map[ssa.Value]string{}
		for _, s := range storesToField([]*ssa.Function{fn}, defT, "Kind") {
			if k, ok := constString(s.store.Val); ok {
				if old, had := kinds[s.addr.X]; had && old != k {
					kinds[s.addr.X] = "?"
				} else {
					kinds[s.addr.X] = k
				}
			} else {
				kinds[s.addr.X] = "?"
			}
		}
		if len(kinds) == 0 {
			continue
		}
		for i := 0; i < st.NumFields(); i++ {
			f := st.Field(i).Name()
			if f == "Kind" {
				continue
			}
			for _, s := range storesToField([]*ssa.Function{fn}, defT, f) {
				k := kinds[s.addr.X]
				if k == "" || k == "?" {
					continue
				}
				if stored[f] == nil {
					stored[f] = map[string]token.Pos{}
				}
				if _, had := stored[f][k]; !had {
					stored[f][k] = s.store.Pos()
				}
			}
		}
	}
	return stored
}
