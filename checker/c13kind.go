package main

import (
	"fmt"
	"go/constant"
	"go/token"
	"go/types"
	"sort"
	"strings"

	"golang.org/x/tools/go/ssa"
)

// kindCoverage (C13.R1): the schema parser stores a Definition field under certain kinds (the Kind constant stored on the
// same node in the same parse function). The formatter must read that field on a path that is feasible for every one of
// those kinds: a read that sits inside `case Object:` does not print what the parser stored on an INTERFACE.
// Decided: the kind tests that dominate each formatter read (through the call sites of unexported helpers, three levels).
// Not decided: that the read value is then written — R1's field coverage and R4's guard discipline look at that.
func kindCoverage(c *Ctx, r *RuleResult) {
	p := c.P
	defT := p.LookupType("ast", "Definition")
	if defT == nil {
		r.AnchorLost("ast.Definition")
		return
	}
	st := defT.Underlying().(*types.Struct)
	type at struct {
		fn  *ssa.Function
		pos token.Pos
	}
	stored := map[string]map[string]at{}
	for _, fn := range p.FuncsIn("parser") {
		kinds := map[ssa.Value]string{}
		for _, s := range storesToField([]*ssa.Function{fn}, defT, "Kind") {
			if k, ok := constString(s.store.Val); ok {
				if old, had := kinds[s.addr.X]; had && old != k {
					kinds[s.addr.X] = "?"
				} else {
					kinds[s.addr.X] = k
				}
			} else {
				kinds[s.addr.X] = "?"
			}
		}
		if len(kinds) == 0 {
			continue
		}
		for i := 0; i < st.NumFields(); i++ {
			f := st.Field(i).Name()
			if f == "Kind" {
				continue
			}
			for _, s := range storesToField([]*ssa.Function{fn}, defT, f) {
				k := kinds[s.addr.X]
				if k == "" || k == "?" {
					continue
				}
				if stored[f] == nil {
					stored[f] = map[string]at{}
				}
				if _, had := stored[f][k]; !had {
					stored[f][k] = at{fn, s.store.Pos()}
				}
			}
		}
	}
	if len(stored) == 0 {
		r.AnchorLost("parse functions that store Definition.Kind as a constant beside the other fields")
		return
	}
	scope := formatterScope(p)
	kindOfCond := func(cd Cond) (k string, eq bool, ok bool) {
		bo, isB := cd.V.(*ssa.BinOp)
		if !isB || (bo.Op != token.EQL && bo.Op != token.NEQ) {
			return "", false, false
		}
		if loadOfField(bo.X, "Definition", "Kind") {
			k, ok = constString(bo.Y)
		} else if loadOfField(bo.Y, "Definition", "Kind") {
			k, ok = constString(bo.X)
		}
		if !ok {
			return "", false, false
		}
		eq = (bo.Op == token.EQL) == cd.True
		return k, eq, true
	}
	// feasible: nil = every kind
	var feasible func(b *ssa.BasicBlock, depth int) map[string]bool
	feasible = func(b *ssa.BasicBlock, depth int) map[string]bool {
		var only map[string]bool
		excluded := map[string]bool{}
		if ks := kindsAt(b); len(ks) > 0 {
			only = map[string]bool{}
			for _, k := range ks {
				only[k] = true
			}
		}
		for _, cd := range condsAt(b) {
			k, eq, ok := kindOfCond(cd)
			if !ok {
				continue
			}
			if eq {
				if only == nil {
					only = map[string]bool{k: true}
				}
			} else {
				excluded[k] = true
			}
		}
		fn := b.Parent()
		var entry map[string]bool // nil = all
		if depth < 3 {
			hasDef := false
			for _, prm := range fn.Params {
				if pt, ok := prm.Type().(*types.Pointer); ok && namedOf(pt.Elem()) == defT {
					hasDef = true
				}
			}
			sites := callSitesOf(p, fn)
			if hasDef && len(sites) > 0 && !(fn.Object() != nil && fn.Object().Exported() && fn.Signature.Recv() == nil) {
				entry = map[string]bool{}
				for _, cs := range sites {
					if cs.Parent() == fn {
						continue
					}
					fe := feasible(cs.Block(), depth+1)
					if fe == nil {
						entry = nil
						break
					}
					for k := range fe {
						entry[k] = true
					}
				}
			}
		}
		if only == nil && len(excluded) == 0 {
			return entry
		}
		out := map[string]bool{}
		if only != nil {
			for k := range only {
				if !excluded[k] && (entry == nil || entry[k]) {
					out[k] = true
				}
			}
			return out
		}
		// exclusions only: need the universe
		for _, k := range definitionKinds(p) {
			if !excluded[k] && (entry == nil || entry[k]) {
				out[k] = true
			}
		}
		return out
	}
	type rd struct {
		in ssa.Instruction
		fe map[string]bool
	}
	reads := map[string][]rd{}
	var fns []*ssa.Function
	for fn := range scope {
		fns = append(fns, fn)
	}
	sort.Slice(fns, func(i, j int) bool { return p.FuncName(fns[i]) < p.FuncName(fns[j]) })
	for _, fn := range fns {
		if fn.Pkg == nil || !strings.HasSuffix(fn.Pkg.Pkg.Path(), "/formatter") {
			continue
		}
		allInstrs(fn, func(in ssa.Instruction) {
			var f string
			switch x := in.(type) {
			case *ssa.FieldAddr:
				n, name, _, _ := fieldOf(x)
				if n != defT {
					return
				}
				isRead := false
				for _, ref := range *x.Referrers() {
					if s, ok := ref.(*ssa.Store); ok && s.Addr == ssa.Value(x) {
						continue
					}
					isRead = true
				}
				if !isRead {
					return
				}
				f = name
			case *ssa.Field:
				n, name, _, _ := fieldOf(x)
				if n != defT {
					return
				}
				f = name
			default:
				return
			}
			if stored[f] == nil {
				return
			}
			reads[f] = append(reads[f], rd{in, feasible(in.Block(), 0)})
		})
	}
	var fields []string
	for f := range stored {
		fields = append(fields, f)
	}
	sort.Strings(fields)
	for _, f := range fields {
		if len(reads[f]) == 0 {
			continue // never read at all: field coverage reports it or exempts it
		}
		var ks []string
		for k := range stored[f] {
			ks = append(ks, k)
		}
		sort.Strings(ks)
		for _, k := range ks {
			ok := false
			for _, x := range reads[f] {
				if x.fe == nil || x.fe[k] {
					ok = true
				}
			}
			if ok {
				r.OK(fmt.Sprintf("Definition.%s stored for %s: a formatter read is feasible under that kind", f, k), "")
				continue
			}
			var where []string
			for _, x := range reads[f] {
				var fk []string
				for kk := range x.fe {
					fk = append(fk, kk)
				}
				sort.Strings(fk)
				where = append(where, fmt.Sprintf("%s (only under %s)", p.Pos(x.in.Pos()), strings.Join(fk, ",")))
			}
			x := reads[f][0]
			r.Fail(x.in.Pos(), p.FuncName(x.in.Parent()), fmt.Sprintf("Definition.%s is not printed for kind %s", f, k), fmt.Sprintf("%s stores Definition.%s on a %s definition (%s), but every read of that field in the formatter lies under a kind test that excludes %s: %s — formatting and parsing back loses it", p.FuncName(stored[f][k].fn), f, k, p.Pos(stored[f][k].pos), k, strings.Join(where, "; ")))
		}
	}
}

var defKindMemo = map[*Program][]string{}

// definitionKinds: the constants of type ast.DefinitionKind.
func definitionKinds(p *Program) []string {
	if ks, ok := defKindMemo[p]; ok {
		return ks
	}
	var out []string
	if dk := p.LookupType("ast", "DefinitionKind"); dk != nil {
		sc := dk.Obj().Pkg().Scope()
		for _, nm := range sc.Names() {
			if cst, ok := sc.Lookup(nm).(*types.Const); ok && types.Identical(cst.Type(), dk) {
				if cst.Val().Kind() == constant.String {
					out = append(out, constant.StringVal(cst.Val()))
				}
			}
		}
	}
	sort.Strings(out)
	defKindMemo[p] = out
	return out
}
