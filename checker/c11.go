package main

import (
	"fmt"
	"go/token"
	"go/types"
	"sort"
	"strings"

	"golang.org/x/tools/go/ssa"
)

func init() {
	register("C11", "Ownership and write-effect analysis: (R1) no instruction in any function reachable from the read-only API (Validate, Walk, every rule, VariableValues, ArgumentMap, Value.Value, the formatter, the ast read helpers) stores through an address that may be schema memory — by type (Schema, Definition, FieldDefinition, ArgumentDefinition, EnumValueDefinition, DirectiveDefinition), by derivation from such a value, or through a document field that links into the schema (ExpectedType, Definition, ObjectDefinition, ...) — directly or by passing it to a callee whose mod-summary writes that parameter; (R2) none of them writes a package-level variable; (R3) rule state is per Validate call. Decides data-race freedom on the schema and its immutability for all schedules and histories; aliasing created through reflection is outside the analysis (checked: no schema value reaches reflect). (R4) no process-wide state: package-level variables are only loaded outside initialisers and the registry functions. (R5) no shallow copy of a schema-owned struct is stored into another object. (R6) a schema-owned reference is stored into a document only through a link field; syntactic fields never receive schema memory.", runC11)
}

// readOnlyRoots returns the API a shared schema may be used through concurrently.
func readOnlyRoots(p *Program) (roots []*ssa.Function, excluded []string) {
	mutators := map[string]string{
		"ast.(*Schema).AddTypes":                   "documented schema builder",
		"ast.(*Schema).AddPossibleType":            "documented schema builder (used by the loader)",
		"ast.(*Schema).AddImplements":              "documented schema builder (used by the loader)",
		"ast.(*SchemaDocument).Merge":              "merges parsed documents before loading",
		"ast.UnmarshalSelectionSet":                "JSON decoder (builds a new document)",
		"ast.(*Path).UnmarshalJSON":                "JSON decoder",
		"ast.(*Field).UnmarshalJSON":               "JSON decoder",
		"ast.(*FragmentDefinition).UnmarshalJSON":  "JSON decoder",
		"ast.(*InlineFragment).UnmarshalJSON":      "JSON decoder",
		"ast.(*OperationDefinition).UnmarshalJSON": "JSON decoder",
		"validator.LoadSchema":                     "the loader builds the schema",
		"validator.ValidateSchemaDocument":         "the loader builds the schema",
		"validator.AddRule":                        "rule registry mutator (documented as not concurrency-safe)",
		"validator.RemoveRule":                     "rule registry mutator (documented as not concurrency-safe)",
		"validator.ReplaceRule":                    "rule registry mutator (documented as not concurrency-safe)",
		"gqlparser.LoadSchema":                     "the loader builds the schema",
		"gqlparser.MustLoadSchema":                 "the loader builds the schema",
	}
	for _, fn := range p.Funcs() {
		name := p.FuncName(fn)
		r := rootFunc(fn)
		if fn.Parent() == nil && (fn.Name() == "init" || strings.HasPrefix(fn.Name(), "init#")) {
			continue
		}
		rname := p.FuncName(r)
		if _, ok := mutators[rname]; ok {
			continue
		}
		pkg := r.Pkg.Pkg.Path()
		switch {
		case strings.HasSuffix(pkg, "/validator/rules"), strings.HasSuffix(pkg, "/formatter"):
			roots = append(roots, fn)
		case strings.HasSuffix(pkg, "/validator"):
			// the schema loader's private helpers (unexported functions of package validator that only the loader
			// reaches) build the schema; they are not part of the read-only API
			if r.Name() == "init" || loaderOnly(p)[r] {
				continue
			}
			roots = append(roots, fn)
		case strings.HasSuffix(pkg, "/ast"):
			if strings.HasSuffix(name, "UnmarshalJSON") || r.Name() == "init" {
				continue
			}
			roots = append(roots, fn)
		case pkg == modPath:
			if r.Name() == "LoadQuery" || r.Name() == "MustLoadQuery" {
				roots = append(roots, fn)
			}
		}
	}
	for k, v := range mutators {
		excluded = append(excluded, k+": "+v)
	}
	return
}

func runC11(c *Ctx) {
	p := c.P
	e := newEffects(p)
	roots, excluded := readOnlyRoots(p)
	scope := p.reachableFrom(roots, e.dyn)
	for fn := range scope {
		// package initialisers run once, before any API call
		if fn.Parent() == nil && (fn.Name() == "init" || strings.HasPrefix(fn.Name(), "init#")) {
			delete(scope, fn)
		}
	}
	c.Extra["roots"] = len(roots)
	c.Extra["excluded_mutators"] = excluded

	r1 := c.Rule("R1", "no write effect on schema-owned memory in code reachable from the read-only API", 100)
	finds, _ := e.schemaWrites(scope)
	bad := map[*ssa.Function]bool{}
	for _, f := range finds {
		bad[f.fn] = true
		r1.Fail(f.pos, p.FuncName(f.fn), f.construct, f.msg)
	}
	nfun := 0
	for fn := range scope {
		if !p.inModule(fn) {
			continue
		}
		nfun++
		for _, w := range directWrites(fn) {
			if !bad[fn] {
				r1.OK(p.FuncName(fn)+" "+w.kind+" "+describeTarget(w.target), "target is a document node, local state or a fresh allocation")
			}
		}
	}
	c.Extra["functions_in_scope"] = nfun

	// reflection: no schema-owned value may reach package reflect
	r1b := c.Rule("R1b", "no schema-owned value is handed to package reflect or to an unclassified external mutator", 3)
	for fn := range scope {
		if !p.inModule(fn) {
			continue
		}
		allInstrs(fn, func(in ssa.Instruction) {
			ci, ok := in.(ssa.CallInstruction)
			if !ok {
				return
			}
			name := calleeName(ci)
			if !(strings.HasPrefix(name, "reflect.") || strings.HasPrefix(name, "(reflect.")) {
				return
			}
			if name != "reflect.ValueOf" && name != "reflect.DeepEqual" {
				return
			}
			for _, a := range ci.Common().Args {
				if !isRefType(stripConv(a).Type()) {
					continue // strings and scalars are copied
				}
				if why := e.own.ownedReason(a); why != "" && name == "reflect.ValueOf" {
					r1b.Fail(in.Pos(), p.FuncName(fn), name+" "+describeTarget(a), "a value "+why+" is converted to a reflect.Value, through which it can be modified unseen by this analysis")
					return
				}
			}
			r1b.OK(p.FuncName(fn)+" "+name, "argument is not schema memory (DeepEqual only reads)")
		})
	}

	r2 := c.Rule("R2", "no package-level variable is written from the read-only API", 50)
	for fn := range scope {
		if !p.inModule(fn) {
			continue
		}
		s := e.sums[fn]
		if s == nil {
			continue
		}
		wrote := false
		for _, w := range directWrites(fn) {
			for _, ch := range chase(w.target) {
				if g, ok := ch.root.(*ssa.Global); ok {
					wrote = true
					r2.Fail(w.in.Pos(), p.FuncName(fn), "global "+g.Name(), fmt.Sprintf("%s writes package-level variable %s: concurrent or repeated calls share it", w.kind, g.Name()))
				}
			}
		}
		if !wrote {
			r2.OK(p.FuncName(fn), "writes no package-level variable")
		}
	}

	r3 := c.Rule("R3", "per-call state: a rule's observers capture only variables created inside its RuleFunc invocation, and read no package-level variable that anything writes after init", 1)
	c11PerCallState(c, r3, scope)

	// ---- R5 no shallow copy of schema memory is planted into a document
	r5 := c.Rule("R5", "no shallow copy of a schema-owned struct is stored into another object", 1)
	c11ShallowCopies(c, r5, e, scope)

	r4 := c.Rule("R4", "no process-wide state: package-level variables are only read after init (rule registry excepted)", 1)
	noProcessState(c, r4, nil)

	r6 := c.Rule("R6", "a schema-owned reference is stored into a document only through a link field", 10)
	c11PlantedSchemaPointers(c, r6, e, scope)
}

// c11PlantedSchemaPointers: validation points document nodes at schema nodes through its link fields (Definition,
// ExpectedType, ObjectDefinition ...); nothing is ever written through those. The syntactic fields of a document
// (children, arguments, values, types, directives — the fields the parser fills) are different: the walker descends
// through them and annotates every node it reaches, and rules and later stages may edit them. A schema-owned pointer
// stored into a syntactic field (a default value planted as a child of a literal) makes those writes land in the schema.
// Decided: every store in the validation scope whose target is a non-link field of an ast node (or an element appended
// to such a field) and whose value is schema memory by the ownership analysis.
func c11PlantedSchemaPointers(c *Ctx, r *RuleResult, e *effects, scope map[*ssa.Function]bool) {
	p := c.P
	var fns []*ssa.Function
	for fn := range scope {
		if p.inModule(fn) {
			fns = append(fns, fn)
		}
	}
	sort.Slice(fns, func(i, j int) bool { return p.FuncName(fns[i]) < p.FuncName(fns[j]) })
	astNode := func(t *types.Named) bool {
		return t != nil && t.Obj().Pkg() != nil && strings.HasSuffix(t.Obj().Pkg().Path(), "/ast")
	}
	// the values an append adds: elements of the variadic array, or the spread slice itself
	appended := func(v ssa.Value) []ssa.Value {
		call, ok := v.(*ssa.Call)
		if !ok {
			return nil
		}
		if b, ok := call.Common().Value.(*ssa.Builtin); !ok || b.Name() != "append" || len(call.Common().Args) != 2 {
			return nil
		}
		arg := call.Common().Args[1]
		if sl, ok := arg.(*ssa.Slice); ok {
			if al, ok := sl.X.(*ssa.Alloc); ok {
				var out []ssa.Value
				for _, ref := range *al.Referrers() {
					if ia, ok := ref.(*ssa.IndexAddr); ok {
						for _, r2 := range *ia.Referrers() {
							if st, ok := r2.(*ssa.Store); ok && st.Addr == ssa.Value(ia) {
								out = append(out, st.Val)
							}
						}
					}
				}
				return out
			}
		}
		return []ssa.Value{arg}
	}
	for _, fn := range fns {
		allInstrs(fn, func(in ssa.Instruction) {
			st, ok := in.(*ssa.Store)
			if !ok {
				return
			}
			fa, ok := st.Addr.(*ssa.FieldAddr)
			if !ok {
				return
			}
			n, f, _, _ := fieldOf(fa)
			if !astNode(n) || e.own.exclusive[n.Obj().Name()] {
				return // schema nodes: R1
			}
			key := n.Obj().Name() + "." + f
			if e.own.linkFields[key] {
				return
			}
			vals := []ssa.Value{st.Val}
			if ap := appended(st.Val); ap != nil {
				vals = ap
			}
			bad := ""
			for _, v := range vals {
				v = stripConv(v)
				if !isRefType(v.Type()) {
					continue
				}
				if _, isStr := v.Type().Underlying().(*types.Basic); isStr {
					continue
				}
				if why := e.own.ownedReason(v); why != "" {
					bad = why
				}
			}
			if bad == "" {
				r.OK(fmt.Sprintf("%s stores into %s at %s", p.FuncName(fn), key, p.Pos(st.Pos())), "the stored reference is not schema memory")
				return
			}
			r.Fail(st.Pos(), p.FuncName(fn), "schema memory stored into "+key, fmt.Sprintf("%s is a syntactic field (not one of the link fields validation uses to point at the schema) and the value stored is %s: the document now contains a schema node, and the walker's annotations and any later edit of the document land in the shared schema", key, bad))
		})
	}
}

// c11PerCallState: every module Global read from the scope must be write-once (only written by package init or the registry mutators).
func c11PerCallState(c *Ctx, r *RuleResult, scope map[*ssa.Function]bool) {
	p := c.P
	// who writes each global
	writers := map[*ssa.Global][]string{}
	for _, fn := range p.Funcs() {
		allInstrs(fn, func(in ssa.Instruction) {
			var tgt ssa.Value
			switch x := in.(type) {
			case *ssa.Store:
				tgt = x.Addr
			case *ssa.MapUpdate:
				tgt = x.Map
			default:
				return
			}
			for _, ch := range chase(tgt) {
				if g, ok := ch.root.(*ssa.Global); ok {
					writers[g] = append(writers[g], p.FuncName(fn))
				}
			}
		})
	}
	allowedWriter := func(name string) bool {
		return strings.HasSuffix(name, ".init") || strings.Contains(name, ".init#") || strings.Contains(name, ".init$") ||
			name == "validator.AddRule" || name == "validator.RemoveRule" || name == "validator.ReplaceRule"
	}
	for fn := range scope {
		if !p.inModule(fn) {
			continue
		}
		seen := map[*ssa.Global]bool{}
		allInstrs(fn, func(in ssa.Instruction) {
			for _, op := range in.Operands(nil) {
				g, ok := (*op).(*ssa.Global)
				if !ok || g.Pkg == nil || !strings.HasPrefix(g.Pkg.Pkg.Path(), modPath) || seen[g] {
					continue
				}
				seen[g] = true
				okAll := true
				for _, w := range writers[g] {
					if !allowedWriter(w) {
						okAll = false
						r.Fail(in.Pos(), p.FuncName(fn), "global "+g.Name(), fmt.Sprintf("uses package-level variable %s, which %s writes: state is shared between validations", g.Name(), w))
						break
					}
				}
				if okAll {
					r.OK(p.FuncName(fn)+" reads "+g.Name(), "written only at init / by the registry mutators")
				}
			}
		})
		// closures: every binding is a local of the enclosing function, one of its parameters, or itself a capture
		for _, in := range fnInstrs(fn) {
			mc, ok := in.(*ssa.MakeClosure)
			if !ok {
				continue
			}
			for _, b := range mc.Bindings {
				switch b.(type) {
				case *ssa.Alloc, *ssa.Parameter, *ssa.FreeVar, *ssa.MakeClosure, *ssa.Function:
				default:
					if _, isPtr := b.Type().(*types.Pointer); isPtr {
						if _, isG := b.(*ssa.Global); isG {
							r.Fail(in.Pos(), p.FuncName(fn), "closure binds global", "a closure captures a package-level variable")
						}
					}
				}
			}
		}
	}
}

func fnInstrs(fn *ssa.Function) []ssa.Instruction {
	var out []ssa.Instruction
	allInstrs(fn, func(in ssa.Instruction) { out = append(out, in) })
	return out
}

var loaderOnlyMemo map[*ssa.Function]bool

// loaderOnly: unexported top-level functions of package validator reachable (statically) from the loader entry
// points and from no other exported function or method of the package.
func loaderOnly(p *Program) map[*ssa.Function]bool {
	if loaderOnlyMemo != nil {
		return loaderOnlyMemo
	}
	out := map[*ssa.Function]bool{}
	var loaderRoots, otherRoots []*ssa.Function
	for _, fn := range p.FuncsIn("validator") {
		if fn.Parent() != nil || fn.Object() == nil {
			continue
		}
		name := fn.Name()
		switch {
		case name == "LoadSchema" || name == "ValidateSchemaDocument":
			loaderRoots = append(loaderRoots, fn)
		case fn.Object().Exported() || fn.Signature.Recv() != nil:
			otherRoots = append(otherRoots, fn)
		}
	}
	for _, fn := range p.FuncsIn("validator/rules") {
		otherRoots = append(otherRoots, fn)
	}
	fromLoader := p.reachableFrom(loaderRoots, nil)
	fromOther := p.reachableFrom(otherRoots, nil)
	for fn := range fromLoader {
		if fn.Parent() != nil || fn.Object() == nil || fn.Object().Exported() || fn.Signature.Recv() != nil {
			continue
		}
		if pk := p.PkgOf(fn); pk == nil || !strings.HasSuffix(pk.PkgPath, "/validator") {
			continue
		}
		if !fromOther[fn] {
			out[fn] = true
		}
	}
	loaderOnlyMemo = out
	return out
}

// c11ShallowCopies: `tmp := *p` where p points into the schema copies the struct but shares everything it refers to
// (child lists, element types). Kept in a local and read, that is harmless. Once the address of such a copy is stored
// into another object — appended to a document's child list, put into a node — the document refers to schema memory
// through an alias the ownership analysis (type- and field-based) can no longer see, and the walker's annotations or a
// rule's edits land in the schema. Reported where the copy's address is stored.
func c11ShallowCopies(c *Ctx, r *RuleResult, e *effects, scope map[*ssa.Function]bool) {
	p := c.P
	n := 0
	hasRefField := func(t types.Type) bool {
		st, ok := t.Underlying().(*types.Struct)
		if !ok {
			return false
		}
		for i := 0; i < st.NumFields(); i++ {
			if isRefType(st.Field(i).Type()) {
				return true
			}
		}
		return false
	}
	for fn := range scope {
		if !p.inModule(fn) {
			continue
		}
		allInstrs(fn, func(in ssa.Instruction) {
			a, ok := in.(*ssa.Alloc)
			if !ok || !a.Heap {
				return
			}
			pt, ok := a.Type().Underlying().(*types.Pointer)
			if !ok || !hasRefField(pt.Elem()) {
				return
			}
			// filled by a whole-struct copy from owned memory?
			var why string
			for _, ref := range *a.Referrers() {
				st, ok := ref.(*ssa.Store)
				if !ok || st.Addr != ssa.Value(a) {
					continue
				}
				u, ok := st.Val.(*ssa.UnOp)
				if !ok || u.Op != token.MUL {
					continue
				}
				if w := e.own.ownedReason(u.X); w != "" {
					why = w
				}
			}
			if why == "" {
				return
			}
			n++
			// is the copy's address stored into another object?
			var planted ssa.Instruction
			for _, ref := range *a.Referrers() {
				switch x := ref.(type) {
				case *ssa.Store:
					if x.Val == ssa.Value(a) {
						planted = x
					}
				case *ssa.MakeInterface:
					// boxed and stored
					for _, r2 := range *x.Referrers() {
						if st2, ok := r2.(*ssa.Store); ok && st2.Val == ssa.Value(x) {
							planted = st2
						}
					}
				}
			}
			site := fmt.Sprintf("copy of a schema struct in %s at %s", p.FuncName(fn), p.Pos(a.Pos()))
			if planted != nil {
				r.Fail(planted.Pos(), p.FuncName(fn), "shallow copy of schema memory stored into another object ("+a.Comment+")", "the struct copied from the schema ("+why+") shares its child lists and nested pointers with the schema; its address is stored into another object here, so code that annotates or edits that object writes into the loaded schema — unseen by every other check, and a data race between concurrent validations")
			} else {
				r.OK(site, "stays local: read or passed to calls only")
			}
		})
	}
	if n == 0 {
		r.OK("no whole-struct copy from schema memory into an escaping local in the read-only scope", "")
	}
}
