package main

import (
	"fmt"
	"go/token"
	"go/types"
	"sort"
	"strings"

	"golang.org/x/tools/go/ssa"
)

// ---------------------------------------------------------------------------
// Access chains: where does an address / value come from?

type chainInfo struct {
	root       ssa.Value // Parameter, FreeVar, Alloc, Global, Call, Const, MakeX ... (first non-derivation value)
	roots      []ssa.Value
	types      []types.Type // every pointer/struct type passed through (outermost last)
	fields     []string     // "Struct.Field" loads/addresses passed through
	throughMap bool
}

// chase walks a written target (an address, or a container value such as a map or slice) back through
// field/index/deref/slice/phi derivations. It returns every root (phis fan out) together with
//   - types:  the types of the container pointers passed on the way (x in x.f, x[i], *x), and
//   - fields: the struct fields that were *loaded from* on the way (links followed), innermost first.
//
// The cell being written itself is not a link that was followed.
func chase(v ssa.Value) []chainInfo {
	var out []chainInfo
	seen := map[ssa.Value]bool{}
	var val func(v ssa.Value, cur chainInfo, depth int)
	var addr func(v ssa.Value, cur chainInfo, depth int)
	emit := func(v ssa.Value, cur chainInfo) {
		cur.root = v
		out = append(out, cur)
	}
	push := func(cur chainInfo, t types.Type) chainInfo {
		cur.types = append(append([]types.Type{}, cur.types...), t)
		return cur
	}
	pushF := func(cur chainInfo, f string) chainInfo {
		cur.fields = append(append([]string{}, cur.fields...), f)
		return cur
	}
	// addr: v is the address of a cell; which object contains that cell?
	addr = func(v ssa.Value, cur chainInfo, depth int) {
		if depth > 60 || v == nil {
			emit(v, cur)
			return
		}
		switch x := v.(type) {
		case *ssa.FieldAddr:
			val(x.X, cur, depth+1)
		case *ssa.IndexAddr:
			if _, isPtr := x.X.Type().Underlying().(*types.Pointer); isPtr {
				val(x.X, cur, depth+1) // pointer to array
			} else {
				val(x.X, cur, depth+1) // slice
			}
		case *ssa.Phi:
			if seen[x] {
				return
			}
			seen[x] = true
			for _, e := range x.Edges {
				addr(e, cur, depth+1)
			}
			delete(seen, x)
		case *ssa.ChangeType:
			addr(x.X, cur, depth+1)
		case *ssa.Alloc, *ssa.Global, *ssa.FreeVar:
			emit(v, cur)
		default:
			// an address held in a value (parameter of pointer type, call result, load of a pointer): the pointee is the object
			val(v, cur, depth+1)
		}
	}
	// val: v is a reference value (pointer, slice, map, interface); where does the object it refers to come from?
	val = func(v ssa.Value, cur chainInfo, depth int) {
		if depth > 60 || v == nil {
			emit(v, cur)
			return
		}
		cur = push(cur, v.Type())
		switch x := v.(type) {
		case *ssa.FieldAddr:
			// &x.f used as a pointer value: the object is x's
			val(x.X, cur, depth+1)
		case *ssa.IndexAddr:
			val(x.X, cur, depth+1)
		case *ssa.Field:
			st, name, _, _ := fieldOf(x)
			val(x.X, pushF(cur, stName(st)+"."+name), depth+1)
		case *ssa.Index:
			val(x.X, cur, depth+1)
		case *ssa.Lookup:
			cur.throughMap = true
			val(x.X, cur, depth+1)
		case *ssa.Slice:
			val(x.X, cur, depth+1)
		case *ssa.UnOp:
			if x.Op != token.MUL {
				emit(v, cur)
				return
			}
			switch a := x.X.(type) {
			case *ssa.FieldAddr:
				st, name, _, _ := fieldOf(a)
				val(a.X, pushF(cur, stName(st)+"."+name), depth+1)
				// a reference field loaded from a local struct that was filled by `tmp := *src`: the reference is src's
				if al, isAl := a.X.(*ssa.Alloc); isAl && !seen[al] {
					seen[al] = true
					for _, sv := range storesTo(al) {
						if u, isU := sv.(*ssa.UnOp); isU && u.Op == token.MUL {
							val(u.X, pushF(cur, stName(st)+"."+name), depth+1)
						}
					}
					delete(seen, al)
				}
			case *ssa.IndexAddr:
				val(a.X, cur, depth+1)
			case *ssa.Alloc:
				stored := storesTo(a)
				if isLocalSpill(a) && len(stored) > 0 && !seen[a] {
					seen[a] = true
					for _, sv := range stored {
						val(sv, cur, depth+1)
					}
					delete(seen, a)
					return
				}
				emit(a, cur)
			case *ssa.FreeVar:
				// captured variable: resolve to what the enclosing function stores into it
				if vals := freeVarStores(a); len(vals) > 0 && !seen[a] {
					seen[a] = true
					for _, sv := range vals {
						val(sv, cur, depth+1)
					}
					delete(seen, a)
					return
				}
				emit(a, cur)
			case *ssa.Global:
				emit(a, cur)
			default:
				val(x.X, cur, depth+1)
			}
		case *ssa.ChangeType:
			val(x.X, cur, depth+1)
		case *ssa.Convert:
			val(x.X, cur, depth+1)
		case *ssa.MakeInterface:
			val(x.X, cur, depth+1)
		case *ssa.ChangeInterface:
			val(x.X, cur, depth+1)
		case *ssa.TypeAssert:
			val(x.X, cur, depth+1)
		case *ssa.Extract:
			switch t := x.Tuple.(type) {
			case *ssa.Next:
				if r, ok := t.Iter.(*ssa.Range); ok {
					val(r.X, cur, depth+1)
					return
				}
			case *ssa.Lookup:
				cur.throughMap = true
				val(t.X, cur, depth+1)
				return
			case *ssa.TypeAssert:
				val(t.X, cur, depth+1)
				return
			}
			emit(v, cur)
		case *ssa.Phi:
			if seen[x] {
				return
			}
			seen[x] = true
			for _, e := range x.Edges {
				val(e, cur, depth+1)
			}
			delete(seen, x)
		case *ssa.Call:
			if b, ok := x.Common().Value.(*ssa.Builtin); ok && b.Name() == "append" {
				// the result may share the first argument's array
				val(x.Common().Args[0], cur, depth+1)
				return
			}
			emit(v, cur)
		default:
			emit(v, cur)
		}
	}
	if _, isPtr := v.Type().Underlying().(*types.Pointer); isPtr {
		switch v.(type) {
		case *ssa.FieldAddr, *ssa.IndexAddr, *ssa.Alloc, *ssa.Global, *ssa.FreeVar:
			addr(v, chainInfo{}, 0)
			return out
		}
	}
	val(v, chainInfo{}, 0)
	return out
}

// freeVarStores resolves a captured variable to the values stored into it by the enclosing function (and its other closures).
func freeVarStores(fv *ssa.FreeVar) []ssa.Value {
	fn := fv.Parent()
	parent := fn.Parent()
	if parent == nil {
		return nil
	}
	idx := -1
	for i, f := range fn.FreeVars {
		if f == fv {
			idx = i
		}
	}
	var out []ssa.Value
	for _, pf := range []*ssa.Function{parent} {
		allInstrs(pf, func(in ssa.Instruction) {
			mc, ok := in.(*ssa.MakeClosure)
			if !ok || mc.Fn != ssa.Value(fn) || idx >= len(mc.Bindings) {
				return
			}
			switch b := mc.Bindings[idx].(type) {
			case *ssa.Alloc:
				out = append(out, storesTo(b)...)
			case *ssa.FreeVar:
				out = append(out, freeVarStores(b)...)
			}
		})
	}
	return out
}

func stName(n *types.Named) string {
	if n == nil {
		return "?"
	}
	return n.Obj().Name()
}

// isLocalSpill: an Alloc (heap or not) that is only ever stored to / loaded from / captured — i.e. a variable, not an object.
func isLocalSpill(v ssa.Value) bool {
	a, ok := v.(*ssa.Alloc)
	if !ok {
		return false
	}
	// a variable holding a pointer/slice/map/interface/basic: loads from it yield the stored values
	switch a.Type().(*types.Pointer).Elem().Underlying().(type) {
	case *types.Struct, *types.Array:
		return false
	}
	return true
}

func storesTo(a *ssa.Alloc) []ssa.Value {
	var out []ssa.Value
	for _, r := range *a.Referrers() {
		if s, ok := r.(*ssa.Store); ok && s.Addr == ssa.Value(a) {
			out = append(out, s.Val)
		}
	}
	// closures capturing the variable may store too
	for _, r := range *a.Referrers() {
		if mc, ok := r.(*ssa.MakeClosure); ok {
			fn := mc.Fn.(*ssa.Function)
			for i, b := range mc.Bindings {
				if b == ssa.Value(a) {
					fv := fn.FreeVars[i]
					for _, rr := range *fv.Referrers() {
						if s, ok := rr.(*ssa.Store); ok && s.Addr == ssa.Value(fv) {
							out = append(out, s.Val)
						}
					}
				}
			}
		}
	}
	return out
}

// ---------------------------------------------------------------------------
// Ownership

type ownership struct {
	p *Program
	// schema-exclusive struct types: a pointer to one of these is schema memory wherever it comes from
	exclusive map[string]bool
	// document fields that link into the schema: a load of one yields schema memory
	linkFields map[string]bool
	// fresh-result summaries for in-module functions returning shared types
	inProgress map[ssa.Value]bool // values whose ownership is being decided (a call fed, through a variable, by its own result)
}

func newOwnership(p *Program) *ownership {
	return &ownership{p: p,
		exclusive: map[string]bool{"Schema": true, "Definition": true, "FieldDefinition": true, "ArgumentDefinition": true,
			"EnumValueDefinition": true, "DirectiveDefinition": true},
		linkFields: map[string]bool{"Value.ExpectedType": true, "Value.Definition": true, "Field.Definition": true, "Field.ObjectDefinition": true,
			"FragmentSpread.ObjectDefinition": true, "InlineFragment.ObjectDefinition": true, "FragmentDefinition.Definition": true,
			"Directive.Definition": true, "Directive.ParentDefinition": true, "VariableDefinition.Definition": true},
	}
}

func (o *ownership) exclusiveType(t types.Type) bool {
	if p, ok := t.Underlying().(*types.Pointer); ok {
		t = p.Elem()
	}
	n, _ := types.Unalias(t).(*types.Named)
	if n == nil || n.Obj().Pkg() == nil || !strings.HasSuffix(n.Obj().Pkg().Path(), "/ast") {
		return false
	}
	return o.exclusive[n.Obj().Name()]
}

func isFresh(v ssa.Value) bool {
	switch x := v.(type) {
	case *ssa.Alloc, *ssa.MakeSlice, *ssa.MakeMap, *ssa.MakeChan, *ssa.Const, *ssa.MakeClosure:
		return true
	case *ssa.Call:
		if b, ok := x.Common().Value.(*ssa.Builtin); ok && b.Name() == "append" {
			return false
		}
	case *ssa.BinOp, *ssa.Function:
		return true
	}
	return false
}

// ownedReason says why the object reached by the chain of v may be schema memory ("" if it is not).
// Flow-insensitive, type- and field-based; a fresh allocation in the function is never owned.
func (o *ownership) ownedReason(v ssa.Value) string {
	if o.inProgress == nil {
		o.inProgress = map[ssa.Value]bool{}
	}
	if o.inProgress[v] {
		return ""
	}
	o.inProgress[v] = true
	defer delete(o.inProgress, v)
	for _, c := range chase(v) {
		if r := o.chainOwned(c); r != "" {
			return r
		}
	}
	return ""
}

func (o *ownership) chainOwned(c chainInfo) string {
	for _, f := range c.fields {
		if o.linkFields[f] {
			return "reached through the schema link " + f
		}
	}
	// a local struct filled by `tmp := *p` with p in schema memory: its own cells are the local's, but every reference
	// it holds (child lists, nested pointers) still points into the schema — a write through one of them is a schema write
	if a, ok := c.root.(*ssa.Alloc); ok && len(c.fields) > 0 {
		for _, sv := range storesTo(a) {
			if u, isU := sv.(*ssa.UnOp); isU && u.Op == token.MUL {
				if why := o.ownedReason(u.X); why != "" {
					return "reached through " + c.fields[len(c.fields)-1] + " of a shallow copy of memory " + why
				}
			}
		}
	}
	// types passed through, excluding the root when it is a fresh allocation
	fresh := c.root != nil && isFresh(c.root)
	for i, t := range c.types {
		if fresh && i == len(c.types)-1 {
			continue
		}
		if o.exclusiveType(t) {
			return "reached through a value of schema type " + types.TypeString(t, shortQual)
		}
	}
	if c.root != nil && !fresh {
		switch r := c.root.(type) {
		case *ssa.Call:
			// result of a call: owned when a schema-typed or owned argument goes in and the result is not a scalar/string
			if f := r.Common().StaticCallee(); f != nil && o.p.inModule(f) {
				for _, a := range r.Common().Args {
					if isRefType(a.Type()) {
						if why := o.ownedReason(a); why != "" {
							return "result of " + o.p.FuncName(f) + " on an argument " + why
						}
					}
				}
			}
		case *ssa.Global:
			return ""
		}
	}
	return ""
}

func shortQual(p *types.Package) string { return p.Name() }

func isRefType(t types.Type) bool {
	switch t.Underlying().(type) {
	case *types.Pointer, *types.Slice, *types.Map, *types.Interface, *types.Chan, *types.Signature:
		return true
	}
	return false
}

// ---------------------------------------------------------------------------
// Write effects of one function

type writeEffect struct {
	in     ssa.Instruction
	target ssa.Value // the address / container written
	kind   string    // store, mapupdate, delete, append, copy, sort, extern
	detail string
}

// directWrites lists the heap writes a function performs itself (not through callees).
func directWrites(fn *ssa.Function) []writeEffect {
	var out []writeEffect
	allInstrs(fn, func(in ssa.Instruction) {
		switch x := in.(type) {
		case *ssa.Store:
			if a, ok := x.Addr.(*ssa.Alloc); ok && isLocalSpill(a) {
				return // assignment to a variable
			}
			if _, ok := x.Addr.(*ssa.FreeVar); ok {
				if isVarCell(x.Addr) {
					return // assignment to a captured variable: per-closure state, judged by the per-call-state rule
				}
			}
			out = append(out, writeEffect{in, x.Addr, "store", ""})
		case *ssa.MapUpdate:
			out = append(out, writeEffect{in, x.Map, "mapupdate", ""})
		case ssa.CallInstruction:
			cc := x.Common()
			if b, ok := cc.Value.(*ssa.Builtin); ok {
				switch b.Name() {
				case "delete":
					out = append(out, writeEffect{in, cc.Args[0], "delete", ""})
				case "copy":
					out = append(out, writeEffect{in, cc.Args[0], "copy", ""})
				case "clear":
					out = append(out, writeEffect{in, cc.Args[0], "clear", ""})
				case "append":
					// append(s, ...) writes s's backing array when cap(s) > len(s), unless s is a full slice expression s[:n:n]
					if sl, ok := cc.Args[0].(*ssa.Slice); ok && sl.Max != nil && sl.High != nil && sameValue(sl.Max, sl.High) {
						return
					}
					if isNilConst(cc.Args[0]) {
						return
					}
					out = append(out, writeEffect{in, cc.Args[0], "append", ""})
				}
				return
			}
			name := calleeName(x)
			if mut, idx := knownMutator(name); mut {
				if idx < len(cc.Args) {
					kind := "sort"
					if !strings.Contains(name, "ort") && name != "slices.Reverse" {
						kind = "in-place " + name[strings.LastIndex(name, ".")+1:]
					}
					out = append(out, writeEffect{in, cc.Args[idx], kind, name})
				}
			}
		}
	})
	return out
}

// isVarCell: a FreeVar that is the address of a captured variable (as opposed to a captured pointer object).
func isVarCell(v ssa.Value) bool {
	fv, ok := v.(*ssa.FreeVar)
	if !ok {
		return false
	}
	pt, ok := fv.Type().(*types.Pointer)
	if !ok {
		return false
	}
	switch pt.Elem().Underlying().(type) {
	case *types.Struct, *types.Array:
		return false
	}
	return true
}

func sameValue(a, b ssa.Value) bool {
	if a == b {
		return true
	}
	ca, ok1 := a.(*ssa.Const)
	cb, ok2 := b.(*ssa.Const)
	if ok1 && ok2 && ca.Value != nil && cb.Value != nil {
		return ca.Value.ExactString() == cb.Value.ExactString()
	}
	// len(x) twice, or the same load
	if x, ok := a.(*ssa.Call); ok {
		if y, ok := b.(*ssa.Call); ok {
			bx, ok1 := x.Common().Value.(*ssa.Builtin)
			by, ok2 := y.Common().Value.(*ssa.Builtin)
			if ok1 && ok2 && bx.Name() == by.Name() && len(x.Common().Args) == 1 && len(y.Common().Args) == 1 {
				return sameValue(x.Common().Args[0], y.Common().Args[0])
			}
		}
	}
	return false
}

// knownMutator: standard-library functions that write through an argument (index of that argument).
func knownMutator(name string) (bool, int) {
	switch name {
	case "sort.Strings", "sort.Ints", "sort.Float64s", "sort.Slice", "sort.SliceStable", "sort.Sort", "sort.Stable",
		"slices.Sort", "slices.SortFunc", "slices.SortStableFunc", "slices.Reverse",
		// these return the shortened / extended slice but move elements inside the argument's backing array
		"slices.Compact", "slices.CompactFunc", "slices.Delete", "slices.DeleteFunc", "slices.Insert", "slices.Replace",
		"maps.Copy", "maps.DeleteFunc", "maps.Insert":
		return true, 0
	case "encoding/json.Unmarshal":
		return true, 1
	}
	return false, 0
}

// ---------------------------------------------------------------------------
// Mod summaries: which parameters (and free variables) a function may write through, transitively.

type modSummary struct {
	params   map[int]map[string]string // param index -> first field followed from the parameter ("" = the parameter's own object) -> example of what is written
	globals  []string
	impure   []string // calls to unclassified external functions that receive a reference
	anyWrite bool
}

type effects struct {
	p     *Program
	own   *ownership
	sums  map[*ssa.Function]*modSummary
	dyn   func(site ssa.CallInstruction) []*ssa.Function
	funcs []*ssa.Function
}

func newEffects(p *Program) *effects {
	e := &effects{p: p, own: newOwnership(p), sums: map[*ssa.Function]*modSummary{}, dyn: p.vtaCallees()}
	e.funcs = p.Funcs()
	for _, f := range e.funcs {
		e.sums[f] = &modSummary{params: map[int]map[string]string{}}
	}
	// fixpoint
	for changed := true; changed; {
		changed = false
		for _, f := range e.funcs {
			if e.update(f) {
				changed = true
			}
		}
	}
	return e
}

func paramIndex(fn *ssa.Function, v ssa.Value) int {
	for i, p := range fn.Params {
		if ssa.Value(p) == v {
			return i
		}
	}
	return -1
}

func (e *effects) callees(site ssa.CallInstruction) []*ssa.Function {
	if f := site.Common().StaticCallee(); f != nil {
		return []*ssa.Function{f}
	}
	if site.Common().IsInvoke() {
		return e.dyn(site)
	}
	return e.dyn(site)
}

func (e *effects) update(fn *ssa.Function) bool {
	s := e.sums[fn]
	count := func() int {
		n := len(s.globals) + len(s.impure)
		for _, m := range s.params {
			n += len(m)
		}
		return n
	}
	before := count()
	set := func(i int, ff, what string) {
		if s.params[i] == nil {
			s.params[i] = map[string]string{}
		}
		if _, ok := s.params[i][ff]; !ok {
			s.params[i][ff] = what
		}
	}
	// mark: target is written; calleeFirst are the first fields the writer follows from target itself (nil = target's own object)
	mark := func(target ssa.Value, what string, calleeFirst []string) {
		if calleeFirst == nil {
			calleeFirst = []string{""}
		}
		for _, c := range chase(target) {
			firsts := calleeFirst
			if len(c.fields) > 0 {
				firsts = []string{c.fields[len(c.fields)-1]}
			}
			switch r := c.root.(type) {
			case *ssa.Parameter:
				if i := paramIndex(fn, r); i >= 0 {
					for _, ff := range firsts {
						set(i, ff, what)
					}
				}
			case *ssa.FreeVar:
				for k, fv := range fn.FreeVars {
					if fv == r {
						for _, ff := range firsts {
							set(-1-k, ff, what)
						}
					}
				}
			case *ssa.Global:
				g := r.Name()
				found := false
				for _, x := range s.globals {
					if x == g {
						found = true
					}
				}
				if !found {
					s.globals = append(s.globals, g)
				}
			}
		}
	}
	for _, w := range directWrites(fn) {
		mark(w.target, w.kind+" at "+e.p.Pos(w.in.Pos()), nil)
	}
	allInstrs(fn, func(in ssa.Instruction) {
		c, ok := in.(ssa.CallInstruction)
		if !ok {
			return
		}
		if _, isB := c.Common().Value.(*ssa.Builtin); isB {
			return
		}
		args := c.Common().Args
		for _, callee := range e.callees(c) {
			cs := e.sums[callee]
			if cs == nil {
				continue
			}
			off := 0
			if c.Common().IsInvoke() {
				// receiver is Common().Value; params[0] of the callee is the receiver
				if w, ok := cs.params[0]; ok {
					mark(c.Common().Value, "via "+e.p.FuncName(callee)+": "+anyOf(w), firstsOf(w))
				}
				off = 1
			}
			for i, a := range args {
				if w, ok := cs.params[i+off]; ok {
					mark(a, "via "+e.p.FuncName(callee)+": "+anyOf(w), firstsOf(w))
				}
			}
			for _, g := range cs.globals {
				found := false
				for _, x := range s.globals {
					if x == g {
						found = true
					}
				}
				if !found {
					s.globals = append(s.globals, g)
				}
			}
			// closures: writes through the callee's free variables hit the bound values
			if mc, ok := c.Common().Value.(*ssa.MakeClosure); ok {
				for k, b := range mc.Bindings {
					if w, ok := cs.params[-1-k]; ok {
						mark(b, "via closure "+e.p.FuncName(callee)+": "+anyOf(w), firstsOf(w))
					}
				}
			}
		}
	})
	return count() != before
}

// ---------------------------------------------------------------------------

type effectFinding struct {
	fn        *ssa.Function
	pos       token.Pos
	construct string
	msg       string
}

// schemaWrites reports, for every function in scope, each write whose target may be schema memory:
// direct writes, and calls passing schema memory to a parameter the callee writes through.
func (e *effects) schemaWrites(scope map[*ssa.Function]bool) (findings []effectFinding, sites int) {
	var fns []*ssa.Function
	for f := range scope {
		if e.p.inModule(f) {
			fns = append(fns, f)
		}
	}
	sort.Slice(fns, func(i, j int) bool { return e.p.FuncName(fns[i]) < e.p.FuncName(fns[j]) })
	for _, fn := range fns {
		for _, w := range directWrites(fn) {
			sites++
			if why := e.own.ownedReason(w.target); why != "" {
				findings = append(findings, effectFinding{fn, w.in.Pos(), w.kind + " " + describeTarget(w.target),
					fmt.Sprintf("%s of %s writes memory %s", w.kind, describeTarget(w.target), why)})
			}
		}
		allInstrs(fn, func(in ssa.Instruction) {
			c, ok := in.(ssa.CallInstruction)
			if !ok {
				return
			}
			if _, isB := c.Common().Value.(*ssa.Builtin); isB {
				return
			}
			args := c.Common().Args
			callees := e.callees(c)
			if len(callees) == 0 {
				return
			}
			for _, callee := range callees {
				cs := e.sums[callee]
				if cs == nil {
					// external callee
					continue
				}
				off := 0
				if c.Common().IsInvoke() {
					off = 1
				}
				for i, a := range args {
					w, ok := cs.params[i+off]
					if !ok {
						continue
					}
					sites++
					if why := e.own.ownedReason(a); why != "" {
						findings = append(findings, effectFinding{fn, in.Pos(), "call " + e.p.FuncName(callee) + " arg " + describeTarget(a),
							fmt.Sprintf("%s is passed to %s, which writes through that parameter (%s); the argument is memory %s", describeTarget(a), e.p.FuncName(callee), anyOf(w), why)})
						continue
					}
					// a fresh object whose field was filled with schema memory, handed to a callee that writes through that field
					for _, ch := range chase(a) {
						al, ok := ch.root.(*ssa.Alloc)
						if !ok || len(ch.fields) > 0 {
							continue
						}
						for _, ff := range firstsOf(w) {
							if ff == "" {
								continue
							}
							fname := ff[strings.Index(ff, ".")+1:]
							for _, sv := range fieldStores(al, fname) {
								if why := e.own.ownedReason(sv); why != "" {
									findings = append(findings, effectFinding{fn, in.Pos(), "call " + e.p.FuncName(callee) + " arg fresh{" + ff + "=" + describeTarget(sv) + "}",
										fmt.Sprintf("a fresh object whose field %s holds %s (memory %s) is passed to %s, which writes through that field (%s)", ff, describeTarget(sv), why, e.p.FuncName(callee), w[ff])})
								}
							}
						}
					}
				}
			}
		})
	}
	return
}

func describeTarget(v ssa.Value) string {
	cs := chase(v)
	if len(cs) == 0 {
		return v.Name()
	}
	c := cs[0]
	var parts []string
	for i := len(c.fields) - 1; i >= 0; i-- {
		parts = append(parts, c.fields[i])
	}
	root := "?"
	if c.root != nil {
		root = c.root.Name()
		if _, ok := c.root.(*ssa.Alloc); ok {
			root = "local"
		}
	}
	if len(parts) == 0 {
		return root + ":" + types.TypeString(v.Type(), shortQual)
	}
	return root + "→" + strings.Join(parts, "→")
}

func anyOf(m map[string]string) string {
	var ks []string
	for k := range m {
		ks = append(ks, k)
	}
	sort.Strings(ks)
	for _, k := range ks {
		return m[k]
	}
	return ""
}

func firstsOf(m map[string]string) []string {
	var ks []string
	for k := range m {
		ks = append(ks, k)
	}
	sort.Strings(ks)
	return ks
}

// fieldStores returns the values stored into field name of a local struct allocation.
func fieldStores(a *ssa.Alloc, name string) []ssa.Value {
	var out []ssa.Value
	for _, r := range *a.Referrers() {
		fa, ok := r.(*ssa.FieldAddr)
		if !ok || fa.X != ssa.Value(a) {
			continue
		}
		_, n, _, _ := fieldOf(fa)
		if n != name {
			continue
		}
		for _, rr := range *fa.Referrers() {
			if st, ok := rr.(*ssa.Store); ok && st.Addr == ssa.Value(fa) {
				out = append(out, st.Val)
			}
		}
	}
	return out
}
