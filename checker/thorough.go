package main

import (
	"bytes"
	"fmt"
	"go/ast"
	"go/format"
	"go/parser"
	"go/token"
	"os"
	"os/exec"
	"path/filepath"
	"sort"
	"strings"

	"golang.org/x/tools/go/ssa"
)

// The thorough tier. On top of the quick rules (which already cover every function of every package under the
// default build configuration) it
//
//	T1  re-decides the property under a second build configuration (GOARCH=386: 32-bit int, every file a build
//	    constraint would swap in) — findings there are findings;
//	T2  re-analyses the tree after a behaviour-preserving rewrite (every file re-printed with its function
//	    declarations in reverse order and a comment block on top, so every position changes) and compares the finding
//	    keys: a rule that keys on text or position shows up here;
//	T3  re-analyses the tree with each seeded change filed for this property under /verif/seeded applied to a scratch
//	    copy, and records which of them the rules report (the sensitivity of the rules on this very tree).
//
// T2 and T3 analyse scratch copies made under the system temp directory and removed before the check returns; they
// never execute anything from the tree. Their outcome is evidence about the checker, not about /repo: it is recorded
// (coverage.thorough) and printed, and does not change the exit status.
func thoroughExtras(c *Ctx, pc *propCheck) {
	th := map[string]interface{}{}
	c.Extra["thorough"] = th
	base := findingKeys(c)

	// ---- T1
	{
		p2, err := Load(repoDir(), "386")
		if err != nil {
			th["goarch_386"] = "load failed: " + err.Error()
			r := c.Rule("T1", "the property is decided under GOARCH=386 as well", 1)
			r.Undecided(token.NoPos, "-", "GOARCH=386 load", "the tree does not load under the second build configuration: "+err.Error())
		} else {
			c2 := &Ctx{Prop: c.Prop, Tier: c.Tier, P: p2, start: c.start, Explanation: pc.explain, Extra: map[string]interface{}{}}
			resetMemos()
			pc.run(c2)
			k2 := findingKeys(c2)
			r := c.Rule("T1", "the property is decided under GOARCH=386 as well", 1)
			var extra []string
			for k := range k2 {
				if !base[k] {
					extra = append(extra, k)
				}
			}
			sort.Strings(extra)
			for _, k := range extra {
				for _, rr := range c2.Rules {
					for _, f := range rr.Findings {
						if f.Key == k {
							r.Fail(token.NoPos, f.Func, "under GOARCH=386: "+f.Construct, f.Msg)
						}
					}
				}
			}
			if len(extra) == 0 {
				ob := 0
				for _, rr := range c2.Rules {
					ob += rr.Instances
				}
				r.OK(fmt.Sprintf("GOARCH=386: %d packages, %d functions, %d obligations", len(p2.All), len(p2.Funcs()), ob), "same findings as the default configuration")
			}
			th["goarch_386"] = map[string]interface{}{"packages": len(p2.All), "functions": len(p2.Funcs()), "new_findings": extra}
			resetMemos()
		}
	}

	self, err := os.Executable()
	if err != nil {
		th["error"] = err.Error()
		return
	}
	runOn := func(dir string) (map[string]bool, error) {
		ev, _ := os.MkdirTemp("", "gqlvet-ev-")
		defer os.RemoveAll(ev)
		cmd := exec.Command(self, "findings", c.Prop)
		cmd.Env = append(os.Environ(), "GQLVET_REPO="+dir, "GQLVET_EVIDENCE="+ev)
		var out bytes.Buffer
		cmd.Stdout = &out
		if err := cmd.Run(); err != nil && out.Len() == 0 {
			return nil, err
		}
		keys := map[string]bool{}
		for _, l := range strings.Split(out.String(), "\n") {
			if strings.HasPrefix(l, "FINDING ") {
				parts := strings.SplitN(l, " ", 4)
				if len(parts) == 4 {
					keys[parts[3]] = true
				}
			}
		}
		return keys, nil
	}
	scratch := func() (string, error) {
		dir, err := os.MkdirTemp("", "gqlvet-scratch-")
		if err != nil {
			return "", err
		}
		cp := exec.Command("cp", "-r", repoDir()+"/.", dir)
		if out, err := cp.CombinedOutput(); err != nil {
			os.RemoveAll(dir)
			return "", fmt.Errorf("copy: %v %s", err, out)
		}
		os.RemoveAll(filepath.Join(dir, ".git"))
		return dir, nil
	}
	baseSub, err := runOn(repoDir())
	if err != nil {
		th["error"] = "findings subprocess: " + err.Error()
		return
	}

	// ---- T2 neutral rewrite
	if dir, err := scratch(); err == nil {
		n, rerr := neutralRewrite(dir)
		if rerr != nil {
			th["neutral_rewrite"] = "rewrite failed: " + rerr.Error()
		} else if keys, err := runOn(dir); err != nil {
			th["neutral_rewrite"] = "analysis failed: " + err.Error()
		} else {
			var diff []string
			for k := range keys {
				if !baseSub[k] {
					diff = append(diff, "+"+k)
				}
			}
			for k := range baseSub {
				if !keys[k] {
					diff = append(diff, "-"+k)
				}
			}
			sort.Strings(diff)
			th["neutral_rewrite"] = map[string]interface{}{"files_rewritten": n, "finding_keys_changed": diff,
				"what": "every non-test file re-printed with its function declarations in reverse order under a comment block: all positions change, behaviour does not"}
			if len(diff) > 0 {
				fmt.Fprintf(os.Stderr, "gqlvet %s thorough: NOTE neutral rewrite changed %d finding key(s): %v\n", c.Prop, len(diff), diff)
			}
		}
		os.RemoveAll(dir)
	}

	// ---- T3 seeded changes of this property
	seeds, _ := filepath.Glob(filepath.Join(verifDir(), "seeded", c.Prop+"-m*", "patch.diff"))
	sort.Strings(seeds)
	sens := map[string]string{}
	det, app := 0, 0
	for _, patch := range seeds {
		name := filepath.Base(filepath.Dir(patch))
		dir, err := scratch()
		if err != nil {
			sens[name] = "scratch copy failed"
			continue
		}
		ap := exec.Command("git", "apply", "--whitespace=nowarn", patch)
		ap.Dir = dir
		if out, err := ap.CombinedOutput(); err != nil {
			sens[name] = "does not apply to this tree (" + strings.TrimSpace(firstLine(string(out))) + ")"
			os.RemoveAll(dir)
			continue
		}
		app++
		keys, err := runOn(dir)
		os.RemoveAll(dir)
		if err != nil {
			sens[name] = "analysis failed: " + err.Error()
			continue
		}
		var nw []string
		for k := range keys {
			if !baseSub[k] {
				nw = append(nw, k)
			}
		}
		sort.Strings(nw)
		if len(nw) > 0 {
			det++
			sens[name] = "reported: " + nw[0]
		} else {
			sens[name] = "not reported (value-level change outside the structural clauses decided here)"
		}
	}
	th["seeded_changes"] = map[string]interface{}{"filed": len(seeds), "applicable": app, "reported": det, "per_change": sens}
	fmt.Fprintf(os.Stderr, "gqlvet %s thorough: GOARCH=386 re-decided; neutral rewrite compared; %d of %d applicable seeded changes reported\n", c.Prop, det, app)
}

func firstLine(s string) string {
	if i := strings.IndexByte(s, '\n'); i >= 0 {
		return s[:i]
	}
	return s
}

// findingKeys: the keys of the findings that are not listed as known.
func findingKeys(c *Ctx) map[string]bool {
	out := map[string]bool{}
	known, _ := loadKnown()
	for _, r := range c.Rules {
		for _, f := range r.Findings {
			isKnown := false
			if known != nil {
				for _, k := range known.Known {
					if k.Property == c.Prop && k.Key == f.Key {
						isKnown = true
					}
				}
			}
			if !isKnown {
				out[f.Key] = true
			}
		}
	}
	return out
}

// neutralRewrite re-prints every non-test Go file of the module in dir: a comment block on top and the function
// declarations (with their doc comments) in reverse order. Returns the number of files rewritten.
func neutralRewrite(dir string) (int, error) {
	n := 0
	err := filepath.Walk(dir, func(path string, info os.FileInfo, err error) error {
		if err != nil {
			return err
		}
		if info.IsDir() {
			if info.Name() == "testdata" || strings.HasPrefix(info.Name(), ".") && path != dir {
				return filepath.SkipDir
			}
			return nil
		}
		if !strings.HasSuffix(path, ".go") || strings.HasSuffix(path, "_test.go") {
			return nil
		}
		src, err := os.ReadFile(path)
		if err != nil {
			return err
		}
		fset := token.NewFileSet()
		f, err := parser.ParseFile(fset, path, src, parser.ParseComments)
		if err != nil {
			return err
		}
		// split the source into the header (everything before the first func decl) and the func decl chunks, keeping
		// each chunk's leading doc comment and the text up to the next declaration
		type chunk struct{ from, to int }
		var funcs []chunk
		offs := func(p token.Pos) int { return fset.Position(p).Offset }
		var starts []int
		isFunc := map[int]bool{}
		for _, d := range f.Decls {
			st := offs(d.Pos())
			switch x := d.(type) {
			case *ast.FuncDecl:
				if x.Doc != nil {
					st = offs(x.Doc.Pos())
				}
				isFunc[st] = true
			case *ast.GenDecl:
				if x.Doc != nil {
					st = offs(x.Doc.Pos())
				}
			}
			starts = append(starts, st)
		}
		if len(starts) == 0 {
			return nil
		}
		var out bytes.Buffer
		out.WriteString("// (re-printed: declarations reordered, positions shifted)\n//\n//\n")
		out.Write(src[:starts[0]])
		var others bytes.Buffer
		for i, st := range starts {
			end := len(src)
			if i+1 < len(starts) {
				end = starts[i+1]
			}
			if isFunc[st] {
				funcs = append(funcs, chunk{st, end})
			} else {
				others.Write(src[st:end])
				if end == len(src) && (end == 0 || src[end-1] != '\n') {
					others.WriteByte('\n')
				}
			}
		}
		out.Write(others.Bytes())
		for i := len(funcs) - 1; i >= 0; i-- {
			out.WriteString("\n")
			out.Write(src[funcs[i].from:funcs[i].to])
			if b := src[funcs[i].to-1]; b != '\n' {
				out.WriteByte('\n')
			}
		}
		res, err := format.Source(out.Bytes())
		if err != nil {
			return fmt.Errorf("%s: %v", path, err)
		}
		n++
		return os.WriteFile(path, res, info.Mode())
	})
	return n, err
}

// resetMemos clears the per-program caches the rules keep in package-level variables, so that a second program can
// be analysed in the same process.
func resetMemos() {
	loaderOnlyMemo = nil
	liveMemo = map[*ssa.Function]*liveInfo{}
	interestMemo = map[*ssa.Function]*interestSet{}
	linkFreeMemo = map[*ssa.Function]int{}
	staleSelfTestMemo = nil
	c02GateRecords = nil
	fieldStoreMemo = map[string]bool{}
	tableMemo = map[*ssa.Global]*constTab{}
}
