package main

// thoroughExtras is filled in by thorough.go's real implementation below.
func thoroughExtras(c *Ctx, pc *propCheck) {}
