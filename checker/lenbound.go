package main

import (
	"go/token"
	"go/types"

	"golang.org/x/tools/go/ssa"
)

// lenBound: result ri of g is a slice that g builds by appending at most one element per iteration of a range loop over
// X, where X is parameter pi itself or its field `field`: len(result) <= len(X). (A map/filter helper; its caller may
// index X with an index that is in range for the result.)
type lenBound struct {
	ri, pi int
	field  string
}

var lenBoundMemo = map[*ssa.Function][]lenBound{}

func lenBoundsOf(g *ssa.Function) []lenBound {
	if bs, ok := lenBoundMemo[g]; ok {
		return bs
	}
	lenBoundMemo[g] = nil
	if g == nil || len(g.Blocks) == 0 {
		return nil
	}
	res := g.Signature.Results()
	var out []lenBound
	headers, bodies := loopsOf(g)
	for ri := 0; ri < res.Len(); ri++ {
		if _, ok := res.At(ri).Type().Underlying().(*types.Slice); !ok {
			continue
		}
		// every returned value at ri
		var rets []ssa.Value
		for _, ret := range returnsOf(g) {
			vals := returnValues(ret)
			if ri < len(vals) {
				rets = append(rets, vals[ri])
			}
		}
		if len(rets) == 0 {
			continue
		}
		// the accumulator: a phi at a range-loop header, nil/empty before the loop
		for _, h := range headers {
			if !isRangeLoop(h) {
				continue
			}
			pi, field, okX := rangedOperand(g, h)
			if !okX {
				continue
			}
			for _, in := range h.Instrs {
				acc, ok := in.(*ssa.Phi)
				if !ok || !types.Identical(acc.Type(), res.At(ri).Type()) {
					continue
				}
				okAcc := true
				fromBody := 0
				for i, e := range acc.Edges {
					if bodies[h][h.Preds[i]] {
						fromBody++
						if !appendsAtMostOne(e, acc, 0) {
							okAcc = false
						}
					} else if !isNilConst(e) && !isEmptyMake(e) {
						okAcc = false
					}
				}
				if !okAcc || fromBody == 0 {
					continue
				}
				// every return hands back the accumulator (or what it became in the current iteration), or nil
				okRet := true
				for _, rv := range rets {
					if !isNilConst(rv) && !derivesFromAcc(rv, acc, 0) {
						okRet = false
					}
				}
				if okRet {
					out = append(out, lenBound{ri, pi, field})
				}
			}
		}
	}
	lenBoundMemo[g] = out
	return out
}

func isEmptyMake(v ssa.Value) bool {
	ms, ok := v.(*ssa.MakeSlice)
	if !ok {
		return false
	}
	k, isK := constInt(ms.Len)
	return isK && k == 0
}

// appendsAtMostOne: v is acc, or append(acc, one element), or a phi of such.
func appendsAtMostOne(v ssa.Value, acc *ssa.Phi, depth int) bool {
	if depth > 4 {
		return false
	}
	v = stripChange(v)
	if v == ssa.Value(acc) {
		return true
	}
	switch x := v.(type) {
	case *ssa.Phi:
		for _, e := range x.Edges {
			if !appendsAtMostOne(e, acc, depth+1) {
				return false
			}
		}
		return true
	case *ssa.Call:
		if b, ok := x.Call.Value.(*ssa.Builtin); ok && b.Name() == "append" && len(x.Call.Args) == 2 {
			if stripChange(x.Call.Args[0]) != ssa.Value(acc) {
				return false
			}
			n, ok := constLenOf(x.Call.Args[1])
			return ok && n <= 1
		}
	}
	return false
}

func derivesFromAcc(v ssa.Value, acc *ssa.Phi, depth int) bool {
	if depth > 4 {
		return false
	}
	v = stripChange(v)
	if v == ssa.Value(acc) {
		return true
	}
	switch x := v.(type) {
	case *ssa.Phi:
		for _, e := range x.Edges {
			if !isNilConst(e) && !derivesFromAcc(e, acc, depth+1) {
				return false
			}
		}
		return true
	case *ssa.Call:
		if b, ok := x.Call.Value.(*ssa.Builtin); ok && b.Name() == "append" {
			return appendsAtMostOne(x, acc, depth)
		}
	}
	return false
}

// rangedOperand: the slice a range loop with header h runs over, as parameter index and (optional) field.
func rangedOperand(g *ssa.Function, h *ssa.BasicBlock) (int, string, bool) {
	// `i+1 < len(X)` at the header
	ifi, ok := h.Instrs[len(h.Instrs)-1].(*ssa.If)
	if !ok {
		return 0, "", false
	}
	bo, ok := ifi.Cond.(*ssa.BinOp)
	if !ok || bo.Op != token.LSS {
		return 0, "", false
	}
	call, ok := bo.Y.(*ssa.Call)
	if !ok {
		return 0, "", false
	}
	if b, isB := call.Call.Value.(*ssa.Builtin); !isB || b.Name() != "len" {
		return 0, "", false
	}
	x := stripChange(call.Call.Args[0])
	if prm, ok := x.(*ssa.Parameter); ok {
		return paramIndex(g, prm), "", true
	}
	if u, ok := x.(*ssa.UnOp); ok && u.Op == token.MUL {
		if fa, ok := u.X.(*ssa.FieldAddr); ok {
			if prm, ok := fa.X.(*ssa.Parameter); ok {
				if _, f, _, ok := fieldOf(fa); ok {
					return paramIndex(g, prm), f, true
				}
			}
		}
	}
	return 0, "", false
}
