package main

import (
	"bytes"
	"fmt"
	"go/ast"
	"go/printer"
	"go/token"
	"go/types"
	"strings"

	"golang.org/x/tools/go/ssa"
)

func init() {
	register("C18", "Rule composition: (R1) rules share no state (no package-level variable written or captured; C11.R2/R3 over the rules); (R2) no function of package rules writes a field of an AST node or of the Walker, directly or through a callee, so rules can only communicate through the walker's events; (R3) Validate tags every error with the name of a per-iteration copy of the rule; (R4) a nil rule list selects the registered default list; (R5) each WithoutSuggestions rule calls the same body as its twin with the flag inverted, and every flag-dependent region differs only by Suggest* options / a ' Did you mean' suffix; (R6) the walker uses its observer lists only by ranging over them, so its traversal and annotations do not depend on which rules are registered.", runC18)
}

func render(fset *token.FileSet, n ast.Node) string {
	var b bytes.Buffer
	_ = printer.Fprint(&b, fset, n)
	return strings.Join(strings.Fields(b.String()), " ")
}

func runC18(c *Ctx) {
	p := c.P
	e := newEffects(p)

	// ---- R1: shared state
	r1 := c.Rule("R1", "no rule function writes or depends on mutable package-level state", 40)
	scope := map[*ssa.Function]bool{}
	for _, fn := range p.FuncsIn("validator/rules") {
		if fn.Parent() == nil && (fn.Name() == "init" || strings.HasPrefix(fn.Name(), "init#")) {
			continue
		}
		scope[fn] = true
	}
	for fn := range scope {
		bad := false
		for _, w := range directWrites(fn) {
			for _, ch := range chase(w.target) {
				if g, ok := ch.root.(*ssa.Global); ok {
					bad = true
					r1.Fail(w.in.Pos(), p.FuncName(fn), "global "+g.Name(), fmt.Sprintf("%s writes package-level variable %s: rules and validations would be coupled through it", w.kind, g.Name()))
				}
			}
		}
		if !bad {
			r1.OK(p.FuncName(fn), "no package-level write")
		}
	}
	c11PerCallState(c, r1, scope)

	// ---- R2: rules are read-only on the tree and on the walker
	r2 := c.Rule("R2", "no function of package rules writes a field of an ast node or of the Walker", 40)
	treeWrites(c, e, scope, r2, "a rule")
	// and nothing of the schema either (lists handed out by the schema's accessors included): another rule of the same
	// list would see the change
	if finds, _ := e.schemaWrites(scope); len(finds) > 0 {
		for _, f := range finds {
			r2.Fail(f.pos, p.FuncName(f.fn), f.construct, f.msg)
		}
	}

	c18Validate(c)
	c18Twins(c)
	c18WalkerObservers(c)
}

// R3, R4: the Validate function
func c18Validate(c *Ctx) {
	p := c.P
	r3 := c.Rule("R3", "Validate tags every error with the Name of a per-iteration copy of the rule that raised it", 2)
	r4 := c.Rule("R4", "a nil rule list selects the registered default rules", 1)
	fn := p.Func("validator.Validate")
	if fn == nil {
		r3.AnchorLost("validator.Validate")
		return
	}
	errT := p.LookupType("gqlerror", "Error")
	ruleT := p.LookupType("validator", "Rule")
	if errT == nil || ruleT == nil {
		r3.AnchorLost("gqlerror.Error / validator.Rule")
		return
	}
	// R3: in closures of Validate, every allocation of gqlerror.Error has its Rule field stored from <captured Rule>.Name
	// — in the closure itself, or in a function the closure hands the name to (errs.add(rule.Name, options...))
	nAlloc := 0
	checkTag := func(cl *ssa.Function, val ssa.Value, pos token.Pos) {
		// value must be load of FieldAddr(<freevar of type *Rule>, Name)
		ld, ok := stripConv(val).(*ssa.UnOp)
		var fv *ssa.FreeVar
		if ok {
			if fa, ok := ld.X.(*ssa.FieldAddr); ok {
				if _, n, _, _ := fieldOf(fa); n == "Name" && namedOf(fa.X.Type()) == ruleT {
					fv, _ = fa.X.(*ssa.FreeVar)
				}
			}
		}
		if fv == nil {
			r3.Fail(pos, p.FuncName(cl), "Rule source", "the Rule tag is not the Name of the captured rule value")
			return
		}
		// the captured variable must be allocated inside the loop over the rules (one copy per iteration)
		idx := -1
		for i, f := range cl.FreeVars {
			if f == fv {
				idx = i
			}
		}
		okBind := false
		allInstrs(fn, func(in2 ssa.Instruction) {
			mc, ok := in2.(*ssa.MakeClosure)
			if !ok || mc.Fn != ssa.Value(cl) {
				return
			}
			if a, ok := mc.Bindings[idx].(*ssa.Alloc); ok && inCycle(a.Block()) {
				okBind = true
			}
		})
		if !okBind {
			r3.Fail(pos, p.FuncName(cl), "shared rule variable", "the rule variable captured by the addError closure is not a per-iteration copy: every closure would see the last rule, and errors would carry the wrong Rule")
			return
		}
		r3.OK(p.FuncName(cl)+" Error.Rule", "= captured per-iteration rule.Name")
	}
	for _, cl := range withClosures(fn) {
		if cl == fn {
			continue
		}
		allInstrs(cl, func(in ssa.Instruction) {
			al, ok := in.(*ssa.Alloc)
			if !ok || namedOf(al.Type()) != errT {
				return
			}
			nAlloc++
			var ruleStore *ssa.Store
			for _, r := range *al.Referrers() {
				fa, ok := r.(*ssa.FieldAddr)
				if !ok {
					continue
				}
				if _, n, _, _ := fieldOf(fa); n != "Rule" {
					continue
				}
				for _, rr := range *fa.Referrers() {
					if st, ok := rr.(*ssa.Store); ok && st.Addr == ssa.Value(fa) {
						ruleStore = st
					}
				}
			}
			if ruleStore == nil {
				r3.Fail(al.Pos(), p.FuncName(cl), "Error without Rule", "an error is created in Validate's addError closure without setting its Rule field")
				return
			}
			checkTag(cl, ruleStore.Val, ruleStore.Pos())
		})
		allInstrs(cl, func(in ssa.Instruction) {
			call, ok := in.(*ssa.Call)
			if !ok {
				return
			}
			h := call.Call.StaticCallee()
			if h == nil || !p.inModule(h) || len(h.Blocks) == 0 {
				return
			}
			j := taggingParam(h, errT)
			if j < 0 || j >= len(call.Call.Args) {
				return
			}
			nAlloc++
			checkTag(cl, call.Call.Args[j], call.Pos())
		})
	}
	// the closure is the one handed to rule.RuleFunc of the same iteration variable
	allInstrs(fn, func(in ssa.Instruction) {
		ci, ok := in.(*ssa.Call)
		if !ok || ci.Common().StaticCallee() != nil || ci.Common().IsInvoke() {
			return
		}
		if _, isB := ci.Common().Value.(*ssa.Builtin); isB {
			return
		}
		// dynamic call rule.RuleFunc(observers, closure)
		ld, ok := ci.Common().Value.(*ssa.UnOp)
		if !ok {
			return
		}
		fa, ok := ld.X.(*ssa.FieldAddr)
		if !ok {
			return
		}
		if _, n, _, _ := fieldOf(fa); n != "RuleFunc" {
			return
		}
		var mc *ssa.MakeClosure
		for _, a := range ci.Common().Args {
			if m, ok := stripConv(a).(*ssa.MakeClosure); ok {
				mc = m
			}
		}
		if mc != nil {
			// a bound method of a per-iteration reporter object: `rep := &reporter{rule: rules[i]}; rep.rule.RuleFunc(obs, rep.addError)`
			if mfn, _ := mc.Fn.(*ssa.Function); mfn != nil && strings.HasSuffix(mfn.Name(), "$bound") && len(mc.Bindings) == 1 {
				meth := unwrapThunk(mfn)
				recv := stripChange(mc.Bindings[0])
				// the rule whose RuleFunc is called is a field of that same object
				holder, _ := fa.X.(*ssa.FieldAddr)
				if meth != mfn && len(meth.Params) > 0 && holder != nil && stripChange(holder.X) == recv {
					_, ruleField, _, _ := fieldOf(holder)
					perIter := false
					if a, ok := recv.(*ssa.Alloc); ok && inCycle(a.Block()) {
						perIter = true
					}
					tagged, untagged := 0, 0
					allInstrs(meth, func(in2 ssa.Instruction) {
						al, ok := in2.(*ssa.Alloc)
						if !ok || namedOf(al.Type()) != errT {
							return
						}
						okTag := false
						for _, rf := range *al.Referrers() {
							fa2, ok := rf.(*ssa.FieldAddr)
							if !ok {
								continue
							}
							if _, n, _, _ := fieldOf(fa2); n != "Rule" {
								continue
							}
							for _, rr := range *fa2.Referrers() {
								st, ok := rr.(*ssa.Store)
								if !ok || st.Addr != ssa.Value(fa2) {
									continue
								}
								// receiver.<ruleField>.Name
								if ld2, ok := stripConv(st.Val).(*ssa.UnOp); ok {
									if nm, ok := ld2.X.(*ssa.FieldAddr); ok {
										if _, n2, _, _ := fieldOf(nm); n2 == "Name" {
											if h2, ok := nm.X.(*ssa.FieldAddr); ok && stripChange(h2.X) == ssa.Value(meth.Params[0]) {
												if _, f2, _, _ := fieldOf(h2); f2 == ruleField {
													okTag = true
												}
											}
										}
									}
								}
							}
						}
						if okTag {
							tagged++
						} else {
							untagged++
						}
					})
					if tagged > 0 && untagged == 0 && perIter {
						nAlloc++
						r3.OK("RuleFunc call", "addError is a method of a per-iteration reporter object and tags every error with the Name of the rule stored in that object, whose RuleFunc is the one called")
						return
					}
				}
			}
		}
		if mc == nil {
			// the closure may come from a constructor: adder(rule.Name, &errs) returning a closure that tags with its parameter
			for _, a := range ci.Common().Args {
				call, ok := stripConv(a).(*ssa.Call)
				if !ok {
					continue
				}
				mk := call.Call.StaticCallee()
				if mk == nil || !p.inModule(mk) || len(mk.Blocks) == 0 {
					continue
				}
				j := taggingParam(mk, errT)
				if j < 0 || j >= len(call.Call.Args) {
					continue
				}
				// the argument is the Name of the very rule whose RuleFunc is called
				if ld2, ok := stripConv(call.Call.Args[j]).(*ssa.UnOp); ok {
					if fa2, ok := ld2.X.(*ssa.FieldAddr); ok {
						if _, n2, _, _ := fieldOf(fa2); n2 == "Name" && fa2.X == fa.X {
							nAlloc++
							r3.OK("RuleFunc call", "the addError made by "+p.FuncName(mk)+" tags every error with the Name of that same rule variable")
							return
						}
					}
				}
				r3.Fail(ci.Pos(), p.FuncName(fn), "RuleFunc/closure mismatch", "the addError constructor is not given the Name of the rule whose RuleFunc is called")
				return
			}
			r3.Fail(ci.Pos(), p.FuncName(fn), "RuleFunc call", "RuleFunc is not handed a fresh addError closure")
			return
		}
		same := false
		for _, b := range mc.Bindings {
			if b == fa.X {
				same = true
			}
		}
		if same {
			r3.OK("RuleFunc call", "the closure handed to rule.RuleFunc captures that same rule variable")
		} else {
			r3.Fail(ci.Pos(), p.FuncName(fn), "RuleFunc/closure mismatch", "the addError closure handed to a rule's RuleFunc captures a different rule variable than the one whose RuleFunc is called")
		}
	})
	if nAlloc == 0 {
		r3.AnchorLost("allocation of gqlerror.Error in Validate's addError closure")
	}

	// R4
	found := false
	allInstrs(fn, func(in ssa.Instruction) {
		ld, ok := in.(*ssa.UnOp)
		if !ok || ld.Op != token.MUL {
			return
		}
		g, ok := ld.X.(*ssa.Global)
		if !ok || g.Name() != "specifiedRules" {
			return
		}
		for _, cd := range condsAt(ld.Block()) {
			bo, ok := cd.V.(*ssa.BinOp)
			if ok && bo.Op == token.EQL && cd.True && isNilConst(bo.Y) {
				if pr, ok := bo.X.(*ssa.Parameter); ok && pr.Name() == fn.Params[len(fn.Params)-1].Name() {
					found = true
				}
			}
		}
	})
	if found {
		r4.OK("Validate: rules == nil -> specifiedRules", "load of the registry guarded by the nil test of the variadic parameter")
	} else {
		r4.Fail(fn.Pos(), p.FuncName(fn), "default rule set", "Validate does not select the registered rules exactly when its rule list is nil")
	}
}

func inCycle(b *ssa.BasicBlock) bool {
	seen := map[*ssa.BasicBlock]bool{}
	var work []*ssa.BasicBlock
	work = append(work, b.Succs...)
	for len(work) > 0 {
		x := work[len(work)-1]
		work = work[:len(work)-1]
		if x == b {
			return true
		}
		if seen[x] {
			continue
		}
		seen[x] = true
		work = append(work, x.Succs...)
	}
	return false
}

// R5: WithoutSuggestions twins
func c18Twins(c *Ctx) {
	p := c.P
	r := c.Rule("R5", "each WithoutSuggestions rule shares its twin's body with the flag inverted; flag-dependent regions differ only by Suggest* options or a ' Did you mean' suffix", 12)
	pk := p.Pkgs["validator/rules"]
	if pk == nil {
		r.AnchorLost("package validator/rules")
		return
	}
	info := pk.TypesInfo
	// exported Rule variables and their RuleFunc literal
	type ruleVar struct {
		name string
		lit  *ast.FuncLit
		pos  token.Pos
		nm   string // Name: field
	}
	vars := map[string]*ruleVar{}
	for _, f := range pk.Syntax {
		for _, d := range f.Decls {
			gd, ok := d.(*ast.GenDecl)
			if !ok || gd.Tok != token.VAR {
				continue
			}
			for _, sp := range gd.Specs {
				vs := sp.(*ast.ValueSpec)
				for i, id := range vs.Names {
					if i >= len(vs.Values) {
						continue
					}
					cl, ok := vs.Values[i].(*ast.CompositeLit)
					if !ok {
						continue
					}
					tv := info.TypeOf(cl)
					if tv == nil || !typeIs(tv, "/validator", "Rule") {
						continue
					}
					rv := &ruleVar{name: id.Name, pos: id.Pos()}
					for _, el := range cl.Elts {
						kv, ok := el.(*ast.KeyValueExpr)
						if !ok {
							continue
						}
						switch kv.Key.(*ast.Ident).Name {
						case "RuleFunc":
							rv.lit, _ = kv.Value.(*ast.FuncLit)
						case "Name":
							if bl, ok := kv.Value.(*ast.BasicLit); ok {
								rv.nm = strings.Trim(bl.Value, "\"`")
							}
						}
					}
					vars[id.Name] = rv
				}
			}
		}
	}
	bodies := map[types.Object]*ast.FuncDecl{}
	for _, fd := range p.FuncDecls("validator/rules") {
		if o := info.Defs[fd.Name]; o != nil {
			bodies[o] = fd
		}
	}
	checked := map[types.Object]bool{}
	for name, wv := range vars {
		if !strings.HasSuffix(name, "WithoutSuggestions") {
			continue
		}
		base := vars[strings.TrimSuffix(name, "WithoutSuggestions")]
		if base == nil {
			r.Fail(wv.pos, "rules", name, "no standard twin for "+name)
			continue
		}
		if wv.nm != base.nm+"WithoutSuggestions" {
			r.Fail(wv.pos, "rules", name+" Name", fmt.Sprintf("the variant's Name %q is not its twin's %q + WithoutSuggestions", wv.nm, base.nm))
		}
		callOf := func(l *ast.FuncLit) (*ast.CallExpr, bool) {
			if l == nil || len(l.Body.List) != 1 {
				return nil, false
			}
			es, ok := l.Body.List[0].(*ast.ExprStmt)
			if !ok {
				return nil, false
			}
			ce, ok := es.X.(*ast.CallExpr)
			return ce, ok
		}
		bc, ok1 := callOf(base.lit)
		wc, ok2 := callOf(wv.lit)
		if !ok1 || !ok2 {
			r.Undecided(wv.pos, "rules", name+" shape", "the twin RuleFuncs are not single calls to a shared body; their agreement is not decided")
			continue
		}
		bo := calleeObj(info, bc)
		wo := calleeObj(info, wc)
		if bo == nil || bo != wo {
			r.Fail(wv.pos, "rules", name+" body", "the variant does not call the same function as its twin")
			continue
		}
		if len(bc.Args) != len(wc.Args) || len(bc.Args) == 0 {
			r.Fail(wv.pos, "rules", name+" args", "twin calls differ in arity")
			continue
		}
		n := len(bc.Args)
		same := true
		for i := 0; i < n-1; i++ {
			if render(p.Fset, bc.Args[i]) != render(p.Fset, wc.Args[i]) {
				same = false
			}
		}
		if !same || render(p.Fset, bc.Args[n-1]) != "false" || render(p.Fset, wc.Args[n-1]) != "true" {
			r.Fail(wv.pos, "rules", name+" flag", "the twins must pass the same arguments with the suggestion flag false (standard) and true (variant)")
			continue
		}
		r.OK(name, "calls "+bo.Name()+" with the flag inverted")
		fd := bodies[bo]
		if fd == nil || checked[bo] {
			continue
		}
		checked[bo] = true
		flag := fd.Type.Params.List[len(fd.Type.Params.List)-1].Names[0]
		flagObj := info.Defs[flag]
		c18FlagRegions(c, r, fd, flagObj, info, bodies, checked)
	}
}

func calleeObj(info *types.Info, ce *ast.CallExpr) types.Object {
	switch f := ce.Fun.(type) {
	case *ast.Ident:
		return info.Uses[f]
	case *ast.SelectorExpr:
		return info.Uses[f.Sel]
	}
	return nil
}

// c18FlagRegions checks every statement that depends on the suggestion flag.
func c18FlagRegions(c *Ctx, r *RuleResult, fd *ast.FuncDecl, flag types.Object, info *types.Info, bodies map[types.Object]*ast.FuncDecl, checked map[types.Object]bool) {
	p := c.P
	fname := "rules." + fd.Name.Name
	mentions := func(n ast.Node) bool {
		found := false
		ast.Inspect(n, func(x ast.Node) bool {
			if id, ok := x.(*ast.Ident); ok && info.Uses[id] == flag {
				found = true
			}
			return !found
		})
		return found
	}
	// effect statements of an arm
	type eff struct {
		kind string // adderror | return | branch | assign-outer | call
		node ast.Node
		opts []string
		sugg int
	}
	isAddErrType := func(t types.Type) bool {
		return t != nil && typeIs(t, "/validator", "AddErrFunc")
	}
	var collect func(arm ast.Node, declared map[types.Object]bool) []eff
	collect = func(arm ast.Node, declared map[types.Object]bool) []eff {
		var out []eff
		if arm == nil {
			return nil
		}
		ast.Inspect(arm, func(x ast.Node) bool {
			switch s := x.(type) {
			case *ast.FuncLit:
				return false
			case *ast.AssignStmt:
				if s.Tok == token.DEFINE {
					for _, l := range s.Lhs {
						if id, ok := l.(*ast.Ident); ok {
							declared[info.Defs[id]] = true
						}
					}
					return true
				}
				for _, l := range s.Lhs {
					id, ok := l.(*ast.Ident)
					if !ok {
						out = append(out, eff{kind: "assign-outer", node: s})
						continue
					}
					if o := info.Uses[id]; o != nil && !declared[o] {
						out = append(out, eff{kind: "assign-outer", node: s})
					}
				}
			case *ast.DeclStmt:
				if gd, ok := s.Decl.(*ast.GenDecl); ok {
					for _, sp := range gd.Specs {
						if vs, ok := sp.(*ast.ValueSpec); ok {
							for _, id := range vs.Names {
								declared[info.Defs[id]] = true
							}
						}
					}
				}
			case *ast.RangeStmt:
				for _, kx := range []ast.Expr{s.Key, s.Value} {
					if id, ok := kx.(*ast.Ident); ok && s.Tok == token.DEFINE {
						declared[info.Defs[id]] = true
					}
				}
			case *ast.ReturnStmt:
				out = append(out, eff{kind: "return", node: s})
			case *ast.BranchStmt:
				out = append(out, eff{kind: "branch", node: s})
			case *ast.IncDecStmt:
				if id, ok := s.X.(*ast.Ident); ok {
					if o := info.Uses[id]; o != nil && !declared[o] {
						out = append(out, eff{kind: "assign-outer", node: s})
					}
				}
			case *ast.CallExpr:
				// addError(...) or f(addError, ...)
				if isAddErrType(info.TypeOf(s.Fun)) {
					e := eff{kind: "adderror", node: s}
					for _, a := range s.Args {
						if ce, ok := a.(*ast.CallExpr); ok {
							if o := calleeObj(info, ce); o != nil && strings.HasPrefix(o.Name(), "Suggest") {
								e.sugg++
								continue
							}
						}
						e.opts = append(e.opts, render(p.Fset, a))
					}
					out = append(out, e)
					return false
				}
				for _, a := range s.Args {
					if isAddErrType(info.TypeOf(a)) {
						out = append(out, eff{kind: "adderror", node: s, opts: []string{"via " + render(p.Fset, s)}})
						return false
					}
				}
			}
			return true
		})
		return out
	}
	n := 0
	parentOf := map[ast.Node]ast.Node{}
	{
		var stack []ast.Node
		ast.Inspect(fd.Body, func(x ast.Node) bool {
			if x == nil {
				stack = stack[:len(stack)-1]
				return true
			}
			if len(stack) > 0 {
				parentOf[x] = stack[len(stack)-1]
			}
			stack = append(stack, x)
			return true
		})
	}
	var visit func(node ast.Node)
	visit = func(node ast.Node) {
		ast.Inspect(node, func(x ast.Node) bool {
			ifs, ok := x.(*ast.IfStmt)
			if !ok {
				// any other use of the flag (assignment, argument, switch) is not understood
				if id, ok := x.(*ast.Ident); ok && info.Uses[id] == flag {
					// handed on to a helper of the package as an argument: the helper's parameter is the flag there
					if ce, isCall := parentOf[id].(*ast.CallExpr); isCall {
						if o := calleeObj(info, ce); o != nil && bodies[o] != nil {
							hd := bodies[o]
							var params []*ast.Ident
							for _, f := range hd.Type.Params.List {
								params = append(params, f.Names...)
							}
							for i, a := range ce.Args {
								if a == ast.Expr(id) && i < len(params) {
									if po := info.Defs[params[i]]; po != nil {
										if !checked[po] {
											checked[po] = true
											c18FlagRegions(c, r, hd, po, info, bodies, checked)
										}
										return true
									}
								}
							}
						}
					}
					// reached only when not inside a recognised if condition (those return false below)
					r.Undecided(id.Pos(), fname, "flag use "+render(p.Fset, id), "the suggestion flag is used outside a plain `if flag` / `if !flag` condition; the region it influences is not decided")
				}
				return true
			}
			if !mentions(ifs.Cond) {
				return true
			}
			n++
			cond := render(p.Fset, ifs.Cond)
			var disabledArm, enabledArm ast.Node
			switch cond {
			case flag.Name():
				disabledArm, enabledArm = ifs.Body, ifs.Else
			case "!" + flag.Name():
				enabledArm, disabledArm = ifs.Body, ifs.Else
			default:
				r.Undecided(ifs.Pos(), fname, "if "+cond, "a condition mixes the suggestion flag with other terms; not decided")
				return false
			}
			// `if flag { A; return }; B` at the top level of a function body is `if flag { A } else { B }`
			if ifs.Else == nil && len(ifs.Body.List) > 0 {
				if ret, isRet := ifs.Body.List[len(ifs.Body.List)-1].(*ast.ReturnStmt); isRet && len(ret.Results) == 0 {
					if blk, isBlk := parentOf[ifs].(*ast.BlockStmt); isBlk {
						_, inLit := parentOf[blk].(*ast.FuncLit)
						if inLit || blk == fd.Body {
							idx := -1
							for i, st := range blk.List {
								if st == ast.Stmt(ifs) {
									idx = i
								}
							}
							if idx >= 0 {
								rest := &ast.BlockStmt{List: blk.List[idx+1:]}
								body := &ast.BlockStmt{List: ifs.Body.List[:len(ifs.Body.List)-1]}
								if cond == flag.Name() {
									disabledArm, enabledArm = body, rest
								} else {
									enabledArm, disabledArm = body, rest
								}
							}
						}
					}
				}
			}
			inst := fmt.Sprintf("%s: if %s (#%d)", fname, cond, n)
			dEff := collect(disabledArm, map[types.Object]bool{})
			eEff := collect(enabledArm, map[types.Object]bool{})
			ok2 := true
			fail := func(node ast.Node, what, msg string) {
				ok2 = false
				r.Fail(node.Pos(), fname, fmt.Sprintf("flag region #%d %s", n, what), msg)
			}
			var dErr, eErr []eff
			for _, e := range dEff {
				switch e.kind {
				case "adderror":
					dErr = append(dErr, e)
				case "assign-outer":
					// `report := withSuggestions; if flag { report = plain }`: the two functions are the arms
					if de, ee, ok := twinFunctionChoice(e.node, info, bodies); ok {
						dd := collect(de.Body, map[types.Object]bool{})
						for _, x := range dd {
							if x.kind == "adderror" {
								dErr = append(dErr, x)
							} else {
								fail(x.node, x.kind, "the function chosen with suggestions disabled executes "+render(p.Fset, x.node)+", which is more than reporting the error")
							}
						}
						for _, x := range collect(ee.Body, map[types.Object]bool{}) {
							eEff = append(eEff, x)
						}
						continue
					}
					fail(e.node, e.kind, "with suggestions disabled the rule executes "+render(p.Fset, e.node)+", which the standard rule does not: the variant would not report the same errors")
				default:
					fail(e.node, e.kind, "with suggestions disabled the rule executes "+render(p.Fset, e.node)+", which the standard rule does not: the variant would not report the same errors")
				}
			}
			for _, e := range eEff {
				switch e.kind {
				case "adderror":
					eErr = append(eErr, e)
				case "assign-outer":
					// only `x += " Did you mean..."` style suffixing is allowed
					as, isAs := e.node.(*ast.AssignStmt)
					if isAs && as.Tok == token.ADD_ASSIGN && len(as.Rhs) == 1 && leftmostLit(as.Rhs[0], " Did you mean") {
						continue
					}
					if isAs && suggestionOnly(fd, as, info, flag, p) {
						continue
					}
					fail(e.node, "assign", "with suggestions enabled the rule executes "+render(p.Fset, e.node)+", which is more than appending a ' Did you mean' suffix")
				default:
					fail(e.node, e.kind, "with suggestions enabled the rule executes "+render(p.Fset, e.node)+" (control flow differs between the twins)")
				}
			}
			if len(dErr) != len(eErr) {
				fail(ifs, "error count", fmt.Sprintf("the two arms report a different number of errors (%d without suggestions, %d with): the variant drops or adds errors", len(dErr), len(eErr)))
			} else {
				for i := range dErr {
					if strings.Join(dErr[i].opts, " | ") != strings.Join(eErr[i].opts, " | ") {
						fail(dErr[i].node, fmt.Sprintf("error #%d options", i+1), fmt.Sprintf("apart from Suggest* options the twins build different errors: [%s] vs [%s]", strings.Join(dErr[i].opts, " | "), strings.Join(eErr[i].opts, " | ")))
					}
					if dErr[i].sugg != 0 {
						fail(dErr[i].node, fmt.Sprintf("error #%d suggests", i+1), "the no-suggestions arm passes a Suggest* option")
					}
				}
			}
			if ok2 {
				r.OK(inst, fmt.Sprintf("%d error(s) per arm, equal but for Suggest* / suffix", len(dErr)))
			}
			// nested ifs inside arms that mention the flag again
			return false
		})
	}
	visit(fd.Body)
}

func leftmostLit(e ast.Expr, prefix string) bool {
	for {
		switch x := e.(type) {
		case *ast.BinaryExpr:
			e = x.X
		case *ast.ParenExpr:
			e = x.X
		case *ast.BasicLit:
			return x.Kind == token.STRING && strings.HasPrefix(strings.Trim(x.Value, "\"`"), prefix)
		default:
			return false
		}
	}
}

// R6: observer lists are only ranged over by the walker
func c18WalkerObservers(c *Ctx) {
	p := c.P
	r := c.Rule("R6", "Walker methods use the Events lists only as the operand of a range loop that invokes each observer", 9)
	ev := p.LookupType("validator", "Events")
	if ev == nil {
		r.AnchorLost("validator.Events")
		return
	}
	for _, fn := range p.FuncsIn("validator") {
		root := rootFunc(fn)
		recv := root.Signature.Recv()
		if recv == nil || !typeIs(recv.Type(), "/validator", "Walker") {
			continue
		}
		allInstrs(fn, func(in ssa.Instruction) {
			fa, ok := in.(*ssa.FieldAddr)
			if !ok || namedOf(fa.X.Type()) != ev {
				return
			}
			_, name, _, _ := fieldOf(fa)
			inst := p.FuncName(fn) + " Observers." + name
			for _, ref := range *fa.Referrers() {
				ld, ok := ref.(*ssa.UnOp)
				if !ok {
					r.Fail(ref.Pos(), p.FuncName(fn), "Observers."+name+" written", "the walker modifies an observer list")
					return
				}
				for _, u := range *ld.Referrers() {
					switch x := u.(type) {
					case *ssa.Call:
						// len() used by the range lowering: its result may only feed the loop bound
						if b, ok := x.Common().Value.(*ssa.Builtin); ok && b.Name() == "len" {
							if !onlyLoopBound(x) {
								r.Fail(x.Pos(), p.FuncName(fn), "len(Observers."+name+")", "the walker's control flow depends on how many observers are registered: a rule run alone and in a set would see a different traversal")
								return
							}
							continue
						}
						r.Fail(x.Pos(), p.FuncName(fn), "Observers."+name+" passed", "observer list escapes the range idiom")
						return
					case *ssa.Index, *ssa.IndexAddr, *ssa.Range, *ssa.DebugRef:
					case *ssa.BinOp:
						r.Fail(x.Pos(), p.FuncName(fn), "Observers."+name+" compared", "the walker's control flow depends on whether observers are registered")
						return
					default:
						r.Fail(u.Pos(), p.FuncName(fn), "Observers."+name+" other use", fmt.Sprintf("observer list used by %T outside the range idiom", u))
						return
					}
				}
			}
			r.OK(inst, "ranged over")
		})
	}
}

// onlyLoopBound: the value is only compared with a loop index (phi) in a block of a cycle.
func onlyLoopBound(v *ssa.Call) bool {
	for _, u := range *v.Referrers() {
		bo, ok := u.(*ssa.BinOp)
		if !ok {
			if _, isDbg := u.(*ssa.DebugRef); isDbg {
				continue
			}
			return false
		}
		if bo.Op != token.LSS || bo.Y != ssa.Value(v) {
			return false
		}
		// rangeindex lowering: the index is "phi + 1"; a phi alone is accepted too
		idx := bo.X
		if add, ok := idx.(*ssa.BinOp); ok && add.Op == token.ADD {
			idx = add.X
		}
		if _, ok := idx.(*ssa.Phi); !ok {
			return false
		}
		if !inCycle(bo.Block()) {
			return false
		}
	}
	return true
}

// suggestionOnly: every variable assigned by the statement is used nowhere but inside the arguments of a Suggest* call
// or inside a region that only runs with suggestions enabled; computing it under the flag cannot change what is reported.
func suggestionOnly(fd *ast.FuncDecl, as *ast.AssignStmt, info *types.Info, flag types.Object, p *Program) bool {
	for _, l := range as.Lhs {
		id, ok := l.(*ast.Ident)
		if !ok {
			return false
		}
		obj := info.Uses[id]
		if obj == nil {
			return false
		}
		okAll := true
		var stack []ast.Node
		ast.Inspect(fd.Body, func(n ast.Node) bool {
			if n == nil {
				stack = stack[:len(stack)-1]
				return true
			}
			stack = append(stack, n)
			use, ok := n.(*ast.Ident)
			if !ok || info.Uses[use] != obj {
				return true
			}
			// allowed contexts
			allowed := false
			for i := len(stack) - 1; i >= 0; i-- {
				switch a := stack[i].(type) {
				case *ast.CallExpr:
					if o := calleeObj(info, a); o != nil && strings.HasPrefix(o.Name(), "Suggest") {
						allowed = true
					}
				case *ast.IfStmt:
					cond := render(p.Fset, a.Cond)
					child := ast.Node(nil)
					if i+1 < len(stack) {
						child = stack[i+1]
					}
					if cond == "!"+flag.Name() && child == ast.Node(a.Body) {
						allowed = true
					}
					if cond == flag.Name() && a.Else != nil && child == a.Else {
						allowed = true
					}
				case *ast.AssignStmt:
					// x = append(x, ...) : the self-reference of the accumulation
					for _, l := range a.Lhs {
						if lid, ok := l.(*ast.Ident); ok && info.Uses[lid] == obj {
							allowed = true
						}
					}
				}
			}
			if !allowed {
				okAll = false
			}
			return true
		})
		if !okAll {
			return false
		}
	}
	return true
}

// treeWrites: no function of scope writes a field of an ast node or of the Walker — directly, or by handing a
// tree value to a callee whose summary says it writes through that parameter.
func treeWrites(c *Ctx, e *effects, scope map[*ssa.Function]bool, r *RuleResult, who string) {
	p := c.P
	isTreeType := func(t types.Type) bool {
		if pt, ok := t.Underlying().(*types.Pointer); ok {
			t = pt.Elem()
		}
		n, _ := types.Unalias(t).(*types.Named)
		if n == nil || n.Obj().Pkg() == nil {
			return false
		}
		if _, ok := n.Underlying().(*types.Struct); !ok {
			return false
		}
		path := n.Obj().Pkg().Path()
		return strings.HasSuffix(path, "/ast") || (strings.HasSuffix(path, "/validator") && n.Obj().Name() == "Walker")
	}
	treeReason := func(v ssa.Value) string {
		for _, ch := range chase(v) {
			fresh := ch.root != nil && isFresh(ch.root)
			for i, t := range ch.types {
				if fresh && i == len(ch.types)-1 {
					continue
				}
				if isTreeType(t) {
					return types.TypeString(t, shortQual)
				}
			}
		}
		return ""
	}
	for fn := range scope {
		bad := false
		for _, w := range directWrites(fn) {
			if t := treeReason(w.target); t != "" {
				bad = true
				r.Fail(w.in.Pos(), p.FuncName(fn), w.kind+" "+describeTarget(w.target), fmt.Sprintf(who+" %ss %s, reached through a value of type %s: it must only read the document, schema and walker (another rule, a second validation or a second call would observe the change)", w.kind, describeTarget(w.target), t))
			}
		}
		allInstrs(fn, func(in ssa.Instruction) {
			ci, ok := in.(ssa.CallInstruction)
			if !ok {
				return
			}
			if _, isB := ci.Common().Value.(*ssa.Builtin); isB {
				return
			}
			for _, callee := range e.callees(ci) {
				cs := e.sums[callee]
				if cs == nil {
					continue
				}
				// observer registration appends to the Events lists: that is the one sanctioned write
				if strings.HasPrefix(p.FuncName(callee), "validator.(*Events).On") {
					continue
				}
				off := 0
				if ci.Common().IsInvoke() {
					off = 1
				}
				for i, a := range ci.Common().Args {
					if w, ok := cs.params[i+off]; ok {
						if t := treeReason(a); t != "" {
							bad = true
							r.Fail(in.Pos(), p.FuncName(fn), "call "+p.FuncName(callee)+" arg "+describeTarget(a), fmt.Sprintf(who+" passes %s (type %s) to %s, which writes through it (%s)", describeTarget(a), t, p.FuncName(callee), anyOf(w)))
						}
					}
				}
			}
		})
		if !bad {
			r.OK(p.FuncName(fn), "writes only its own state")
		}
	}

}

// taggingParam: mk returns a closure that allocates an Error whose Rule field is set from mk's parameter #j
// (captured by the closure); returns j or -1.
func taggingParam(mk *ssa.Function, errT *types.Named) int {
	// the function itself creates the error and tags it with one of its parameters
	direct := -1
	allInstrs(mk, func(in ssa.Instruction) {
		al, ok := in.(*ssa.Alloc)
		if !ok || namedOf(al.Type()) != errT {
			return
		}
		for _, v := range fieldStores(al, "Rule") {
			if prm, ok := stripConv(v).(*ssa.Parameter); ok {
				direct = paramIndex(mk, prm)
			}
		}
	})
	if direct >= 0 {
		return direct
	}
	for _, ret := range returnsOf(mk) {
		for _, rv := range ret.Results {
			mc, ok := stripConv(rv).(*ssa.MakeClosure)
			if !ok {
				continue
			}
			cl := mc.Fn.(*ssa.Function)
			res := -1
			allInstrs(cl, func(in ssa.Instruction) {
				al, ok := in.(*ssa.Alloc)
				if !ok || namedOf(al.Type()) != errT {
					return
				}
				for _, v := range fieldStores(al, "Rule") {
					v = stripConv(v)
					// a captured parameter: by value (FreeVar of string type) or through its cell
					var fv *ssa.FreeVar
					switch x := v.(type) {
					case *ssa.FreeVar:
						fv = x
					case *ssa.UnOp:
						fv, _ = x.X.(*ssa.FreeVar)
					}
					if fv == nil {
						continue
					}
					for i, f := range cl.FreeVars {
						if f != fv || i >= len(mc.Bindings) {
							continue
						}
						b := mc.Bindings[i]
						if prm, ok := b.(*ssa.Parameter); ok {
							res = paramIndex(mk, prm)
						}
						if al2, ok := b.(*ssa.Alloc); ok {
							for _, sv := range storesTo(al2) {
								if prm, ok := sv.(*ssa.Parameter); ok {
									res = paramIndex(mk, prm)
								}
							}
						}
					}
				}
			})
			if res >= 0 {
				return res
			}
		}
	}
	return -1
}

// twinFunctionChoice: node is `v = G` where v was declared `v := F`, F and G being functions of the package with the
// same signature: G is what runs with suggestions disabled, F with them enabled.
func twinFunctionChoice(node ast.Node, info *types.Info, bodies map[types.Object]*ast.FuncDecl) (disabled, enabled *ast.FuncDecl, ok bool) {
	as, isAs := node.(*ast.AssignStmt)
	if !isAs || as.Tok != token.ASSIGN || len(as.Lhs) != 1 || len(as.Rhs) != 1 {
		return nil, nil, false
	}
	lhs, isId := as.Lhs[0].(*ast.Ident)
	rhs, isId2 := as.Rhs[0].(*ast.Ident)
	if !isId || !isId2 {
		return nil, nil, false
	}
	g := bodies[info.Uses[rhs]]
	v := info.Uses[lhs]
	if g == nil || v == nil {
		return nil, nil, false
	}
	// the declaration of v: v := F
	var f *ast.FuncDecl
	// search the package syntax for `v := F`
	for _, fd := range bodies {
		if fd.Body == nil {
			continue
		}
		ast.Inspect(fd.Body, func(x ast.Node) bool {
			ds, ok := x.(*ast.AssignStmt)
			if !ok || ds.Tok != token.DEFINE || len(ds.Lhs) != 1 || len(ds.Rhs) != 1 {
				return true
			}
			li, ok := ds.Lhs[0].(*ast.Ident)
			if !ok || info.Defs[li] != v {
				return true
			}
			if ri, ok := ds.Rhs[0].(*ast.Ident); ok {
				f = bodies[info.Uses[ri]]
			}
			return true
		})
	}
	if f == nil || f == g {
		return nil, nil, false
	}
	if !types.Identical(info.Defs[f.Name].Type(), info.Defs[g.Name].Type()) {
		return nil, nil, false
	}
	return g, f, true
}
