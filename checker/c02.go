package main

import (
	"fmt"
	"go/token"
	"go/types"
	"sort"
	"strings"

	"golang.org/x/tools/go/ssa"
)

func init() {
	register("C02", "Loading and validation never crash and terminate: (R1) nil safety — every dereference, reachable from Validate/Walk/LoadSchema and the rules, of a value that may be nil for a parseable document (a 'requires validation' link, a map lookup, a ForName result, a phi with nil) is dominated by a nil test of the same value or access path, directly or through the callee's requires-non-nil summary; (R2) every reachable panic sits in the default of an exhaustive switch; (R3) every cycle of the call graph of the validator, the rules and the loader either descends the finite document/type tree in every call (arguments reached from parameters through child fields only) or passes a visited-set gate (a membership test whose 'present' side skips the recursion and whose 'absent' side inserts before recursing); (R4) the gate's set is grow-only while the traversal runs (no delete, plain or deferred), which is what keeps fragment-following work linear in the number of fragments instead of exponential; (R5) every loop in that scope is a range loop, a counting loop towards a bound it does not change, a pointer cursor stepping to its own child, or a work list that loses one element per iteration and is only fed strict parts of that element or values that pass a visited-set gate. (R6) every index and slice expression of the validation scope is in bounds: the numeric abstract interpreter with access-path length symbols and contracts for make, append, HasPrefix/HasSuffix and the sort.Slice callback proves each, except four sites that rest on a listed shape invariant. (R4 also) an insertion whose gate looks at the stored value stores a constant or its argument, never a value computed from the previous entry. (R7) every schema node the loader synthesises carries a Position. (R4 also) the overlap rule's pair cache answers an exclusive query from the presence of an entry, never from the stored flag.", runC02)
}

func runC02(c *Ctx) {
	p := c.P
	e := newEffects(p)
	full := validationScope(p, e)
	// the lexer and parser are C01's domain; everything else reachable from loading and validation is in scope
	scope := map[*ssa.Function]bool{}
	for fn := range full {
		if pk := p.PkgOf(fn); pk != nil && (strings.HasSuffix(pk.PkgPath, "/parser") || strings.HasSuffix(pk.PkgPath, "/lexer")) {
			continue
		}
		scope[fn] = true
	}
	// ---- R1
	r1 := c.Rule("R1", "nil safety of nullable links, lookups and search results", 60)
	na := newNilAnalysis(p, scope)
	na.assumed = c02Assumptions()
	fs, checked := na.findings()
	for _, f := range fs {
		r1.Fail(f.in.Pos(), p.FuncName(f.fn), f.key[strings.Index(f.key, "|")+2:], fmt.Sprintf("%s and is dereferenced here (%s) without a nil test on every path: a parseable but ill-typed document or schema makes validation/loading panic", f.why, strings.TrimSpace(f.what)))
	}
	for i := 0; i < checked-len(fs); i++ {
		r1.Instances++
		r1.Discharged++
	}
	r1.Samples = append(r1.Samples, fmt.Sprintf("%d dereferences of possibly-nil values are each preceded, on every path, by a nil test of the same value or access path (path-sensitive nil facts; closures inherit the facts of their creation point; requirements of helpers are checked at their call sites)", checked-len(fs)))
	var unused []string
	for k, why := range na.assumed {
		if na.usedAssum[k] {
			c.Assume("nil-safety assumption: " + k + " — " + why)
		} else {
			unused = append(unused, k)
		}
	}
	sort.Strings(unused)
	c.Extra["c02_unused_assumptions"] = unused
	c.Assume("a *ast.Type has exactly one of NamedType / Elem set (parseTypeReference and the ast.NamedType/ListType constructors build it that way): NamedType == \"\" implies Elem != nil")
	c.Assume("Schema.Types and Schema.Directives never hold nil values (C07.R3: every registration stores a parsed definition or a fresh one)")

	// ---- R2
	r2 := c.Rule("R2", "reachable panics sit in defaults of exhaustive switches", 3)
	c02Panics(c, r2, scope)

	// ---- R3 / R4
	r3 := c.Rule("R3", "every recursion cycle descends the tree or passes a visited-set gate", 6)
	r4 := c.Rule("R4", "visited sets are grow-only during the traversal", 4)
	c02Recursion(c, r3, r4, scope)
	c02PairMemoMonotone(c, r4)

	// ---- R5
	r5 := c.Rule("R5", "every loop has a termination argument (range, counting, child cursor, shrinking worklist)", 20)
	c02Loops(c, r5, scope)

	// ---- R6
	r6 := c.Rule("R6", "index and slice expressions outside the lexer are in bounds (abstract interpretation)", 400)
	c02IndexSafety(c, r6, nil)

	// ---- R7 (shared with C20.R5): ErrorPosf dereferences the position it is given
	r7 := c.Rule("R7", "every schema node the loader synthesises carries a Position", 1)
	c20SynthesisedNodesHavePositions(c, r7)
}

func c02Assumptions() map[string]string {
	return map[string]string{}
}

// c02Panics: each panic in scope is dominated only by failed type assertions / failed kind comparisons that together
// exhaust the implementers / constants.
func c02Panics(c *Ctx, r *RuleResult, scope map[*ssa.Function]bool) {
	p := c.P
	for fn := range scope {
		allInstrs(fn, func(in ssa.Instruction) {
			pn, ok := in.(*ssa.Panic)
			if !ok {
				return
			}
			name := p.FuncName(fn)
			if strings.HasPrefix(rootFunc(fn).Name(), "Must") {
				r.OK("panic in "+name, "documented Must* wrapper: panics by contract when the wrapped call fails")
				return
			}
			conds := condsAt(in.Block())
			// negative type assertions
			asserted := map[string]bool{}
			var iface *types.Named
			kinds := map[string]bool{}
			var kindT *types.Named
			other := 0
			for _, cd := range conds {
				if ex, ok := cd.V.(*ssa.Extract); ok && !cd.True {
					if ta, ok := ex.Tuple.(*ssa.TypeAssert); ok {
						if n := namedOf(ta.AssertedType); n != nil {
							asserted[n.Obj().Name()] = true
						}
						if n := namedOf(ta.X.Type()); n != nil {
							iface = n
						}
						continue
					}
				}
				if bo, ok := cd.V.(*ssa.BinOp); ok && bo.Op == token.EQL && !cd.True {
					if cst, ok := bo.Y.(*ssa.Const); ok && cst.Value != nil {
						if n := namedOf(cst.Type()); n != nil {
							kindT = n
							kinds[cst.Value.ExactString()] = true
							continue
						}
					}
				}
				// the key was not found in a read-only table keyed by the constants of a named type
				if tab, idx, isOK, _ := tableLookup(p, cd.V); tab != nil && isOK && !cd.True {
					if n := namedOf(idx.Type()); n != nil {
						kindT = n
						for _, e := range tab.entries {
							if e.key != nil {
								kinds[e.key.ExactString()] = true
							}
						}
						continue
					}
				}
				other++
			}
			switch {
			case iface != nil:
				it, _ := iface.Underlying().(*types.Interface)
				var missing []string
				n := 0
				if it != nil {
					sc := iface.Obj().Pkg().Scope()
					for _, nm := range sc.Names() {
						tn, ok := sc.Lookup(nm).(*types.TypeName)
						if !ok || tn.IsAlias() {
							continue
						}
						named, ok := tn.Type().(*types.Named)
						if !ok || named == iface {
							continue
						}
						if _, isI := named.Underlying().(*types.Interface); isI {
							continue
						}
						if types.Implements(named, it) || types.Implements(types.NewPointer(named), it) {
							n++
							if !asserted[nm] {
								missing = append(missing, nm)
							}
						}
					}
				}
				if len(missing) == 0 && n > 0 {
					r.OK(fmt.Sprintf("panic in %s: default of a type switch covering all %d implementers of %s", name, n, iface.Obj().Name()), "")
				} else {
					r.Fail(pn.Pos(), name, "panic reachable for "+strings.Join(missing, ","), "a value of a kind the switch does not handle reaches the panic")
				}
			case kindT != nil:
				sc := kindT.Obj().Pkg().Scope()
				var missing []string
				n := 0
				for _, nm := range sc.Names() {
					cst, ok := sc.Lookup(nm).(*types.Const)
					if !ok || !types.Identical(cst.Type(), kindT) {
						continue
					}
					n++
					if !kinds[cst.Val().ExactString()] {
						missing = append(missing, nm)
					}
				}
				if len(missing) == 0 && n > 0 {
					r.OK(fmt.Sprintf("panic in %s: default of a switch covering all %d constants of %s", name, n, kindT.Obj().Name()), "")
				} else {
					r.Fail(pn.Pos(), name, "panic reachable for "+strings.Join(missing, ","), "a constant of "+kindT.Obj().Name()+" the switch does not handle reaches the panic")
				}
			default:
				r.Fail(pn.Pos(), name, "panic outside an exhaustive switch", "a panic reachable from validation or loading is not the default of an exhaustive switch")
			}
		})
	}
}

// ---------------------------------------------------------------------------
// recursion

var provProgram *Program

var linkFields = map[string]bool{
	"Definition": true, "ObjectDefinition": true, "VariableDefinition": true, "ParentDefinition": true, "ExpectedType": true, "DefaultValue": false,
}

// argProvenance classifies a node-typed argument: "param" (a parameter itself), "descent" (reached from a parameter or
// range element through child fields), "link" (through a validation link, a lookup or a search), "fresh", "other".
var provSeen = map[ssa.Value]bool{}

func argProvenance(v ssa.Value, depth int) string {
	if depth == 0 {
		provSeen = map[ssa.Value]bool{}
	}
	if depth > 14 {
		return "other"
	}
	v = stripChange(v)
	if ph, isPhi := v.(*ssa.Phi); isPhi {
		if provSeen[ph] {
			return "self" // the loop cursor itself: a child step from it is a descent
		}
		provSeen[ph] = true
		defer delete(provSeen, ph)
	}
	switch x := v.(type) {
	case *ssa.Parameter:
		return "param"
	case *ssa.FreeVar:
		return "param"
	case *ssa.Alloc, *ssa.MakeMap, *ssa.MakeSlice, *ssa.Const:
		return "fresh"
	case *ssa.UnOp:
		if x.Op != token.MUL {
			return "other"
		}
		switch ad := x.X.(type) {
		case *ssa.FieldAddr:
			n, f, b, _ := fieldOf(ad)
			if n != nil && isLinkField(n.Obj().Name(), f) {
				return "link"
			}
			if n != nil && n.Obj().Name() == "VariableDefinition" && f == "DefaultValue" {
				return "link"
			}
			base := argProvenance(b, depth+1)
			if base == "param" || base == "descent" || base == "weak-descent" || base == "self" {
				return "descent"
			}
			return base
		case *ssa.IndexAddr:
			base := argProvenance(ad.X, depth+1)
			if base == "param" || base == "descent" || base == "weak-descent" || base == "self" {
				return "descent"
			}
			return base
		case *ssa.Alloc:
			sts := storesTo(ad)
			if len(sts) == 0 {
				return "fresh"
			}
			worst := ""
			for _, s := range sts {
				pv := argProvenance(s, depth+1)
				if pv == "link" || pv == "other" {
					return pv
				}
				if worst == "" || pv == "param" {
					worst = pv
				}
			}
			return worst
		case *ssa.FreeVar:
			return "param"
		}
	case *ssa.Field:
		n, f, b, _ := fieldOf(x)
		if n != nil && isLinkField(n.Obj().Name(), f) {
			return "link"
		}
		base := argProvenance(b, depth+1)
		if base == "param" || base == "descent" {
			return "descent"
		}
		return base
	case *ssa.Extract:
		if nx, ok := x.Tuple.(*ssa.Next); ok {
			if rg, ok := nx.Iter.(*ssa.Range); ok {
				base := argProvenance(rg.X, depth+1)
				if base == "param" || base == "descent" {
					return "descent"
				}
				return base
			}
		}
		if ta, ok := x.Tuple.(*ssa.TypeAssert); ok {
			return argProvenance(ta.X, depth+1)
		}
		if _, ok := x.Tuple.(*ssa.Lookup); ok {
			return "link"
		}
		if call, ok := x.Tuple.(*ssa.Call); ok {
			return argProvenance(call, depth+1)
		}
		return "other"
	case *ssa.TypeAssert:
		return argProvenance(x.X, depth+1)
	case *ssa.Lookup:
		return "link"
	case *ssa.Call:
		if g := x.Call.StaticCallee(); g != nil && provProgram != nil && provProgram.inModule(g) && g.Name() != "ForName" && linkFree(provProgram, g, 0) {
			// a collector: its result holds nodes of the same region as its arguments
			worst := "fresh"
			for _, a := range x.Call.Args {
				if !isNodeType(a.Type()) || graphType(a.Type()) {
					continue
				}
				switch argProvenance(a, depth+1) {
				case "link", "other":
					return "link"
				case "param", "descent":
					worst = "param"
				}
			}
			return worst
		}
		return "link" // a search (ForName) or any computed node
	case *ssa.Phi:
		worst := "fresh"
		sawParam, sawDescent := false, false
		for _, e := range x.Edges {
			if e == v {
				continue
			}
			pv := argProvenance(e, depth+1)
			switch pv {
			case "link", "other":
				return pv
			case "param":
				sawParam = true
			case "descent", "weak-descent":
				sawDescent = true
			case "self":
			}
		}
		switch {
		case sawParam && sawDescent:
			// a loop cursor: the parameter after zero or more child steps. Whether at least one step was taken
			// is a numeric question this classification does not answer; it is not reported as non-descending.
			return "weak-descent"
		case sawDescent:
			return "descent"
		case sawParam:
			return "param"
		}
		return worst
	case *ssa.Slice:
		return argProvenance(x.X, depth+1)
	case *ssa.MakeInterface:
		return argProvenance(x.X, depth+1)
	}
	return "other"
}

func isNodeType(t types.Type) bool {
	inMod := func(n *types.Named) bool {
		return n != nil && n.Obj().Pkg() != nil && strings.HasPrefix(n.Obj().Pkg().Path(), modPath)
	}
	switch u := t.Underlying().(type) {
	case *types.Pointer:
		if n := namedOf(u.Elem()); inMod(n) {
			if _, isS := n.Underlying().(*types.Struct); isS {
				return true
			}
		}
	case *types.Slice:
		return isNodeType(u.Elem())
	case *types.Interface:
		if n := namedOf(t); inMod(n) {
			return true
		}
	}
	return false
}

// gate describes a visited-set gate found in a function.
type gate struct {
	fn     *ssa.Function
	test   ssa.Instruction // the membership test (Lookup or call of a lookup-only wrapper)
	setKey string          // access path of the set
	insert ssa.Instruction
}

// lookupOnly: the function only reads maps (its returns depend on lookups), no writes. Used for pairSet.Has.
func lookupOnlyWrapper(fn *ssa.Function) bool {
	if fn == nil || len(fn.Blocks) == 0 {
		return false
	}
	has := false
	ok := true
	allInstrs(fn, func(in ssa.Instruction) {
		switch in.(type) {
		case *ssa.Lookup:
			has = true
		case *ssa.MapUpdate:
			ok = false
		case *ssa.Store:
			// building a composite key in a local (`pair{a, b}`) is not a write
			if !storeIntoLocal(in.(*ssa.Store)) {
				ok = false
			}
		case ssa.CallInstruction:
			ok = false
		}
	})
	return has && ok
}

// storeIntoLocal: the store writes a local variable of the function (or a field / element of one) that is not captured.
func storeIntoLocal(st *ssa.Store) bool {
	a := st.Addr
	for i := 0; i < 4; i++ {
		switch x := a.(type) {
		case *ssa.FieldAddr:
			a = x.X
			continue
		case *ssa.IndexAddr:
			a = x.X
			continue
		case *ssa.Alloc:
			return !x.Heap
		}
		break
	}
	return false
}

func insertWrapper(fn *ssa.Function) bool {
	if fn == nil || len(fn.Blocks) == 0 {
		return false
	}
	return insertWrapperDepth(fn, 0)
}

func insertWrapperDepth(fn *ssa.Function, depth int) bool {
	ins := false
	for _, f := range withClosures(fn) {
		allInstrs(f, func(in ssa.Instruction) {
			if _, ok := in.(*ssa.MapUpdate); ok {
				ins = true
			}
			// the insertion may sit in a small method of the same receiver (Add calling addDirected twice)
			if ci, ok := in.(ssa.CallInstruction); ok && depth < 2 {
				if g := ci.Common().StaticCallee(); g != nil && g != fn && g.Signature.Recv() != nil && fn.Signature.Recv() != nil &&
					types.Identical(g.Signature.Recv().Type(), fn.Signature.Recv().Type()) && len(g.Blocks) <= 6 && insertWrapperDepth(g, depth+1) {
					ins = true
				}
			}
		})
	}
	return ins
}

// graphType: definitions of the (possibly cyclic) schema graph and the walker — never the measure of a descent.
func graphType(t types.Type) bool {
	n := namedOf(t)
	if pt, ok := t.Underlying().(*types.Pointer); ok {
		n = namedOf(pt.Elem())
	}
	if n == nil {
		return false
	}
	switch n.Obj().Name() {
	case "Definition", "FieldDefinition", "ArgumentDefinition", "DirectiveDefinition", "EnumValueDefinition", "Schema", "Walker", "Events":
		return true
	}
	return false
}

var linkFreeMemo = map[*ssa.Function]int{}

// linkFree: fn (and what it statically calls in the module) follows no validation link, lookup or search.
func linkFree(p *Program, fn *ssa.Function, depth int) bool {
	if v, ok := linkFreeMemo[fn]; ok {
		return v == 1
	}
	if depth > 4 || len(fn.Blocks) == 0 {
		return false
	}
	linkFreeMemo[fn] = 1 // optimistic for recursion
	ok := true
	for _, f := range withClosures(fn) {
		allInstrs(f, func(in ssa.Instruction) {
			switch x := in.(type) {
			case *ssa.Lookup:
				if _, isMap := x.X.Type().Underlying().(*types.Map); isMap {
					if _, fld, isF := fieldLoadOf(x.X); isF && (fld == "Types" || fld == "Directives" || fld == "PossibleTypes" || fld == "Implements") {
						ok = false
					}
				}
			case *ssa.FieldAddr:
				n, fld, _, _ := fieldOf(x)
				if n != nil && isLinkField(n.Obj().Name(), fld) {
					ok = false
				}
			case ssa.CallInstruction:
				if g := x.Common().StaticCallee(); g != nil && p.inModule(g) {
					if g.Name() == "ForName" || !linkFree(p, g, depth+1) {
						ok = false
					}
				}
			}
		})
	}
	if !ok {
		linkFreeMemo[fn] = 0
	}
	return ok
}

// gatesFor: visited-set gates in front of a call site — an insertion into a set dominates the site, a lookup of the
// same set dominates the insertion, and from that lookup a return is reachable without passing the insertion
// (the "already visited" skip). Wrappers (Has / Add methods on a set type) count as lookup / insertion.
func gatesFor(site ssa.Instruction) []gate {
	fn := site.Parent()
	var out []gate
	type ins struct {
		in  ssa.Instruction
		key string
	}
	var inserts []ins
	allInstrs(fn, func(in ssa.Instruction) {
		switch y := in.(type) {
		case *ssa.MapUpdate:
			if dominatesInstr(in, site) {
				inserts = append(inserts, ins{in, accessPath(y.Map)})
			}
		case ssa.CallInstruction:
			if g := y.Common().StaticCallee(); g != nil && g.Signature.Recv() != nil && insertWrapper(g) && !lookupOnlyWrapper(g) && len(g.Blocks) <= 6 && len(y.Common().Args) > 0 && dominatesInstr(in, site) && in != site {
				inserts = append(inserts, ins{in, accessPath(y.Common().Args[0])})
			}
		}
	})
	for _, is := range inserts {
		var test ssa.Instruction
		allInstrs(fn, func(in ssa.Instruction) {
			if test != nil {
				return
			}
			switch y := in.(type) {
			case *ssa.Lookup:
				if accessPath(y.X) == is.key && dominatesInstr(in, is.in) {
					test = in
				}
			case ssa.CallInstruction:
				if g := y.Common().StaticCallee(); g != nil && lookupOnlyWrapper(g) && len(y.Common().Args) > 0 && accessPath(y.Common().Args[0]) == is.key && dominatesInstr(in, is.in) {
					test = in
				}
			}
		})
		if test == nil {
			continue
		}
		// the skip: a return reachable from the test without executing the insertion
		if _, ok := reachesWithout(test, func(in ssa.Instruction) bool { _, isRet := in.(*ssa.Return); return isRet }, func(in ssa.Instruction) bool { return in == is.in }); !ok {
			continue
		}
		out = append(out, gate{fn, test, is.key, is.in})
	}
	return out
}

// gateRecord: a recursive call edge cut by visited-set gates, with the functions of its cycle (for C08.R5).
type gateRecord struct {
	site       ssa.CallInstruction
	gates      []gate
	scc        []*ssa.Function
	persistent []gate // gates whose set is never deleted from
}

var c02GateRecords []gateRecord

func c02Recursion(c *Ctx, r3, r4 *RuleResult, scope map[*ssa.Function]bool) {
	p := c.P
	provProgram = p
	c02GateRecords = nil
	dyn := p.vtaCallees()
	// intra-scope call edges
	type edgeT struct {
		from, to *ssa.Function
		site     ssa.CallInstruction
	}
	var nodes []*ssa.Function
	for fn := range scope {
		pk := p.PkgOf(fn)
		if pk == nil {
			continue
		}
		if strings.HasSuffix(pk.PkgPath, "/validator") || strings.HasSuffix(pk.PkgPath, "/validator/rules") || strings.HasSuffix(pk.PkgPath, "/ast") {
			nodes = append(nodes, fn)
		}
	}
	sort.Slice(nodes, func(i, j int) bool { return p.FuncName(nodes[i]) < p.FuncName(nodes[j]) })
	inNodes := map[*ssa.Function]bool{}
	for _, n := range nodes {
		inNodes[n] = true
	}
	var edges []edgeT
	adj := map[*ssa.Function][]*ssa.Function{}
	for _, fn := range nodes {
		allInstrs(fn, func(in ssa.Instruction) {
			ci, ok := in.(ssa.CallInstruction)
			if !ok {
				return
			}
			if _, isB := ci.Common().Value.(*ssa.Builtin); isB {
				return
			}
			var callees []*ssa.Function
			if g := ci.Common().StaticCallee(); g != nil {
				callees = []*ssa.Function{g}
			} else if !ci.Common().IsInvoke() {
				callees = dyn(ci)
			}
			for _, g := range callees {
				if inNodes[g] {
					edges = append(edges, edgeT{fn, g, ci})
					adj[fn] = append(adj[fn], g)
				}
			}
		})
	}
	sccs := sccOf(nodes, adj)
	comp := map[*ssa.Function]int{}
	for i, s := range sccs {
		for _, f := range s {
			comp[f] = i
		}
	}
	recursive := map[int]bool{}
	for _, e := range edges {
		if comp[e.from] == comp[e.to] && (len(sccs[comp[e.from]]) > 1 || e.from == e.to) {
			recursive[comp[e.from]] = true
		}
	}
	type edgeGate struct {
		site  ssa.CallInstruction
		gates []gate
		scc   []*ssa.Function
	}
	var edgeGates []edgeGate
	for ci := range recursive {
		var names []string
		for _, f := range sccs[ci] {
			names = append(names, p.FuncName(f))
		}
		sort.Strings(names)
		// observer dispatch (Walker calling rule closures calling nothing back) never forms real recursion into the walker;
		// VTA may merge: handle as ordinary edges.
		// classify intra-SCC edges
		remaining := map[*ssa.Function][]*ssa.Function{}
		type cls struct {
			e    edgeT
			kind string
		}
		var classes []cls
		for _, e := range edges {
			if comp[e.from] != ci || comp[e.to] != ci {
				continue
			}
			kind := ""
			var egates []gate
			// gate at the call site
			if gs := gatesFor(e.site); len(gs) > 0 {
				kind = "gated"
				egates = append(egates, gs...)
			}
			// gate at the callee's entry: every call of the callee's body is behind a test-and-insert
			if g, ok := entryGate(e.to); ok {
				kind = "gated"
				egates = append(egates, g)
			}
			if kind == "gated" {
				edgeGates = append(edgeGates, edgeGate{e.site, egates, sccs[ci]})
			}
			// the one link-following recursion that is cut by another rule instead of a visited set
			if kind == "" && p.FuncName(e.to) == "ast.(*Value).Value" && len(e.site.Common().Args) > 0 && loadOfField(e.site.Common().Args[0], "VariableDefinition", "DefaultValue") {
				kind = "gated"
				c.Assume("ast.(*Value).Value follows VariableDefinition.DefaultValue without a visited set: a default value is a constant (C05.R1: parseVariableDefinition passes isConst=true), so the callee cannot take the Variable branch again")
			}
			if kind == "" {
				// tree arguments: node-typed, not part of the schema graph
				strict, link := false, false
				for _, a := range e.site.Common().Args {
					if !isNodeType(a.Type()) || graphType(a.Type()) {
						continue
					}
					switch argProvenance(a, 0) {
					case "descent", "weak-descent":
						strict = true
					case "param", "fresh":
					default:
						link = true
					}
				}
				switch {
				case link:
					kind = "plain"
				case strict:
					kind = "descent"
				default:
					kind = "flat"
				}
			}
			if kind == "" {
				kind = "plain"
			}
			if kind != "gated" {
				remaining[e.from] = append(remaining[e.from], e.to)
			}
			classes = append(classes, cls{e, kind})
		}
		// after removing gated edges, a plain edge must not lie on a cycle (descent-only cycles terminate on the finite tree)
		bad := false
		reach := func(from, to *ssa.Function) bool {
			seen := map[*ssa.Function]bool{from: true}
			work := []*ssa.Function{from}
			for len(work) > 0 {
				x := work[len(work)-1]
				work = work[:len(work)-1]
				if x == to {
					return true
				}
				for _, y := range remaining[x] {
					if !seen[y] {
						seen[y] = true
						work = append(work, y)
					}
				}
			}
			return false
		}
		reported := map[string]bool{}
		for _, cl := range classes {
			if cl.kind != "plain" {
				continue
			}
			if !reach(cl.e.to, cl.e.from) {
				continue
			}
			bad = true
			key := p.FuncName(cl.e.from) + " -> " + p.FuncName(cl.e.to)
			if reported[key] {
				continue
			}
			reported[key] = true
			r3.Fail(cl.e.site.Pos(), p.FuncName(cl.e.from), "unguarded recursion through "+key, fmt.Sprintf("the call %s (at %s) lies on a cycle {%s} and follows a link of the document or schema graph (fragment definition, lookup, search result) instead of descending the syntax tree, and no visited-set test-and-insert cuts the cycle: a cyclic input recurses until the stack overflows", key, p.Pos(cl.e.site.Pos()), strings.Join(names, ", ")))
		}
		// a cycle of edges that neither descend nor are gated
		flat := map[*ssa.Function][]*ssa.Function{}
		for _, cl := range classes {
			if cl.kind == "flat" {
				flat[cl.e.from] = append(flat[cl.e.from], cl.e.to)
			}
		}
		for _, sc := range sccOf(sccs[ci], flat) {
			cyc := len(sc) > 1
			if len(sc) == 1 {
				for _, t := range flat[sc[0]] {
					if t == sc[0] {
						cyc = true
					}
				}
			}
			if !cyc {
				continue
			}
			bad = true
			var nm []string
			for _, f := range sc {
				nm = append(nm, p.FuncName(f))
			}
			sort.Strings(nm)
			r3.Fail(sc[0].Pos(), nm[0], "recursion that neither descends nor is gated: "+strings.Join(nm, " -> "), "these functions call each other again with arguments that are not strictly smaller parts of the syntax tree and without a visited-set test-and-insert: on a cyclic schema or document the recursion does not end (stack overflow)")
		}
		if !bad {
			nd, ng := 0, 0
			for _, cl := range classes {
				switch cl.kind {
				case "descent":
					nd++
				case "gated":
					ng++
				}
			}
			r3.OK(fmt.Sprintf("recursion {%s}", strings.Join(names, ", ")), fmt.Sprintf("%d descent edge(s), %d gated edge(s); no cycle remains among the others", nd, ng))
		}
	}
	// R4: every gated edge has at least one gate whose set is grow-only in the enclosing function (closures and
	// deferred closures included)
	hasDelete := func(g gate) ssa.Instruction {
		var del ssa.Instruction
		tail := setName(g.setKey)
		for _, f := range withClosures(rootFunc(g.fn)) {
			allInstrs(f, func(in ssa.Instruction) {
				ci, ok := in.(ssa.CallInstruction)
				if !ok {
					return
				}
				if b, ok := ci.Common().Value.(*ssa.Builtin); ok && b.Name() == "delete" {
					k := setName(accessPath(ci.Common().Args[0]))
					if k == tail || strings.HasSuffix(k, "."+tail) || strings.HasSuffix(tail, "."+k) {
						del = in
					}
				}
			})
		}
		return del
	}
	seenSite := map[ssa.CallInstruction]bool{}
	for _, eg := range edgeGates {
		if seenSite[eg.site] {
			continue
		}
		seenSite[eg.site] = true
		var del ssa.Instruction
		var kept []string
		rec := gateRecord{site: eg.site, gates: eg.gates, scc: eg.scc}
		var open ssa.Instruction
		for _, g := range eg.gates {
			if d := hasDelete(g); d != nil {
				del = d
			} else if o := gateStaysOpen(g); o != nil {
				open = o
			} else {
				kept = append(kept, setName(g.setKey))
				rec.persistent = append(rec.persistent, g)
			}
		}
		c02GateRecords = append(c02GateRecords, rec)
		site := p.FuncName(eg.site.Parent()) + " at " + p.Pos(eg.site.Pos())
		if len(kept) > 0 {
			r4.OK("recursive call in "+site, "visited set "+strings.Join(dedupe(kept), ", ")+" is never deleted from during the traversal")
		} else if del == nil && open != nil {
			g := eg.gates[0]
			r4.Fail(open.Pos(), p.FuncName(open.Parent()), "the insertion into "+setName(g.setKey)+" stores a computed value", "the membership test that guards this recursion looks at the value stored under the key, and the insertion stores a value computed from the previous entry instead of a constant or its own argument: after the insertion the test can still answer 'not visited', so the same pair is expanded again on every path that reaches it — exponential work or unbounded recursion")
		} else {
			g := eg.gates[0]
			r4.Fail(del.Pos(), p.FuncName(eg.site.Parent()), "delete on the visited set "+setName(g.setKey), "entries are removed from the only visited set that guards this recursion while the traversal is still running (on unwind): the set then records just the current path, so a fragment reachable along many paths is expanded once per path — exponential work for a kilobyte-sized document")
		}
	}
}

// gateStaysOpen: when the membership test of a gate looks at the value stored under the key (not only at presence), the
// insertion must store a constant or a value handed in by the caller unchanged; a value computed from the previous
// entry (old || new) can leave the test answering "not visited" after the insertion. Returns the offending insertion.
func gateStaysOpen(g gate) ssa.Instruction {
	valueUsed := func(lk *ssa.Lookup) bool {
		if !lk.CommaOk {
			return len(*lk.Referrers()) > 0 && isBasicType(lk.Type())
		}
		for _, ref := range *lk.Referrers() {
			if ex, ok := ref.(*ssa.Extract); ok && ex.Index == 0 && len(*ex.Referrers()) > 0 && isBasicType(ex.Type()) {
				return true
			}
		}
		return false
	}
	used := false
	switch t := g.test.(type) {
	case *ssa.Lookup:
		used = valueUsed(t)
	case ssa.CallInstruction:
		if w := t.Common().StaticCallee(); w != nil {
			allInstrs(w, func(in ssa.Instruction) {
				if lk, ok := in.(*ssa.Lookup); ok && valueUsed(lk) {
					used = true
				}
			})
		}
	}
	if !used {
		return nil
	}
	var bad ssa.Instruction
	checkUpdate := func(mu *ssa.MapUpdate) {
		if !isBasicType(mu.Value.Type()) {
			return
		}
		switch v := stripChange(mu.Value).(type) {
		case *ssa.Const, *ssa.Parameter, *ssa.FreeVar:
		case *ssa.UnOp:
			// a parameter of the enclosing function captured by reference: *fv where the captured cell is stored once, from a parameter
			if fv, ok := v.X.(*ssa.FreeVar); ok && v.Op == token.MUL && capturedParameter(fv) {
				return
			}
			bad = mu
		default:
			bad = mu
		}
	}
	switch ins := g.insert.(type) {
	case *ssa.MapUpdate:
		checkUpdate(ins)
	case ssa.CallInstruction:
		var visit func(fn *ssa.Function, depth int)
		visit = func(fn *ssa.Function, depth int) {
			for _, f := range withClosures(fn) {
				allInstrs(f, func(in ssa.Instruction) {
					switch x := in.(type) {
					case *ssa.MapUpdate:
						checkUpdate(x)
					case ssa.CallInstruction:
						if h := x.Common().StaticCallee(); h != nil && depth < 2 && h.Signature.Recv() != nil && fn.Signature.Recv() != nil && types.Identical(h.Signature.Recv().Type(), fn.Signature.Recv().Type()) && len(h.Blocks) <= 6 {
							visit(h, depth+1)
						}
					}
				})
			}
		}
		if w := ins.Common().StaticCallee(); w != nil {
			visit(w, 0)
		}
	}
	return bad
}

// capturedParameter: the free variable is bound, at every closure creation, to a cell that is stored exactly once, with a
// parameter of the enclosing function.
func capturedParameter(fv *ssa.FreeVar) bool {
	fn := fv.Parent()
	par := fn.Parent()
	if par == nil {
		return false
	}
	idx := -1
	for i, f := range fn.FreeVars {
		if f == fv {
			idx = i
		}
	}
	ok, n := true, 0
	allInstrs(par, func(in ssa.Instruction) {
		mc, isMC := in.(*ssa.MakeClosure)
		if !isMC || mc.Fn != ssa.Value(fn) || idx < 0 || idx >= len(mc.Bindings) {
			return
		}
		n++
		a, isA := mc.Bindings[idx].(*ssa.Alloc)
		if !isA {
			ok = false
			return
		}
		st := storesTo(a)
		if len(st) != 1 {
			ok = false
			return
		}
		if _, isP := st[0].(*ssa.Parameter); !isP {
			ok = false
		}
	})
	return ok && n > 0
}

func isBasicType(t types.Type) bool {
	_, ok := t.Underlying().(*types.Basic)
	return ok
}

func setName(k string) string {
	k = strings.TrimPrefix(k, "p:")
	k = strings.TrimPrefix(k, "fv:")
	return k
}

// entryGate: fn starts with `if set[k] { return }; set[k] = true` — or the same through a lookup-only wrapper
// (Has) and an inserting wrapper (Add): the insertion dominates every other call in fn and lies on the absent side.
func entryGate(fn *ssa.Function) (gate, bool) {
	if len(fn.Blocks) == 0 {
		return gate{}, false
	}
	var found gate
	ok := false
	isInsert := func(in ssa.Instruction) (string, bool) {
		switch y := in.(type) {
		case *ssa.MapUpdate:
			return accessPath(y.Map), true
		case ssa.CallInstruction:
			if g := y.Common().StaticCallee(); g != nil && insertWrapper(g) && !lookupOnlyWrapper(g) && len(y.Common().Args) > 0 && g.Signature.Recv() != nil {
				return accessPath(y.Common().Args[0]), true
			}
		}
		return "", false
	}
	allInstrs(fn, func(in ssa.Instruction) {
		if ok {
			return
		}
		setKey, isIns := isInsert(in)
		if !isIns {
			return
		}
		// every call into module functions other than tests/insertions is dominated by this insertion
		all := true
		allInstrs(fn, func(x ssa.Instruction) {
			if x == in {
				return
			}
			if ci, isC := x.(ssa.CallInstruction); isC {
				if _, isB := ci.Common().Value.(*ssa.Builtin); isB {
					return
				}
				g := ci.Common().StaticCallee()
				if g != nil && lookupOnlyWrapper(g) {
					return
				}
				if g != nil && len(g.Blocks) == 0 {
					return
				}
				if !dominatesInstr(in, x) {
					all = false
				}
			}
		})
		if !all {
			return
		}
		for _, cd := range condsAt(in.Block()) {
			var key string
			var test ssa.Instruction
			switch y := cd.V.(type) {
			case *ssa.Lookup:
				key, test = accessPath(y.X), y
			case *ssa.Extract:
				if ll, isL := y.Tuple.(*ssa.Lookup); isL && y.Index == 1 {
					key, test = accessPath(ll.X), ll
				}
			case *ssa.Call:
				if g := y.Call.StaticCallee(); g != nil && lookupOnlyWrapper(g) && len(y.Call.Args) > 0 {
					key, test = accessPath(y.Call.Args[0]), y
				}
			}
			if test == nil || key != setKey {
				continue
			}
			if !cd.True { // absent side
				found = gate{fn, test, setKey, in}
				ok = true
			}
		}
	})
	return found, ok
}
