package main

import (
	"fmt"
	"go/token"
	"sort"
	"strings"

	"golang.org/x/tools/go/ssa"
)

// noProcessState (C07.R9, C10.R6, C11.R4): the library keeps no process-wide mutable state besides the registry of
// validation rules, which is written only by its three registration functions. Outside package initialisers, a
// package-level variable of the module may only be loaded; the loaded value is not written through (map update, store
// through an element or field address, delete), and the variable's address is not handed to a call (sync.Map, sync.Pool,
// a pointer receiver). Anything else makes the result of one call depend on what earlier or concurrent calls did.
var registryWriters = map[string]bool{
	"validator.AddRule":     true,
	"validator.RemoveRule":  true,
	"validator.ReplaceRule": true,
}

func noProcessState(c *Ctx, r *RuleResult, roots []string) {
	p := c.P
	var scope map[*ssa.Function]bool
	if len(roots) > 0 {
		var rf []*ssa.Function
		for _, n := range roots {
			if f := p.Func(n); f != nil {
				rf = append(rf, f)
			}
		}
		if len(rf) == 0 {
			r.AnchorLost("entry points " + strings.Join(roots, ", "))
			return
		}
		scope = map[*ssa.Function]bool{}
		for f := range p.reachableFrom(rf, newEffects(p).dyn) {
			scope[f] = true
		}
	}
	type use struct {
		pos  token.Pos
		fn   string
		what string
	}
	var bad []use
	loads, globals := 0, map[string]bool{}
	writtenThrough := func(v ssa.Value) ssa.Instruction {
		// v is a value loaded from a global: is memory reachable from it written?
		var hit ssa.Instruction
		seen := map[ssa.Value]bool{}
		var walk func(v ssa.Value, d int)
		walk = func(v ssa.Value, d int) {
			if d > 6 || seen[v] || hit != nil || v.Referrers() == nil {
				return
			}
			seen[v] = true
			for _, ref := range *v.Referrers() {
				switch x := ref.(type) {
				case *ssa.MapUpdate:
					if x.Map == v {
						hit = x
					}
				case *ssa.Store:
					if x.Addr == v {
						hit = x
					}
				case *ssa.IndexAddr:
					if x.X == v {
						walk(x, d+1)
					}
				case *ssa.FieldAddr:
					if x.X == v {
						walk(x, d+1)
					}
				case *ssa.Slice:
					walk(x, d+1)
				case *ssa.ChangeType:
					walk(x, d+1)
				case *ssa.Phi:
					walk(x, d+1)
				case *ssa.UnOp:
					// a load of a pointer stored in the structure
					if x.Op == token.MUL && isPointerLike(x.Type()) {
						walk(x, d+1)
					}
				case ssa.CallInstruction:
					if b, ok := x.Common().Value.(*ssa.Builtin); ok && b.Name() == "delete" && len(x.Common().Args) > 0 && x.Common().Args[0] == v {
						hit = x
					}
				}
			}
		}
		walk(v, 0)
		return hit
	}
	for _, fn := range p.Funcs() {
		if !p.inModule(fn) || len(fn.Blocks) == 0 {
			continue
		}
		if scope != nil && !scope[fn] && !scope[rootFunc(fn)] {
			continue
		}
		root := rootFunc(fn)
		if root.Name() == "init" || strings.HasPrefix(root.Name(), "init#") {
			continue
		}
		name := p.FuncName(root)
		allInstrs(fn, func(in ssa.Instruction) {
			for _, op := range in.Operands(nil) {
				g, ok := (*op).(*ssa.Global)
				if !ok || g.Pkg == nil || !strings.HasPrefix(g.Pkg.Pkg.Path(), modPath) {
					continue
				}
				gname := g.Pkg.Pkg.Name() + "." + g.Name()
				globals[gname] = true
				if registryWriters[name] {
					continue
				}
				switch x := in.(type) {
				case *ssa.UnOp:
					if x.Op == token.MUL {
						loads++
						if w := writtenThrough(x); w != nil {
							bad = append(bad, use{w.Pos(), p.FuncName(fn), "write through the value of " + gname})
						}
						continue
					}
				case *ssa.FieldAddr, *ssa.IndexAddr:
					// a field or element of a struct/array global: only loads of it
					okUse := true
					for _, ref := range *in.(ssa.Value).Referrers() {
						if u, isU := ref.(*ssa.UnOp); !isU || u.Op != token.MUL {
							okUse = false
						}
					}
					if okUse {
						loads++
						continue
					}
				}
				what := "store to " + gname
				if ci, isCall := in.(ssa.CallInstruction); isCall {
					what = "address of " + gname + " passed to " + calleeName(ci)
				} else if _, isStore := in.(*ssa.Store); !isStore {
					what = fmt.Sprintf("address of %s used by %T", gname, in)
				}
				bad = append(bad, use{in.Pos(), p.FuncName(fn), what})
			}
		})
	}
	sort.Slice(bad, func(i, j int) bool { return bad[i].fn+bad[i].what < bad[j].fn+bad[j].what })
	for _, b := range bad {
		r.Fail(b.pos, b.fn, b.what, "a package-level variable is written (or handed out by address) outside package initialisation: the library then has state that outlives a call, so what a load, a validation or a coercion returns can depend on earlier or concurrent calls in the same process (a cached document later mutated by a merge, a pooled buffer still referenced by a returned error)")
	}
	if len(globals) == 0 {
		r.AnchorLost("package-level variables of the module used outside initialisers")
		return
	}
	if len(bad) == 0 {
		var gs []string
		for g := range globals {
			gs = append(gs, g)
		}
		sort.Strings(gs)
		r.OK(fmt.Sprintf("%d loads of package-level variables outside initialisers (%s)", loads, strings.Join(gs, ", ")), "none is stored to, written through or passed by address; the rule registry is written by AddRule/RemoveRule/ReplaceRule only")
	}
}
