package main

import (
	"fmt"
	"go/constant"
	"go/token"
	"go/types"
	"strings"

	"golang.org/x/tools/go/ssa"
)

func init() {
	register("C10", "Determinism: (R1) order taint — every range over a Go map reachable from Validate/LoadSchema has a body limited to order-insensitive effects, and a slice built in map order is sorted by a total order before any other use; (R2) no other nondeterministic source (goroutines, select, channels, time, rand, environment, %p, pointer-to-integer conversions, reflect map iteration) is reachable; (R3) re-validation: the walker writes only the annotation fields and never reads an annotation from a node it reached by a lookup instead of by descent; (R4) validation does not modify the schema or package-level state (C11.R1/R2 over the validation scope), so a later validation sees what the first saw. With the standard library and levenshtein assumed deterministic this is close to the whole property. (R6) no process-wide state besides the rule registry. (R7) FragmentDefinition.Definition is read only by observers of the fragment event.", runC10)
}

func validationScope(p *Program, e *effects) map[*ssa.Function]bool {
	var roots []*ssa.Function
	for _, n := range []string{"validator.Validate", "validator.Walk", "validator.LoadSchema", "validator.ValidateSchemaDocument", "gqlparser.LoadQuery", "gqlparser.LoadSchema", "gqlparser.MustLoadSchema", "gqlparser.MustLoadQuery"} {
		if f := p.Func(n); f != nil {
			roots = append(roots, f)
		}
	}
	for _, fn := range p.FuncsIn("validator/rules") {
		if fn.Parent() == nil && (fn.Name() == "init" || strings.HasPrefix(fn.Name(), "init#")) {
			continue
		}
		roots = append(roots, fn)
	}
	scope := p.reachableFrom(roots, e.dyn)
	for fn := range scope {
		if !p.inModule(fn) || (fn.Parent() == nil && (fn.Name() == "init" || strings.HasPrefix(fn.Name(), "init#"))) {
			delete(scope, fn)
		}
	}
	return scope
}

func loopBlocks(header *ssa.BasicBlock) map[*ssa.BasicBlock]bool {
	// natural loop of header: blocks that can reach header without leaving header's dominance region
	loop := map[*ssa.BasicBlock]bool{header: true}
	var work []*ssa.BasicBlock
	for _, p := range header.Preds {
		if header.Dominates(p) {
			work = append(work, p)
		}
	}
	for len(work) > 0 {
		b := work[len(work)-1]
		work = work[:len(work)-1]
		if loop[b] {
			continue
		}
		loop[b] = true
		work = append(work, b.Preds...)
	}
	return loop
}

var pureExternal = map[string]bool{}

func isPureExternalName(name string) bool {
	for _, pre := range []string{"strings.", "strconv.", "unicode.", "unicode/utf8.", "math.", "fmt.Sprintf", "fmt.Sprint", "fmt.Errorf", "errors.", "github.com/agnivade/levenshtein.", "(*strings.Builder).", "(*bytes.Buffer).Len", "(*bytes.Buffer).String", "builtin.len", "builtin.cap", "builtin.append", "builtin.min", "builtin.max", "sort.SearchStrings", "slices.Contains", "slices.Index"} {
		if strings.HasPrefix(name, pre) {
			return true
		}
	}
	return false
}

// purity of in-module functions: no writes through parameters/free variables/globals, no dynamic or impure calls
func (e *effects) pureFuncs() map[*ssa.Function]bool {
	pure := map[*ssa.Function]bool{}
	for _, f := range e.funcs {
		pure[f] = true
	}
	for changed := true; changed; {
		changed = false
		for _, f := range e.funcs {
			if !pure[f] {
				continue
			}
			s := e.sums[f]
			bad := len(s.globals) > 0
			for range s.params {
				bad = true
			}
			allInstrs(f, func(in ssa.Instruction) {
				switch x := in.(type) {
				case *ssa.Go, *ssa.Send, *ssa.Select, *ssa.Panic:
					bad = true
				case ssa.CallInstruction:
					if _, isB := x.Common().Value.(*ssa.Builtin); isB {
						return
					}
					cal := x.Common().StaticCallee()
					if cal == nil {
						bad = true
						return
					}
					if e.p.inModule(cal) {
						if !pure[cal] {
							bad = true
						}
						return
					}
					if !isPureExternalName(calleeName(x)) {
						bad = true
					}
				}
			})
			if bad {
				pure[f] = false
				changed = true
			}
		}
	}
	return pure
}

func totalSorter(name string) bool {
	switch name {
	case "sort.Strings", "sort.Ints", "sort.Float64s", "slices.Sort":
		return true
	}
	return false
}

func runC10(c *Ctx) {
	p := c.P
	e := newEffects(p)
	scope := validationScope(p, e)
	pure := e.pureFuncs()
	c.Extra["functions_in_scope"] = len(scope)

	r1 := c.Rule("R1", "map iteration order never reaches an error message, location list or returned slice: loop bodies are order-insensitive and slices built in map order are totally sorted first", 3)
	for fn := range scope {
		allInstrs(fn, func(in ssa.Instruction) {
			rg, ok := in.(*ssa.Range)
			if !ok {
				return
			}
			if _, isMap := rg.X.Type().Underlying().(*types.Map); !isMap {
				return
			}
			c10MapRange(c, r1, fn, rg, pure)
		})
	}

	r2 := c.Rule("R2", "no other nondeterministic source is reachable from validation or schema loading", 100)
	for fn := range scope {
		bad := false
		allInstrs(fn, func(in ssa.Instruction) {
			fail := func(what, msg string) {
				bad = true
				r2.Fail(in.Pos(), p.FuncName(fn), what, msg)
			}
			switch x := in.(type) {
			case *ssa.Go:
				fail("go statement", "a goroutine is started during validation: completion order is scheduler-dependent")
			case *ssa.Select:
				fail("select", "select chooses among ready channels pseudo-randomly")
			case *ssa.Send:
				fail("channel send", "channel communication during validation")
			case *ssa.UnOp:
				if x.Op == token.ARROW {
					fail("channel receive", "channel communication during validation")
				}
			case *ssa.Convert:
				if b, ok := x.Type().Underlying().(*types.Basic); ok && (b.Kind() == types.Uintptr || b.Kind() == types.UnsafePointer) {
					fail("pointer conversion", "a pointer is converted to an integer/unsafe.Pointer: addresses differ between runs")
				}
			case ssa.CallInstruction:
				name := calleeName(x)
				for _, pre := range []string{"time.", "math/rand.", "math/rand/v2.", "crypto/rand.", "os.Getenv", "os.Environ", "os.Getpid", "os.Hostname", "runtime.", "(reflect.Value).MapKeys", "(reflect.Value).MapRange", "(*reflect.MapIter)", "maps.Keys", "maps.Values", "(*sync.Map).Range", "unique."} {
					if strings.HasPrefix(name, pre) {
						fail("call "+name, "call of "+name+": its result differs between runs or is in unspecified order")
					}
				}
				if strings.HasPrefix(name, "fmt.") || strings.Contains(name, "gqlerror.") || strings.Contains(name, "validator.Message") {
					for _, a := range x.Common().Args {
						if cst, ok := a.(*ssa.Const); ok && cst.Value != nil && cst.Value.Kind() == constant.String && strings.Contains(constant.StringVal(cst.Value), "%p") {
							fail("format %p", "a pointer is formatted with %p")
						}
					}
				}
			}
		})
		if !bad {
			r2.OK(p.FuncName(fn), "no nondeterministic source")
		}
	}

	r3 := c.Rule("R3", "re-validation: the walker never reads an annotation field from a node it reached by a lookup rather than by descent from the node it is visiting", 5)
	written := walkerWrittenFields(p)
	c.Extra["walker_written_fields"] = keysOf(written)
	for _, fn := range p.FuncsIn("validator") {
		root := rootFunc(fn)
		recv := root.Signature.Recv()
		if recv == nil || !typeIs(recv.Type(), "/validator", "Walker") {
			continue
		}
		allInstrs(fn, func(in ssa.Instruction) {
			ld, ok := in.(*ssa.UnOp)
			if !ok || ld.Op != token.MUL {
				return
			}
			fa, ok := ld.X.(*ssa.FieldAddr)
			if !ok {
				return
			}
			st, name, base, _ := fieldOf(fa)
			key := stName(st) + "." + name
			if !written[key] || key == "Walker.CurrentOperation" || key == "Walker.validatedFragmentSpreads" {
				return
			}
			viaLookup := ""
			for _, ch := range chase(base) {
				switch r := ch.root.(type) {
				case *ssa.Call:
					if f := r.Common().StaticCallee(); f != nil && f.Name() == "ForName" {
						viaLookup = p.FuncName(f)
					}
				}
				if ch.throughMap {
					viaLookup = "a map lookup"
				}
			}
			if viaLookup != "" {
				r3.Fail(ld.Pos(), p.FuncName(fn), "read "+key+" via lookup", fmt.Sprintf("the walker reads annotation %s of a node obtained through %s: on a fresh parse it is still unset, on an already validated tree it is set, so the second validation of the same document takes a different path", key, viaLookup))
			} else {
				r3.OK(p.FuncName(fn)+" reads "+key, "node reached by descent")
			}
		})
	}

	r4 := c.Rule("R4", "validation leaves the schema and package-level state unchanged (a later validation sees the same schema)", 50)
	finds, _ := e.schemaWrites(scopeMinusLoader(p, scope))
	for _, f := range finds {
		r4.Fail(f.pos, p.FuncName(f.fn), f.construct, f.msg)
	}
	for fn := range scopeMinusLoader(p, scope) {
		g := false
		for _, w := range directWrites(fn) {
			for _, ch := range chase(w.target) {
				if gl, ok := ch.root.(*ssa.Global); ok {
					g = true
					r4.Fail(w.in.Pos(), p.FuncName(fn), "global "+gl.Name(), "validation writes package-level variable "+gl.Name())
				}
			}
		}
		if !g {
			r4.OK(p.FuncName(fn), "no schema or global write")
		}
	}
	// ---- R5 rules and the value helpers they call leave the document as they found it
	r5 := c.Rule("R5", "validation does not rearrange or rewrite the document beyond the walker's annotations", 40)
	docScope := map[*ssa.Function]bool{}
	var droots []*ssa.Function
	for _, fn := range p.FuncsIn("validator/rules") {
		if fn.Parent() == nil && (fn.Name() == "init" || strings.HasPrefix(fn.Name(), "init#")) {
			continue
		}
		droots = append(droots, fn)
	}
	for fn := range p.reachableFrom(droots, e.dyn) {
		pk := p.PkgOf(fn)
		if pk == nil || !p.inModule(fn) {
			continue
		}
		// the walker's own annotation writes (validator/walk.go) are the sanctioned ones; rules reach the walker only
		// through the observer registration
		if strings.HasSuffix(pk.PkgPath, "/validator/rules") || strings.HasSuffix(pk.PkgPath, "/ast") {
			docScope[fn] = true
		}
	}
	treeWrites(c, e, docScope, r5, "validation code")

	r7 := c.Rule("R7", "a link written when fragment definitions are walked is read only by observers of that event", 1)
	c10FragmentLinkReaders(c, r7)

	r6 := c.Rule("R6", "no process-wide state: package-level variables are only read after init (rule registry excepted)", 1)
	noProcessState(c, r6, []string{"validator.Validate", "validator.ValidateWithRules", "gqlparser.LoadQuery", "gqlparser.LoadQueryWithRules", "parser.ParseQuery", "parser.ParseQueryWithTokenLimit"})

	c.Assume("library calls (fmt, strings, sort, strconv, agnivade/levenshtein) are deterministic functions of their arguments; sort.Slice on an input in deterministic order yields a deterministic order")
}

func keysOf(m map[string]bool) []string {
	var out []string
	for k := range m {
		out = append(out, k)
	}
	sortStrings(out)
	return out
}

func scopeMinusLoader(p *Program, scope map[*ssa.Function]bool) map[*ssa.Function]bool {
	out := map[*ssa.Function]bool{}
	// the loader builds the schema: exclude what is only reachable from it
	var lroots []*ssa.Function
	for _, n := range []string{"validator.LoadSchema", "validator.ValidateSchemaDocument"} {
		if f := p.Func(n); f != nil {
			lroots = append(lroots, f)
		}
	}
	loader := p.reachableFrom(lroots, nil)
	var vroots []*ssa.Function
	for fn := range scope {
		r := rootFunc(fn)
		if strings.HasSuffix(r.Pkg.Pkg.Path(), "/validator/rules") || p.FuncName(r) == "validator.Validate" || p.FuncName(r) == "validator.Walk" {
			vroots = append(vroots, fn)
		}
	}
	e := p.reachableFrom(vroots, p.vtaCallees())
	for fn := range e {
		if p.inModule(fn) && !(fn.Parent() == nil && (fn.Name() == "init" || strings.HasPrefix(fn.Name(), "init#"))) {
			out[fn] = true
		}
	}
	_ = loader
	return out
}

// walkerWrittenFields computes the (struct.field) pairs stored by Walker methods.
func walkerWrittenFields(p *Program) map[string]bool {
	out := map[string]bool{}
	for _, fn := range p.FuncsIn("validator") {
		root := rootFunc(fn)
		recv := root.Signature.Recv()
		if recv == nil || !typeIs(recv.Type(), "/validator", "Walker") {
			continue
		}
		allInstrs(fn, func(in ssa.Instruction) {
			st, ok := in.(*ssa.Store)
			if !ok {
				return
			}
			if fa, ok := st.Addr.(*ssa.FieldAddr); ok {
				n, name, _, _ := fieldOf(fa)
				if n != nil {
					if _, isLocal := fa.X.(*ssa.Alloc); isLocal {
						return
					}
					out[stName(n)+"."+name] = true
				}
			}
		})
	}
	return out
}

func c10MapRange(c *Ctx, r *RuleResult, fn *ssa.Function, rg *ssa.Range, pure map[*ssa.Function]bool) {
	p := c.P
	fname := p.FuncName(fn)
	// the Next instruction and its loop
	var next *ssa.Next
	for _, ref := range *rg.Referrers() {
		if n, ok := ref.(*ssa.Next); ok {
			next = n
		}
	}
	if next == nil {
		r.Undecided(rg.Pos(), fname, "range without next", "map range without iteration")
		return
	}
	loop := loopBlocks(next.Block())
	inst := fname + " range over " + describeTarget(rg.X)
	ok := true
	fail := func(pos token.Pos, what, msg string) {
		ok = false
		r.Fail(pos, fname, "map range "+describeTarget(rg.X)+": "+what, msg)
	}
	var tainted []*ssa.Phi
	taintedVars := map[*ssa.Alloc]bool{}
	for b := range loop {
		for _, in := range b.Instrs {
			switch x := in.(type) {
			case *ssa.Store:
				if _, isConst := x.Val.(*ssa.Const); isConst {
					continue // flag := true
				}
				if a, isAlloc := x.Addr.(*ssa.Alloc); isAlloc && isLocalSpill(a) && isAppendCall(x.Val) {
					taintedVars[a] = true // results = append(results, k) on a variable captured elsewhere
					continue
				}
				if a, isAlloc := x.Addr.(*ssa.Alloc); isAlloc && loop[a.Block()] && a != nil {
					continue // variable local to the iteration
				}
				if fa, isFA := x.Addr.(*ssa.FieldAddr); isFA {
					if a, isAlloc := fa.X.(*ssa.Alloc); isAlloc && loop[a.Block()] {
						continue
					}
				}
				if ia, isIA := x.Addr.(*ssa.IndexAddr); isIA {
					if a, isAlloc := ia.X.(*ssa.Alloc); isAlloc && loop[a.Block()] {
						continue // variadic argument array / per-iteration array
					}
				}
				fail(x.Pos(), "store "+describeTarget(x.Addr), "a value that depends on the iteration is stored outside the loop: the last writer depends on map order")
			case *ssa.MapUpdate:
				// m2[k] = v is order-insensitive when the key is the range key or derived from the element
			case *ssa.Return:
				for _, res := range x.Results {
					if _, isConst := res.(*ssa.Const); !isConst {
						fail(x.Pos(), "return", "the function returns a value chosen by map iteration order")
					}
				}
			case *ssa.Panic, *ssa.Go, *ssa.Send, *ssa.Defer:
				fail(in.Pos(), fmt.Sprintf("%T", in), "effect inside a map iteration")
			case ssa.CallInstruction:
				cc := x.Common()
				if b, isB := cc.Value.(*ssa.Builtin); isB {
					switch b.Name() {
					case "append":
						// the accumulated slice: header phi fed by this append
						v := in.(ssa.Value)
						found := false
						for _, ref := range *v.Referrers() {
							if ph, ok := ref.(*ssa.Phi); ok && loop[ph.Block()] {
								tainted = append(tainted, ph)
								found = true
							}
							if st, ok := ref.(*ssa.Store); ok {
								_ = st
							}
						}
						for _, ref := range *v.Referrers() {
							if st, ok := ref.(*ssa.Store); ok {
								if a, isAlloc := st.Addr.(*ssa.Alloc); isAlloc && isLocalSpill(a) {
									found = true
								}
							}
						}
						if !found {
							// appended into something else (a field, a global): order escapes
							if _, isPhi := cc.Args[0].(*ssa.Phi); !isPhi {
								fail(in.Pos(), "append to "+describeTarget(cc.Args[0]), "elements are appended in map order to a slice that outlives the loop through memory; its order is not tracked")
							}
						}
					case "delete", "len", "cap", "copy", "print", "println", "min", "max":
					}
					continue
				}
				cal := cc.StaticCallee()
				name := calleeName(x)
				if cal == nil {
					fail(in.Pos(), "dynamic call", "a function value or interface method is called once per map entry, in map order")
					continue
				}
				if p.inModule(cal) {
					if !pure[cal] {
						fail(in.Pos(), "call "+p.FuncName(cal), p.FuncName(cal)+" has side effects and is called once per map entry, in map order")
					}
					continue
				}
				if !isPureExternalName(name) && !totalSorter(name) {
					fail(in.Pos(), "call "+name, name+" is called once per map entry, in map order, and is not known to be free of effects")
				}
			}
		}
	}
	// tainted slices: every use outside the loop must come after a total sort of that slice
	for _, ph := range tainted {
		var sorter ssa.Instruction
		var uses []ssa.Instruction
		for _, ref := range *ph.Referrers() {
			if loop[ref.Block()] {
				continue
			}
			if _, isDbg := ref.(*ssa.DebugRef); isDbg {
				continue
			}
			if ci, ok := ref.(ssa.CallInstruction); ok && totalSorter(calleeName(ci)) && ci.Common().Args[0] == ssa.Value(ph) {
				if sorter == nil {
					sorter = ref
				}
				continue
			}
			uses = append(uses, ref)
		}
		for _, u := range uses {
			if sorter != nil && instrDominates(sorter, u) {
				continue
			}
			what := fmt.Sprintf("%T", u)
			if ci, ok := u.(ssa.CallInstruction); ok {
				what = "passed to " + calleeName(ci)
				if cal := ci.Common().StaticCallee(); cal != nil && p.inModule(cal) {
					what = "passed to " + p.FuncName(cal)
				}
				if b, isB := ci.Common().Value.(*ssa.Builtin); isB && (b.Name() == "len" || b.Name() == "cap") {
					continue
				}
			}
			if _, isRet := u.(*ssa.Return); isRet {
				what = "returned"
			}
			fail(u.Pos(), "unsorted slice "+what, "a slice filled in map iteration order is "+what+" without first being sorted by a total order (sort.Strings and the like): ties or positions then differ from run to run")
		}
	}
	for a := range taintedVars {
		// uses of the variable outside the loop: loads, and closures capturing it
		var sorter ssa.Instruction
		type use struct {
			in   ssa.Instruction
			what string
		}
		var uses []use
		for _, ref := range *a.Referrers() {
			if loop[ref.Block()] {
				continue
			}
			switch x := ref.(type) {
			case *ssa.UnOp:
				for _, u := range *x.Referrers() {
					if ci, ok := u.(ssa.CallInstruction); ok && totalSorter(calleeName(ci)) && ci.Common().Args[0] == ssa.Value(x) {
						if sorter == nil || instrDominates(u, sorter) {
							sorter = u
						}
						continue
					}
					if ci, ok := u.(ssa.CallInstruction); ok {
						if b, isB := ci.Common().Value.(*ssa.Builtin); isB && (b.Name() == "len" || b.Name() == "cap") {
							continue
						}
					}
					uses = append(uses, use{u, fmt.Sprintf("used by %T", u)})
				}
			case *ssa.MakeClosure:
				uses = append(uses, use{x, "captured by a closure"})
			case *ssa.Store, *ssa.DebugRef:
			default:
				uses = append(uses, use{ref, fmt.Sprintf("used by %T", ref)})
			}
		}
		for _, u := range uses {
			if sorter != nil && instrDominates(sorter, u.in) {
				continue
			}
			fail(u.in.Pos(), "unsorted variable "+u.what, "a slice variable filled in map iteration order is "+u.what+" without first being sorted by a total order: ties or positions then differ from run to run")
		}
	}
	if ok {
		why := "order-insensitive body"
		if len(tainted) > 0 {
			why = "keys collected, totally sorted before use"
		}
		r.OK(inst, why)
	}
}

// instrDominates: a executes before b on every path.
func instrDominates(a, b ssa.Instruction) bool {
	if a.Block() == b.Block() {
		for _, in := range a.Block().Instrs {
			if in == a {
				return true
			}
			if in == b {
				return false
			}
		}
	}
	return a.Block().Dominates(b.Block())
}

func isAppendCall(v ssa.Value) bool {
	c, ok := v.(*ssa.Call)
	if !ok {
		return false
	}
	b, ok := c.Common().Value.(*ssa.Builtin)
	return ok && b.Name() == "append"
}

// c10FragmentLinkReaders (C10.R7): FragmentDefinition.Definition is written when the fragment definition itself is
// walked — after every operation. An observer of any other event that reads it (through spread.Definition.Definition)
// sees nil on the first validation of a document and the value left over from that run on the second: the same
// document object validated again gives a different answer. Only observers of the fragment event, which run right after
// the store, may read it.
func c10FragmentLinkReaders(c *Ctx, r *RuleResult) {
	p := c.P
	n := 0
	for _, rel := range []string{"validator/rules", "validator"} {
		for _, fn := range p.FuncsIn(rel) {
			allInstrs(fn, func(in ssa.Instruction) {
				u, ok := in.(*ssa.UnOp)
				if !ok || u.Op != token.MUL {
					return
				}
				fa, ok := u.X.(*ssa.FieldAddr)
				if !ok {
					return
				}
				nn, f, _, _ := fieldOf(fa)
				if nn == nil || nn.Obj().Name() != "FragmentDefinition" || f != "Definition" {
					return
				}
				// the observer this code belongs to
				var obs *ssa.Function
				for g := fn; g != nil; g = g.Parent() {
					sig := g.Signature
					if sig.Recv() == nil && sig.Params().Len() == 2 && typeIs(sig.Params().At(0).Type(), "/validator", "Walker") {
						obs = g
						break
					}
				}
				root := rootFunc(fn)
				if root.Signature.Recv() != nil && typeIs(root.Signature.Recv().Type(), "/validator", "Walker") {
					return // the walker itself
				}
				n++
				site := fmt.Sprintf("read of FragmentDefinition.Definition in %s at %s", p.FuncName(fn), p.Pos(u.Pos()))
				if obs == nil {
					r.Undecided(u.Pos(), p.FuncName(fn), "read of FragmentDefinition.Definition outside an observer", "the event during which this code runs is not known; whether the link has been written yet is not decided")
					return
				}
				if typeIs(obs.Signature.Params().At(1).Type(), "/ast", "FragmentDefinition") {
					r.OK(site, "in an observer of the fragment event, which runs after the walker stored the link")
				} else {
					r.Fail(u.Pos(), p.FuncName(fn), "FragmentDefinition.Definition read by an observer of another event", "this observer runs while operations are walked, before the walker links fragment definitions to their type: on a fresh document the field is nil, on a document validated before it holds the earlier result — the same document validated again gives a different answer")
				}
			})
		}
	}
	if n == 0 {
		r.OK("no rule reads FragmentDefinition.Definition", "")
	}
}
